(* C04 — Indexed region queries return exactly what a linear scan would.
   Model: NV.Index.Indexer (Indexer::add_record / ReferenceSequence::update / LinearIndex and
   BinnedIndex update + min_offset / Index::query / csi::io::Query chunk reading / the readers'
   `intersects` filter).  Theorems only; proofs are in NV.Index.QueryProofs. *)
From Coq Require Import List NArith Bool.
From NV Require Import Index.Bins Index.Chunks Index.Indexer Index.QueryProofs Index.QueryFast Index.BinnedProofs.
Import ListNotations.
Open Scope N_scope.

(* Linear-offset indexes (BAI, tabix), for EVERY geometry, file and region: the records obtained by
   reading the chunks the index query returns and applying the readers' filter are exactly the
   records a full scan keeps -- same records, same order, no omission, duplicate or extra.
   Only monotone file offsets are needed, not even coordinate order. *)
Theorem c04_query_equals_scan_linear :
  forall ms d k file qs qe,
    offsets_ordered 0 file -> spans_ok ms d file ->
    1 <= qs -> qs <= qe -> qe <= max_position ms d ->
    query_records Linear ms d file k qs qe = Some (scan_records file k qs qe).
Proof. exact query_equals_scan_linear. Qed.
Print Assumptions c04_query_equals_scan_linear.

(* Any index kind: the same conclusion whenever the pruning offset does not exceed the start
   offset of any record that intersects the region (this is the obligation the binned/CSI
   min_offset fails, see c04_binned_refuted). *)
Theorem c04_query_equals_scan_generic :
  forall ms d kd k file qs qe,
    offsets_ordered 0 file -> spans_ok ms d file ->
    1 <= qs -> qs <= qe -> qe <= max_position ms d ->
    (forall r, In r file -> intersects k qs qe r = true ->
               min_offset kd ms d (build_ref ms d k file) qs <= r_a r) ->
    query_records kd ms d file k qs qe = Some (scan_records file k qs qe).
Proof. exact query_equals_scan_generic. Qed.
Print Assumptions c04_query_equals_scan_generic.

(* every intersecting record's start offset is covered by the returned chunks *)
Theorem c04_index_complete :
  forall ms d k file qs qe r moff,
    offsets_ordered 0 file -> spans_ok ms d file -> 1 <= qs -> qs <= qe ->
    In r file -> intersects k qs qe r = true -> moff <= r_a r ->
    covered (optimize_chunks (query_chunks ms d (build_ref ms d k file) qs qe) moff) (r_a r).
Proof. exact query_complete_generic. Qed.
Print Assumptions c04_index_complete.

Theorem c04_linear_min_offset_sound :
  forall ms d k file qs qe r,
    offsets_ordered 0 file -> In r file -> intersects k qs qe r = true ->
    lin_min_offset (lin (build_ref ms d k file)) qs <= r_a r.
Proof. exact linear_min_offset_sound. Qed.
Print Assumptions c04_linear_min_offset_sound.

(* the chunks handed to the reader are pairwise separated, so no record is read twice *)
Theorem c04_chunks_pairwise_separated : forall cs m, Sorted.StronglySorted before (optimize_chunks cs m).
Proof. exact optimize_chunks_pairwise. Qed.
Print Assumptions c04_chunks_pairwise_separated.

Theorem c04_query_rejects_out_of_range :
  forall ms d kd ix qs qe,
    max_position ms d < qs \/ max_position ms d < qe -> query kd ms d ix qs qe = None.
Proof. exact query_rejects_out_of_range. Qed.
Print Assumptions c04_query_rejects_out_of_range.

(* the form of the query that the correspondence check executes is equal to the modelled one *)
Theorem c04_query_fast_eq : forall k ms d ix qs qe, query_fast k ms d ix qs qe = query k ms d ix qs qe.
Proof. exact query_fast_eq. Qed.
Print Assumptions c04_query_fast_eq.

(* Binned-offset indexes (CSI), for EVERY geometry, file and region: same statement.  This holds
   of the model of BinnedIndex::min_offset *after* the `fix:` commit in /repo (minimum loffset over
   all bins that do not end before the query start). *)
Theorem c04_query_equals_scan_binned :
  forall ms d k file qs qe,
    offsets_ordered 0 file -> spans_ok ms d file ->
    1 <= qs -> qs <= qe -> qe <= max_position ms d ->
    query_records Binned ms d file k qs qe = Some (scan_records file k qs qe).
Proof. exact query_equals_scan_binned. Qed.
Print Assumptions c04_query_equals_scan_binned.

Theorem c04_binned_min_offset_sound :
  forall ms d k file qs qe r,
    spans_ok ms d file -> 1 <= qs -> In r file -> intersects k qs qe r = true ->
    binned_min_offset ms d (loffs (build_ref ms d k file)) qs <= r_a r.
Proof. exact binned_min_offset_sound. Qed.
Print Assumptions c04_binned_min_offset_sound.

(* The pre-fix min_offset (nearest present ancestor-or-self of the query start's leaf bin) was
   unsound for indexes noodles itself builds: on this coordinate-sorted two-record file the
   pruning offset for region 100-20060 exceeds the start offset of the first record, which
   intersects the region, so its chunk was dropped.  (known_findings.json: fixed.) *)
Definition c04_witness_file : list rec :=
  [ mkrec 0 20000 20100 10 20 ; mkrec 0 20050 300000000 20 30 ].

Theorem c04_binned_old_refuted :
  offsets_ordered 0 c04_witness_file /\
  intersects 0 100 20060 (mkrec 0 20000 20100 10 20) = true /\
  r_a (mkrec 0 20000 20100 10 20) < binned_min_offset_old 14 5 (loffs (build_ref 14 5 0 c04_witness_file)) 100.
Proof.
  split; [cbn; repeat split; try discriminate; try (intro; discriminate)|].
  split; vm_compute; reflexivity.
Qed.
Print Assumptions c04_binned_old_refuted.

(* non-vacuity: a linear-index instance with a long record before a short one *)
Example c04_example :
  query_records Linear 14 5 c04_witness_file 0 100 20060 = Some c04_witness_file /\
  query_records Binned 14 5 c04_witness_file 0 100 20060 = Some c04_witness_file.
Proof. vm_compute. split; reflexivity. Qed.

(* ---- "used in memory or after being written to and read from an index file": the same
   query = scan statement for the index that is read back from the bytes of the index file
   (writer and reader models of NV.Index.Layout / NV.Index.CsiLayout, see C17).  BAI reads back
   equal; a CSI index reads back with different per-bin loffsets but the same query answers. ---- *)
From NV Require Import Index.Layout Index.LayoutProofs Index.CsiLayout Index.CsiLayoutProofs Index.ViaFileProofs.

Theorem c04_via_file_bai :
  forall ms d file meta nref unplaced k qs qe,
    let i := built_bai ms d file meta nref unplaced in
    bai_ok i -> offsets_ordered 0 file -> spans_ok ms d file ->
    1 <= qs -> qs <= qe -> qe <= max_position ms d -> (k < nref)%nat ->
    exists i', read_bai (w_bai i) = Some i' /\
      query_records_ix Linear ms d (bref_refidx (nth k (bi_refs i') empty_bref)) file (N.of_nat k) qs qe
      = Some (scan_records file (N.of_nat k) qs qe).
Proof. exact via_file_bai. Qed.
Print Assumptions c04_via_file_bai.

Theorem c04_via_file_csi :
  forall ms d file hdr meta nref unplaced k qs qe,
    let i := built_csi ms d file hdr meta nref unplaced in
    csi_ok i -> offsets_ordered 0 file -> spans_ok ms d file ->
    1 <= qs -> qs <= qe -> qe <= max_position ms d -> (k < nref)%nat ->
    exists i', w_csi i = WOk (w_csi_bytes i) /\ read_csi (w_csi_bytes i) = Some i' /\
      query_records_ix Binned ms d (cref_refidx (nth k (ci_refs i') empty_cref)) file (N.of_nat k) qs qe
      = Some (scan_records file (N.of_nat k) qs qe).
Proof. exact via_file_csi. Qed.
Print Assumptions c04_via_file_csi.

(* ---- the reference span "computed per the specs from POS and CIGAR": the model of
   sam::alignment::Record::alignment_end returns POS + (sum of the M D N = X lengths) - 1, POS
   when that sum is 0, and an error exactly when that does not fit a usize ---- *)
From NV Require Import Index.AlignEnd Index.AlignEndProofs.

Theorem c04_alignment_end_spec :
  forall s c, 1 <= s -> s < usize_lim ->
    alignment_end (Some s) c = if spec_end s c <? usize_lim then EPos (spec_end s c) else EErr.
Proof. exact alignment_end_spec. Qed.
Print Assumptions c04_alignment_end_spec.

Example c04_alignment_end_example :
  alignment_end (Some 100) [(4, 5); (0, 10); (1, 3); (2, 2); (3, 100); (7, 4); (8, 1); (5, 9)] = EPos 216 /\
  alignment_end (Some 100) [(4, 5); (1, 3)] = EPos 100 /\
  alignment_end (Some 2) [(0, 18446744073709551615)] = EErr.
Proof. vm_compute. repeat split; reflexivity. Qed.

(* ==== format level (second deepening): the theorems above speak of abstract spans; these speak
   of the records the real readers see.  Models: NV.Index.Formats (generic indexing loop, region
   query, unmapped query; BAM instance with the span computed by alignment_end from POS and
   CIGAR) and NV.Index.FormatsVcf (VCF/BCF instance with variant_end of NV.Vcf.Span). ==== *)
From NV Require Import Text.TextBase Vcf.Values Vcf.Span.
From NV Require Import Index.Formats Index.FormatsFast Index.FormatsProofs Index.FormatsVcf Index.FormatsVcfProofs.

(* BAM, BAI or CSI: for the index bam::fs::index builds from the file (every geometry), every
   region with either bound missing or present and in range: Reader::query yields exactly the
   records on the named reference whose span POS .. POS + (sum of M D N = X lengths) - 1 meets
   the region, in file order, nothing twice. *)
Theorem c04_bam_query_equals_scan :
  forall kd ms d nref l ixs k iv,
    ordered_f bam_rec b_a b_b 0 l -> Forall bam_pos_ok l ->
    spans_ok ms d (placed bam_rec bam_ctx b_a b_b l) ->
    bam_index ms d nref l = Some ixs -> (N.to_nat k < length ixs)%nat ->
    region_ok ms d iv ->
    bam_query kd ms d ixs l k iv = QOk (bam_scan l k iv).
Proof. exact bam_query_equals_scan. Qed.
Print Assumptions c04_bam_query_equals_scan.

(* the unmapped query: nothing that is not flagged unmapped; a sub-list of the file (file order,
   nothing twice); and of the unplaced records exactly those flagged unmapped -- for files whose
   unplaced records come last (coordinate-sorted) *)
Theorem c04_unmapped :
  forall kd ms d nref l ixs h0,
    ordered_f bam_rec b_a b_b h0 l -> bam_index ms d nref l = Some ixs ->
    unplaced_last bam_rec bam_ctx b_a b_b l ->
    let res := bam_query_unmapped kd ixs h0 l in
    Forall (fun x => b_unm x = true) res /\
    (exists pos, res = filter (fun x => (pos <=? b_a x) && b_unm x) l) /\
    filter bam_unplaced res = filter (fun x => b_unm x && bam_unplaced x) l.
Proof. exact bam_query_unmapped_spec. Qed.
Print Assumptions c04_unmapped.

(* a file without placed records: the answer is the plain scan filter *)
Theorem c04_unmapped_no_placed :
  forall kd ixs h0 l,
    ordered_f bam_rec b_a b_b h0 l -> unmapped_start kd ixs = None ->
    bam_query_unmapped kd ixs h0 l = filter b_unm l.
Proof. exact (fmt_query_unmapped_all bam_rec bam_ctx b_a b_b b_unm). Qed.
Print Assumptions c04_unmapped_no_placed.

(* the executed form is the modelled one *)
Theorem c04_fmt_query_fast_eq : forall A oa hit kd ms d ixs l k iv,
  fmt_query_fast A oa hit kd ms d ixs l k iv = fmt_query A oa hit kd ms d ixs l k iv.
Proof. exact fmt_query_fast_eq. Qed.
Print Assumptions c04_fmt_query_fast_eq.

(* VCF / BCF, tabix or CSI, any file format version: query = scan with the specification's span
   whenever noodles' variant_end agrees with the specification on the records of the file *)
Theorem c04_vcf_query_equals_scan :
  forall bcf v45 kd ms d nref l ixs k iv,
    ordered_f vcf_rec v_a v_b 0 l ->
    spans_ok ms d (placed vcf_rec (vcf_ctx bcf v45) v_a v_b l) ->
    vcf_index bcf v45 ms d nref l = Some ixs -> (N.to_nat k < length ixs)%nat ->
    region_ok ms d iv -> max_position ms d <= pos_max ->
    Forall (span_agrees v45) l ->
    vcf_query v45 kd ms d ixs l k iv = QOk (vcf_scan v45 l k iv).
Proof. exact vcf_query_equals_scan. Qed.
Print Assumptions c04_vcf_query_equals_scan.

(* before VCF 4.5 (INFO END, else REF length) they always agree *)
Theorem c04_vcf_query_equals_scan_44 :
  forall bcf kd ms d nref l ixs k iv,
    ordered_f vcf_rec v_a v_b 0 l ->
    spans_ok ms d (placed vcf_rec (vcf_ctx bcf false) v_a v_b l) ->
    vcf_index bcf false ms d nref l = Some ixs -> (N.to_nat k < length ixs)%nat ->
    region_ok ms d iv -> max_position ms d <= pos_max ->
    vcf_query false kd ms d ixs l k iv = QOk (vcf_scan false l k iv).
Proof. exact vcf_query_equals_scan_44. Qed.
Print Assumptions c04_vcf_query_equals_scan_44.

(* VCF 4.5 (REF, INFO SVLEN per allele kind, FORMAT LEN): the excluded class is exactly the class
   of the known findings vcf45-svlen-...: records with a non-missing INFO SVLEN value *)
Theorem c04_vcf_query_equals_scan_45 :
  forall bcf kd ms d nref l ixs k iv,
    ordered_f vcf_rec v_a v_b 0 l ->
    spans_ok ms d (placed vcf_rec (vcf_ctx bcf true) v_a v_b l) ->
    vcf_index bcf true ms d nref l = Some ixs -> (N.to_nat k < length ixs)%nat ->
    region_ok ms d iv -> max_position ms d <= pos_max ->
    Forall (fun x => has_svlen x = false) l ->
    vcf_query true kd ms d ixs l k iv = QOk (vcf_scan true l k iv).
Proof. exact vcf_query_equals_scan_45. Qed.
Print Assumptions c04_vcf_query_equals_scan_45.

(* ... and in that class the statement fails, both ways (known findings): a <DEL> with SVLEN=113
   at POS 590024 ends at 590137 per the specification, noodles indexes and filters 590136, so the
   point query 590137 loses it; an <INS> with SVLEN=3300 at 13000 is returned for 13041-16317 *)
Definition c04_del45 : vcf_rec :=
  mkvcf 0 (Build_span_in 590024 1 None (Some (Some (VIntArr [Some (Zpos 113)]))) None) [AltDel] 10 20.
Definition c04_ins45 : vcf_rec :=
  mkvcf 0 (Build_span_in 13000 1 None (Some (Some (VIntArr [Some (Zpos 3300)]))) None) [AltIns] 10 20.

Theorem c04_vcf45_svlen_refuted :
  (exists ixs, vcf_index true true 14 5 1 [c04_del45] = Some ixs /\
     vcf_query true Binned 14 5 ixs [c04_del45] 0 (Some 590137, Some 590137) = QOk [] /\
     vcf_scan true [c04_del45] 0 (Some 590137, Some 590137) = [c04_del45]) /\
  (exists ixs, vcf_index true true 14 5 1 [c04_ins45] = Some ixs /\
     vcf_query true Binned 14 5 ixs [c04_ins45] 0 (Some 13041, Some 16317) = QOk [c04_ins45] /\
     vcf_scan true [c04_ins45] 0 (Some 13041, Some 16317) = []).
Proof. split; eexists; (split; [reflexivity|]); split; vm_compute; reflexivity. Qed.
Print Assumptions c04_vcf45_svlen_refuted.

(* bgzipped VCF + tabix: the index lists the names in order of first appearance; a region on a
   contig without records is refused although the scan answer is empty (known finding
   vcf-tabix-query-on-contig-without-records-is-an-error; QOk [] once the switch is flipped) *)
Theorem c04_tabix_contig_without_records :
  forall v45 ixs l c iv,
    (forall x, In x l -> v_id x <> c) ->
    tabix_query v45 ixs l c iv = (if tabix_empty_contig_repaired then QOk [] else QInvalid) /\
    vcf_scan v45 l c iv = [].
Proof. exact tabix_query_contig_without_records. Qed.
Print Assumptions c04_tabix_contig_without_records.

(* non-vacuity: a two-reference BAM file, a long read (N operation) before a short one, an
   unplaced tail *)
Definition c04_bam_file : list bam_rec :=
  [ mkbam (Some 0) (Some 20000) [(4, 5); (0, 50); (3, 300000); (0, 51)] false 100 200;
    mkbam (Some 0) (Some 20050) [(0, 10)] true 200 300;
    mkbam (Some 1) (Some 7) [] false 300 400;
    mkbam None None [] true 400 500;
    mkbam None None [] false 500 600 ].

Example c04_bam_example :
  exists ixs, bam_index 14 5 2 c04_bam_file = Some ixs /\
    bam_query Linear 14 5 ixs c04_bam_file 0 (Some 320000, None)
      = QOk [mkbam (Some 0) (Some 20000) [(4, 5); (0, 50); (3, 300000); (0, 51)] false 100 200] /\
    bam_query_unmapped Linear ixs 50 c04_bam_file = [mkbam None None [] true 400 500] /\
    bam_query_unmapped Binned ixs 50 c04_bam_file = [mkbam None None [] true 400 500].
Proof. eexists. split; [reflexivity|]. vm_compute. repeat split; reflexivity. Qed.

(* the reading step as csi::io::Query performs it for ANY chunk list (kind bamc ties
   chunk_read_eof to the real reader): a chunk whose end lies beyond the end of the data ends the
   whole query; when no chunk end exceeds the offset after the last record -- ends of index chunks
   are ends of records -- it is the reading the theorems above use *)
Theorem c04_chunk_read_eof_eq :
  forall A oa eof cs l,
    Forall (fun c => cend c <= eof) cs -> chunk_read_eof A oa eof cs l = chunk_read_f A oa cs l.
Proof. exact chunk_read_eof_eq. Qed.
Print Assumptions c04_chunk_read_eof_eq.

(* ==== byte level (fourth deepening): virtual offsets tied to the bytes of the BGZF file.
   Models: NV.Index.ByteQuery (csi::io::Query's Seek / Read(chunk end) / Done machine and the BAM
   record framing of bam/io/reader/record.rs) over C02's reader model NV.Bgzf.ReaderOps of a
   file given as its frames; proofs in NV.Index.ByteQueryProofs. ==== *)
From NV Require Import Bgzf.Vpos Bgzf.ReaderOps Bgzf.FlatRef Bgzf.ReaderOpsProofs.
From NV Require Import Index.ByteQuery Index.ByteQueryProofs.

(* numeric order of virtual positions = order of the bytes they name, on valid positions, with
   any frames (also empty ones) between: strictly smaller flat offset => strictly smaller
   position; hence position order never contradicts byte order *)
Theorem c04_vpos_order_strict : forall f v1 v2 o1 o2, wf f ->
  denote f v1 = Some o1 -> denote f v2 = Some o2 -> o1 < o2 -> v1 < v2.
Proof. exact denote_strict. Qed.
Print Assumptions c04_vpos_order_strict.

Theorem c04_vpos_order_mono : forall f v1 v2 o1 o2, wf f ->
  denote f v1 = Some o1 -> denote f v2 = Some o2 -> v1 <= v2 -> o1 <= o2.
Proof. exact denote_mono. Qed.
Print Assumptions c04_vpos_order_mono.

(* the indexers' scan over the bytes: from a reader (any state of C02's invariant, e.g. after the
   header) standing at flat offset o where the rest of the data is the records `bodies`, each as
   4 size bytes + body, for every read_to_end buffer schedule: the loop yields exactly these
   bodies, with the positions told before / after each one laid out on their flat offsets *)
Theorem c04_byte_scan : forall f bsz st o bodies, wf f -> total_csize f <= MAX_COMPRESSED_POSITION ->
  Rel f st o -> skipn (N.to_nat o) (concat (chunks f)) = stream bodies -> Forall rec_ok bodies ->
  exists st' a L, virtual_position st = Ok a /\ scan_from bsz f st = (st', Ok L) /\
    map br_body L = bodies /\ laid f o a L /\ Rel f st' (total_dlen f).
Proof. exact byte_scan_spec. Qed.
Print Assumptions c04_byte_scan.

(* the scanned [before, after) positions are strictly increasing numbers: the hypothesis
   `ordered_f` of the format-level theorems holds of every scanned file *)
Theorem c04_scan_positions_ordered : forall f, wf f -> total_csize f <= MAX_COMPRESSED_POSITION ->
  forall L o a, laid f o a L -> ordered_b a L.
Proof. exact laid_ordered. Qed.
Print Assumptions c04_scan_positions_ordered.

(* seeking to a chunk start and reading until the chunk end, over the bytes: for chunks that
   start where a scanned record starts and end where that or a later record ends (what an index
   holds), in ANY order, overlapping or repeated, from ANY reader state: csi::io::Query + the BAM
   record reader yield, chunk by chunk, exactly the records whose start position lies in
   [chunk start, chunk end) -- the abstract reading (chunk_read_f) of the theorems above -- and
   leave the reader in a state of the same invariant *)
Theorem c04_byte_query_reads_chunks : forall f bsz, wf f -> total_csize f <= MAX_COMPRESSED_POSITION ->
  forall L o0 a0, laid f o0 a0 L ->
  skipn (N.to_nat o0) (concat (chunks f)) = stream (map br_body L) ->
  forall cs st o, Forall (aligned L) cs -> Rel f st o ->
  exists st' o', Rel f st' o' /\
    byte_query bsz f st cs = (st', Ok (map br_body (chunk_read_f brec br_a cs L))).
Proof. exact byte_query_spec. Qed.
Print Assumptions c04_byte_query_reads_chunks.

(* histories on ONE reader object: any number of queries one after the other each give the
   answer above; what an earlier query (or scan) left in the reader does not leak *)
Theorem c04_byte_queries_history : forall f bsz, wf f -> total_csize f <= MAX_COMPRESSED_POSITION ->
  forall L o0 a0, laid f o0 a0 L ->
  skipn (N.to_nat o0) (concat (chunks f)) = stream (map br_body L) ->
  forall qs st o, Forall (Forall (aligned L)) qs -> Rel f st o ->
  byte_queries bsz f st qs = map (fun cs => Ok (map br_body (chunk_read_f brec br_a cs L))) qs.
Proof. exact byte_queries_spec. Qed.
Print Assumptions c04_byte_queries_history.

(* non-vacuity: a 3-byte header and two records; the first record is cut after 10 bytes by a
   block boundary with an EMPTY block between; scan, then three queries on the same reader *)
Definition c04_body : list N :=
  [255;255;255;255; 255;255;255;255; 2; 255; 72;18; 0;0; 4;0; 0;0;0;0; 255;255;255;255;
   255;255;255;255; 0;0;0;0; 42;0].
Definition c04_bytes_file : file :=
  [mkFrame 40 ([1;2;3] ++ [34;0;0;0] ++ firstn 10 c04_body); mkFrame 28 [];
   mkFrame 50 (skipn 10 c04_body ++ [34;0;0;0] ++ c04_body); mkFrame 28 []].
Example c04_byte_example :
  byte_session_x c04_bytes_file 3 [[(pack 0 3, pack 68 24)]; [(pack 68 24, pack 118 0)]; []]
  = (Ok [mkbrec c04_body 3 4456472; mkbrec c04_body 4456472 7733248],
     [Ok [c04_body]; Ok [c04_body]; Ok []]).
Proof. vm_compute. reflexivity. Qed.

(* ==== fifth deepening: index-built chunk lists are aligned to record boundaries, and the whole
   region query over the BYTES of a BAM file.  Models: NV.Index.ByteIndex (bam/fs/index.rs's loop
   and Reader::query over the file's frames, the fields decoded from the record bytes),
   NV.Index.ByteIndexLazy (decoder instance: C05's lazy accessors); proofs in
   NV.Index.AlignedProofs, NV.Index.ByteIndexProofs. ==== *)
From NV Require Import Index.AlignedProofs Index.ByteIndex Index.ByteIndexLazy Index.ByteIndexProofs.

(* every chunk stored in any bin of the index that ReferenceSequence::update / Bin::add_chunk build
   from a file in offset order starts at the offset before some record of the file, ends at the
   offset after some record of the file, and is not empty *)
Theorem c04_index_chunks_aligned :
  forall ms d k file, offsets_ordered 0 file ->
    forall id cs c, In (id, cs) (bins (build_ref ms d k file)) -> In c cs ->
      alr (fun x => In x file) c.
Proof. exact build_ref_aligned. Qed.
Print Assumptions c04_index_chunks_aligned.

(* the same shape survives Index::query (filter by min_offset, sort, merge loop) *)
Theorem c04_optimize_chunks_aligned :
  forall (Ps Pe : N -> Prop) cs m, Forall (alc Ps Pe) cs -> Forall (alc Ps Pe) (optimize_chunks cs m).
Proof. exact optimize_chunks_alc. Qed.
Print Assumptions c04_optimize_chunks_aligned.

(* format level, any format (BAM / VCF / BCF records with their offsets): every chunk the index
   query returns for the index the indexing loop built starts where a record of the file starts
   and ends where THAT OR A LATER record ends -- the `aligned` premise of
   c04_byte_query_reads_chunks is a theorem about the index model *)
Theorem c04_query_chunks_aligned :
  forall (A : Type) (oa ob : A -> N) (ctx : A -> ctxr) kd ms d l k qs qe cs,
    ordered_f A oa ob 0 l ->
    query kd ms d (build_ref ms d k (placed A ctx oa ob l)) qs qe = Some cs ->
    Forall (aligned_f A oa ob l) cs.
Proof. exact fmt_query_chunks_aligned. Qed.
Print Assumptions c04_query_chunks_aligned.

(* ... so no chunk end exceeds the offset after the last record: the hypothesis `chunk ends <= EOF`
   of c04_chunk_read_eof_eq is discharged -- reading index-built chunk lists the way the real
   csi::io::Query does (stop for good at a chunk end beyond the data) is the reading the
   query = scan theorems use *)
Theorem c04_query_chunks_within_data :
  forall (A : Type) (oa ob : A -> N) (ctx : A -> ctxr) kd ms d l k qs qe cs d0,
    ordered_f A oa ob 0 l ->
    query kd ms d (build_ref ms d k (placed A ctx oa ob l)) qs qe = Some cs ->
    Forall (fun c => cend c <= ob (last l d0)) cs /\
    chunk_read_eof A oa (ob (last l d0)) cs l = chunk_read_f A oa cs l.
Proof. exact fmt_query_chunks_within_data. Qed.
Print Assumptions c04_query_chunks_within_data.

(* THE BYTE-LEVEL MAIN THEOREM.  For every BGZF file (frames f, any block layout, empty blocks
   anywhere) whose data from flat offset o0 on -- where a reader st0 of C02's invariant stands,
   e.g. after the header -- is BAM records `bodies` (4 size bytes + body each), every decoder
   `dec` of the fields the code looks at, every read_to_end schedule bsz, every geometry and both
   index kinds: when every record decodes, a read with a reference id has a POS, the spans lie
   within the geometry and the indexer accepts the file (reference ids never go down, no
   overflow), then
     - the loop of bam::fs::index over the bytes succeeds and yields the records with their
       virtual positions (map br_body L = bodies), and
     - on a reader in ANY state of the invariant (the one the loop left, or after earlier
       queries), for every list of region queries (reference in the header, bounds in range or
       missing) run one after the other: Reader::query over the bytes -- Index::query on the index
       built from the bytes, csi::io::Query's seeks and reads, the record reader, the `intersects`
       filter -- returns for each region exactly the records of the stream that a scan keeps:
       those on the reference whose span POS .. POS + sum(M,D,N,=,X) - 1 (POS when 0) meets the
       region, in file order, nothing twice, nothing else. *)
Theorem c04_byte_bam_query_equals_scan :
  forall dec bsz f, wf f -> total_csize f <= MAX_COMPRESSED_POSITION ->
  forall st0 o0 bodies ms d nref,
    Rel f st0 o0 -> skipn (N.to_nat o0) (concat (chunks f)) = stream bodies ->
    Forall rec_ok bodies -> Forall (body_ok dec ms d) bodies ->
    index_scan (list N) (fun b => dec_ctx (dec b)) 0 bodies = None ->
    exists st1 L,
      index_from dec bsz f st0 = (st1, IxOk L) /\ map br_body L = bodies /\
      Rel f st1 (total_dlen f) /\
      forall kd qs st o, Forall (query_ok ms d nref) qs -> Rel f st o ->
        byte_bam_queries dec bsz query f st kd ms d nref (built dec ms d nref L) qs
        = map (fun q => BRead (Ok (filter (body_scan_hit dec (fst q) (snd q)) bodies))) qs.
Proof. exact byte_bam_index_query_equals_scan. Qed.
Print Assumptions c04_byte_bam_query_equals_scan.

(* the form the correspondence check executes (query_fast) is the modelled one *)
Theorem c04_byte_bam_session_fast_eq : forall dec bsz f hl kd ms d nref qs,
  byte_bam_session dec bsz query_fast f hl kd ms d nref qs = byte_bam_session dec bsz query f hl kd ms d nref qs.
Proof. exact byte_bam_session_fast_eq. Qed.
Print Assumptions c04_byte_bam_session_fast_eq.

(* non-vacuity, with C05's lazy accessors as the decoder: a 3-byte header and two reads on
   reference 0 (POS 100 and POS 5000, CIGAR 10M), the first cut by a block boundary with an empty
   block between; the index is built from the bytes, then five region queries on the same reader *)
Definition c04_placed (pos0 : N) : list N :=
  [0;0;0;0; pos0 mod 256; pos0 / 256;0;0; 2; 255; 72;18; 1;0; 0;0; 0;0;0;0; 255;255;255;255;
   255;255;255;255; 0;0;0;0; 42;0; 160;0;0;0].
Definition c04_bytes_file2 : file :=
  [mkFrame 40 ([1;2;3] ++ [38;0;0;0] ++ firstn 10 (c04_placed 99)); mkFrame 28 [];
   mkFrame 50 (skipn 10 (c04_placed 99) ++ [38;0;0;0] ++ c04_placed 4999); mkFrame 28 []].
Example c04_byte_bam_example :
  lazy_dec (c04_placed 99) = mkdec (Some (Some 0)) (Some (Some 100)) (Some [(0, 10)]) false /\
  byte_bam_session_x c04_bytes_file2 3 Linear 14 5 1
    [(0, (Some 105, Some 200)); (0, (None, None)); (0, (Some 110, Some 4999)); (1, (None, None));
     (0, (Some 4000, None))]
  = (IxOk [mkbrec (c04_placed 99) 3 4456476; mkbrec (c04_placed 4999) 4456476 7733248],
     [BRead (Ok [c04_placed 99]); BRead (Ok [c04_placed 99; c04_placed 4999]); BRead (Ok []);
      BInvalid; BRead (Ok [c04_placed 4999])]).
Proof. split; vm_compute; reflexivity. Qed.

(* ==== format-level and byte-level via-file: "... or after being written to and read from an
   index file".  The index the indexing loop built is written with the BAI / CSI writer model and
   read back with the reader model (NV.Index.Layout / CsiLayout, C17); the region query with the
   index that was read back gives the in-memory answers -- proofs in NV.Index.FormatsViaFileProofs. ==== *)
From NV Require Import Index.FormatsViaFileProofs.

(* BAM records (reference id, POS, CIGAR, flag) + BAI file *)
Theorem c04_bam_query_via_bai_file :
  forall ms d nref l ixs meta unplaced k iv,
    let i := built_bai ms d (placed bam_rec bam_ctx b_a b_b l) meta (length ixs) unplaced in
    bai_ok i ->
    ordered_f bam_rec b_a b_b 0 l -> Forall bam_pos_ok l ->
    spans_ok ms d (placed bam_rec bam_ctx b_a b_b l) ->
    bam_index ms d nref l = Some ixs -> (N.to_nat k < length ixs)%nat ->
    region_ok ms d iv ->
    exists i', read_bai (w_bai i) = Some i' /\
      bam_query Linear ms d (map bref_refidx (bi_refs i')) l k iv = QOk (bam_scan l k iv).
Proof. exact bam_query_via_bai_file. Qed.
Print Assumptions c04_bam_query_via_bai_file.

(* BAM records + CSI file (every geometry): the loffsets that read back differ, the answers do not *)
Theorem c04_bam_query_via_csi_file :
  forall ms d nref l ixs hdr meta unplaced k iv,
    let i := built_csi ms d (placed bam_rec bam_ctx b_a b_b l) hdr meta (length ixs) unplaced in
    csi_ok i ->
    ordered_f bam_rec b_a b_b 0 l -> Forall bam_pos_ok l ->
    spans_ok ms d (placed bam_rec bam_ctx b_a b_b l) ->
    bam_index ms d nref l = Some ixs -> (N.to_nat k < length ixs)%nat ->
    region_ok ms d iv ->
    exists i', w_csi i = WOk (w_csi_bytes i) /\ read_csi (w_csi_bytes i) = Some i' /\
      bam_query Binned ms d (map cref_refidx (ci_refs i')) l k iv = QOk (bam_scan l k iv).
Proof. exact bam_query_via_csi_file. Qed.
Print Assumptions c04_bam_query_via_csi_file.

(* any format (BAM, VCF, BCF records): Reader::query with the index read back from its BAI-layout
   or CSI file = Reader::query with the in-memory index, so c04_vcf_query_equals_scan(_44,_45) hold
   through the index file as well *)
Theorem c04_fmt_query_via_index_file :
  forall (A : Type) ctx oa ob hit ms d nref (l : list A) ixs k iv,
    fmt_index A ctx oa ob ms d nref l = Some ixs ->
    let file := placed A ctx oa ob l in
    (forall meta unplaced, let i := built_bai ms d file meta (length ixs) unplaced in bai_ok i ->
       exists i', read_bai (w_bai i) = Some i' /\
         fmt_query A oa hit Linear ms d (map bref_refidx (bi_refs i')) l k iv
         = fmt_query A oa hit Linear ms d ixs l k iv) /\
    (forall hdr meta unplaced, let i := built_csi ms d file hdr meta (length ixs) unplaced in
       csi_ok i -> spans_ok ms d file ->
       exists i', w_csi i = WOk (w_csi_bytes i) /\ read_csi (w_csi_bytes i) = Some i' /\
         fmt_query A oa hit Binned ms d (map cref_refidx (ci_refs i')) l k iv
         = fmt_query A oa hit Binned ms d ixs l k iv).
Proof. exact fmt_query_via_index_file. Qed.
Print Assumptions c04_fmt_query_via_index_file.

(* BYTE LEVEL via file: the index built from the BAM bytes by bam::fs::index's loop, written to a
   BAI or CSI file, read back, then Reader::query over the BAM bytes: the scan's answer *)
Theorem c04_byte_bam_query_via_index_file :
  forall dec bsz f, wf f -> total_csize f <= MAX_COMPRESSED_POSITION ->
  forall st0 o0 bodies ms d nref,
    Rel f st0 o0 -> skipn (N.to_nat o0) (concat (chunks f)) = stream bodies ->
    Forall rec_ok bodies -> Forall (body_ok dec ms d) bodies ->
    index_scan (list N) (fun b => dec_ctx (dec b)) 0 bodies = None ->
    exists st1 L,
      index_from dec bsz f st0 = (st1, IxOk L) /\ map br_body L = bodies /\
      let file := placed brec (bctx dec) br_a br_b L in
      let n := length (built dec ms d nref L) in
      let answer := fun qs : list (N * region) =>
        map (fun q => BRead (NV.Bgzf.Vpos.Ok (List.filter (body_scan_hit dec (fst q) (snd q)) bodies))) qs in
      (forall meta unplaced, let i := built_bai ms d file meta n unplaced in bai_ok i ->
         exists i', read_bai (w_bai i) = Some i' /\
           forall qs st o, Forall (query_ok ms d nref) qs -> Rel f st o ->
             byte_bam_queries dec bsz query f st Linear ms d nref (map bref_refidx (bi_refs i')) qs = answer qs) /\
      (forall hdr meta unplaced, let i := built_csi ms d file hdr meta n unplaced in csi_ok i ->
         exists i', w_csi i = WOk (w_csi_bytes i) /\ read_csi (w_csi_bytes i) = Some i' /\
           forall qs st o, Forall (query_ok ms d nref) qs -> Rel f st o ->
             byte_bam_queries dec bsz query f st Binned ms d nref (map cref_refidx (ci_refs i')) qs = answer qs).
Proof. exact byte_bam_query_via_index_file. Qed.
Print Assumptions c04_byte_bam_query_via_index_file.

(* non-vacuity of the via-file hypotheses: the BAI index of c04_bam_file (two references, the
   unplaced count) satisfies bai_ok, and the query with what reads back answers as the scan *)
Example c04_bam_via_bai_example :
  let i := built_bai 14 5 (placed bam_rec bam_ctx b_a b_b c04_bam_file) (fun _ => None) 2 (Some 2) in
  bai_ok i /\
  bam_query Linear 14 5 (map bref_refidx (bi_refs i)) c04_bam_file 0 (Some 320000, None)
    = QOk [mkbam (Some 0) (Some 20000) [(4, 5); (0, 50); (3, 300000); (0, 51)] false 100 200].
Proof.
  cbv zeta. split; [|vm_compute; reflexivity].
  unfold bai_ok. split; [vm_compute; reflexivity|]. split; [|vm_compute; reflexivity].
  set (r := bi_refs _). vm_compute in r. subst r.
  assert (Hm : bai_metadata_id = 37450) by (vm_compute; reflexivity).
  repeat constructor; cbn [fst snd length map br_bins br_meta br_intervals In]; unfold u64, u32;
    rewrite ?Hm; try Lia.lia; try (intuition discriminate).
Qed.

(* ==== seventh deepening: query_unmapped over the BYTES, histories mixing it with region queries,
   and the state read_header leaves -- proofs in NV.Index.ByteUnmappedProofs ==== *)
From NV Require Import Index.ByteUnmapped Index.ByteUnmappedProofs.

(* reading the hl header bytes from a fresh reader (what the executed sessions do for read_header)
   yields exactly those bytes and leaves the reader in a state of C02's invariant at flat offset
   hl, wherever the block boundaries fall: the premise `Rel f st0 o0` of the byte-level theorems
   holds for the state the sessions start the indexing loop from *)
Theorem c04_after_header_at_records :
  forall f, wf f -> forall hl, hl <= total_dlen f ->
    exists st, after_header f hl = (st, Ok (slice (concat (chunks f)) 0 hl)) /\ Rel f st hl.
Proof. exact after_header_rel. Qed.
Print Assumptions c04_after_header_at_records.

(* std's read_exact over the bgzf reader from any state of the invariant: exactly the next n bytes
   (seek_to_first_record's re-reading of the header is an instance) *)
Theorem c04_read_exact_at :
  forall f, wf f -> forall st o n, Rel f st o -> o + n <= total_dlen f ->
    exists st', read_exact_std true st n = (st', Ok (slice (concat (chunks f)) o n)) /\ Rel f st' (o + n).
Proof. exact read_exact_std_at. Qed.
Print Assumptions c04_read_exact_at.

(* Reader::query_unmapped over the bytes, on a reader in ANY state of the invariant, with the
   index bam::fs::index's loop built from the same bytes: seek to
   Index::last_first_record_start_position (or to 0 + re-read the header when the index has
   none), then the plain record reader to the end of the file with the flag filter -- is the
   format-level unmapped query (fmt_query_unmapped) on the scanned records: the flagged records
   from the sought record on, and the reader is left at the end of the data *)
Theorem c04_byte_bam_unmapped :
  forall f bsz, wf f -> total_csize f <= MAX_COMPRESSED_POSITION ->
  forall dec L o0 a0, laid f o0 a0 L ->
    skipn (N.to_nat o0) (concat (chunks f)) = stream (map br_body L) -> o0 <= total_dlen f ->
  forall ms d nref ixs, fmt_index brec (bctx dec) br_a br_b ms d nref L = Some ixs ->
  forall kd st o, Rel f st o ->
    exists st', Rel f st' (total_dlen f) /\
      byte_bam_unmapped dec bsz f o0 st kd ixs
      = (st', Ok (map br_body (fmt_query_unmapped brec br_a (fun x => d_unm (dec (br_body x))) kd ixs a0 L))).
Proof. exact byte_bam_unmapped_spec. Qed.
Print Assumptions c04_byte_bam_unmapped.

(* THE BYTE-LEVEL THEOREM WITH THE UNMAPPED QUERY.  Same premises as
   c04_byte_bam_query_equals_scan.  The indexing loop over the bytes succeeds; then for each index
   kind there is ONE answer U of the unmapped query such that
     - U holds only records flagged unmapped; it is the flag filter applied to a suffix of the
       stream's records (file order, nothing twice); and when the records without an alignment
       context come last (coordinate-sorted file), the unplaced records of U are exactly the
       unplaced records of the file that are flagged unmapped (unmapped_answer_ok), and
     - ANY sequence of region queries (reference in the header, bounds in range or missing) and
       unmapped queries, in any order, on one reader object in any state of the invariant, gives
       each region query the scan's answer and each unmapped query U. *)
Theorem c04_byte_bam_region_and_unmapped_queries :
  forall dec bsz f, wf f -> total_csize f <= MAX_COMPRESSED_POSITION ->
  forall st0 o0 bodies ms d nref,
    Rel f st0 o0 -> skipn (N.to_nat o0) (concat (chunks f)) = stream bodies ->
    Forall rec_ok bodies -> Forall (body_ok dec ms d) bodies ->
    index_scan (list N) (fun b => dec_ctx (dec b)) 0 bodies = None ->
    exists st1 L,
      index_from dec bsz f st0 = (st1, IxOk L) /\ map br_body L = bodies /\
      Rel f st1 (total_dlen f) /\
      forall kd, exists U, unmapped_answer_ok dec bodies U /\
        forall ops st o, Forall (op_ok ms d nref) ops -> Rel f st o ->
          byte_bam_ops dec bsz query f o0 st kd ms d nref (built dec ms d nref L) ops
          = map (op_answer dec bodies U) ops.
Proof. exact byte_bam_index_ops_equals_scan. Qed.
Print Assumptions c04_byte_bam_region_and_unmapped_queries.

(* the form the correspondence check executes (kind bamu) is the modelled one *)
Theorem c04_byte_bam_ops_session_fast_eq : forall dec bsz f hl kd ms d nref ops,
  byte_bam_ops_session dec bsz query_fast f hl kd ms d nref ops
  = byte_bam_ops_session dec bsz query f hl kd ms d nref ops.
Proof. exact byte_bam_ops_session_fast_eq. Qed.
Print Assumptions c04_byte_bam_ops_session_fast_eq.

(* non-vacuity: header of 3 bytes, two placed reads, then an unplaced tail (flagged, NOT flagged,
   flagged), records cut by block boundaries with an empty block between; unmapped query, region
   query, unmapped query on the reader that built the index; and a file without any placed read
   (the seek goes to 0 and the header is read again) *)
Definition c04_unplaced (flag : N) : list N :=
  [255;255;255;255; 255;255;255;255; 2; 255; 72;18; 0;0; flag;0; 0;0;0;0; 255;255;255;255;
   255;255;255;255; 0;0;0;0; 42;0].
Definition c04_bytes_file3 : file :=
  [mkFrame 40 ([1;2;3] ++ [38;0;0;0] ++ firstn 10 (c04_placed 99)); mkFrame 28 [];
   mkFrame 50 (skipn 10 (c04_placed 99) ++ [38;0;0;0] ++ c04_placed 4999 ++ [34;0;0;0] ++ firstn 7 (c04_unplaced 4));
   mkFrame 60 (skipn 7 (c04_unplaced 4) ++ [34;0;0;0] ++ c04_unplaced 0 ++ [34;0;0;0] ++ c04_unplaced 4);
   mkFrame 28 []].
Example c04_byte_bam_unmapped_example :
  byte_bam_ops_session_x c04_bytes_file3 3 Linear 14 5 1
    [OpUnmapped; OpRegion (0, (Some 105, Some 200)); OpUnmapped]
  = (IxOk [mkbrec (c04_placed 99) 3 4456476; mkbrec (c04_placed 4999) 4456476 4456518;
           mkbrec (c04_unplaced 4) 4456518 7733275; mkbrec (c04_unplaced 0) 7733275 7733313;
           mkbrec (c04_unplaced 4) 7733313 11665408],
     [BRead (Ok [c04_unplaced 4; c04_unplaced 4]); BRead (Ok [c04_placed 99]);
      BRead (Ok [c04_unplaced 4; c04_unplaced 4])]) /\
  byte_bam_ops_session_x [mkFrame 40 ([1;2;3] ++ [34;0;0;0] ++ c04_unplaced 4)] 3 Binned 14 5 1
    [OpUnmapped; OpUnmapped]
  = (IxOk [mkbrec (c04_unplaced 4) 3 2621440],
     [BRead (Ok [c04_unplaced 4]); BRead (Ok [c04_unplaced 4])]).
Proof. split; vm_compute; reflexivity. Qed.

(* ==== END TO END over a file noodles wrote (proof: NV.Index.ByteWrittenProofs).  The stream is
   C05's model of bam::io::Writer (C06's header block + one encoded record each) over a header h
   and records rs that satisfy the Rust type invariants (wf_header, rec_ok: C06's / C05's), cut
   into BGZF blocks in ANY way (frame table f with concat (chunks f) = the stream).  Premises on the
   WRITTEN RECORDS only: a read with a reference id has a POS and its span lies within the index
   geometry (rec_placed_ok), reference ids of placed reads never go down (index_scan = None).  Then
     - the header reader returns h and leaves exactly the records (C06), the record part is 4 size
       bytes + body per record, and the lazy accessors on a written body yield the record's own
       reference id / POS / CIGAR / flag (C05), so the scan predicate on the bytes is the scan
       predicate on the written records;
     - the executed session -- read the header, bam::fs::index's loop over the bytes, then any
       sequence of region queries and unmapped queries on the same reader -- succeeds and answers
       every region query with the bodies of exactly the written records a scan keeps, and every
       unmapped query with U (only flagged records, a suffix of the file filtered by the flag,
       all unplaced flagged records when the unplaced records come last).
   No `Rel f st0 o0` premise is left: it is discharged by c04_after_header_at_records. ==== *)
From NV Require Bam.Record Bam.Encode Bam.File Bam.CodecProofs Bam.FileProofs Sam.Header Sam.HeaderProofs Sam.BamHeader.
From NV Require Import Index.ByteWrittenProofs.

Theorem c04_written_bam_queries_equal_scan :
  forall h rs bytes,
    NV.Sam.HeaderProofs.wf_header h -> Forall NV.Bam.FileProofs.rec_ok rs ->
    NV.Bam.File.write_file h rs = NV.Bam.Record.Ok bytes ->
  forall f bsz, wf f -> total_csize f <= MAX_COMPRESSED_POSITION -> concat (chunks f) = bytes ->
  forall ms d, Forall (rec_placed_ok ms d) rs -> index_scan NV.Bam.Record.record rec_ctx 0 rs = None ->
    let nref := length (NV.Sam.Header.h_sq h) in
    exists hb bodies L,
      NV.Sam.BamHeader.write_bam_header h = Some hb /\ bytes = hb ++ stream bodies /\
      NV.Sam.BamHeader.read_bam_header bytes = NV.Bam.Record.Ok (h, stream bodies) /\
      Forall2 (fun r b => NV.Bam.Encode.encode_body (NV.Bam.Record.lenN (NV.Sam.Header.h_sq h)) r = NV.Bam.Record.Ok b) rs bodies /\
      Forall2 (fun r b => dec_bam (lazy_dec b) 0 0 = rec_bam r /\
                          forall k iv, body_scan_hit lazy_dec k iv b = bam_scan_hit k iv (rec_bam r)) rs bodies /\
      map br_body L = bodies /\
      forall kd, exists U, unmapped_answer_ok lazy_dec bodies U /\
        forall ops, Forall (op_ok ms d nref) ops ->
          byte_bam_ops_session lazy_dec bsz query f (len hb) kd ms d nref ops
          = (IxOk L, map (op_answer lazy_dec bodies U) ops).
Proof. exact written_bam_queries_equal_scan. Qed.
Print Assumptions c04_written_bam_queries_equal_scan.

(* non-vacuity of its premises: one reference, two placed reads (POS 100 and 5000, 10M), one
   unplaced read flagged unmapped; the writer model accepts them *)
Definition c04_w_header : NV.Sam.Header.header :=
  NV.Sam.Header.mkHeader None [NV.Sam.Header.mkSq [114; 48] 536870911 []] [] [] [].
Definition c04_w_rec (pos : N) : NV.Bam.Record.record :=
  NV.Bam.Record.mkRecord (Some [49]) 0 (Some 0) (Some pos) (Some 60) [(0, 10)] None None Z0
    [65;67;71;84;65;67;71;84;65;67] [30;30;30;30;30;30;30;30;30;30] [].
Definition c04_w_unp : NV.Bam.Record.record :=
  NV.Bam.Record.mkRecord (Some [50]) 4 None None None [] None None Z0 [65] [30] [].
Example c04_written_example :
  let rs := [c04_w_rec 100; c04_w_rec 5000; c04_w_unp] in
  NV.Sam.HeaderProofs.wf_header c04_w_header /\ Forall NV.Bam.FileProofs.rec_ok rs /\
  Forall (rec_placed_ok 14 5) rs /\ index_scan NV.Bam.Record.record rec_ctx 0 rs = None /\
  exists bytes, NV.Bam.File.write_file c04_w_header rs = NV.Bam.Record.Ok bytes.
Proof.
  cbv zeta. split; [|split; [|split; [|split]]].
  - unfold NV.Sam.HeaderProofs.wf_header, c04_w_header.
    cbn [NV.Sam.Header.h_hd NV.Sam.Header.h_sq NV.Sam.Header.h_rg NV.Sam.Header.h_pg NV.Sam.Header.h_co map].
    split; [exact I|]. split.
    + constructor; [|constructor]. unfold NV.Sam.HeaderProofs.wf_sq, NV.Sam.HeaderProofs.others_ok.
      cbn. split; [Lia.lia|]. repeat constructor; try (intros []).
    + split; [apply NV.Sam.HeaderProofs.nodup1|]. repeat split; constructor.
  - assert (Hw : forall p, 1 <= p -> NV.Bam.FileProofs.rec_ok (c04_w_rec p)).
    { intros p Hp. unfold NV.Bam.FileProofs.rec_ok, NV.Bam.CodecProofs.wf, c04_w_rec.
      cbn [NV.Bam.Record.r_flags NV.Bam.Record.r_mapq NV.Bam.Record.r_pos NV.Bam.Record.r_mpos
           NV.Bam.Record.r_tlen NV.Bam.Record.r_cigar NV.Bam.Record.r_data map].
      split; [|split; constructor].
      split; [Lia.lia|]. split; [intros q E; injection E as E; Lia.lia|].
      split; [intros q E; injection E as E; Lia.lia|]. split; [intros q E; discriminate|].
      split; [Lia.lia|]. repeat constructor; unfold NV.Bam.CodecProofs.op_ok; cbn [fst]; Lia.lia. }
    constructor; [apply Hw; Lia.lia|]. constructor; [apply Hw; Lia.lia|]. constructor; [|constructor].
    unfold NV.Bam.FileProofs.rec_ok, NV.Bam.CodecProofs.wf, c04_w_unp.
    cbn [NV.Bam.Record.r_flags NV.Bam.Record.r_mapq NV.Bam.Record.r_pos NV.Bam.Record.r_mpos
         NV.Bam.Record.r_tlen NV.Bam.Record.r_cigar NV.Bam.Record.r_data map].
    split; [|split; constructor].
    split; [Lia.lia|]. split; [intros q E; discriminate|]. split; [intros q E; discriminate|].
    split; [intros q E; discriminate|]. split; [Lia.lia|constructor].
  - assert (Hp : forall p, (p =? 100) || (p =? 5000) = true -> rec_placed_ok 14 5 (c04_w_rec p)).
    { intros p Hp. split; [intros _; discriminate|]. intros k s e H.
      destruct (p =? 100) eqn:E1; [apply N.eqb_eq in E1; subst p|
        destruct (p =? 5000) eqn:E2; [apply N.eqb_eq in E2; subst p|discriminate]];
      vm_compute in H; injection H as ? ? ?; subst; split; vm_compute; discriminate. }
    constructor; [apply Hp; reflexivity|]. constructor; [apply Hp; reflexivity|].
    constructor; [|constructor]. split; [intros H; exfalso; apply H; reflexivity|].
    intros k s e H. vm_compute in H. discriminate.
  - vm_compute. reflexivity.
  - eexists. vm_compute. reflexivity.
Qed.

(* ==== tabix (.tbi) via file at format level (proof: NV.Index.TabixViaFileProofs).  The tabix
   index file is the byte layout NV.Index.CsiLayout w_tbi / read_tbi (C17's, tied to noodles-tabix
   there): header (format, columns, meta, skip, names), BAI-style reference sequences with the
   metadata pseudo-bins, optional unplaced count -- all universally quantified. ==== *)
From NV Require Import Index.TabixViaFileProofs.

(* any format indexed with the linear (14, 5) geometry: Reader::query with the index read back from
   its .tbi file = Reader::query with the in-memory index *)
Theorem c04_fmt_query_via_tbi_file :
  forall (A : Type) ctx oa ob hit nref (l : list A) ixs k iv,
    fmt_index A ctx oa ob 14 5 nref l = Some ixs ->
    forall hdr meta unplaced,
      let i := built_tbi (placed A ctx oa ob l) hdr meta (length ixs) unplaced in
      tbi_ok i ->
      exists i', w_tbi i = WOk (w_tbi_bytes i) /\ read_tbi (w_tbi_bytes i) = Some i' /\
        fmt_query A oa hit Linear 14 5 (map bref_refidx (ti_refs i')) l k iv
        = fmt_query A oa hit Linear 14 5 ixs l k iv.
Proof. exact fmt_query_via_tbi_file. Qed.
Print Assumptions c04_fmt_query_via_tbi_file.

(* bgzipped VCF + tabix with the reader's name handling (ids by first appearance, names resolved
   against the index): the query through the .tbi file = the in-memory query, so
   c04_tabix_contig_without_records and the query = scan theorems transfer *)
Theorem c04_tabix_query_via_tbi_file :
  forall v45 l ixs c iv,
    tabix_index v45 l = Some ixs ->
    forall hdr meta unplaced,
      let i := built_tbi (placed vcf_rec (vcf_ctx false v45) v_a v_b (snd (tabix_renumber l))) hdr meta
                 (length ixs) unplaced in
      tbi_ok i ->
      exists i', w_tbi i = WOk (w_tbi_bytes i) /\ read_tbi (w_tbi_bytes i) = Some i' /\
        tabix_query v45 (map bref_refidx (ti_refs i')) l c iv = tabix_query v45 ixs l c iv.
Proof. exact tabix_query_via_tbi_file. Qed.
Print Assumptions c04_tabix_query_via_tbi_file.

(* VCF query = scan (the specification's span) through the .tbi file, on every file where noodles'
   span agrees with the specification's (all files before 4.5; 4.5 without INFO SVLEN values) *)
Theorem c04_vcf_query_via_tbi_file_equals_scan :
  forall v45 nref l ixs k iv,
    ordered_f vcf_rec v_a v_b 0 l ->
    spans_ok 14 5 (placed vcf_rec (vcf_ctx false v45) v_a v_b l) ->
    vcf_index false v45 14 5 nref l = Some ixs -> (N.to_nat k < length ixs)%nat ->
    region_ok 14 5 iv -> Forall (span_agrees v45) l ->
    forall hdr meta unplaced,
      let i := built_tbi (placed vcf_rec (vcf_ctx false v45) v_a v_b l) hdr meta (length ixs) unplaced in
      tbi_ok i ->
      exists i', w_tbi i = WOk (w_tbi_bytes i) /\ read_tbi (w_tbi_bytes i) = Some i' /\
        vcf_query v45 Linear 14 5 (map bref_refidx (ti_refs i')) l k iv = QOk (vcf_scan v45 l k iv).
Proof. exact vcf_query_via_tbi_file_equals_scan. Qed.
Print Assumptions c04_vcf_query_via_tbi_file_equals_scan.

(* non-vacuity: two variants on contig 0 (POS 100, REF of 3 bases; POS 70000 with END 70500), a
   VCF tabix header with one name; tbi_ok holds and the query through the written-and-read .tbi
   returns the second record for 70400-70450 *)
Definition c04_tbi_file : list vcf_rec :=
  [mkvcf 0 (Build_span_in 100 3 None None None) [AltSeq] 1000 2000;
   mkvcf 0 (Build_span_in 70000 1 (Some (Some (VInteger (Zpos 70500)))) None None) [AltDel] 2000 3000].
Example c04_tbi_example :
  let hdr := mkhdr FVcf 0 1 None 35 0 [[99; 49]] in
  let i := built_tbi (placed vcf_rec (vcf_ctx false false) v_a v_b c04_tbi_file) hdr (fun _ => None) 1 (Some 0) in
  tbi_ok i /\
  (exists i', read_tbi (w_tbi_bytes i) = Some i' /\
     vcf_query false Linear 14 5 (map bref_refidx (ti_refs i')) c04_tbi_file 0 (Some 70400, Some 70450)
     = QOk [mkvcf 0 (Build_span_in 70000 1 (Some (Some (VInteger (Zpos 70500)))) None None) [AltDel] 2000 3000]).
Proof.
  cbv zeta. split; [|eexists; split; vm_compute; reflexivity].
  unfold tbi_ok, built_tbi. cbn [ti_header ti_refs ti_unplaced].
  split; [|split; [vm_compute; reflexivity|split; [|unfold u64; Lia.lia]]].
  - unfold header_ok. split; [vm_compute; reflexivity|]. split; [vm_compute; reflexivity|].
    cbn [h_names]. constructor; [intros []|constructor].
  - set (r := bi_refs _). vm_compute in r. subst r.
    assert (Hm : bai_metadata_id = 37450) by (vm_compute; reflexivity).
    repeat constructor; cbn [fst snd length map br_bins br_meta br_intervals In]; unfold u64, u32;
      rewrite ?Hm; try Lia.lia; try (intuition discriminate).
Qed.

(* region AND unmapped queries over the BAM bytes with the index written to a BAI file and read
   back: the BAI index reads back equal, so last_first_record_start_position and with it the
   unmapped answer U are unchanged (through a CSI FILE the stored loffsets differ and the seek
   position of query_unmapped may move: exercised by kind bamu, not claimed) *)
From NV Require Import Index.ByteUnmappedViaFileProofs.
Theorem c04_byte_bam_ops_via_bai_file :
  forall dec bsz f, wf f -> total_csize f <= MAX_COMPRESSED_POSITION ->
  forall st0 o0 bodies ms d nref,
    Rel f st0 o0 -> skipn (N.to_nat o0) (concat (chunks f)) = stream bodies ->
    Forall rec_ok bodies -> Forall (body_ok dec ms d) bodies ->
    index_scan (list N) (fun b => dec_ctx (dec b)) 0 bodies = None ->
    exists st1 L U,
      index_from dec bsz f st0 = (st1, IxOk L) /\ map br_body L = bodies /\
      unmapped_answer_ok dec bodies U /\
      forall meta unplaced,
        let i := built_bai ms d (placed brec (bctx dec) br_a br_b L) meta (length (built dec ms d nref L)) unplaced in
        bai_ok i ->
        exists i', read_bai (w_bai i) = Some i' /\
          forall ops st o, Forall (op_ok ms d nref) ops -> Rel f st o ->
            byte_bam_ops dec bsz query f o0 st Linear ms d nref (map bref_refidx (bi_refs i')) ops
            = map (op_answer dec bodies U) ops.
Proof. exact byte_bam_ops_via_bai_file. Qed.
Print Assumptions c04_byte_bam_ops_via_bai_file.

(* ==== tenth deepening: the BCF RECORD FRAMING over bytes for the query path.  Model:
   NV.Index.BcfByteQuery (bcf/io/reader/record.rs read_record -- l_shared word through
   read_exact_or_eof, l_indiv word through read_exact, site through take().read_to_end,
   Fields::index (C10's lz_index), samples -- over the bgzf reader and over csi::io::Query, which is
   what bcf::io::Reader::query reads from; bcf/fs/index.rs's scan loop); proofs in
   NV.Index.BcfByteQueryProofs / BcfByteSessionProofs.  A record is carried as everything behind its
   l_shared word (l_indiv word ++ site ++ samples); bstream lays records out as
   l_shared word ++ that.  Executed as kind `bcfb`. ==== *)
From NV Require Index.BcfByteQuery Index.BcfByteQueryProofs Index.BcfByteSessionProofs.

(* the indexer's scan over the bytes of a BCF file, from any reader state of C02's invariant
   standing where the records begin, for every read_to_end buffer schedule: exactly the records of
   the stream, with the positions told before / after each one on their flat offsets *)
Theorem c04_bcf_byte_scan : forall f bsz st o bodies, wf f -> total_csize f <= MAX_COMPRESSED_POSITION ->
  Rel f st o ->
  skipn (N.to_nat o) (concat (chunks f)) = NV.Index.BcfByteQueryProofs.bstream bodies ->
  Forall NV.Index.BcfByteQueryProofs.brec_ok bodies ->
  exists st' a L, virtual_position st = Ok a /\
    NV.Index.BcfByteQuery.bcf_scan_from bsz f st = (st', Ok L) /\
    map br_body L = bodies /\ NV.Index.BcfByteQueryProofs.blaid f o a L /\ Rel f st' (total_dlen f).
Proof. exact NV.Index.BcfByteQueryProofs.bcf_byte_scan_spec. Qed.
Print Assumptions c04_bcf_byte_scan.

(* record framing on the query path: seeking to a chunk start and reading to the chunk end with
   csi::io::Query + the BCF record reader, for chunks on record boundaries in ANY order, overlapping
   or repeated, from ANY reader state: chunk by chunk exactly the records of the stream whose start
   position lies in the chunk (chunk_read_f, the abstract reading of the format-level theorems) *)
Theorem c04_bcf_byte_query_reads_chunks : forall f bsz, wf f -> total_csize f <= MAX_COMPRESSED_POSITION ->
  forall L o0 a0, NV.Index.BcfByteQueryProofs.blaid f o0 a0 L ->
  skipn (N.to_nat o0) (concat (chunks f)) = NV.Index.BcfByteQueryProofs.bstream (map br_body L) ->
  forall cs st o, Forall (NV.Index.BcfByteQueryProofs.baligned L) cs -> Rel f st o ->
  exists st' o', Rel f st' o' /\
    NV.Index.BcfByteQuery.bcf_byte_query bsz f st cs
    = (st', Ok (map br_body (chunk_read_f brec br_a cs L))).
Proof. exact NV.Index.BcfByteQueryProofs.bcf_byte_query_spec. Qed.
Print Assumptions c04_bcf_byte_query_reads_chunks.

(* the executed session in closed form: header bytes, scan, then any number of chunk-list queries
   one after the other on the same reader object *)
Theorem c04_bcf_byte_session : forall f bsz hl bodies, wf f ->
  total_csize f <= MAX_COMPRESSED_POSITION -> hl <= total_dlen f ->
  skipn (N.to_nat hl) (concat (chunks f)) = NV.Index.BcfByteQueryProofs.bstream bodies ->
  Forall NV.Index.BcfByteQueryProofs.brec_ok bodies ->
  exists a L, map br_body L = bodies /\ NV.Index.BcfByteQueryProofs.blaid f hl a L /\
    forall qs, Forall (Forall (NV.Index.BcfByteQueryProofs.baligned L)) qs ->
      NV.Index.BcfByteQuery.bcf_byte_session bsz f hl qs
      = (Ok L, map (fun cs => Ok (map br_body (chunk_read_f brec br_a cs L))) qs).
Proof. exact NV.Index.BcfByteSessionProofs.bcf_byte_session_spec. Qed.
Print Assumptions c04_bcf_byte_session.

(* non-vacuity: a 3-byte header and two records without samples (site: the 24 fixed bytes, an empty
   ID string, REF "A", no filters), the first cut after 10 of its bytes by a block boundary with an
   EMPTY block between; scan, then three queries on the same reader *)
Definition c04_bcf_site : list N :=
  [0;0;0;0; 9;0;0;0; 1;0;0;0; 1;0;128;127; 0;0; 1;0; 0;0;0; 0; 7; 23;65; 0].
Definition c04_bcf_body : list N := [0;0;0;0] ++ c04_bcf_site.
Definition c04_bcf_file : file :=
  [mkFrame 40 ([1;2;3] ++ [28;0;0;0] ++ firstn 6 c04_bcf_body); mkFrame 28 [];
   mkFrame 50 (skipn 6 c04_bcf_body ++ [28;0;0;0] ++ c04_bcf_body); mkFrame 28 []].
Example c04_bcf_byte_example :
  NV.Index.BcfByteQuery.bcf_byte_session_x c04_bcf_file 3
    [[(pack 0 3, pack 68 26)]; [(pack 68 26, pack 118 0)]; []]
  = (Ok [mkbrec c04_bcf_body 3 4456474; mkbrec c04_bcf_body 4456474 7733248],
     [Ok [c04_bcf_body]; Ok [c04_bcf_body]; Ok []]).
Proof. vm_compute. reflexivity. Qed.

(* the one-record framing lemma behind the three theorems above, for ANY byte reader rd that hands
   out the data D piecewise (the plain bgzf reader, csi::io::Query inside a chunk): from offset o
   where the data continues with a record's l_shared word ++ body, read_record returns exactly that
   body and leaves the reader at the record's end, having just consumed its last byte *)
Theorem c04_bcf_record_framing :
  forall (R : Type) (rd : R -> N -> R * res (list N)) (bsz : N -> N) (D : list N)
         (GRel GJC : R -> N -> Prop) (lim : N),
    (forall r o n, GRel r o -> o < lim -> o < len D -> 0 < n ->
       exists r' k, rd r n = (r', Ok (slice D o k)) /\ 1 <= k /\ k <= n /\ o + k <= len D /\
         GRel r' (o + k) /\ GJC r' (o + k)) ->
    forall r o b tl, GRel r o ->
      skipn (N.to_nat o) D = NV.Index.BcfByteQueryProofs.bframed b ++ tl ->
      NV.Index.BcfByteQueryProofs.brec_ok b -> o + 4 + len b <= lim ->
      exists r', NV.Index.BcfByteQuery.bcf_read_record R rd bsz r = (r', RRec b) /\
                 GRel r' (o + 4 + len b) /\ GJC r' (o + 4 + len b).
Proof. exact NV.Index.BcfByteQueryProofs.gen_read_record. Qed.
Print Assumptions c04_bcf_record_framing.

(* ---- tenth wave (c): the indexing / filtering KEY of a BCF record read off its SITE BYTES
   (NV.Index.BcfSiteKey, kind `bcfk`): Record::reference_sequence_id (i32 at 0..4 through
   usize::try_from), Record::variant_start (C10's lz_pos; the indexer's "missing position"),
   Record::rlen (i32 at 8..12 through usize::try_from) and Record::end -- what bcf/fs/index.rs and the
   query filter read from the buffer bcf_read_record has filled.  First step of composing the bcfb
   framing with the format-level c04_vcf_query_equals_scan (variant_end over INFO END / SVLEN on the
   bytes is not yet modelled here). *)
From Coq Require ZArith.
From NV Require Index.BcfSiteKey Bcf.Ints Bcf.Record Bcf.Lazy Bcf.LazySiteProofs Bcf.Typed Bcf.StringMap.

(* whenever C10's eager read_site (dec_head) accepts the site block: the record reader's validation
   accepts it too, and the reference id, start, rlen and end read off the bytes are those of the
   decoded head (the reference NAME of the head is contigs[reference id]) *)
Theorem c04_bcf_site_key_agrees_with_head :
  forall strings contigs sb h info_bytes,
    NV.Bcf.LazySiteProofs.byte_list sb ->
    NV.Bcf.Record.dec_head strings contigs sb = Some (h, info_bytes) ->
    exists c l,
      NV.Index.BcfSiteKey.bcf_site_rid sb = NV.Bcf.Typed.ROk c /\ Coq.ZArith.BinInt.Z.le Z0 c /\
      NV.Bcf.StringMap.get_index contigs (NV.Bcf.Ints.znat (length (NV.Bcf.StringMap.entries contigs)) c)
        = Some (NV.Bcf.Record.h_chrom h) /\
      NV.Bcf.Lazy.lz_pos sb = NV.Bcf.Typed.ROk (NV.Bcf.Record.h_pos h) /\
      NV.Index.BcfSiteKey.bcf_site_start sb
        = match NV.Bcf.Record.h_pos h with Some p => NV.Bcf.Typed.ROk p | None => NV.Bcf.Typed.RErr end /\
      NV.Index.BcfSiteKey.bcf_site_rlen sb = NV.Bcf.Typed.ROk l /\ Coq.ZArith.BinInt.Z.le Z0 l /\
      NV.Index.BcfSiteKey.bcf_site_end sb
        = (if Coq.ZArith.BinInt.Z.eqb l Z0 then NV.Bcf.Typed.RErr
           else NV.Bcf.Typed.ROk (Coq.ZArith.BinInt.Z.add (match NV.Bcf.Record.h_pos h with Some p => p | None => Zpos xH end)
                                        (Coq.ZArith.BinInt.Z.sub l (Zpos xH)))) /\
      NV.Index.BcfByteQuery.bcf_val sb = true.
Proof. exact NV.Index.BcfSiteKey.site_key_agrees_with_head. Qed.
Print Assumptions c04_bcf_site_key_agrees_with_head.

(* behind the record reader's Fields::index (bcf_val, the validation step of bcf_read_record) none of
   the key accessors can slice out of the site buffer: each returns a value or InvalidData *)
Theorem c04_bcf_site_key_total :
  forall sb, NV.Index.BcfByteQuery.bcf_val sb = true ->
    NV.Index.BcfSiteKey.bcf_site_rid sb <> NV.Bcf.Typed.RPanic /\
    NV.Bcf.Lazy.lz_pos sb <> NV.Bcf.Typed.RPanic /\
    NV.Index.BcfSiteKey.bcf_site_start sb <> NV.Bcf.Typed.RPanic /\
    NV.Index.BcfSiteKey.bcf_site_rlen sb <> NV.Bcf.Typed.RPanic /\
    NV.Index.BcfSiteKey.bcf_site_end sb <> NV.Bcf.Typed.RPanic.
Proof. exact NV.Index.BcfSiteKey.site_key_total. Qed.
Print Assumptions c04_bcf_site_key_total.

(* Record::reference_sequence_name is contigs[Record::reference_sequence_id] on every buffer *)
Theorem c04_bcf_site_chrom_via_rid :
  forall contigs sb,
    NV.Bcf.Lazy.lz_chrom contigs sb =
    NV.Bcf.Typed.rbind (NV.Index.BcfSiteKey.bcf_site_rid sb) (fun c =>
      match NV.Bcf.StringMap.get_index contigs (NV.Bcf.Ints.znat (length (NV.Bcf.StringMap.entries contigs)) c) with
      | Some n => NV.Bcf.Typed.ROk n | None => NV.Bcf.Typed.RErr end).
Proof. exact NV.Index.BcfSiteKey.lz_chrom_via_rid. Qed.
Print Assumptions c04_bcf_site_chrom_via_rid.

(* non-vacuity: the site of c04_bcf_byte_example (reference 0, POS 10, rlen 1) *)
Example c04_bcf_site_key_example :
  NV.Index.BcfSiteKey.bcf_site_key c04_bcf_site
  = Some (NV.Bcf.Typed.ROk Z0, NV.Bcf.Typed.ROk (Some (Zpos (xO (xI (xO xH))))), NV.Bcf.Typed.ROk (Zpos (xO (xI (xO xH))))).
Proof. vm_compute. reflexivity. Qed.
