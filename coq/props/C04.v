(* C04 — Indexed region queries return exactly what a linear scan would.
   Model: NV.Index.Indexer (Indexer::add_record / ReferenceSequence::update / LinearIndex and
   BinnedIndex update + min_offset / Index::query / csi::io::Query chunk reading / the readers'
   `intersects` filter).  Theorems only; proofs are in NV.Index.QueryProofs. *)
From Coq Require Import List NArith Bool.
From NV Require Import Index.Bins Index.Chunks Index.Indexer Index.QueryProofs Index.QueryFast Index.BinnedProofs.
Import ListNotations.
Open Scope N_scope.

(* Linear-offset indexes (BAI, tabix), for EVERY geometry, file and region: the records obtained by
   reading the chunks the index query returns and applying the readers' filter are exactly the
   records a full scan keeps -- same records, same order, no omission, duplicate or extra.
   Only monotone file offsets are needed, not even coordinate order. *)
Theorem c04_query_equals_scan_linear :
  forall ms d k file qs qe,
    offsets_ordered 0 file -> spans_ok ms d file ->
    1 <= qs -> qs <= qe -> qe <= max_position ms d ->
    query_records Linear ms d file k qs qe = Some (scan_records file k qs qe).
Proof. exact query_equals_scan_linear. Qed.
Print Assumptions c04_query_equals_scan_linear.

(* Any index kind: the same conclusion whenever the pruning offset does not exceed the start
   offset of any record that intersects the region (this is the obligation the binned/CSI
   min_offset fails, see c04_binned_refuted). *)
Theorem c04_query_equals_scan_generic :
  forall ms d kd k file qs qe,
    offsets_ordered 0 file -> spans_ok ms d file ->
    1 <= qs -> qs <= qe -> qe <= max_position ms d ->
    (forall r, In r file -> intersects k qs qe r = true ->
               min_offset kd ms d (build_ref ms d k file) qs <= r_a r) ->
    query_records kd ms d file k qs qe = Some (scan_records file k qs qe).
Proof. exact query_equals_scan_generic. Qed.
Print Assumptions c04_query_equals_scan_generic.

(* every intersecting record's start offset is covered by the returned chunks *)
Theorem c04_index_complete :
  forall ms d k file qs qe r moff,
    offsets_ordered 0 file -> spans_ok ms d file -> 1 <= qs -> qs <= qe ->
    In r file -> intersects k qs qe r = true -> moff <= r_a r ->
    covered (optimize_chunks (query_chunks ms d (build_ref ms d k file) qs qe) moff) (r_a r).
Proof. exact query_complete_generic. Qed.
Print Assumptions c04_index_complete.

Theorem c04_linear_min_offset_sound :
  forall ms d k file qs qe r,
    offsets_ordered 0 file -> In r file -> intersects k qs qe r = true ->
    lin_min_offset (lin (build_ref ms d k file)) qs <= r_a r.
Proof. exact linear_min_offset_sound. Qed.
Print Assumptions c04_linear_min_offset_sound.

(* the chunks handed to the reader are pairwise separated, so no record is read twice *)
Theorem c04_chunks_pairwise_separated : forall cs m, Sorted.StronglySorted before (optimize_chunks cs m).
Proof. exact optimize_chunks_pairwise. Qed.
Print Assumptions c04_chunks_pairwise_separated.

Theorem c04_query_rejects_out_of_range :
  forall ms d kd ix qs qe,
    max_position ms d < qs \/ max_position ms d < qe -> query kd ms d ix qs qe = None.
Proof. exact query_rejects_out_of_range. Qed.
Print Assumptions c04_query_rejects_out_of_range.

(* the form of the query that the correspondence check executes is equal to the modelled one *)
Theorem c04_query_fast_eq : forall k ms d ix qs qe, query_fast k ms d ix qs qe = query k ms d ix qs qe.
Proof. exact query_fast_eq. Qed.
Print Assumptions c04_query_fast_eq.

(* Binned-offset indexes (CSI), for EVERY geometry, file and region: same statement.  This holds
   of the model of BinnedIndex::min_offset *after* the `fix:` commit in /repo (minimum loffset over
   all bins that do not end before the query start). *)
Theorem c04_query_equals_scan_binned :
  forall ms d k file qs qe,
    offsets_ordered 0 file -> spans_ok ms d file ->
    1 <= qs -> qs <= qe -> qe <= max_position ms d ->
    query_records Binned ms d file k qs qe = Some (scan_records file k qs qe).
Proof. exact query_equals_scan_binned. Qed.
Print Assumptions c04_query_equals_scan_binned.

Theorem c04_binned_min_offset_sound :
  forall ms d k file qs qe r,
    spans_ok ms d file -> 1 <= qs -> In r file -> intersects k qs qe r = true ->
    binned_min_offset ms d (loffs (build_ref ms d k file)) qs <= r_a r.
Proof. exact binned_min_offset_sound. Qed.
Print Assumptions c04_binned_min_offset_sound.

(* The pre-fix min_offset (nearest present ancestor-or-self of the query start's leaf bin) was
   unsound for indexes noodles itself builds: on this coordinate-sorted two-record file the
   pruning offset for region 100-20060 exceeds the start offset of the first record, which
   intersects the region, so its chunk was dropped.  (known_findings.json: fixed.) *)
Definition c04_witness_file : list rec :=
  [ mkrec 0 20000 20100 10 20 ; mkrec 0 20050 300000000 20 30 ].

Theorem c04_binned_old_refuted :
  offsets_ordered 0 c04_witness_file /\
  intersects 0 100 20060 (mkrec 0 20000 20100 10 20) = true /\
  r_a (mkrec 0 20000 20100 10 20) < binned_min_offset_old 14 5 (loffs (build_ref 14 5 0 c04_witness_file)) 100.
Proof.
  split; [cbn; repeat split; try discriminate; try (intro; discriminate)|].
  split; vm_compute; reflexivity.
Qed.
Print Assumptions c04_binned_old_refuted.

(* non-vacuity: a linear-index instance with a long record before a short one *)
Example c04_example :
  query_records Linear 14 5 c04_witness_file 0 100 20060 = Some c04_witness_file /\
  query_records Binned 14 5 c04_witness_file 0 100 20060 = Some c04_witness_file.
Proof. vm_compute. split; reflexivity. Qed.

(* ---- "used in memory or after being written to and read from an index file": the same
   query = scan statement for the index that is read back from the bytes of the index file
   (writer and reader models of NV.Index.Layout / NV.Index.CsiLayout, see C17).  BAI reads back
   equal; a CSI index reads back with different per-bin loffsets but the same query answers. ---- *)
From NV Require Import Index.Layout Index.LayoutProofs Index.CsiLayout Index.CsiLayoutProofs Index.ViaFileProofs.

Theorem c04_via_file_bai :
  forall ms d file meta nref unplaced k qs qe,
    let i := built_bai ms d file meta nref unplaced in
    bai_ok i -> offsets_ordered 0 file -> spans_ok ms d file ->
    1 <= qs -> qs <= qe -> qe <= max_position ms d -> (k < nref)%nat ->
    exists i', read_bai (w_bai i) = Some i' /\
      query_records_ix Linear ms d (bref_refidx (nth k (bi_refs i') empty_bref)) file (N.of_nat k) qs qe
      = Some (scan_records file (N.of_nat k) qs qe).
Proof. exact via_file_bai. Qed.
Print Assumptions c04_via_file_bai.

Theorem c04_via_file_csi :
  forall ms d file hdr meta nref unplaced k qs qe,
    let i := built_csi ms d file hdr meta nref unplaced in
    csi_ok i -> offsets_ordered 0 file -> spans_ok ms d file ->
    1 <= qs -> qs <= qe -> qe <= max_position ms d -> (k < nref)%nat ->
    exists i', w_csi i = WOk (w_csi_bytes i) /\ read_csi (w_csi_bytes i) = Some i' /\
      query_records_ix Binned ms d (cref_refidx (nth k (ci_refs i') empty_cref)) file (N.of_nat k) qs qe
      = Some (scan_records file (N.of_nat k) qs qe).
Proof. exact via_file_csi. Qed.
Print Assumptions c04_via_file_csi.

(* ---- the reference span "computed per the specs from POS and CIGAR": the model of
   sam::alignment::Record::alignment_end returns POS + (sum of the M D N = X lengths) - 1, POS
   when that sum is 0, and an error exactly when that does not fit a usize ---- *)
From NV Require Import Index.AlignEnd Index.AlignEndProofs.

Theorem c04_alignment_end_spec :
  forall s c, 1 <= s -> s < usize_lim ->
    alignment_end (Some s) c = if spec_end s c <? usize_lim then EPos (spec_end s c) else EErr.
Proof. exact alignment_end_spec. Qed.
Print Assumptions c04_alignment_end_spec.

Example c04_alignment_end_example :
  alignment_end (Some 100) [(4, 5); (0, 10); (1, 3); (2, 2); (3, 100); (7, 4); (8, 1); (5, 9)] = EPos 216 /\
  alignment_end (Some 100) [(4, 5); (1, 3)] = EPos 100 /\
  alignment_end (Some 2) [(0, 18446744073709551615)] = EErr.
Proof. vm_compute. repeat split; reflexivity. Qed.
