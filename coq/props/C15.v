(* C15 — Corrupt or hostile input is reported as an error, never a panic.   (partial by design)

   Property theorems only; each is closed by [exact] of a lemma proved in
   theories/Hostile/PanicsProofs.v about the totality-oriented models of theories/Hostile/Panics.v
   ([Panic site] placed exactly where the Rust panics).  Shape: for a decoder [d],
   [c15_d_total : forall input, ~ Known input -> d input is not a Panic] together with refutation
   witnesses [known_d_witness...] showing that each excluded class really panics.

   [c15_full_statement] is the property restricted to the three modelled decoders; the property
   itself quantifies over every reader of every crate and is covered for the rest by the
   implementation-side search only (partial by design).                                        *)
From Coq Require Import List NArith Bool.
From NV Require Import Hostile.Panics Hostile.PanicsProofs.
Import ListNotations.
Open Scope N_scope.

Definition c15_full_statement : Prop :=
  (forall frames k upos how, is_panic (seek_then frames k upos how) = false) /\
  (forall ms depth id s e, is_panic (query ms depth id s e) = false) /\
  (forall bytes, is_panic (rfreq bytes) = false).

(* ---- (1) BGZF: Data::as_ref and a read after seek ---------------------------------------- *)

Theorem c15_data_as_ref_total_partial :
  forall len pos, pos <= len -> is_panic (data_as_ref len pos) = false.
Proof. exact data_as_ref_total. Qed.
Print Assumptions c15_data_as_ref_total_partial.

Theorem c15_data_as_ref_panics_iff :
  forall len pos, is_panic (data_as_ref len pos) = true <-> len < pos.
Proof. exact data_as_ref_panics_iff. Qed.
Print Assumptions c15_data_as_ref_panics_iff.

(* After the repair of finding F12 (Data::set_position clamps): fill_buf / read_exact after a seek
   never panic, for EVERY file layout, frame and in-block offset. *)
Theorem c15_bgzf_seek_read_total :
  forall frames k upos how, is_panic (seek_then frames k upos how) = false.
Proof. exact seek_then_total. Qed.
Print Assumptions c15_bgzf_seek_read_total.

(* The reader before the repair: total only when the offset lies within the loaded block, and
   read_exact ALWAYS panicked beyond it — the recorded (fixed) finding. *)
Theorem c15_bgzf_seek_read_unclamped_total_partial :
  forall frames k upos how,
    upos <= loaded_len (skipn k frames) -> is_panic (seek_then_unclamped frames k upos how) = false.
Proof. exact seek_then_unclamped_total. Qed.
Print Assumptions c15_bgzf_seek_read_unclamped_total_partial.

Theorem c15_bgzf_seek_read_exact_unclamped_refuted :
  forall frames k upos how,
    how <> 0 -> loaded_len (skipn k frames) < upos ->
    seek_then_unclamped frames k upos how = Panic S_DATA_SLICE.
Proof. exact seek_read_exact_unclamped_panics. Qed.
Print Assumptions c15_bgzf_seek_read_exact_unclamped_refuted.

(* ---- (2) CSI: ReferenceSequence::query on an arbitrary geometry and bin id ---------------- *)

(* After the repairs (max_position returns Err for min_shift = 0 / depth > 10 / shift >= 64,
   bin_limit computed in i64, region_bins.get(id).unwrap_or(false)) the query never panics, for
   EVERY min_shift, depth, bin id and region: no excluded class is left. *)
Theorem c15_csi_query_total :
  forall ms depth id s e, is_panic (query ms depth id s e) = false.
Proof. exact query_total. Qed.
Print Assumptions c15_csi_query_total.

Theorem c15_csi_query_hostile_geometry_err :
  forall ms depth id s e,
    ms = 0 \/ 10 < depth \/ 64 <= ms + 3 * depth -> query ms depth id s e = Err.
Proof. exact query_hostile_geometry_err. Qed.
Print Assumptions c15_csi_query_hostile_geometry_err.

Theorem c15_csi_query_hostile_bin_not_selected :
  forall ms depth id s e nbits,
    bin_limit depth = Ok nbits -> nbits <= id ->
    query ms depth id s e = Err \/ query ms depth id s e = Ok false.
Proof. exact query_hostile_bin_not_selected. Qed.
Print Assumptions c15_csi_query_hostile_bin_not_selected.

(* the code before the repairs panicked at six sites (recorded as fixed findings) *)
Theorem fixed_csi_query_v0_witness :
  query_v0 0 5 0 1 1 = Panic S_ASSERT_MIN_SHIFT /\
  query_v0 200 5 0 1 1 = Panic S_SHL_USIZE /\
  query_v0 1 30 0 1 1 = Panic S_SHL_USIZE /\
  query_v0 14 11 0 1 1 = Panic S_ASSERT_DEPTH /\
  query_v0 14 10 0 1 1 = Panic S_SHL_I32 /\
  query_v0 14 5 37449 1 1 = Panic S_BITVEC_INDEX.
Proof. exact query_v0_witnesses. Qed.
Print Assumptions fixed_csi_query_v0_witness.

Definition states_tail : list N := [0;0;128;0; 0;0;128;0; 0;0;128;0; 0;0;128;0; 0;0;0;0;0;0;0;0].

(* ---- (3) rANS 4x8 order-0: frequency table + one decoded symbol ---------------------------- *)

(* After the repairs (checked symbol increment; validate_frequencies: table sum <= 4096) reading
   the frequency table, building the cumulative table, reading the states and decoding a symbol
   never panics, for EVERY byte string: the cumulative u16 sum cannot overflow and the u32
   state step can neither overflow nor underflow. *)
Theorem c15_rans_freq_total : forall bytes, is_panic (rfreq bytes) = false.
Proof. exact rfreq_total. Qed.
Print Assumptions c15_rans_freq_total.

(* the decoder before the repairs panicked on these tables (finding F10, fixed) *)
Theorem fixed_rans_freq_v0_witness :
  rfreq_v0 ([254; 5; 255; 1; 1; 0] ++ states_tail) = Panic S_SYM_ADD /\
  rfreq_v0 ([97; 192; 255; 255; 99; 1; 0] ++ states_tail) = Panic S_CUM_ADD.
Proof. split; vm_compute; reflexivity. Qed.
Print Assumptions fixed_rans_freq_v0_witness.

(* All three modelled decoders are now total: the statement below, which the first revision of
   this file REFUTED (c15_full_statement_refuted), holds of the repaired code. *)
Theorem c15_modelled_decoders_total : c15_full_statement.
Proof.
  split; [exact seek_then_total | split; [exact query_total | exact rfreq_total]].
Qed.
Print Assumptions c15_modelled_decoders_total.

(* non-vacuity: the hypotheses are satisfiable and the models accept ordinary inputs *)
Example c15_nonvacuous_seek : loaded_len (skipn 1 [5; 7]) = 7 /\ seek_then [5; 7] 1 3 0 = Ok 4.
Proof. split; vm_compute; reflexivity. Qed.
Example c15_nonvacuous_query : query 14 10 0 1 1 = Ok true /\ query 14 5 4681 1 16384 = Ok true.
Proof. split; vm_compute; reflexivity. Qed.
Example c15_nonvacuous_rfreq : rfreq ([97; 5; 98; 2; 2; 1; 1; 114; 2; 0] ++ states_tail) = Ok tt.
Proof. vm_compute. reflexivity. Qed.
