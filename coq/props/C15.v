(* C15 — Corrupt or hostile input is reported as an error, never a panic.   (partial by design)

   Property theorems only; each is closed by [exact] of a lemma proved in
   theories/Hostile/PanicsProofs.v about the totality-oriented models of theories/Hostile/Panics.v
   ([Panic site] placed exactly where the Rust panics).  Shape: for a decoder [d],
   [c15_d_total : forall input, ~ Known input -> d input is not a Panic] together with refutation
   witnesses [known_d_witness...] showing that each excluded class really panics.

   [c15_full_statement] is the property restricted to the three modelled decoders; the property
   itself quantifies over every reader of every crate and is covered for the rest by the
   implementation-side search only (partial by design).                                        *)
From Coq Require Import List NArith ZArith Bool.
From NV Require Import Hostile.Panics Hostile.PanicsProofs.
(* the decoders of other properties (read-only imports, never [Import]ed: their Ok / Err / Panic
   constructors are written with their module names below) and the C15 totality proofs *)
From NV Require Sam.Lazy Text.TextBase Text.Gff Text.GffLine Text.Gtf Text.GtfLine Text.BedRec
  Text.BedRecProofs Vcf.Span Vcf.SpanProofs Bgzf.Frame Bgzf.Reader Bgzf.Inflate Bgzf.InflateFuel
  Bam.Record Bam.Decode Bam.Lazy Cram.Itf8 Cram.Ltf8 Cram.Vlq Cram.Nx16Xform Cram.Nx16XformProofs
  Index.Layout Bcf.Typed Bcf.Strings Bcf.Genotype Bcf.Record Bcf.RecordTyped Bcf.NeverPanics.
From NV Require Index.CsiLayout Index.TextIndex.
From NV Require Hostile.TotalSam Hostile.TotalText Hostile.TotalBin Hostile.TotalBam Hostile.TotalBcf Hostile.TotalIdx Hostile.Fused Hostile.FusedProofs.
(* sixth wave: CRAM codecs (C08), SAM lazy data (C06), BAM file / reused buffer (C05), BGZF inflater
   soundness (C01), CRAM framing (C13) and index walk / query (C19), FASTA / FASTQ (C11), VCF lazy
   record (C12) *)
From NV Require Cram.Nx16O0 Cram.Nx16O1 Cram.Nx16Full Cram.Nx16Stripe Cram.Aac Cram.AacRle Cram.Fqz Cram.Names
  Cram.Cap Cram.Nx16Cap Cram.AacCap Cram.FqzCap Cram.NamesCap
  Cram.Nx16O0Total Cram.Nx16O1Total Cram.Nx16StripeProofs Cram.AacTotal Cram.AacModesTotal Cram.FqzTotal
  Cram.NamesTotal Cram.Nx16CapProofs Cram.AacCapProofs Cram.FqzCapProofs Cram.NamesCapProofs.
From NV Require Sam.LazyData Sam.LazyDataProofs Bam.File Bam.FileProofs Bam.Reuse Bam.ReuseProofs
  Bgzf.InflateSpec Bgzf.InflateReader Bgzf.Crc32 Trunc.Stream Trunc.Cram Trunc.CramBlocks CramIdx.Bytes
  CramIdx.AsyncQuery Fasta.Layout Fasta.Reader Fasta.Indexer Fasta.Fastq Io.TabRead Io.Run.
From NV Require Hostile.TotalCram Hostile.TotalFast Hostile.TotalVcf.
From NV Require Vcf.Line Vcf.LazyRec Vcf.LazyRecProofs.
From NV Require Bcf.Lazy Bcf.LazyProofs.
(* eighth wave: the CRAM slice reader's resolve_mates with explicit index panics (own model, L2 kind
   cmate) over C07's record arithmetic *)
From NV Require CramRec.Features CramRec.Mates Hostile.MatesP Hostile.MatesPProofs.
From NV Require Bcf.LazySiteProofs Bcf.LazyEagerProofs Bcf.LazyConverse.
Import ListNotations.
Open Scope N_scope.

Definition c15_full_statement : Prop :=
  (forall frames k upos how, is_panic (seek_then frames k upos how) = false) /\
  (forall ms depth id s e, is_panic (query ms depth id s e) = false) /\
  (forall bytes, is_panic (rfreq bytes) = false).

(* ---- (1) BGZF: Data::as_ref and a read after seek ---------------------------------------- *)

Theorem c15_data_as_ref_total_partial :
  forall len pos, pos <= len -> is_panic (data_as_ref len pos) = false.
Proof. exact data_as_ref_total. Qed.
Print Assumptions c15_data_as_ref_total_partial.

Theorem c15_data_as_ref_panics_iff :
  forall len pos, is_panic (data_as_ref len pos) = true <-> len < pos.
Proof. exact data_as_ref_panics_iff. Qed.
Print Assumptions c15_data_as_ref_panics_iff.

(* After the repair of finding F12 (Data::set_position clamps): fill_buf / read_exact after a seek
   never panic, for EVERY file layout, frame and in-block offset. *)
Theorem c15_bgzf_seek_read_total :
  forall frames k upos how, is_panic (seek_then frames k upos how) = false.
Proof. exact seek_then_total. Qed.
Print Assumptions c15_bgzf_seek_read_total.

(* The reader before the repair: total only when the offset lies within the loaded block, and
   read_exact ALWAYS panicked beyond it — the recorded (fixed) finding. *)
Theorem c15_bgzf_seek_read_unclamped_total_partial :
  forall frames k upos how,
    upos <= loaded_len (skipn k frames) -> is_panic (seek_then_unclamped frames k upos how) = false.
Proof. exact seek_then_unclamped_total. Qed.
Print Assumptions c15_bgzf_seek_read_unclamped_total_partial.

Theorem c15_bgzf_seek_read_exact_unclamped_refuted :
  forall frames k upos how,
    how <> 0 -> loaded_len (skipn k frames) < upos ->
    seek_then_unclamped frames k upos how = Panic S_DATA_SLICE.
Proof. exact seek_read_exact_unclamped_panics. Qed.
Print Assumptions c15_bgzf_seek_read_exact_unclamped_refuted.

(* ---- (2) CSI: ReferenceSequence::query on an arbitrary geometry and bin id ---------------- *)

(* After the repairs (max_position returns Err for min_shift = 0 / depth > 10 / shift >= 64,
   bin_limit computed in i64, region_bins.get(id).unwrap_or(false)) the query never panics, for
   EVERY min_shift, depth, bin id and region: no excluded class is left. *)
Theorem c15_csi_query_total :
  forall ms depth id s e, is_panic (query ms depth id s e) = false.
Proof. exact query_total. Qed.
Print Assumptions c15_csi_query_total.

Theorem c15_csi_query_hostile_geometry_err :
  forall ms depth id s e,
    ms = 0 \/ 10 < depth \/ 64 <= ms + 3 * depth -> query ms depth id s e = Err.
Proof. exact query_hostile_geometry_err. Qed.
Print Assumptions c15_csi_query_hostile_geometry_err.

Theorem c15_csi_query_hostile_bin_not_selected :
  forall ms depth id s e nbits,
    bin_limit depth = Ok nbits -> nbits <= id ->
    query ms depth id s e = Err \/ query ms depth id s e = Ok false.
Proof. exact query_hostile_bin_not_selected. Qed.
Print Assumptions c15_csi_query_hostile_bin_not_selected.

(* the code before the repairs panicked at six sites (recorded as fixed findings) *)
Theorem fixed_csi_query_v0_witness :
  query_v0 0 5 0 1 1 = Panic S_ASSERT_MIN_SHIFT /\
  query_v0 200 5 0 1 1 = Panic S_SHL_USIZE /\
  query_v0 1 30 0 1 1 = Panic S_SHL_USIZE /\
  query_v0 14 11 0 1 1 = Panic S_ASSERT_DEPTH /\
  query_v0 14 10 0 1 1 = Panic S_SHL_I32 /\
  query_v0 14 5 37449 1 1 = Panic S_BITVEC_INDEX.
Proof. exact query_v0_witnesses. Qed.
Print Assumptions fixed_csi_query_v0_witness.

Definition states_tail : list N := [0;0;128;0; 0;0;128;0; 0;0;128;0; 0;0;128;0; 0;0;0;0;0;0;0;0].

(* ---- (3) rANS 4x8 order-0: frequency table + one decoded symbol ---------------------------- *)

(* After the repairs (checked symbol increment; validate_frequencies: table sum <= 4096) reading
   the frequency table, building the cumulative table, reading the states and decoding a symbol
   never panics, for EVERY byte string: the cumulative u16 sum cannot overflow and the u32
   state step can neither overflow nor underflow. *)
Theorem c15_rans_freq_total : forall bytes, is_panic (rfreq bytes) = false.
Proof. exact rfreq_total. Qed.
Print Assumptions c15_rans_freq_total.

(* the decoder before the repairs panicked on these tables (finding F10, fixed) *)
Theorem fixed_rans_freq_v0_witness :
  rfreq_v0 ([254; 5; 255; 1; 1; 0] ++ states_tail) = Panic S_SYM_ADD /\
  rfreq_v0 ([97; 192; 255; 255; 99; 1; 0] ++ states_tail) = Panic S_CUM_ADD.
Proof. split; vm_compute; reflexivity. Qed.
Print Assumptions fixed_rans_freq_v0_witness.

(* All three modelled decoders are now total: the statement below, which the first revision of
   this file REFUTED (c15_full_statement_refuted), holds of the repaired code. *)
Theorem c15_modelled_decoders_total : c15_full_statement.
Proof.
  split; [exact seek_then_total | split; [exact query_total | exact rfreq_total]].
Qed.
Print Assumptions c15_modelled_decoders_total.

(* non-vacuity: the hypotheses are satisfiable and the models accept ordinary inputs *)
Example c15_nonvacuous_seek : loaded_len (skipn 1 [5; 7]) = 7 /\ seek_then [5; 7] 1 3 0 = Ok 4.
Proof. split; vm_compute; reflexivity. Qed.
Example c15_nonvacuous_query : query 14 10 0 1 1 = Ok true /\ query 14 5 4681 1 16384 = Ok true.
Proof. split; vm_compute; reflexivity. Qed.
Example c15_nonvacuous_rfreq : rfreq ([97; 5; 98; 2; 2; 1; 1; 114; 2; 0] ++ states_tail) = Ok tt.
Proof. vm_compute. reflexivity. Qed.


(* ============================================================================================ *)
(* TOTALITY OF THE DECODERS MODELLED BY OTHER PROPERTIES (third deepening wave).                 *)
(* Each theorem quantifies over EVERY byte string; the model functions are the ones the owning   *)
(* property extracts and compares with the crates (C01 BGZF, C05 BAM, C06 SAM, C08 CRAM codecs,  *)
(* C09 VCF, C10 BCF, C04/C13 index layouts, C18 GFF/GTF/BED).  A model outcome that stands for a *)
(* Rust panic (Panic / LPanic / APanic / None-of-a-slice) is shown unreachable; where a model    *)
(* loop runs on fuel, the fuel is shown never to be the reason of a result.                      *)
(* ============================================================================================ *)

(* ---- (4) SAM: read_record + every accessor of the lazy sam::Record -------------------------- *)

(* For every reference dictionary and every text: the result is a record view, an accessor error
   (LErr col), end of input or InvalidData -- never a slice panic (LPanic) in any column. *)
Theorem c15_sam_lazy_total : forall refs text c,
  NV.Sam.Lazy.lazy_view refs text <> NV.Sam.Lazy.LPanic c.
Proof. intros refs text c. exact (NV.Hostile.TotalSam.sam_lazy_view_total refs text c). Qed.
Print Assumptions c15_sam_lazy_total.

(* the reason: the eleven bounds are nondecreasing and end inside the buffer, for every input *)
Theorem c15_sam_lazy_bounds : forall text buf ends,
  NV.Sam.Lazy.lazy_read text = NV.Sam.Lazy.LRec buf ends ->
  NV.Hostile.TotalSam.chainN 0 ends (NV.Sam.Fields.len buf) /\ length ends = 11%nat.
Proof. exact NV.Hostile.TotalSam.sam_lazy_read_bounds. Qed.
Print Assumptions c15_sam_lazy_bounds.

(* ---- (5) GFF3 / GTF: line_bufs(), record_bufs(), the lazy line view ------------------------- *)

Theorem c15_gff_line_bufs_total : forall prs text,
  Forall (fun b => b <> NV.Text.GffLine.BRecord NV.Text.TextBase.Panic)
         (NV.Text.GffLine.gff_file_line_bufs prs text)
  /\ Forall (fun r => r <> NV.Text.TextBase.Panic)
            (NV.Text.GffLine.gff_record_bufs (NV.Text.GffLine.gff_file_line_bufs prs text)).
Proof.
  intros prs text. split;
  [apply NV.Hostile.TotalText.gff_file_line_bufs_total | apply NV.Hostile.TotalText.gff_file_record_bufs_total].
Qed.
Print Assumptions c15_gff_line_bufs_total.

(* Line::as_record is never reached on a line that is not a record, and the attribute iterator of
   a record ends normally or with InvalidData: neither a panic nor the model's fuel *)
Theorem c15_gff_line_total : forall prs line col,
  NV.Text.GffLine.gff_classify prs line <> NV.Text.GffLine.GRecord NV.Text.Gff.NotRecord /\
  (snd (NV.Text.Gff.gff_attrs_parse col) = None \/
   snd (NV.Text.Gff.gff_attrs_parse col) = Some (NV.Text.TextBase.Err NV.Text.TextBase.InvalidData)).
Proof.
  intros prs line col. split;
  [apply NV.Hostile.TotalText.gff_classify_total | apply NV.Hostile.TotalText.gff_attrs_parse_end].
Qed.
Print Assumptions c15_gff_line_total.

Theorem c15_gtf_line_bufs_total : forall prs text,
  Forall (fun b => b <> NV.Text.GtfLine.TBRecord NV.Text.TextBase.Panic)
         (NV.Text.GtfLine.gtf_file_line_bufs prs text).
Proof. exact NV.Hostile.TotalText.gtf_file_line_bufs_total. Qed.
Print Assumptions c15_gtf_line_bufs_total.

Theorem c15_gtf_line_total : forall prs line col,
  NV.Text.GtfLine.gtf_classify prs line <> NV.Text.GtfLine.TRecord NV.Text.Gtf.GNotRecord /\
  NV.Text.Gtf.gtf_attrs_parse col <> NV.Text.TextBase.Panic /\
  NV.Text.Gtf.gtf_attrs_parse col <> NV.Text.TextBase.Err NV.Text.TextBase.OutOfFuel.
Proof.
  intros prs line col. split;
  [apply NV.Hostile.TotalText.gtf_classify_total | apply NV.Hostile.TotalText.gtf_attrs_parse_total].
Qed.
Print Assumptions c15_gtf_line_total.

(* ---- (6) BED: the reader loop over one reused record, any input, any previous record state --- *)

(* no call returns a panic or runs out of fuel; every record returned Ok has panic-free accessors
   and a panic-free owned conversion (whole-file closure of c18_bed_read_ok_no_panic) *)
Theorem c15_bed_read_file_total : forall fuel n src old,
  (3 <= n)%nat -> length (NV.Text.BedRec.bf_std old) = n ->
  Forall (NV.Hostile.TotalText.bed_item_ok n) (NV.Text.BedRec.bed_read_file fuel n src old).
Proof. exact NV.Hostile.TotalText.bed_read_file_total. Qed.
Print Assumptions c15_bed_read_file_total.

(* ---- (7) VCF: variant_end / variant_span of any record (C09's theorem, restated) ------------- *)
Theorem c15_vcf_span_total : forall v45 r,
  NV.Vcf.Span.variant_end v45 r <> NV.Text.TextBase.Panic /\
  NV.Vcf.Span.variant_span v45 r <> NV.Text.TextBase.Panic.
Proof.
  intros v45 r. destruct (NV.Vcf.SpanProofs.variant_span_no_panic v45 r) as (H1 & H2 & _).
  split; assumption.
Qed.
Print Assumptions c15_vcf_span_total.

(* ---- (8) BGZF: frame parser, block parser and read_to_end on any bytes ----------------------- *)

(* for EVERY inflater (so also for the real one): Ok or an io::Error; the only Panic of the model
   is the fuel of the frame loop, and every frame consumes >= 26 bytes *)
Theorem c15_bgzf_read_to_end_total : forall inflate src,
  NV.Bgzf.Frame.parse_frame src <> NV.Bgzf.Frame.Panic /\
  NV.Bgzf.Reader.parse_block inflate src <> NV.Bgzf.Frame.Panic /\
  snd (NV.Bgzf.Reader.reader_read_to_end inflate src) <> NV.Bgzf.Frame.Panic.
Proof.
  intros inflate src. split; [apply NV.Hostile.TotalBin.parse_frame_total|].
  split; [apply NV.Hostile.TotalBin.parse_block_total | apply NV.Hostile.TotalBin.bgzf_read_to_end_total].
Qed.
Print Assumptions c15_bgzf_read_to_end_total.

Theorem c15_bgzf_read_blocks_fuel : forall inflate f1 f2 src,
  (length src < f1)%nat -> (length src < f2)%nat ->
  NV.Bgzf.Reader.read_blocks inflate f1 src = NV.Bgzf.Reader.read_blocks inflate f2 src.
Proof. exact NV.Hostile.TotalBin.bgzf_read_blocks_fuel. Qed.
Print Assumptions c15_bgzf_read_blocks_fuel.

(* the executable INFLATE of C01: its None is never "out of fuel" (C01's theorem, restated) *)
Theorem c15_inflate_fuel_total : forall f cf limit src,
  (8 * length src < f)%nat -> (8 * length src < cf)%nat ->
  match NV.Bgzf.Inflate.blocks f cf limit ([], src) NV.Bgzf.Inflate.ob_empty with
  | None => None
  | Some (s, o) => Some (rev_append (NV.Bgzf.Inflate.ob_rev o) [], snd s)
  end = NV.Bgzf.Inflate.inflate_raw limit src.
Proof. exact NV.Bgzf.InflateFuel.inflate_fuel_sufficient. Qed.
Print Assumptions c15_inflate_fuel_total.

(* ---- (9) BAM: eager decoder loops and the lazy accessors ------------------------------------- *)

(* the fuel of the four eager loops and of the two lazy walkers is never the reason of a result *)
Theorem c15_bam_decode_fuel :
  (forall f1 f2 cnt bs, (length bs <= f1)%nat -> (length bs <= f2)%nat ->
     NV.Bam.Decode.dec_ops f1 cnt bs = NV.Bam.Decode.dec_ops f2 cnt bs) /\
  (forall w sg, (1 <= w)%nat -> forall f1 f2 cnt bs, (length bs <= f1)%nat -> (length bs <= f2)%nat ->
     NV.Bam.Decode.dec_elems f1 w sg cnt bs = NV.Bam.Decode.dec_elems f2 w sg cnt bs) /\
  (forall f1 f2 bs acc, (length bs <= f1)%nat -> (length bs <= f2)%nat ->
     NV.Bam.Decode.dec_data f1 bs acc = NV.Bam.Decode.dec_data f2 bs acc) /\
  (forall f1 f2 bs, (length bs <= f1)%nat -> (length bs <= f2)%nat ->
     NV.Bam.Lazy.lz_fields f1 bs = NV.Bam.Lazy.lz_fields f2 bs) /\
  (forall f1 f2 bs, (length bs <= f1)%nat -> (length bs <= f2)%nat ->
     NV.Bam.Lazy.raw_cigar f1 bs = NV.Bam.Lazy.raw_cigar f2 bs).
Proof.
  split; [exact NV.Hostile.TotalBam.dec_ops_fuel|].
  split; [exact NV.Hostile.TotalBam.dec_elems_fuel|].
  split; [exact NV.Hostile.TotalBam.dec_data_fuel|].
  split; [exact NV.Hostile.TotalBam.lz_fields_fuel | exact NV.Hostile.TotalBam.raw_cigar_fuel].
Qed.
Print Assumptions c15_bam_decode_fuel.

(* any stream position: if read_record frames a body and validate accepts it, no lazy accessor of
   the returned record panics (C05's lemmas in one statement; None of an accessor = Rust panic) *)
Theorem c15_bam_read_record_accessors_total : forall block bs rest body tail,
  NV.Bam.Record.rdW 4 block = Some (bs, rest) -> NV.Bam.Record.takeN bs rest = Some (body, tail) ->
  NV.Bam.Decode.validate body = NV.Bam.Record.Ok tt ->
  (exists v, NV.Bam.Lazy.lazy_view_of body = Some v /\
     NV.Bam.Lazy.v_name v <> None /\ NV.Bam.Lazy.v_cigar v <> None /\ NV.Bam.Lazy.v_seq v <> None /\
     NV.Bam.Lazy.v_qual v <> None /\ NV.Bam.Lazy.v_data_raw v <> None)
  /\ (exists d, NV.Bam.Lazy.lzp_data body = Some d)
  /\ (forall i, exists x, NV.Bam.Lazy.lzp_seq_get body i = Some x).
Proof. exact NV.Hostile.TotalBam.bam_read_record_accessors_total. Qed.
Print Assumptions c15_bam_read_record_accessors_total.

(* ---- (10) CRAM integer codings and the Nx16 transforms --------------------------------------- *)

(* a successful read consumes at least one byte (no loop built on them can spin) and uint7 stays a
   u32 although `n <<= 7` drops bits *)
Theorem c15_cram_ints_total :
  (forall bs z r, NV.Cram.Itf8.read_itf8 bs = Some (z, r) -> (length r < length bs)%nat) /\
  (forall bs z r, NV.Cram.Ltf8.read_ltf8 bs = Some (z, r) -> (length r < length bs)%nat) /\
  (forall bs v r, NV.Cram.Vlq.read_uint7 bs = NV.Cram.Vlq.U7Ok v r ->
                  (length r < length bs)%nat /\ (v < 4294967296)%N).
Proof.
  split; [exact NV.Hostile.TotalBin.read_itf8_progress|].
  split; [exact NV.Hostile.TotalBin.read_ltf8_progress|].
  intros bs v r H. split;
  [exact (NV.Hostile.TotalBin.read_uint7_progress bs v r H) | exact (NV.Hostile.TotalBin.read_uint7_range bs v r H)].
Qed.
Print Assumptions c15_cram_ints_total.

(* rANS Nx16 PACK / RLE / CAT decode of any bytes never panics (C08's theorem, restated) *)
Theorem c15_nx16_decode_total : forall bs usize,
  NV.Cram.Nx16Xform.nx_decode bs usize <> NV.Cram.Nx16Xform.DPanic.
Proof. exact NV.Cram.Nx16XformProofs.nx_decode_never_panics. Qed.
Print Assumptions c15_nx16_decode_total.

(* ---- (11) index readers: a hostile count is only accepted when the bytes are there ------------ *)

Theorem c15_gzi_read_bounded : forall bs l,
  NV.Index.Layout.read_gzi bs = Some l -> length bs = (8 + 16 * length l)%nat.
Proof. exact NV.Hostile.TotalBin.read_gzi_bounded. Qed.
Print Assumptions c15_gzi_read_bounded.

(* bai_items = 8 per bin + 16 per chunk + 8 per linear-index entry, summed over the references *)
Theorem c15_bai_read_bounded : forall bs i,
  NV.Index.Layout.read_bai bs = Some i ->
  (8 + 8 * length (NV.Index.Layout.bi_refs i) <= length bs)%nat /\
  (8 + NV.Hostile.TotalBin.bai_items (NV.Index.Layout.bi_refs i) <= length bs)%nat.
Proof. exact NV.Hostile.TotalBin.read_bai_bounded. Qed.
Print Assumptions c15_bai_read_bounded.

(* tabix: 36 = magic + n_ref + the 28 fixed header bytes; 8 bytes per reference, bin and interval,
   16 per chunk *)
Theorem c15_tbi_read_bounded : forall bs i,
  NV.Index.CsiLayout.read_tbi bs = Some i ->
  (36 + 8 * length (NV.Index.CsiLayout.ti_refs i) <= length bs)%nat /\
  (36 + NV.Hostile.TotalBin.bai_items (NV.Index.CsiLayout.ti_refs i) <= length bs)%nat.
Proof. exact NV.Hostile.TotalIdx.read_tbi_bounded. Qed.
Print Assumptions c15_tbi_read_bounded.

(* CSI: 4 bytes per reference (and 16 per bin inside a reference: p_csi_ref_consumes); an accepted
   index always carries a geometry that max_position accepts (min_shift > 0, depth <= 10), which is
   the precondition under which c15_csi_query_total needs no error branch *)
Theorem c15_csi_read_bounded : forall bs i,
  NV.Index.CsiLayout.read_csi bs = Some i ->
  (20 + 4 * length (NV.Index.CsiLayout.ci_refs i) <= length bs)%nat /\
  NV.Index.CsiLayout.ci_ms i <> 0 /\ (NV.Index.CsiLayout.ci_depth i <= 10)%nat.
Proof. exact NV.Hostile.TotalIdx.read_csi_bounded. Qed.
Print Assumptions c15_csi_read_bounded.

Theorem c15_csi_ref_bounded : forall d bs x r,
  NV.Index.CsiLayout.p_csi_ref d bs = Some (x, r) ->
  (4 + 16 * length (NV.Index.CsiLayout.cr_bins x) + length r <= length bs)%nat.
Proof. exact NV.Hostile.TotalIdx.p_csi_ref_consumes. Qed.
Print Assumptions c15_csi_ref_bounded.

(* fai / crai line loop: the model's fuel is never the reason of a result *)
Theorem c15_text_index_fuel : forall f bs, (length bs < f)%nat ->
  NV.Index.TextIndex.read_lines_bytes f NV.Index.TextIndex.parse_fai_rec bs = NV.Index.TextIndex.read_fai bs /\
  NV.Index.TextIndex.read_lines f NV.Index.TextIndex.parse_crai_rec bs = NV.Index.TextIndex.read_crai bs.
Proof.
  intros f bs H. split;
  [exact (NV.Hostile.TotalIdx.read_fai_fuel f bs H) | exact (NV.Hostile.TotalIdx.read_crai_fuel f bs H)].
Qed.
Print Assumptions c15_text_index_fuel.

(* ---- (12) BCF: the eager record decoder's counts are bounded by the bytes present ------------- *)

Theorem c15_bcf_fields_bounded : forall m mult dup n bs l r,
  NV.Bcf.Record.dec_fields m mult dup n bs = Some (l, r) ->
  (3 * n + length r <= length bs)%nat /\ length l = n.
Proof. exact NV.Hostile.TotalBcf.dec_fields_bounded. Qed.
Print Assumptions c15_bcf_fields_bounded.

Theorem c15_bcf_record_bounded : forall strings contigs hs bs h infos fmts rest,
  NV.Bcf.Record.dec_record strings contigs hs bs = Some (h, infos, fmts, rest) ->
  (8 + 3 * length fmts + length rest <= length bs)%nat /\ (NV.Bcf.Record.h_n_sample h <= hs)%Z.
Proof. exact NV.Hostile.TotalBcf.dec_record_bounded. Qed.
Print Assumptions c15_bcf_record_bounded.

(* The BCF typed descriptor reader (read_type <-> read_value).  Before fix ea50dd5 the descriptor
   0xf1^n 0x11 0x01^n was accepted with recursion depth n + 1 (finding
   stack-bcf-typed-length-nesting: stack overflow for n ~ 10^5; the previous revision of this file
   proved that refutation).  Now the recursion is one level deep for EVERY byte string: fuel 2 gives
   the result of any larger fuel, and a run of two or more length-overflow descriptors is rejected. *)
Theorem c15_bcf_read_type_depth_two : forall f bs,
  NV.Bcf.Typed.dec_type (S (S f)) bs = NV.Bcf.Typed.dec_type 2 bs.
Proof. exact NV.Hostile.TotalBcf.dec_type_depth_two. Qed.
Print Assumptions c15_bcf_read_type_depth_two.

Theorem c15_bcf_read_type_nested_rejected : forall f n rest, (2 <= n)%nat ->
  NV.Bcf.Typed.dec_type f (repeat 241 n ++ rest) = None.
Proof. exact NV.Hostile.TotalBcf.dec_type_nested_rejected. Qed.
Print Assumptions c15_bcf_read_type_nested_rejected.

(* BCF typed VALUE decoders and read_record_buf as a whole (typed): never the panic outcome, for
   every byte string, sample count, dictionary and header typing (C10's NV.Bcf.NeverPanics, whose
   models follow the repaired decoders and are compared with the crates on hostile bytes by C10's
   hx* kinds) *)
Theorem c15_bcf_values_total :
  (forall array bs, NV.Bcf.Typed.dec_info_int_gen array bs <> NV.Bcf.Typed.RPanic) /\
  (forall array bs, NV.Bcf.Typed.dec_info_float_gen array bs <> NV.Bcf.Typed.RPanic) /\
  (forall bs, NV.Bcf.Strings.dec_info_str bs <> NV.Bcf.Typed.RPanic /\
              NV.Bcf.Strings.dec_info_strs bs <> NV.Bcf.Typed.RPanic /\
              NV.Bcf.Strings.dec_info_char bs <> NV.Bcf.Typed.RPanic /\
              NV.Bcf.Strings.dec_info_chars bs <> NV.Bcf.Typed.RPanic) /\
  (forall scalar ns bs, NV.Bcf.Typed.dec_fmt_int_gen scalar ns bs <> NV.Bcf.Typed.RPanic) /\
  (forall scalar ns bs, NV.Bcf.Typed.dec_fmt_float_gen scalar ns bs <> NV.Bcf.Typed.RPanic) /\
  (forall ns bs, NV.Bcf.Strings.dec_fmt_chars ns bs <> NV.Bcf.Typed.RPanic /\
                 NV.Bcf.Strings.dec_fmt_char_arrays ns bs <> NV.Bcf.Typed.RPanic /\
                 NV.Bcf.Strings.dec_fmt_strings ns bs <> NV.Bcf.Typed.RPanic /\
                 NV.Bcf.Strings.dec_fmt_str_arrays ns bs <> NV.Bcf.Typed.RPanic) /\
  (forall ns bs, NV.Bcf.Genotype.dec_gt ns bs <> NV.Bcf.Typed.RPanic).
Proof.
  split; [exact NV.Bcf.NeverPanics.dec_info_int_gen_np|].
  split; [exact NV.Bcf.NeverPanics.dec_info_float_gen_np|].
  split; [intro bs; repeat split;
          [apply NV.Bcf.NeverPanics.dec_info_str_np | apply NV.Bcf.NeverPanics.dec_info_strs_np
          | apply NV.Bcf.NeverPanics.dec_info_char_np | apply NV.Bcf.NeverPanics.dec_info_chars_np]|].
  split; [exact NV.Bcf.NeverPanics.dec_fmt_int_gen_np|].
  split; [exact NV.Bcf.NeverPanics.dec_fmt_float_gen_np|].
  split; [intros ns bs; repeat split;
          [apply NV.Bcf.NeverPanics.dec_fmt_chars_np | apply NV.Bcf.NeverPanics.dec_fmt_char_arrays_np
          | apply NV.Bcf.NeverPanics.dec_fmt_strings_np | apply NV.Bcf.NeverPanics.dec_fmt_str_arrays_np]|].
  exact NV.Bcf.NeverPanics.dec_gt_np.
Qed.
Print Assumptions c15_bcf_values_total.

Theorem c15_bcf_record_typed_total : forall strings contigs ik fk hs bs,
  NV.Bcf.RecordTyped.dec_record_typed strings contigs ik fk hs bs <> NV.Bcf.Typed.RPanic.
Proof. exact NV.Bcf.NeverPanics.dec_record_typed_np. Qed.
Print Assumptions c15_bcf_record_typed_total.

(* ---- (13) fused lazy iterators (repairs 700dd65 sam data, 83824ec bam data, f81811e gff) ------- *)

(* ANY iterator of the repaired shape -- next() parses one item off the remaining source and
   discards the source when the item parser fails -- yields only Ok items and then nothing or
   exactly one error: at most one error, and it is the last item.  No hypothesis on the item parser
   (this is the statement for sam::record::Data::iter and bam::record::Data::iter, whose field
   parsers are the Section variable). *)
Theorem c15_fused_iter_at_most_one_error : forall A (parse : list N -> option (A * list N)) fuel src,
  NV.Hostile.FusedProofs.fused_shape (NV.Hostile.Fused.fused_run parse fuel src).
Proof. exact NV.Hostile.FusedProofs.fused_run_shape. Qed.
Print Assumptions c15_fused_iter_at_most_one_error.

(* and it ENDS: when a successful item consumes at least one byte, the consumer sees at most |src|
   items and |src| + 1 calls of next reach the None *)
Theorem c15_fused_iter_ends : forall A (parse : list N -> option (A * list N)),
  (forall src a rest, parse src = Some (a, rest) -> (length rest < length src)%nat) ->
  (forall fuel src, (length (NV.Hostile.Fused.fused_run parse fuel src) <= length src)%nat) /\
  (forall f1 f2 src, (length src < f1)%nat -> (length src < f2)%nat ->
     NV.Hostile.Fused.fused_run parse f1 src = NV.Hostile.Fused.fused_run parse f2 src).
Proof.
  intros A parse H. split;
  [intros fuel src; apply NV.Hostile.FusedProofs.fused_run_length; exact H
  | apply NV.Hostile.FusedProofs.fused_run_ends; exact H].
Qed.
Print Assumptions c15_fused_iter_ends.

(* GFF3 Record::attributes().iter() (model NV.Hostile.Fused.gff_attr_run, compared item by item
   with the crate: kind gffit): for EVERY attributes column the items are Ok.. then at most one
   error, there are at most |column| of them, and they are exactly C18's collected view followed by
   one error iff that view ended abnormally *)
Theorem c15_gff_attributes_iter_fused : forall col,
  NV.Hostile.FusedProofs.fused_shape (NV.Hostile.Fused.gff_attr_run col) /\
  (length (NV.Hostile.Fused.gff_attr_run col) <= length col)%nat /\
  NV.Hostile.Fused.gff_attr_run col =
    map NV.Hostile.Fused.IOk (fst (NV.Text.Gff.gff_attrs_parse col)) ++
    match snd (NV.Text.Gff.gff_attrs_parse col) with Some _ => [NV.Hostile.Fused.IErr] | None => [] end.
Proof.
  intro col. destruct (NV.Hostile.FusedProofs.gff_attr_run_fused col) as [H1 H2].
  split; [exact H1|]. split; [exact H2 | apply NV.Hostile.FusedProofs.gff_attr_run_spec].
Qed.
Print Assumptions c15_gff_attributes_iter_fused.

Example c15_nonvacuous_gff_fused :
  NV.Hostile.Fused.gff_attr_run [73;68;61;49;59;78;97;109;101] =
    [NV.Hostile.Fused.IOk ([73;68], NV.Text.TextBase.VString [49]); NV.Hostile.Fused.IErr]
  /\ NV.Hostile.Fused.gff_attr_run [42] = [NV.Hostile.Fused.IErr].
Proof. split; vm_compute; reflexivity. Qed.

(* the totality statement for the decoders of other properties, in one piece; what is NOT in it is
   listed in checks/C15.json (BCF typed value decoders, CSI/tabix/fai/crai readers, CRAM container
   and record decoders, FASTA/FASTQ readers, VCF field parsers: implementation-side search only) *)
Definition c15_imported_decoders_full_statement : Prop :=
  (forall refs text c, NV.Sam.Lazy.lazy_view refs text <> NV.Sam.Lazy.LPanic c) /\
  (forall prs text, Forall (fun b => b <> NV.Text.GffLine.BRecord NV.Text.TextBase.Panic)
                           (NV.Text.GffLine.gff_file_line_bufs prs text)) /\
  (forall prs text, Forall (fun b => b <> NV.Text.GtfLine.TBRecord NV.Text.TextBase.Panic)
                           (NV.Text.GtfLine.gtf_file_line_bufs prs text)) /\
  (forall fuel n src old, (3 <= n)%nat -> length (NV.Text.BedRec.bf_std old) = n ->
     Forall (NV.Hostile.TotalText.bed_item_ok n) (NV.Text.BedRec.bed_read_file fuel n src old)) /\
  (forall inflate src, snd (NV.Bgzf.Reader.reader_read_to_end inflate src) <> NV.Bgzf.Frame.Panic) /\
  (forall bs usize, NV.Cram.Nx16Xform.nx_decode bs usize <> NV.Cram.Nx16Xform.DPanic).

Theorem c15_imported_decoders_total : c15_imported_decoders_full_statement.
Proof.
  split; [intros refs text c; exact (NV.Hostile.TotalSam.sam_lazy_view_total refs text c)|].
  split; [exact NV.Hostile.TotalText.gff_file_line_bufs_total|].
  split; [exact NV.Hostile.TotalText.gtf_file_line_bufs_total|].
  split; [exact NV.Hostile.TotalText.bed_read_file_total|].
  split; [exact NV.Hostile.TotalBin.bgzf_read_to_end_total|].
  exact NV.Cram.Nx16XformProofs.nx_decode_never_panics.
Qed.
Print Assumptions c15_imported_decoders_total.

(* non-vacuity: the imported models accept ordinary inputs and the hostile ones are errors *)
Example c15_nonvacuous_sam_cr :
  (* the former panic class: CR before an empty last column *)
  exists r d, NV.Sam.Lazy.lazy_view [] [114;9;52;9;42;9;48;9;48;9;42;9;42;9;48;9;48;9;42;13;9;10]
              = NV.Sam.Lazy.LOk r d.
Proof. vm_compute. eexists. eexists. reflexivity. Qed.
Example c15_nonvacuous_gzi : NV.Index.Layout.read_gzi [1;0;0;0;0;0;0;0; 5;0;0;0;0;0;0;0; 9;0;0;0;0;0;0;0] = Some [(5, 9)]
  /\ NV.Index.Layout.read_gzi [200;0;0;0;0;0;0;0; 5;0;0;0;0;0;0;0; 9;0;0;0;0;0;0;0] = None.
Proof. split; vm_compute; reflexivity. Qed.
Example c15_nonvacuous_bgzf : forall inflate,
  NV.Bgzf.Reader.reader_read_to_end inflate [31;139;8;4;0;0;0;0;0;255;6;0;66;67;2;0;5;0] = ([], NV.Bgzf.Frame.Err NV.Bgzf.Frame.InvalidData).
Proof. intro inflate. vm_compute. reflexivity. Qed.


(* ============================================================================================ *)
(* SIXTH WAVE: totality of everything other properties have modelled since.                      *)
(* "Every byte string" is [Forall (fun b => b < 256) bs] where the owner's theorem needs the     *)
(* elements to be bytes; the other theorems hold for every list of numbers.                      *)
(* ============================================================================================ *)

Definition bytes_only (bs : list N) : Prop := Forall (fun b => b < 256) bs.

(* ---- (14) CRAM block codecs: the full decoder models of C08 -------------------------------- *)

(* rANS Nx16 (order 0, order 1, the whole stream under every flag byte incl. STRIPE), the adaptive
   arithmetic coder (order 0 and the whole stream under every flag byte: order 0/1, RLE, PACK, CAT,
   nested STRIPE; EXT is answered "unsupported"), fqzcomp and the name tokenizer: on EVERY byte
   string and every declared output size the result is bytes, an io::Error or "unsupported" --
   never the Panic outcome the models place at each division, table index and checked u32
   operation.  (C08's theorems, gathered; the models are compared with the crates by C08's kinds.) *)
Definition c15_cram_codecs_full_statement : Prop :=
  (forall bs len n, (0 < n)%nat -> bytes_only bs -> NV.Cram.Nx16O0.nxd0_decode bs len n <> NV.Cram.Nx16O0.RPanic) /\
  (forall bs len n, (0 < n)%nat -> bytes_only bs -> NV.Cram.Nx16O1.nxd1_decode bs len n <> NV.Cram.Nx16O0.RPanic) /\
  (forall bs usize, bytes_only bs -> NV.Cram.Nx16Full.nx_decode_e bs usize <> NV.Cram.Nx16Xform.DPanic) /\
  (forall bs usize, bytes_only bs -> NV.Cram.Nx16Stripe.nx_decode_s bs usize <> NV.Cram.Nx16Xform.DPanic) /\
  (forall bs len, bytes_only bs -> NV.Cram.Aac.aac_o0_decode bs len <> NV.Cram.Nx16O0.RPanic) /\
  (forall bs usize, bytes_only bs -> NV.Cram.AacRle.aac_decode_r bs usize <> NV.Cram.Nx16Xform.DPanic) /\
  (forall bs, bytes_only bs -> NV.Cram.Fqz.fqz_decode bs <> NV.Cram.Fqz.FPanic) /\
  (forall bs, bytes_only bs -> NV.Cram.Names.names_decode bs <> NV.Cram.Names.NmPanic).

Theorem c15_cram_codecs_total : c15_cram_codecs_full_statement.
Proof.
  split; [exact NV.Cram.Nx16O0Total.nxd0_decode_never_panics|].
  split; [exact NV.Cram.Nx16O1Total.nxd1_decode_never_panics|].
  split; [exact NV.Cram.Nx16O1Total.nx_decode_e_never_panics|].
  split; [exact NV.Cram.Nx16StripeProofs.nx_decode_s_never_panics|].
  split; [exact NV.Cram.AacTotal.aac_o0_decode_never_panics|].
  split; [exact NV.Cram.AacModesTotal.aac_decode_r_never_panics|].
  split; [exact NV.Cram.FqzTotal.fqz_decode_never_panics|].
  exact NV.Cram.NamesTotal.names_decode_never_panics.
Qed.
Print Assumptions c15_cram_codecs_total.

(* the same for the decoders as they are EXTRACTED and compared (every output-size site guarded by a
   cap so that a hostile size of 2^32 costs nothing): for every cap the answer is Capped ("outside
   the model": this is where the known alloc-codec-* classes live -- the real code allocates the
   declared size up front) or a non-panic result *)
Theorem c15_cram_codecs_capped_total : forall cap,
  (forall bs usize, bytes_only bs -> NV.Cram.Nx16Cap.nx_decode_sc cap bs usize <> NV.Cram.Cap.Within NV.Cram.Nx16Xform.DPanic) /\
  (forall bs usize, bytes_only bs -> NV.Cram.AacCap.aac_decode_rc cap bs usize <> NV.Cram.Cap.Within NV.Cram.Nx16Xform.DPanic) /\
  (forall bs, bytes_only bs -> NV.Cram.FqzCap.fqz_decode_c cap bs <> NV.Cram.Cap.Within NV.Cram.Fqz.FPanic) /\
  (forall bs, bytes_only bs -> NV.Cram.NamesCap.names_decode_c cap bs <> NV.Cram.Cap.Within NV.Cram.Names.NmPanic).
Proof.
  intro cap.
  split; [exact (NV.Cram.Nx16CapProofs.nx_decode_sc_never_panics cap)|].
  split; [exact (NV.Cram.AacCapProofs.aac_decode_rc_never_panics cap)|].
  split; [exact (NV.Cram.FqzCapProofs.fqz_decode_c_never_panics cap) | exact (NV.Cram.NamesCapProofs.names_decode_c_never_panics cap)].
Qed.
Print Assumptions c15_cram_codecs_capped_total.

(* ---- (15) SAM: Record::data().iter() and the conversion to an owned record (C06) ------------- *)

(* the optional-field iterator of the lazy sam::Record and RecordBuf::try_from_alignment_record over
   it always END, on every data column: the outcome is the fields, UnexpectedEof or InvalidData,
   never the model's fuel (every parsed field consumes a byte).  [parse32p] is lexical-core's
   partial float parser, a parameter of C06's model: any function that does not lengthen its input *)
Theorem c15_sam_lazy_data_total :
  forall (parse32 : list N -> option N) (parse32p : list N -> option (N * list N)),
    (forall s v rest, parse32p s = Some (v, rest) -> (length rest <= length s)%nat) ->
    forall data, NV.Sam.LazyData.lazy_data parse32p data <> NV.Sam.LazyData.DErr NV.Sam.LazyData.DFuel
              /\ NV.Sam.LazyData.lazy_data_conv parse32 parse32p data <> NV.Sam.LazyData.DErr NV.Sam.LazyData.DFuel.
Proof.
  intros p pp H data. split;
  [exact (NV.Sam.LazyDataProofs.lazy_data_total p pp H data) | exact (NV.Sam.LazyDataProofs.lazy_data_conv_total p pp H data)].
Qed.
Print Assumptions c15_sam_lazy_data_total.

(* ---- (16) BAM: the whole-file reader and the REUSED RecordBuf (C05) --------------------------- *)

(* read_header + the record loop end on every stream for a reason of the input (EOF or an error),
   and decoding into a buffer that still holds ANY previous record -- the state a caller reaches
   after a hostile record was rejected half way -- gives the result of decoding into a fresh one *)
Theorem c15_bam_file_total :
  (forall bs h l e, NV.Bam.File.read_file bs = NV.Bam.Record.Ok (h, (l, e)) -> e <> NV.Bam.File.EndNoFuel) /\
  (forall p1 p2 bs, NV.Bam.Reuse.decode_into p1 bs = NV.Bam.Reuse.decode_into p2 bs) /\
  (forall fuel prev bs, NV.Bam.Reuse.read_records_reused fuel prev bs = NV.Bam.File.read_records fuel bs).
Proof.
  split; [exact NV.Bam.FileProofs.read_file_fuel|].
  split; [exact NV.Bam.ReuseProofs.decode_into_independent | exact NV.Bam.ReuseProofs.read_records_reused_eq].
Qed.
Print Assumptions c15_bam_file_total.

(* ---- (17) BGZF: what the block reader accepts is a well-formed member (C01's soundness) ------- *)

(* with the executable INFLATE of C01 as the inflater: a hostile frame is never a panic; when it is
   accepted, its CDATA are a well-formed DEFLATE stream that denotes exactly the bytes returned,
   ISIZE is their number, CRC32 their CRC-32 -- and there are at most 65536 of them: no block of a
   hostile file inflates to more than 64 KiB *)
Theorem c15_bgzf_accepted_block_wellformed : forall frame,
  Forall NV.Bgzf.InflateSpec.is_byte frame ->
  NV.Bgzf.Reader.parse_block NV.Bgzf.Inflate.inflate frame <> NV.Bgzf.Frame.Panic /\
  forall bs d, NV.Bgzf.Reader.parse_block NV.Bgzf.Inflate.inflate frame = NV.Bgzf.Frame.Ok (bs, d) ->
    exists cdata crc isize,
      NV.Bgzf.Frame.parse_frame frame = NV.Bgzf.Frame.Ok (bs, cdata, crc, isize) /\
      NV.Bgzf.InflateSpec.deflate_denotes cdata d /\ NV.Bgzf.Frame.lenN d = isize /\ isize <= 65536 /\
      NV.Bgzf.Crc32.crc32 d = crc.
Proof.
  intros frame Hf. split; [apply NV.Hostile.TotalBin.parse_block_total|].
  intros bs d H. exact (NV.Bgzf.InflateReader.reader_accepts_only_wellformed frame bs d Hf H).
Qed.
Print Assumptions c15_bgzf_accepted_block_wellformed.

(* ---- (18) CRAM framing: containers, blocks, slices (C13's three-way parsers) ------------------ *)

(* The parsers answer POk / PErr UnexpectedEof / PErr InvalidData: there is no panic outcome
   (faithful: read_exact, split_off, try_from only).  What remains is that a hostile COUNT or LENGTH
   is accepted only when the bytes are there, for every CRC function:
   - a data container header holds >= 16 bytes + one per landmark; the container is accepted only
     with its whole declared body (15 bytes for the EOF container), and a non-EOF body is non-empty;
   - a block holds >= 5 bytes + its declared data (+ 4 CRC); a slice whose header declares n + 1
     blocks is accepted only when it holds n + 2 blocks of >= 9 bytes;
   - Container::slices yields at most one slice per landmark and a landmark outside the body is
     rejected (get_range). *)
Theorem c15_cram_container_bounded : forall crc bs h b e r,
  NV.Trunc.Cram.cram_parse_container crc bs = NV.Trunc.Cram.POk (h, b, e) r ->
  (16 + length (NV.Trunc.Cram.ch_landmarks h) + length b + length r <= length bs)%nat /\
  (e = true -> length b = 15%nat) /\
  (e = false -> N.of_nat (length b) = NV.Trunc.Cram.ch_len h /\ b <> []).
Proof. exact NV.Hostile.TotalCram.cram_parse_container_bounded. Qed.
Print Assumptions c15_cram_container_bounded.

Theorem c15_cram_blocks_bounded : forall crc dec,
  (forall bs b r, NV.Trunc.CramBlocks.blk_fields bs = NV.Trunc.Cram.POk b r ->
     (5 + length (NV.Trunc.CramBlocks.b_data b) + length r <= length bs)%nat) /\
  (forall src n r, NV.Trunc.CramBlocks.slice_blocks crc dec src = NV.Trunc.Cram.POk n r ->
     (9 * (N.to_nat n + 2) + length r <= length src)%nat) /\
  (forall lms body, (length (fst (NV.Trunc.CramBlocks.container_slices crc dec lms body)) <= length lms)%nat) /\
  (forall a b src s, NV.Trunc.CramBlocks.get_range a b src = Some s ->
     a <= b /\ b <= N.of_nat (length src) /\ length s = N.to_nat (b - a)).
Proof.
  intros crc dec.
  split; [first [exact NV.Hostile.TotalCram.blk_fields_bounded | exact (NV.Hostile.TotalCram.blk_fields_bounded crc)]|].
  split; [exact (NV.Hostile.TotalCram.slice_blocks_bounded crc dec)|].
  split; [exact (NV.Hostile.TotalCram.container_slices_bounded crc dec)
         | first [exact NV.Hostile.TotalCram.get_range_inside | exact (NV.Hostile.TotalCram.get_range_inside crc)
                 | exact (NV.Hostile.TotalCram.get_range_inside crc dec)]].
Qed.
Print Assumptions c15_cram_blocks_bounded.

(* Reader::read_header + the container loop of Records on EVERY file: the result is the containers
   framed so far and Eof / UnexpectedEof / InvalidData -- never the model's fuel --, at most one
   container per 16 bytes of input.  [hdr_body] = the decoding of the header container's body, a
   parameter of C13's model *)
Theorem c15_cram_read_total : forall crc hdr_body file,
  (forall b, hdr_body b <> Some NV.Trunc.Stream.OutOfFuel) ->
  snd (snd (NV.Trunc.Cram.cram_read crc hdr_body file)) <> NV.Trunc.Stream.Err NV.Trunc.Stream.OutOfFuel /\
  (16 * length (fst (snd (NV.Trunc.Cram.cram_read crc hdr_body file))) <= length file)%nat.
Proof. exact NV.Hostile.TotalCram.cram_read_total. Qed.
Print Assumptions c15_cram_read_total.

(* ---- (19) CRAM index walk and query over the bytes (C19): hostile index + hostile file -------- *)

(* the container loop of the indexer (walk) from ANY offset and of query_unmapped (records_p) from
   ANY offset an index entry names, over ANY file: the fuel is never the reason of a result; the
   slices of a container are cut only inside its body, one per landmark *)
Theorem c15_cram_index_walk_total : forall crc,
  (forall f1 f2 pos file recs,
     (length (NV.CramIdx.Bytes.at_ pos file) < f1)%nat -> (length (NV.CramIdx.Bytes.at_ pos file) < f2)%nat ->
     NV.CramIdx.Bytes.walk crc f1 pos file recs = NV.CramIdx.Bytes.walk crc f2 pos file recs) /\
  (forall f f1 f2 pos d, (length d < f1)%nat -> (length d < f2)%nat ->
     NV.CramIdx.AsyncQuery.records_p crc f f1 pos d = NV.CramIdx.AsyncQuery.records_p crc f f2 pos d) /\
  (forall body a b s, NV.CramIdx.Bytes.slice_bytes body a b = Some s ->
     a <= b /\ b <= N.of_nat (length body) /\ length s = N.to_nat (b - a)) /\
  (forall body lms shs, NV.CramIdx.Bytes.bslices crc body lms = NV.CramIdx.Bytes.BOk shs -> length shs = length lms).
Proof.
  intro crc.
  split; [exact (NV.Hostile.TotalCram.walk_fuel crc)|].
  split; [exact (NV.Hostile.TotalCram.records_p_fuel crc)|].
  split; [first [exact NV.Hostile.TotalCram.slice_bytes_inside | exact (NV.Hostile.TotalCram.slice_bytes_inside crc)]
         | exact (NV.Hostile.TotalCram.bslices_bounded crc)].
Qed.
Print Assumptions c15_cram_index_walk_total.

(* ---- (20) FASTA / FASTQ readers and indexers (C11) -------------------------------------------- *)

(* on EVERY byte string the four record loops end because the input ends or a record is rejected
   (FASTA: InvalidData; FASTA index: InvalidData / empty sequence / ragged line; FASTQ: InvalidData
   or UnexpectedEof), never because of the model's fuel, with at most one record per line (FASTA)
   or per byte (FASTQ) *)
Theorem c15_fasta_fastq_total : forall f,
  (snd (NV.Fasta.Reader.read_file f) <> Some NV.Fasta.Reader.ROutOfFuel /\
   (length (fst (NV.Fasta.Reader.read_file f)) <= length (NV.Fasta.Layout.lines f))%nat) /\
  (snd (NV.Fasta.Indexer.index_file f) <> Some NV.Fasta.Indexer.EOutOfFuel /\
   (length (fst (NV.Fasta.Indexer.index_file f)) <= length (NV.Fasta.Layout.lines f))%nat) /\
  (snd (NV.Fasta.Fastq.read_qfile f) = None \/ snd (NV.Fasta.Fastq.read_qfile f) = Some NV.Fasta.Fastq.QInvalidData \/
   snd (NV.Fasta.Fastq.read_qfile f) = Some NV.Fasta.Fastq.QUnexpectedEof) /\
  (snd (NV.Fasta.Fastq.index_qfile f) <> Some NV.Fasta.Fastq.QOutOfFuel /\
   (length (fst (NV.Fasta.Fastq.index_qfile f)) <= length f)%nat).
Proof.
  intro f.
  split; [exact (NV.Hostile.TotalFast.fasta_read_file_total f)|].
  split; [exact (NV.Hostile.TotalFast.fasta_index_file_total f)|].
  split; [exact (NV.Hostile.TotalFast.fastq_read_file_total f) | exact (NV.Hostile.TotalFast.fastq_index_file_total f)].
Qed.
Print Assumptions c15_fasta_fastq_total.

(* ---- (21) VCF: the lazy record (vcf::io::Reader::read_record + the accessors of vcf::Record) --- *)

(* C12's closed form of the repaired reader: Ok n or InvalidData on every byte string; when it is Ok
   there are exactly eight bounds, nondecreasing, the last inside the buffer, so every range an
   accessor builds (`&buf[bound i .. bound j]`, i <= j) lies inside the buffer and the model's
   slice is exactly that long *)
Theorem c15_vcf_lazy_bounds : forall d n buf ends rest,
  NV.Io.TabRead.wx_vcf_read_record d = (NV.Text.TextBase.Ok n, buf, ends, rest) ->
  length ends = 8%nat /\ NV.Hostile.TotalVcf.chain 0 ends (length buf) /\
  forall i j, (i <= j)%nat -> (j < 8)%nat ->
    (nth i ends 0 <= nth j ends 0)%nat /\ (nth j ends 0 <= length buf)%nat /\
    length (NV.Io.Run.vslice buf (nth i ends 0%nat) (nth j ends 0%nat)) = (nth j ends 0 - nth i ends 0)%nat.
Proof.
  intros d n buf ends rest E.
  destruct (NV.Hostile.TotalVcf.vcf_read_record_bounds d n buf ends rest E) as [H1 H2].
  split; [exact H1|]. split; [exact H2|].
  intros i j Hij Hj. exact (NV.Hostile.TotalVcf.vcf_accessor_ranges_valid d n buf ends rest i j E Hij Hj).
Qed.
Print Assumptions c15_vcf_lazy_bounds.

Theorem c15_vcf_lazy_three_way : forall d,
  (exists n, fst (fst (fst (NV.Io.TabRead.wx_vcf_read_record d))) = NV.Text.TextBase.Ok n) \/
  fst (fst (fst (NV.Io.TabRead.wx_vcf_read_record d))) = NV.Text.TextBase.Err NV.Text.TextBase.InvalidData.
Proof. exact NV.Hostile.TotalVcf.vcf_read_record_three_way. Qed.
Print Assumptions c15_vcf_lazy_three_way.

(* C09's model of the same reader WITH the accessors (NV.Vcf.LazyRec: read_record, the Fields
   slices with an explicit LPanic where `&buf[a..b]` would panic, the lazy -> owned conversion; L2
   kind `lzb` of C09 on arbitrary bytes): no record of any file, under any UTF-8 validator and any
   float parser, reaches the panic outcome (C09's theorem, restated) *)
Theorem c15_vcf_lazy_never_panics : forall valid prs_float h text,
  NV.Vcf.LazyRec.lazy_run prs_float valid h text <> NV.Vcf.LazyRec.LPanic /\
  ~ List.In NV.Vcf.LazyRec.LPanic (NV.Vcf.LazyRec.lazy_records prs_float valid h text).
Proof.
  intros valid prs h text. split;
  [exact (NV.Vcf.LazyRecProofs.lazy_never_panics valid prs h text)
  | exact (NV.Vcf.LazyRecProofs.lazy_records_never_panic valid prs h text)].
Qed.
Print Assumptions c15_vcf_lazy_never_panics.

(* ---- (22) BCF: the LAZY record path (C10's NV.Bcf.Lazy: Fields::index, the lazy accessors and the
   conversion to a RecordBuf), for every byte string, dictionary, header typing and file format:
   a RecordBuf or an error, never the panic outcome (C10's theorem, restated; before this wave the
   lazy bcf::Record iterators were search-only) *)
Theorem c15_bcf_lazy_never_panics : forall v44 strings contigs ik fk bs,
  NV.Bcf.Lazy.lazy_read v44 strings contigs ik fk bs <> NV.Bcf.Typed.RPanic.
Proof. exact NV.Bcf.LazyProofs.lazy_read_never_panics. Qed.
Print Assumptions c15_bcf_lazy_never_panics.

(* non-vacuity of the sixth wave: the hypotheses are satisfiable and hostile inputs are errors *)
Example c15_nonvacuous_vcf_lazy :
  (* "c\t1\t.\tA\t.\t.\t.\t.\r\n": eight bounds, CR popped *)
  NV.Io.TabRead.wx_vcf_read_record [99;9;49;9;46;9;65;9;46;9;46;9;46;9;46;13;10]
    = (NV.Text.TextBase.Ok 17%nat, [99;49;46;65;46;46;46;46], [1;2;3;4;5;6;7;8]%nat, [])
  /\ (* a line that ends after three columns *)
  fst (fst (fst (NV.Io.TabRead.wx_vcf_read_record [99;9;49;9;46;10]))) = NV.Text.TextBase.Err NV.Text.TextBase.InvalidData.
Proof. split; vm_compute; reflexivity. Qed.
Example c15_nonvacuous_cram_container : forall crc,
  (* a container header that declares 1000 landmarks in a 17-byte input is UnexpectedEof *)
  NV.Trunc.Cram.dc_fields [1;0;0;0; 0; 1; 1; 0; 0; 0; 1; 131;232; 0;0;0;0]
    = NV.Trunc.Cram.PErr NV.Trunc.Stream.UnexpectedEof
  /\ fst (NV.Trunc.Cram.cram_read crc (fun _ => None) [67;82;65;77]) = false.
Proof. intro crc. split; vm_compute; reflexivity. Qed.
Example c15_nonvacuous_fastq :
  NV.Fasta.Fastq.read_qfile [64;114;10;65;10;43;10;33;10] = ([NV.Fasta.Fastq.mkqrec [114] [] [65] [33]], None)
  /\ snd (NV.Fasta.Fastq.read_qfile [64;114;10;65;10]) = Some NV.Fasta.Fastq.QUnexpectedEof
  /\ snd (NV.Fasta.Reader.read_file [65;10]) = Some NV.Fasta.Reader.RInvalidData.
Proof. repeat split; vm_compute; reflexivity. Qed.


(* ============================================================================================ *)
(* EIGHTH WAVE: the CRAM slice reader's resolve_mates on ANY records and ANY mate distances.     *)
(* ============================================================================================ *)

(* ---- (23) resolve_mates (noodles-cram/src/io/reader/container/slice.rs) ----------------------- *)

(* NV.Hostile.MatesP.resolve_mates_p is C15's own model of the function: every slice index of the
   Rust (mate_indices[i], mate_indices[j], split_at_mut(j + 1), mate_index - mid,
   right[mate_index - mid], split_at_mut(j), right[0], left[i], records[mate_index]) is a checked
   access with its own MPPanic site, and the two `while let` walks -- which have no counter in the
   Rust -- run on fuel with the explicit outcome MPFuel.  It is compared with the crate through a
   CRC-sealed CRAM container whose CF / NF series carry arbitrary DETACHED / MATE_IS_DOWNSTREAM bits
   and arbitrary distances (kind cmate).  For EVERY list of records (any flags, names, positions,
   features, cram flags and mate distances -- not only what a writer produces, cf. C07's
   c07_written_slice_resolves_w): the result is Ok with as many records as the slice or the
   InvalidData error of the /repo 21bfe86 check; no index site is reached and neither walk spins. *)
Theorem c15_cram_resolve_mates_total : forall rs,
  (exists out, NV.Hostile.MatesP.resolve_mates_p rs = NV.Hostile.MatesP.MPOk out /\ length out = length rs) \/
  NV.Hostile.MatesP.resolve_mates_p rs = NV.Hostile.MatesP.MPErr.
Proof. exact NV.Hostile.MatesPProofs.resolve_mates_p_total. Qed.
Print Assumptions c15_cram_resolve_mates_total.

Theorem c15_cram_resolve_mates_never_panics : forall rs s,
  NV.Hostile.MatesP.resolve_mates_p rs <> NV.Hostile.MatesP.MPPanic s /\
  NV.Hostile.MatesP.resolve_mates_p rs <> NV.Hostile.MatesP.MPFuel.
Proof. exact NV.Hostile.MatesPProofs.resolve_mates_p_never_panics. Qed.
Print Assumptions c15_cram_resolve_mates_never_panics.

(* the checked model IS C07's silent model (reads with a default, out-of-range writes dropped)
   lifted into the four-way result: every theorem C07 proves about resolve_mates (chains, TLEN
   signs, written slices) is a theorem about the function with its panic sites *)
Theorem c15_cram_resolve_mates_refines_c07 : forall rs,
  NV.Hostile.MatesP.resolve_mates_p rs =
    match NV.CramRec.Mates.resolve_mates rs with
    | Some out => NV.Hostile.MatesP.MPOk out
    | None => NV.Hostile.MatesP.MPErr
    end.
Proof. exact NV.Hostile.MatesPProofs.resolve_mates_p_eq. Qed.
Print Assumptions c15_cram_resolve_mates_refines_c07.

(* the error is exact: InvalidData iff some record's distance points at or past the end of the slice *)
Theorem c15_cram_resolve_mates_err_iff : forall rs,
  NV.Hostile.MatesP.resolve_mates_p rs = NV.Hostile.MatesP.MPErr <->
  exists x d, (x < length rs)%nat /\
    NV.CramRec.Mates.m_dist (NV.CramRec.Mates.rget rs x) = Some d /\
    (length rs <= x + N.to_nat d + 1)%nat.
Proof. exact NV.Hostile.MatesPProofs.resolve_mates_p_err_iff. Qed.
Print Assumptions c15_cram_resolve_mates_err_iff.

(* the reader before /repo 21bfe86 (mate index = i + distance + 1, unchecked) reaches
   right[mate_index - mid] on the input of the fix's unit test, and agrees with the repaired reader
   on every slice the repaired reader accepts (recorded, fixed finding) *)
Theorem fixed_cram_resolve_mates_v0_witness :
  NV.Hostile.MatesP.resolve_mates_p_v0
    [NV.Hostile.MatesPProofs.rec_dist (Some 1); NV.Hostile.MatesPProofs.rec_dist None]
    = NV.Hostile.MatesP.MPPanic NV.Hostile.MatesP.S_RIGHT_MATE /\
  NV.Hostile.MatesP.resolve_mates_p
    [NV.Hostile.MatesPProofs.rec_dist (Some 1); NV.Hostile.MatesPProofs.rec_dist None]
    = NV.Hostile.MatesP.MPErr /\
  forall rs out, NV.Hostile.MatesP.resolve_mates_p rs = NV.Hostile.MatesP.MPOk out ->
                 NV.Hostile.MatesP.resolve_mates_p_v0 rs = NV.Hostile.MatesP.MPOk out.
Proof.
  destruct NV.Hostile.MatesPProofs.resolve_mates_p_v0_witness as [H1 H2].
  split; [exact H1|]. split; [exact H2 | exact NV.Hostile.MatesPProofs.resolve_mates_p_v0_agrees].
Qed.
Print Assumptions fixed_cram_resolve_mates_v0_witness.

(* non-vacuity: a chain of three (0 -> 1 -> 2) resolves, every member gets the mate columns *)
Example c15_nonvacuous_resolve_mates :
  NV.Hostile.MatesP.resolve_view
    [NV.Hostile.MatesP.series_rec 65 (Some 0) (Some 5) 8 [] 4 0;
     NV.Hostile.MatesP.series_rec 1 (Some 0) (Some 9) 8 [] 4 0;
     NV.Hostile.MatesP.series_rec 129 (Some 0) (Some 20) 6 [NV.CramRec.Features.FDeletion 4 2] 0 0]
  = NV.Hostile.MatesP.MPOk [(65, Some 0, Some 9, 23%Z); (1, Some 0, Some 20, (-23)%Z); (129, Some 0, Some 5, (-23)%Z)].
Proof. vm_compute. reflexivity. Qed.


(* ---- (24) BCF: the lazy path WITH the header's sample count (what the reader really runs) ------ *)

(* c15_bcf_lazy_never_panics above is about lazy_read (no header); the conversion the reader performs
   is lazy_read_hdr, which first compares the record's n_sample with the header's sample count hs
   (fix 30014e8).  For every byte string, dictionary, typing, file format and hs: never the panic
   outcome, and it is either the header-less conversion or an error (C10's theorems, restated) *)
Theorem c15_bcf_lazy_hdr_total : forall v44 strings contigs ik fk hs bs,
  NV.Bcf.Lazy.lazy_read_hdr v44 strings contigs ik fk hs bs <> NV.Bcf.Typed.RPanic /\
  (NV.Bcf.Lazy.lazy_read_hdr v44 strings contigs ik fk hs bs = NV.Bcf.Lazy.lazy_read v44 strings contigs ik fk bs \/
   NV.Bcf.Lazy.lazy_read_hdr v44 strings contigs ik fk hs bs = NV.Bcf.Typed.RErr).
Proof.
  intros v44 strings contigs ik fk hs bs. split;
  [exact (NV.Bcf.LazyProofs.lazy_read_hdr_never_panics v44 strings contigs ik fk hs bs)
  | exact (NV.Bcf.LazyProofs.lazy_read_hdr_or v44 strings contigs ik fk hs bs)].
Qed.
Print Assumptions c15_bcf_lazy_hdr_total.

(* consequence of c10_lazy_iff_eager for hostile input: outside C10's two recorded classes
   (lazy_only, lazy_agree) a byte string is REJECTED by the lazy path iff it is rejected by the eager
   decoder and accepted iff accepted -- neither reader has a hostile input the other one lets
   through, and neither outcome is a panic *)
Theorem c15_bcf_lazy_eager_same_outcome : forall v44 strings contigs ik fk hs bs,
  NV.Bcf.LazySiteProofs.byte_list bs ->
  NV.Bcf.LazyConverse.lazy_only strings ik fk bs = false ->
  NV.Bcf.LazyEagerProofs.lazy_agree strings contigs ik fk hs bs = true ->
  ((exists t', NV.Bcf.Lazy.lazy_read_hdr v44 strings contigs ik fk hs bs = NV.Bcf.Typed.ROk t') <->
   (exists t, NV.Bcf.RecordTyped.dec_record_typed strings contigs ik fk hs bs = NV.Bcf.Typed.ROk t)) /\
  (NV.Bcf.Lazy.lazy_read_hdr v44 strings contigs ik fk hs bs = NV.Bcf.Typed.RErr <->
   NV.Bcf.RecordTyped.dec_record_typed strings contigs ik fk hs bs = NV.Bcf.Typed.RErr) /\
  NV.Bcf.Lazy.lazy_read_hdr v44 strings contigs ik fk hs bs <> NV.Bcf.Typed.RPanic /\
  NV.Bcf.RecordTyped.dec_record_typed strings contigs ik fk hs bs <> NV.Bcf.Typed.RPanic.
Proof.
  intros v44 strings contigs ik fk hs bs Hb Hc Ha.
  destruct (NV.Bcf.LazyConverse.lazy_iff_eager v44 strings contigs ik fk hs bs Hb Hc Ha) as [H1 H2].
  split; [exact H1|]. split; [exact H2|]. split;
  [exact (NV.Bcf.LazyProofs.lazy_read_hdr_never_panics v44 strings contigs ik fk hs bs)
  | exact (NV.Bcf.NeverPanics.dec_record_typed_np strings contigs ik fk hs bs)].
Qed.
Print Assumptions c15_bcf_lazy_eager_same_outcome.

(* ---- TENTH WAVE: bam read_record's validate is exactly the accessors' precondition ------------ *)
From NV Require Hostile.BamAcc Hostile.BamAccProofs.

(* one read_record call on block_size = |body| + body, EVERY body: Ok(0), UnexpectedEof, or a record
   whose name / cigar / sequence / quality_scores / data slices are all in range (model compared
   with the crate: kind bamv) *)
Theorem c15_bam_read_record_view_total : forall body,
  NV.Hostile.BamAcc.read_record_view body = NV.Hostile.BamAcc.RREof \/
  NV.Hostile.BamAcc.read_record_view body = NV.Hostile.BamAcc.RRErr NV.Bam.Record.UnexpectedEof \/
  exists n c s q d, NV.Hostile.BamAcc.read_record_view body =
    NV.Hostile.BamAcc.RRRec (Some n) (Some c) (Some s) (Some q) (Some d).
Proof. exact NV.Hostile.BamAccProofs.read_record_view_total. Qed.
Print Assumptions c15_bam_read_record_view_total.

Theorem c15_bam_validate_accessors_in_bounds : forall body,
  NV.Bam.Decode.validate body = NV.Bam.Record.Ok tt -> NV.Hostile.BamAcc.accessors_in_bounds body.
Proof. exact NV.Hostile.BamAccProofs.validate_accessors_in_bounds. Qed.
Print Assumptions c15_bam_validate_accessors_in_bounds.

(* exactness: validate accepts iff quality_scores() (equivalently data()) does not slice out of
   range, so no weaker length check is safe *)
Theorem c15_bam_validate_exact : forall body,
  (NV.Bam.Decode.validate body = NV.Bam.Record.Ok tt <->
     (NV.Bam.Lazy.has_head body = true /\ NV.Bam.Lazy.lzp_qual body <> None)) /\
  (NV.Bam.Decode.validate body = NV.Bam.Record.Ok tt <->
     (NV.Bam.Lazy.has_head body = true /\ NV.Bam.Lazy.lzp_data_raw body <> None)).
Proof.
  intros body. split;
  [exact (NV.Hostile.BamAccProofs.validate_exact body) | exact (NV.Hostile.BamAccProofs.validate_exact_data body)].
Qed.
Print Assumptions c15_bam_validate_exact.

(* the seeded change (l_seq / 2 instead of div_ceil) refuted: accepted by the weak check, panics *)
Theorem c15_bam_validate_weak_witness :
  NV.Hostile.BamAcc.validate_weak NV.Hostile.BamAcc.weak_witness = NV.Bam.Record.Ok tt /\
  NV.Bam.Lazy.lzp_qual NV.Hostile.BamAcc.weak_witness = None /\
  NV.Bam.Lazy.lzp_data_raw NV.Hostile.BamAcc.weak_witness = None /\
  NV.Bam.Lazy.lzp_seq NV.Hostile.BamAcc.weak_witness <> None /\
  NV.Bam.Decode.validate NV.Hostile.BamAcc.weak_witness = NV.Bam.Record.Err NV.Bam.Record.UnexpectedEof.
Proof. exact NV.Hostile.BamAccProofs.validate_weak_witness. Qed.
Print Assumptions c15_bam_validate_weak_witness.
