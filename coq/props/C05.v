(* C05 — BAM record encode/decode are inverse; lazy field views agree with eager decode. *)
From Coq Require Import List NArith ZArith.
From NV Require Import Index.Bins Bam.Record Bam.Encode Bam.Decode.
Import ListNotations.
Open Scope N_scope.

Example c05_example_default :
  encode 0 (mkRecord None 4 None None None [] None None 0%Z [] [] []) =
  Ok [34;0;0;0; 255;255;255;255; 255;255;255;255; 2; 255; 72;18; 0;0; 4;0; 0;0;0;0;
      255;255;255;255; 255;255;255;255; 0;0;0;0; 42;0].
Proof. vm_compute. reflexivity. Qed.
