(* C05 — BAM record encode/decode are inverse; lazy field views agree with eager decode.
   Property theorems only.  Models: NV.Bam.Encode (record/codec/encoder*.rs + io/writer.rs),
   NV.Bam.Decode (io/reader/record.rs, record/codec/decoder*.rs, slices of record_ref.rs),
   bin = NV.Index.Bins.reg2bin 14 5 (shared with C17). *)
From Coq Require Import List NArith ZArith Bool Lia ZifyBool ZifyNat ZifyN.
From NV Require Import Index.Bins Bam.Record Bam.Encode Bam.Decode Bam.Lazy Bam.CodecProofs Bam.AuxProofs Bam.LazyProofs Bam.LazyCigarProofs Bam.LazyDataProofs Bam.LazySwitchProofs Bam.LazyErr Bam.LazyErrProofs Bam.LazyErrIffProofs Bam.Subseq Bam.SubseqProofs Bam.SeqIter Bam.SeqIterProofs Bam.RewriteProofs Bam.LazyRewrite Bam.LazyRewriteProofs Bam.File Bam.FileProofs Bam.FileBgzf Bam.FileBgzfProofs Bam.FileSchedProofs Bam.Reuse Bam.ReuseProofs.
From NV Require Sam.Header Sam.HeaderProofs Sam.BamHeader Bgzf.Frame Bgzf.Writer Bgzf.Reader Bgzf.Inflate Io.Source Io.ReadExactProofs Io.Run.
Import ListNotations.
Open Scope N_scope.

(* The whole property: every record the writer accepts is read back equal up to [norm]
   (bases case-folded / non-IUPAC -> N, a user CG field dropped) -- any auxiliary data, any number
   of CIGAR operations (more than 65535 through the kSmN + CG:B,I convention).
   [wf r], [wf_data] and [NoDup] are the Rust type invariants of RecordBuf: flags within 12 bits,
   MAPQ <> 255, positions >= 1, i32 template length, CIGAR kinds 0..8; every auxiliary number within
   the range of its Rust type (i8/u8/i16/u16/i32/u32, f32 bit pattern), strings of type Z or H,
   array subtypes cCsSiIf; Data holds at most one field per tag. *)
Theorem c05_decode_encode :
  forall nref r block,
    wf r -> wf_data (r_data r) -> NoDup (map fst (r_data r)) ->
    encode nref r = Ok block -> decode block = Ok (norm r).
Proof. exact decode_encode. Qed.
Print Assumptions c05_decode_encode.

(* the statement of the previous revision (no data, <= 65535 operations) is a special case; kept
   because NV.Sam.BamAgree (C06) is stated in this scope *)
Theorem c05_decode_encode_partial :
  forall nref r block,
    wf r -> r_data r = [] -> lenN (r_cigar r) <= 65535 ->
    encode nref r = Ok block -> decode block = Ok (norm r).
Proof. exact decode_encode_nodata. Qed.
Print Assumptions c05_decode_encode_partial.

(* every typed auxiliary value (A c C s S i I f, Z H, B:cCsSiIf) at every value of its type: what
   the encoder writes after the tag is the type byte and a payload that the decoder reads back to
   the same value, leaving exactly the bytes that followed *)
Theorem c05_aux_roundtrip :
  forall v bs rest, wf_value v -> enc_value v = Ok bs ->
    exists ty p, bs = ty :: p /\ dec_value ty (p ++ rest) = Ok (v, rest).
Proof. exact value_roundtrip. Qed.
Print Assumptions c05_aux_roundtrip.

(* the data block: fields come back in order, the user's CG field is not written *)
Theorem c05_data_roundtrip :
  forall d bs, wf_data d -> enc_data d = Ok bs -> NoDup (map fst (filter notCG d)) ->
    dec_data (length bs) bs [] = Ok (filter notCG d).
Proof. exact dec_data_roundtrip. Qed.
Print Assumptions c05_data_roundtrip.

(* the CG convention: a CIGAR c of more than 65535 operations is stored as the placeholder
   [bc]S[ref_span c]N with n_cigar_op = 2, its CG field decodes as the B,I array of the operation
   words, and the reader's resolve step returns c and removes the field again *)
Theorem c05_cg_overflow_roundtrip :
  forall bc c d cgb sq,
    Forall op_ok c -> 65535 < lenN c -> lenN sq = bc -> find_tag CG d = None ->
    enc_cg c = Ok cgb ->
    cigar_slot bc c = (2, [(4, bc); (3, ref_span c)], true) /\
    (exists p, cgb = fst CG :: snd CG :: tyB :: p /\
               dec_value tyB p = Ok (VArr tyI (map op_word c), [])) /\
    resolve sq [(4, bc); (3, ref_span c)] (d ++ [(CG, VArr tyI (map op_word c))]) = Ok (c, d).
Proof. exact cg_overflow_roundtrip. Qed.
Print Assumptions c05_cg_overflow_roundtrip.

(* Lengths, counts and coordinates that do not fit are errors, never wrapped; accepted ones are
   stored exactly. *)
Theorem c05_reject_not_truncate :
  (forall s, 254 < lenN s -> enc_name_len (Some s) = Err InvalidInput) /\
  (forall p, i32_max < p - 1 -> enc_pos (Some p) = Err InvalidInput) /\
  (forall nref id, nref <= id \/ i32_max < id -> enc_rid nref (Some id) = Err InvalidInput) /\
  (forall k l, max_op_len < l -> enc_op (k, l) = Err InvalidInput) /\
  (forall rl s, s <> [] -> 0 < rl -> lenN s <> rl -> enc_seq rl s = Err InvalidInput) /\
  (forall sq ql, ql <> [] -> lenN ql <> lenN sq -> enc_qual sq ql = Err InvalidInput) /\
  (forall sq ql, lenN ql = lenN sq -> (exists x, In x ql /\ 93 < x) -> enc_qual sq ql = Err InvalidInput) /\
  (forall p a, 1 <= p -> enc_pos (Some p) = Ok a -> rdW 4 a = Some (p - 1, [])) /\
  (forall k l a, k <= 8 -> enc_op (k, l) = Ok a ->
     exists n, rdW 4 a = Some (n, []) /\ n / 16 = l /\ n mod 16 = k).
Proof.
  repeat split.
  - exact enc_name_len_rejects.
  - exact enc_pos_rejects.
  - exact enc_rid_rejects.
  - exact enc_op_rejects.
  - exact enc_seq_rejects.
  - exact enc_qual_rejects_length.
  - exact enc_qual_rejects_score.
  - exact enc_pos_exact.
  - exact enc_op_exact.
Qed.
Print Assumptions c05_reject_not_truncate.

(* The bin field (bytes 10..12 of an accepted record) is the spec's reg2bin of the span
   [start, end] (1-based inclusive, end from the CIGAR reference span) for coordinates <= 2^29:
   the truncating `as u16` cast of encoder/bin.rs never bites there. *)
Theorem c05_bin :
  forall nref r body s,
    encode_body nref r = Ok body -> r_pos r = Some s -> 1 <= s ->
    alignment_end s (r_cigar r) <= 2 ^ 29 ->
    rdW 2 (skipn 10 body) = Some (reg2bin 14 5 s (alignment_end s (r_cigar r)), skipn 12 body).
Proof. exact encode_body_bin. Qed.
Print Assumptions c05_bin.

Theorem c05_cigar_roundtrip :
  forall c bs fuel, Forall op_ok c -> enc_cigar c = Ok bs -> (length c <= fuel)%nat ->
    dec_ops fuel (lenN c) bs = Ok c.
Proof. exact cigar_roundtrip. Qed.
Print Assumptions c05_cigar_roundtrip.

(* 4-bit packing, odd and even lengths, every byte value *)
Theorem c05_seq_roundtrip :
  forall s, firstnN (lenN s) (unpack_bases (pack_bases s)) = map norm_base s.
Proof. exact seq_roundtrip. Qed.
Print Assumptions c05_seq_roundtrip.

Theorem c05_qual_roundtrip :
  forall sq ql q, enc_qual sq ql = Ok q ->
    lenN q = lenN sq /\ (if lenN sq =? 0 then [] else dec_qual q) = ql.
Proof. exact qual_roundtrip. Qed.
Print Assumptions c05_qual_roundtrip.

Theorem c05_name_roundtrip : forall o bs, enc_name o = Ok bs -> dec_name bs = Ok o.
Proof. exact name_roundtrip. Qed.
Print Assumptions c05_name_roundtrip.

(* norm_base is exactly: upper-case, then anything outside =ACMGRSVTWYHKDBN becomes N
   (finite domain, by computation over all 256 byte values) *)
Definition upper (b : N) : N := if (97 <=? b) && (b <=? 122) then b - 32 else b.
Theorem c05_base_table :
  forall b, b < 256 ->
    norm_base b = (if existsb (N.eqb (upper b)) BASES then upper b else 78).
Proof.
  assert (H : forallb (fun b => norm_base b =? (if existsb (N.eqb (upper b)) BASES then upper b else 78))
                      (map N.of_nat (seq 0 256)) = true) by (vm_compute; reflexivity).
  intros b Hb. rewrite forallb_forall in H. apply N.eqb_eq. apply H.
  apply in_map_iff. exists (N.to_nat b). split; [apply N2Nat.id|]. apply in_seq.
  lia.
Qed.
Print Assumptions c05_base_table.

(* Subsequence::iter of Sequence::split_at_checked (iterator as repaired in /repo e98d36d): for
   every packed buffer and every range [start, end) inside it, the bases yielded are exactly
   bases start..end of the decoded nibble sequence -- odd/even starts and ends, empty ranges,
   single-byte windows included. *)
Theorem c05_subsequence_iter_exact :
  forall packed start end_,
    start <= end_ -> end_ <= 2 * lenN packed ->
    sub_iter packed start end_ = firstnN (end_ - start) (skipN start (unpack_bases packed)).
Proof. exact subsequence_iter_exact. Qed.
Print Assumptions c05_subsequence_iter_exact.

(* the regression case: ACGT split at 1 -> "A" / "CGT"; a 1-base sequence split at 1 -> "A" / "" *)
Example c05_example_subsequence :
  (sub_iter (pack_bases [65; 67; 71; 84]) 0 1 = [65]) /\
  (sub_iter (pack_bases [65; 67; 71; 84]) 1 4 = [67; 71; 84]) /\
  (sub_iter (pack_bases [65]) 1 1 = []) /\
  (sub_iter (pack_bases [65; 67; 71; 84; 65]) 2 5 = [71; 84; 65]).
Proof. vm_compute. repeat split; reflexivity. Qed.

(* lazy = eager.  Model of the lazy side: NV.Bam.Lazy.lazy_view_of = bam::RecordRef::new(body)
   followed by every accessor, each with its panics (slice index out of range, unreachable!()).
   For every body that validate() accepts and the eager decoder decodes to r:
   name, flags, reference id, position, MAPQ, mate id, mate position, template length, sequence
   (all bases) and quality scores of the lazy view are r's fields and do not panic; data() is the
   raw byte range that the eager decoder parses ([dec_data] of it, then [resolve], gives r's data
   and CIGAR); cigar() (c05_lazy_cigar_eq_eager below) is r's CIGAR, also when the stored
   operations are the kSmN placeholder and the CIGAR comes from the CG field; the typed data view
   (Data::iter/get) and Sequence::len/get are c05_lazy_data_eq_eager / c05_lazy_seq_get below. *)
Theorem c05_lazy_eq_eager :
  forall body r,
    validate body = Ok tt -> decode_body body = Ok r ->
    exists cig,
    lazy_view_of body =
      Some (mkLazy (Some (r_name r)) (r_flags r) (Ok (r_rid r)) (Ok (r_pos r)) (r_mapq r)
                   (Ok (r_mrid r)) (Ok (r_mpos r)) (r_tlen r) (lzp_cigar body)
                   (Some (r_seq r)) (Some (r_qual r)) (Some (lz_data_raw body))) /\
    chunk_ops (lz_cigar_raw body) = Ok cig /\
    (exists dt, dec_data (length (lz_data_raw body)) (lz_data_raw body) [] = Ok dt /\
                resolve (r_seq r) cig dt = Ok (r_cigar r, r_data r)) /\
    (is_placeholder body (lz_cigar_raw body) = false ->
       lzp_cigar body = Some (Ok (r_cigar r)) /\
       dec_data (length (lz_data_raw body)) (lz_data_raw body) [] = Ok (r_data r)).
Proof. exact lazy_eq_eager_fields. Qed.
Print Assumptions c05_lazy_eq_eager.

(* cigar().iter() of the lazy view: the stored operations, or -- for the placeholder kSmN -- the
   raw CG array found by get_raw_cigar's walk of the data block with the lazy field decoders; it
   does not panic and yields exactly the eagerly decoded (resolved) CIGAR *)
Theorem c05_lazy_cigar_eq_eager :
  forall body r, validate body = Ok tt -> decode_body body = Ok r ->
    lzp_cigar body = Some (Ok (r_cigar r)).
Proof. exact lazy_cigar_eq. Qed.
Print Assumptions c05_lazy_cigar_eq_eager.

(* whole view in one statement *)
Theorem c05_lazy_view :
  forall body r, validate body = Ok tt -> decode_body body = Ok r ->
    lazy_view_of body =
      Some (mkLazy (Some (r_name r)) (r_flags r) (Ok (r_rid r)) (Ok (r_pos r)) (r_mapq r)
                   (Ok (r_mrid r)) (Ok (r_mpos r)) (r_tlen r) (Some (Ok (r_cigar r)))
                   (Some (r_seq r)) (Some (r_qual r)) (Some (lz_data_raw body))).
Proof.
  intros body r Hv Hd. destruct (lazy_eq_eager_fields body r Hv Hd) as (cig & Hview & _).
  rewrite Hview. rewrite (lazy_cigar_eq body r Hv Hd). reflexivity.
Qed.
Print Assumptions c05_lazy_view.

(* The typed lazy data view.  Data::iter() with the lazy field decoders (every type, arrays
   decoded from their raw buffer) yields, without error, exactly the fields [dt] that the eager
   decoder reads before its CG resolution, in order; Data::get(t) is the first field with tag t.
   [dt] is the eager record's data whenever no CG field was consumed (no CG field, or the stored
   CIGAR is not the kSmN placeholder); when it was, the eager data is [dt] without that field
   (resolve = Data::remove): that remaining difference is the recorded finding
   lazy-data-retains-cg-after-resolve.  [lzp_data_sw false] is the view of the unrepaired tree (every
   raw field); the statement through the behaviour switch NV.Bam.Lazy.cg_repaired is
   c05_lazy_data_switch below. *)
Theorem c05_lazy_data_eq_eager :
  forall body r,
    validate body = Ok tt -> decode_body body = Ok r ->
    exists cig dt,
      lzp_data_sw false body = Some (dt, false) /\
      chunk_ops (lz_cigar_raw body) = Ok cig /\
      resolve (r_seq r) cig dt = Ok (r_cigar r, r_data r) /\
      (forall t, data_get (dt, false) t = option_map Ok (find_tag t dt)) /\
      (find_tag CG dt = None \/ is_placeholder body (lz_cigar_raw body) = false -> dt = r_data r).
Proof. exact lazy_data_eq. Qed.
Print Assumptions c05_lazy_data_eq_eager.

(* Sequence::len() and Sequence::get(i) for every index: the i-th eagerly decoded base, None from
   the length on, never a panic; QualityScores::iter() yields the bytes of as_bytes(), which
   c05_lazy_view equates with the eager scores *)
Theorem c05_lazy_seq_get :
  forall body r i,
    validate body = Ok tt -> decode_body body = Ok r ->
    lzp_seq_len body = Some (lenN (r_seq r)) /\ lzp_seq_get body i = Some (nthN i (r_seq r)).
Proof. exact lazy_seq_get_eq. Qed.
Print Assumptions c05_lazy_seq_get.

(* and none of them panics on any validated body, eagerly decodable or not *)
Theorem c05_lazy_detail_no_panic :
  forall body, validate body = Ok tt ->
    (exists d, lzp_data body = Some d) /\ lzp_seq_len body = Some (lz_lseq body) /\
    forall i, exists x, lzp_seq_get body i = Some x.
Proof. exact lazy_detail_no_panic. Qed.
Print Assumptions c05_lazy_detail_no_panic.

(* non-vacuity of the placeholder branch: 2 bases, stored CIGAR 2S5N, data NM:C:1 then
   CG:B,I [2M]: the lazy and the eager CIGAR are both 2M *)
Example c05_example_lazy_placeholder :
  let body := [255;255;255;255; 255;255;255;255; 2; 255; 72;18; 2;0; 4;0; 2;0;0;0; 255;255;255;255;
               255;255;255;255; 0;0;0;0; 113;0; 36;0;0;0; 83;0;0;0; 18; 255;255;
               78;77;67;1; 67;71;66;73; 1;0;0;0; 32;0;0;0] in
  validate body = Ok tt /\ lzp_cigar body = Some (Ok [(0, 2)]) /\
  exists r, decode_body body = Ok r /\ r_cigar r = [(0, 2)] /\ r_data r = [((78, 77), VNum tyC 1%Z)].
Proof. vm_compute. split; [reflexivity|]. split; [reflexivity|]. eexists. repeat split; reflexivity. Qed.

(* No modelled lazy accessor panics on a validated body, whether or not the eager decoder accepts
   it: every slice index is in range, and cigar().iter() never reaches the unreachable!() of
   Cigar::iter (get_raw_cigar, as repaired in /repo 3808bd7, only returns a CG array of subtype I,
   whose raw bytes are whole 32-bit words).  Before the repair the class "placeholder kSmN + first
   CG:B field with raw bytes not a multiple of 4" panicked; it is the regression case
   corpus/C05/lazy_cg_not_u32.case, shown below to fall back to the stored operations. *)
Theorem c05_lazy_no_panic :
  forall body, validate body = Ok tt ->
    has_head body = true /\
    lzp_name body = Some (lz_name body) /\ lzp_cigar_raw body = Some (lz_cigar_raw body) /\
    lzp_seq body = Some (lz_seq body) /\ lzp_qual body = Some (lz_qual body) /\
    lzp_data_raw body = Some (lz_data_raw body) /\
    exists c, lzp_cigar body = Some c.
Proof.
  intros body H. destruct (lazy_slices_ok body H) as (H1 & H2 & H3 & H4 & H5 & H6 & _).
  repeat (split; [assumption|]). exact (lazy_cigar_no_panic body H).
Qed.
Print Assumptions c05_lazy_no_panic.

(* the former panic class: 1 base, stored CIGAR 1S39N, data CG:B,S of five elements (10 bytes);
   validate() accepts the body, the eager decoder rejects it, cigar() yields the stored operations *)
Definition ex_cg_body : bytes :=
  [255;255;255;255; 255;255;255;255; 2; 255; 72;18; 2;0; 4;0; 1;0;0;0; 255;255;255;255;
   255;255;255;255; 0;0;0;0; 113;0; 20;0;0;0; 115;2;0;0; 240; 255;
   67;71;66;83; 5;0;0;0; 0;4; 3;0; 6;47; 6;7; 6;4].
Example c05_example_lazy_cg_not_u32 :
  validate ex_cg_body = Ok tt /\ lzp_cigar ex_cg_body = Some (Ok [(4, 1); (3, 39)]) /\
  decode_body ex_cg_body = Err InvalidData.
Proof. vm_compute. repeat split; reflexivity. Qed.

(* the remaining lazy/eager data difference in the model (finding lazy-data-retains-cg-after-resolve):
   on the placeholder example the lazy data view still lists CG, the eager data do not *)
Example c05_example_lazy_data_retains_cg :
  let body := [255;255;255;255; 255;255;255;255; 2; 255; 72;18; 2;0; 4;0; 2;0;0;0; 255;255;255;255;
               255;255;255;255; 0;0;0;0; 113;0; 36;0;0;0; 83;0;0;0; 18; 255;255;
               78;77;67;1; 67;71;66;73; 1;0;0;0; 32;0;0;0] in
  lzp_data_sw false body = Some ([((78, 77), VNum tyC 1%Z); (CG, VArr tyI [32%Z])], false) /\
  lzp_data_sw true body = Some ([((78, 77), VNum tyC 1%Z)], false) /\ cg_branch body = true /\
  lzp_seq_get body 1 = Some (Some 67) /\ lzp_seq_get body 2 = Some None.
Proof. vm_compute. repeat split; reflexivity. Qed.

(* non-vacuity: a mapped record with an odd-length lower-case/non-IUPAC sequence *)
Definition ex_rec : record :=
  mkRecord (Some [114; 49]) 99 (Some 1) (Some 16380) (Some 60) [(4, 1); (0, 3); (2, 20); (1, 1)]
           (Some 0) (Some 2147483648) (-150)%Z [97; 67; 120; 84; 46] [0; 93; 40; 1; 2] [].

Example c05_example_roundtrip :
  wf ex_rec /\ exists block, encode 2 ex_rec = Ok block /\ decode block = Ok (norm ex_rec) /\
  r_seq (norm ex_rec) = [65; 67; 78; 84; 78].
Proof.
  split.
  - unfold wf, ex_rec. cbn [r_flags r_mapq r_pos r_mpos r_tlen r_cigar].
    split; [lia|]. split; [intros q E; injection E as E; lia|].
    split; [intros p E; injection E as E; lia|]. split; [intros p E; injection E as E; lia|].
    split; [lia|]. repeat constructor; unfold op_ok; cbn [fst]; lia.
  - eexists. split; [vm_compute; reflexivity|]. split; vm_compute; reflexivity.
Qed.

Example c05_example_lazy :
  exists block body, encode 2 ex_rec = Ok block /\ body = skipn 4 block /\
    lz_name body = r_name ex_rec /\ lz_flags body = 99 /\ lz_seq body = r_seq (norm ex_rec) /\
    lz_qual body = r_qual ex_rec /\ lz_pos body = Ok (Some 16380) /\ lz_tlen body = (-150)%Z.
Proof. eexists. eexists. split; [vm_compute; reflexivity|]. split; [reflexivity|]. vm_compute. repeat split; reflexivity. Qed.

(* non-vacuity with auxiliary data of every type, a user CG field (dropped) and boundary values *)
Definition ex_data : list (tag * value) :=
  [((88, 65), VNum tyA 33%Z); ((88, 99), VNum tyc (-128)%Z); ((88, 67), VNum tyC 255%Z);
   ((88, 115), VNum tys (-32768)%Z); ((88, 83), VNum tyS 65535%Z); ((88, 105), VNum tyi (-2147483648)%Z);
   ((88, 73), VNum tyI 4294967295%Z); ((88, 102), VNum tyf 2143289344%Z);
   (CG, VArr tyI [16%Z]);
   ((88, 90), VStr tyZ [104; 105; 32]); ((88, 72), VStr tyH [67; 65; 70; 69]);
   ((89, 99), VArr tyc [(-128)%Z; 127%Z]); ((89, 83), VArr tyS []); ((89, 102), VArr tyf [0%Z; 4286578688%Z])].
Definition ex_rec_data : record :=
  mkRecord (Some [114; 49]) 99 (Some 1) (Some 16380) (Some 60) [(4, 1); (0, 3); (2, 20); (1, 1)]
           (Some 0) (Some 2147483648) (-150)%Z [97; 67; 120; 84; 46] [0; 93; 40; 1; 2] ex_data.

Example c05_example_roundtrip_data :
  wf_data ex_data /\ NoDup (map fst ex_data) /\
  exists block, encode 2 ex_rec_data = Ok block /\ decode block = Ok (norm ex_rec_data) /\
  lenN (r_data (norm ex_rec_data)) = 13.
Proof.
  split; [|split].
  - unfold wf_data, ex_data.
    repeat (apply Forall_cons;
            [cbv -[Z.le Z.lt]; try lia; auto; repeat (constructor; cbv beta; try lia)|]).
    apply Forall_nil.
  - assert (H : forall l : list tag, (fix nodup (l : list tag) : bool :=
        match l with [] => true | x :: r => negb (existsb (tag_eqb x) r) && nodup r end) l = true -> NoDup l).
    { induction l as [|x l IH]; intros H; [constructor|]. apply andb_true_iff in H. destruct H as [H1 H2].
      constructor; [|exact (IH H2)]. intros Hin. apply negb_true_iff in H1.
      assert (Hex : existsb (tag_eqb x) l = true) by (apply existsb_exists; exists x; split; [exact Hin|apply tag_eqb_eq; reflexivity]).
      congruence. }
    apply H. vm_compute. reflexivity.
  - eexists. split; [vm_compute; reflexivity|]. split; vm_compute; reflexivity.
Qed.

(* the default record of encoder.rs::test_encode_with_default_fields *)
Example c05_example_default :
  encode 0 (mkRecord None 4 None None None [] None None 0%Z [] [] []) =
  Ok [34;0;0;0; 255;255;255;255; 255;255;255;255; 2; 255; 72;18; 0;0; 4;0; 0;0;0;0;
      255;255;255;255; 255;255;255;255; 0;0;0;0; 42;0].
Proof. vm_compute. reflexivity. Qed.

(* rejects are reachable *)
Example c05_example_reject :
  encode 1 (mkRecord None 0 None (Some 2147483650) None [] None None 0%Z [] [] []) = Err InvalidInput /\
  encode 1 (mkRecord None 0 None None None [(2, 268435456)] None None 0%Z [] [] []) = Err InvalidInput.
Proof. split; vm_compute; reflexivity. Qed.

(* ------------------------------------------------------------------------------------------
   The lazy data view THROUGH THE BEHAVIOUR SWITCH NV.Bam.Lazy.cg_repaired (false = the tree as it
   is: data() lists the CG field that cigar() resolved; true = the repair: Data::iter()/get() skip CG
   when cigar() took the CG branch).  Proved for both values; flipping the one definition changes
   which disjunct of the hypothesis holds.  [dt] is the raw field list; "CG, if present, is the last
   field" is what every writer produces (encoder.rs appends it).  Then Data::iter() of the lazy
   record yields exactly the eager record's data - unconditionally once cg_repaired = true, and
   today whenever cigar() did not take the CG branch. *)
Theorem c05_lazy_data_switch :
  forall body r dt,
    validate body = Ok tt -> decode_body body = Ok r ->
    lzp_data_sw false body = Some (dt, false) ->
    (forall a v b, dt = a ++ (CG, v) :: b -> b = []) ->
    cg_repaired = true \/ cg_branch body = false ->
    lzp_data body = Some (r_data r, false).
Proof. intros body r dt Hv Hd Hraw Hlast Hsw. exact (lazy_data_switch body r dt Hv Hd Hraw Hlast cg_repaired Hsw). Qed.
Print Assumptions c05_lazy_data_switch.

(* Cigar::len() / is_empty() of cigar(): the number of eagerly decoded operations (also through the
   CG branch), and no panic on any validated body *)
Theorem c05_lazy_cigar_len :
  (forall body r, validate body = Ok tt -> decode_body body = Ok r ->
     lzp_cigar_len body = Some (lenN (r_cigar r), lenN (r_cigar r) =? 0)) /\
  (forall body, validate body = Ok tt -> exists x, lzp_cigar_len body = Some x).
Proof. split; [exact lazy_cigar_len_eq|exact lazy_cigar_len_no_panic]. Qed.
Print Assumptions c05_lazy_cigar_len.

(* RecordBuf::try_from_alignment_record(header, &lazy record): no panic, no error, and the owned
   record is the eager decode with the data the lazy view lists (Data::insert finds no duplicate)... *)
Theorem c05_lazy_convert :
  forall body r, validate body = Ok tt -> decode_body body = Ok r ->
    exists d, lzp_data body = Some (d, false) /\
      lazy_convert body =
        Some (Ok (mkRecord (r_name r) (r_flags r) (r_rid r) (r_pos r) (r_mapq r) (r_cigar r)
                           (r_mrid r) (r_mpos r) (r_tlen r) (r_seq r) (r_qual r) d)).
Proof. intros body r. exact (lazy_convert_eq cg_repaired body r). Qed.
Print Assumptions c05_lazy_convert.

(* ... hence equal to the eager decode under the hypotheses of c05_lazy_data_switch *)
Theorem c05_lazy_convert_eq_eager :
  forall body r dt,
    validate body = Ok tt -> decode_body body = Ok r ->
    lzp_data_sw false body = Some (dt, false) ->
    (forall a v b, dt = a ++ (CG, v) :: b -> b = []) ->
    cg_repaired = true \/ cg_branch body = false ->
    lazy_convert body = Some (Ok r).
Proof.
  intros body r dt Hv Hd Hraw Hlast Hsw.
  destruct (lazy_convert_eq cg_repaired body r Hv Hd) as (d & Hd1 & Hd2).
  pose proof (lazy_data_switch body r dt Hv Hd Hraw Hlast cg_repaired Hsw) as H.
  rewrite H in Hd1. injection Hd1 as Hd1. subst d. unfold lazy_convert. rewrite Hd2. destruct r. reflexivity.
Qed.
Print Assumptions c05_lazy_convert_eq_eager.

(* ------------------------------------------------------------------------------------------
   FILE LEVEL.  A BAM file is BGZF( magic + header block + framed records ).  NV.Bam.File models
   what bam::io::Writer writes to / bam::io::Reader reads from its inner stream: write_header
   (C06's NV.Sam.BamHeader.write_bam_header) then one encode per record; read_header
   (read_bam_header) then read_record_buf until Ok(0) or an error.
   For every header and every record list the writer accepts, reading the written stream returns
   the header, the normalised records in order, and then a clean EOF.  [wf_header] is C06's
   statement of the sam::Header invariants; [rec_ok] = wf + wf_data + NoDup tags of c05_decode_encode. *)
Theorem c05_file_roundtrip :
  forall h rs bs,
    Sam.HeaderProofs.wf_header h -> Forall rec_ok rs ->
    write_file h rs = Ok bs ->
    read_file bs = Ok (h, (map norm rs, EndEof)).
Proof. exact file_roundtrip. Qed.
Print Assumptions c05_file_roundtrip.

(* a file is refused only because its header or one of its records is: the first record the
   encoder rejects, with that record's error; every record before it was written *)
Theorem c05_file_reject_is_record_reject :
  forall nref rs e, write_records nref rs = Err e ->
    exists pre r post, rs = pre ++ r :: post /\ encode nref r = Err e /\
                       exists bs, write_records nref pre = Ok bs.
Proof. exact write_records_err. Qed.
Print Assumptions c05_file_reject_is_record_reject.

(* the reader's iteration ends on every stream (the out-of-fuel result of the model is unreachable) *)
Theorem c05_file_read_terminates :
  forall bs h l e, read_file bs = Ok (h, (l, e)) -> e <> EndNoFuel.
Proof. exact read_file_fuel. Qed.
Print Assumptions c05_file_read_terminates.

(* the lazy reader (bam::io::Reader::read_record) frames the same stream into exactly the encoded
   bodies: each is accepted by validate(), decodes to the normalised record, then a clean EOF *)
Theorem c05_file_lazy_framing :
  forall nref rs rb, Forall rec_ok rs -> write_records nref rs = Ok rb ->
    exists bodies,
      Forall2 (fun r b => encode_body nref r = Ok b /\ decode_body b = Ok (norm r) /\ validate b = Ok tt) rs bodies /\
      rb = concat (map (fun b => leW 4 (lenN b) ++ b) bodies) /\
      Forall (fun b => 32 <= lenN b < 4294967296) bodies /\
      forall fuel, (length rs < fuel)%nat -> frame_bodies fuel rb = (bodies, EndEof).
Proof. exact bodies_written. Qed.
Print Assumptions c05_file_lazy_framing.

(* through BGZF (C01's writer and reader models, read-only): however the stream is cut into
   write_all calls, at whatever level argument and however the writer is disposed of (finish,
   try_finish, drop), the BGZF reader's read_to_end returns the stream, which reads back as the
   header, the records and a clean EOF.  With the stored-block codec (what the real writer emits at
   CompressionLevel::NONE, compared byte for byte in the `file bgzf0` cases) no hypothesis is left. *)
Theorem c05_file_roundtrip_bgzf_level0 :
  forall h rs bs lvl chunks e,
    Sam.HeaderProofs.wf_header h -> Forall rec_ok rs ->
    write_file h rs = Ok bs -> concat chunks = bs ->
    let o := Bgzf.Writer.run_script Bgzf.Inflate.deflate_l0 lvl (map Bgzf.Writer.OWriteAll chunks) e in
    exists un, Bgzf.Reader.reader_read_to_end Bgzf.Inflate.inflate (Bgzf.Writer.o_sink o) = (un, Bgzf.Frame.Ok tt) /\
               read_file un = Ok (h, (map norm rs, EndEof)).
Proof. exact file_roundtrip_bgzf_level0. Qed.
Print Assumptions c05_file_roundtrip_bgzf_level0.

(* for any DEFLATE codec: C01's premises (a staging buffer compressed at level 0 fits a block;
   inflate after deflate is the identity; the EOF block's stream inflates to nothing) *)
Theorem c05_file_roundtrip_bgzf :
  forall (deflate : N -> list N -> list N) (inflate : list N -> N -> option (list N)) (lvl : N),
    (forall x, Bgzf.Frame.lenN x <= Bgzf.Writer.MAX_BUF_SIZE ->
               Bgzf.Frame.lenN (deflate 0 x) <= Bgzf.Writer.MAX_COMPRESSED_SIZE) ->
    (forall (l : N) x, Bgzf.Frame.lenN x <= Bgzf.Frame.BGZF_MAX_ISIZE -> inflate (deflate l x) (Bgzf.Frame.lenN x) = Some x) ->
    inflate [3; 0] 0 = Some [] ->
    forall h rs bs chunks e,
      Sam.HeaderProofs.wf_header h -> Forall rec_ok rs ->
      write_file h rs = Ok bs -> concat chunks = bs ->
      let o := Bgzf.Writer.run_script deflate lvl (map Bgzf.Writer.OWriteAll chunks) e in
      exists un, Bgzf.Reader.reader_read_to_end inflate (Bgzf.Writer.o_sink o) = (un, Bgzf.Frame.Ok tt) /\
                 read_file un = Ok (h, (map norm rs, EndEof)).
Proof. exact file_roundtrip_bgzf. Qed.
Print Assumptions c05_file_roundtrip_bgzf.

(* the two BGZF entry points the correspondence check runs are inverse on every stream *)
Theorem c05_bgzf_l0_roundtrip : forall bs, bgzf_read_l0 (bgzf_file_l0 bs) = Some bs.
Proof. exact bgzf_l0_roundtrip. Qed.
Print Assumptions c05_bgzf_l0_roundtrip.

(* composition with C12 (NV.Io.Run.bam_read_records = io/reader/record.rs::read_record run on a
   scripted source, read-only): on the record part of a written file, under EVERY delivery schedule
   (any chunking of the reads, any number of Interrupted results) the reader returns the block sizes
   of the encoded bodies, each of which validate() accepts and the decoder decodes to the normalised
   record, then Ok(0), and the source is exhausted *)
Theorem c05_file_framing_any_schedule :
  forall nref rs rb, Forall rec_ok rs -> write_records nref rs = Ok rb ->
    exists bodies,
      Forall2 (fun r b => encode_body nref r = Ok b /\ decode_body b = Ok (norm r) /\ validate b = Ok tt) rs bodies /\
      forall s m, Io.ReadExactProofs.rep_src s rb m ->
        exists s' m',
          Io.Run.bam_read_records (S (length rs)) s
            = (map (fun b => Io.Run.RecOk (lenN b)) bodies ++ [Io.Run.RecOk 0], s') /\
          Io.ReadExactProofs.rep_src s' [] m'.
Proof. exact file_framing_any_schedule. Qed.
Print Assumptions c05_file_framing_any_schedule.

(* non-vacuity: a header with two reference sequences and two records (the second with aux data) *)
Definition ex_header : Sam.Header.header :=
  Sam.Header.mkHeader (Some (Sam.Header.mkHd 1 6 [])) [Sam.Header.mkSq [115; 113; 48] 100000 []; Sam.Header.mkSq [115; 113; 49] 2147483647 []] [] [] [].
Example c05_example_file :
  exists bs, write_file ex_header [ex_rec; ex_rec_data] = Ok bs /\
    read_file bs = Ok (ex_header, ([norm ex_rec; norm ex_rec_data], EndEof)) /\
    read_file (firstn (length bs - 1) bs) = Ok (ex_header, ([norm ex_rec], EndErr UnexpectedEof)).
Proof. eexists. split; [vm_compute; reflexivity|]. split; vm_compute; reflexivity. Qed.

(* ------------------------------------------------------------------------------------------
   REUSED RecordBuf.  decoder.rs::decode writes INTO the caller's RecordBuf, which still holds the
   previous record when bam::io::Reader::read_record_buf is called repeatedly with one buffer or
   through Reader::record_bufs().  NV.Bam.Reuse.decode_into models buffer state in -> record out:
   scalars are assigned, the name is take()n, resized and overwritten, CIGAR / sequence / data are
   clear()ed and refilled, the quality scores are clear()ed when l_seq = 0 or all 0xff and otherwise
   resized and overwritten.  The result never depends on the previous contents: it is the decode
   into a fresh buffer, for every record body and every buffer state; hence the whole iteration
   with one reused buffer yields the same records and the same end as with fresh buffers. *)
Theorem c05_reused_recordbuf_independent :
  (forall prev bs, decode_into prev bs = decode_body bs) /\
  (forall p1 p2 bs, decode_into p1 bs = decode_into p2 bs) /\
  (forall fuel prev bs, read_records_reused fuel prev bs = read_records fuel bs).
Proof. split; [exact decode_into_eq|]. split; [exact decode_into_independent|exact read_records_reused_eq]. Qed.
Print Assumptions c05_reused_recordbuf_independent.

(* non-vacuity: the buffer holds ex_rec_data (name, 5 bases, 5 qualities, 4 operations, 14 fields);
   the default record (no name, l_seq = 0, no operation, no data) decoded into it comes back bare;
   and the Vec model is sensitive: without the clear() the old qualities would stay *)
Example c05_example_reuse :
  exists body, encode_body 0 (mkRecord None 4 None None None [] None None 0%Z [] [] []) = Ok body /\
    decode_into ex_rec_data body = Ok (mkRecord None 4 None None None [] None None 0%Z [] [] []) /\
    vresize (r_qual ex_rec_data) 0 = [] /\ r_qual ex_rec_data <> [].
Proof. eexists. split; [vm_compute; reflexivity|]. split; [vm_compute; reflexivity|]. split; [reflexivity|discriminate]. Qed.

(* ------------------------------------------------------------------------------------------
   ERROR KINDS OF THE LAZY ACCESSORS (wave 9; model NV.Bam.LazyErr: the failing site decides the
   io::ErrorKind, see the table at the head of that file).
   (1) The kind-aware functions refine the kind-blind ones of NV.Bam.Lazy, so every earlier lazy
       theorem (c05_lazy_data_eq_eager, c05_lazy_convert, ...) is a theorem about them. *)
Theorem c05_lazy_kinds_refine :
  (forall ty bs, lz_value ty bs = collapse (lz_value_k ty bs)) /\
  (forall f bs, lz_fields f bs = (fst (lz_fields_k f bs), is_some (snd (lz_fields_k f bs)))) /\
  (forall bs, lzp_data bs = option_map (fun p => (fst p, is_some (snd p))) (lzp_data_k bs)) /\
  (forall fs e t, data_get (fs, is_some e) t = option_map collapse (data_get_k (fs, e) t)) /\
  (forall bs, lazy_convert bs = option_map collapse (lazy_convert_k bs)).
Proof.
  split; [exact lz_value_collapse|]. split; [exact lz_fields_collapse|]. split; [exact lzp_data_collapse|].
  split; [exact data_get_collapse|exact lazy_convert_collapse].
Qed.
Print Assumptions c05_lazy_kinds_refine.

(* (2) The eager reader's error kinds: read_record_buf on one body fails with UnexpectedEof exactly
       when validate() refuses the layout and with InvalidData exactly when the decoder refuses a
       validated body; the decoder has no other kind. *)
Theorem c05_eager_error_kind :
  forall bs e, decode_record bs = Err e ->
    (e = UnexpectedEof /\ validate bs = Err UnexpectedEof) \/
    (e = InvalidData /\ validate bs = Ok tt /\ decode_body bs = Err InvalidData).
Proof. exact decode_record_err. Qed.
Print Assumptions c05_eager_error_kind.

(* (3) lazy error => eager error, with kinds: on every body validate() accepts, if any lazy accessor
       (reference_sequence_id, alignment_start, cigar().iter(), mate ids / positions, data().iter()
       and hence data().get / try_from_alignment_record) returns an error, then the eager decoder
       rejects the record with InvalidData; the lazy kind is InvalidData or UnexpectedEof (never
       InvalidInput), and it is InvalidData for every accessor other than the data fields. *)
Theorem c05_lazy_error_implies_eager_error :
  forall bs k, validate bs = Ok tt -> lazy_first_error bs = Some k ->
    decode_body bs = Err InvalidData /\ (k = InvalidData \/ k = UnexpectedEof).
Proof. exact lazy_error_implies_eager_error. Qed.
Print Assumptions c05_lazy_error_implies_eager_error.

Theorem c05_lazy_head_error_kinds :
  forall bs e, (lz_rid bs = Err e \/ lz_pos bs = Err e \/ lz_mrid bs = Err e \/ lz_mpos bs = Err e \/
                lzp_cigar bs = Some (Err e)) -> e = InvalidData.
Proof.
  intros bs e [H|[H|[H|[H|H]]]];
    [exact (lz_rid_err _ _ H)|exact (lz_pos_err _ _ H)|exact (lz_mrid_err _ _ H)|exact (lz_mpos_err _ _ H)|
     exact (lzp_cigar_err _ _ H)].
Qed.
Print Assumptions c05_lazy_head_error_kinds.

(* (4) The converse does NOT hold: the eager decoder has four checks the lazy accessors do not make
       (l_read_name = 0, a name without its NUL terminator, a duplicate tag, a CG field that is not
       B,I under the kSmN placeholder).  Witnesses for two of them: validated bodies the eager
       decoder rejects although no lazy accessor errs.  That these four classes are the ONLY such
       bodies is c05_lazy_error_iff below. *)
Definition ex_head_nm (lname : N) : bytes :=
  [255;255;255;255; 255;255;255;255; lname; 255; 72;18; 0;0; 4;0; 0;0;0;0;
   255;255;255;255; 255;255;255;255; 0;0;0;0].
Definition ex_dup_tag_body : bytes := ex_head_nm 2 ++ [42;0; 88;65;67;1; 88;65;67;2].
Definition ex_name_no_nul_body : bytes := ex_head_nm 2 ++ [113;113].

Theorem c05_eager_error_iff_lazy_error_refuted :
  exists bs, validate bs = Ok tt /\ decode_body bs = Err InvalidData /\ lazy_first_error bs = None /\
             exists r, lazy_convert_k bs = Some (Ok r).
Proof. exists ex_dup_tag_body. vm_compute. repeat split; try reflexivity. eexists. reflexivity. Qed.
Print Assumptions c05_eager_error_iff_lazy_error_refuted.

Example c05_example_name_without_nul :
  validate ex_name_no_nul_body = Ok tt /\ decode_body ex_name_no_nul_body = Err InvalidData /\
  lazy_first_error ex_name_no_nul_body = None /\ lzp_name ex_name_no_nul_body = Some (Some [113;113]).
Proof. vm_compute. repeat split; reflexivity. Qed.

(* non-vacuity of (3) with both kinds: a data block cut inside a field (UnexpectedEof), a string
   field without terminator (InvalidData) *)
Example c05_example_lazy_error_kinds :
  lazy_first_error (ex_head_nm 2 ++ [42;0; 88;65;105;1]) = Some UnexpectedEof /\
  lazy_first_error (ex_head_nm 2 ++ [42;0; 88;65;90;65]) = Some InvalidData /\
  lazy_first_error (ex_head_nm 2 ++ [42;0; 88;65;63;65]) = Some InvalidData /\
  validate (ex_head_nm 2 ++ [42;0; 88;65;105;1]) = Ok tt.
Proof. vm_compute. repeat split; reflexivity. Qed.

(* (5) The exact relation (the full statement of target "lazy error <=> eager error"): on every body
       validate() accepts, the eager decoder rejects the record (always with InvalidData) IF AND
       ONLY IF some lazy accessor returns an error or the body is in one of the four eager-only
       classes [eager_only_reject]: l_read_name = 0; the name bytes do not end in NUL; a tag occurs
       twice among the fields Data::iter yields ([dup_tag] = not every tag is fresh w.r.t. the
       fields before it); the CG resolution of decoder/cigar.rs::resolve fails on those fields.
       The proof goes through decode_body_slices: on a validated body the eager decoder is a
       function of the lazy slices, reading exactly the bytes the lazy accessors read. *)
Theorem c05_lazy_error_iff :
  forall bs, validate bs = Ok tt ->
    (decode_body bs = Err InvalidData <-> (lazy_first_error bs <> None \/ eager_only_reject bs)).
Proof. exact lazy_error_iff. Qed.
Print Assumptions c05_lazy_error_iff.

Theorem c05_eager_decode_by_slices :
  forall bs, validate bs = Ok tt -> decode_body bs = decode_by_slices bs.
Proof. exact decode_body_slices. Qed.
Print Assumptions c05_eager_decode_by_slices.

(* the typed lazy field decoder accepts exactly the values the eager one accepts, with the same
   value and the same remaining bytes (both directions; the eager -> lazy half was wave 2) *)
Theorem c05_lazy_value_iff_eager :
  forall ty bs p, lz_value ty bs = Ok p <-> dec_value ty bs = Ok p.
Proof. exact lz_dec_value_iff. Qed.
Print Assumptions c05_lazy_value_iff_eager.

(* non-vacuity of the eager-only classes: the duplicate-tag witness is in the third class, the
   name-without-NUL witness in the second *)
Example c05_example_eager_only_classes :
  eager_only_reject ex_dup_tag_body /\ eager_only_reject ex_name_no_nul_body.
Proof.
  split.
  - right; right; left. eexists. split; [vm_compute; reflexivity|].
    intros H. vm_compute in H. destruct H as [_ [H _]]. discriminate H.
  - right; left. exists InvalidData. vm_compute. reflexivity.
Qed.

(* (6) RecordBuf::try_from_alignment_record of a validated lazy record never panics; it fails exactly
       when some lazy accessor errs, with the kind of the first such error in calling order, and
       succeeds exactly when none does.  With (5): the conversion succeeds on a validated body iff
       the eager decoder accepts it or the body is in an eager-only class. *)
Theorem c05_lazy_convert_error_iff :
  forall bs, validate bs = Ok tt ->
    (forall k, lazy_convert_k bs = Some (Err k) <-> lazy_first_error bs = Some k) /\
    ((exists r, lazy_convert_k bs = Some (Ok r)) <-> lazy_first_error bs = None) /\
    lazy_convert_k bs <> None.
Proof. exact lazy_convert_error_iff. Qed.
Print Assumptions c05_lazy_convert_error_iff.

(* ------------------------------------------------------------------------------------------
   SHAPE OF Sequence::split_at_checked (wave 9; model NV.Bam.Subseq, panics included).  For a
   sequence of [len] bases over a packed buffer of (len + 1) / 2 bytes: split_at_checked(mid) is
   None exactly when mid > len; otherwise the halves are [0, mid) and [mid, len), their len() are
   mid and len - mid (the usize subtraction never underflows), is_empty() accordingly, their
   iterators concatenated yield exactly the bases of the whole sequence, and get(i) of each half is
   base i / mid + i of the whole sequence (None beyond the half) without an index panic. *)
Theorem c05_split_at_checked_shape :
  forall packed len mid, lenN packed = (len + 1) / 2 ->
    (split_at_checked len mid = None <-> len < mid) /\
    forall l r, split_at_checked len mid = Some (l, r) ->
      l = (0, mid) /\ r = (mid, len) /\
      subseq_len l = Some mid /\ subseq_len r = Some (len - mid) /\
      subseq_is_empty l = Some (mid =? 0) /\ subseq_is_empty r = Some (len - mid =? 0) /\
      subseq_iter packed l ++ subseq_iter packed r = whole packed len /\
      (forall i, subseq_get packed l i = Some (if i <? mid then nthN i (whole packed len) else None)) /\
      (forall i, subseq_get packed r i = Some (if mid + i <? len then nthN (mid + i) (whole packed len) else None)).
Proof. exact split_at_checked_shape. Qed.
Print Assumptions c05_split_at_checked_shape.

(* ... and every record validate() accepts is such a sequence: the packed slice sequence() views has
   (l_seq + 1) / 2 bytes and [whole] of it is the lazily (= eagerly, c05_lazy_eq_eager) decoded
   sequence *)
Theorem c05_lazy_sequence_is_splittable :
  forall bs, validate bs = Ok tt ->
    lenN (lz_seq_raw bs) = (lz_lseq bs + 1) / 2 /\ whole (lz_seq_raw bs) (lz_lseq bs) = lz_seq bs.
Proof.
  intros bs Hv. pose proof (validate_ok bs Hv) as H. split; [|reflexivity].
  unfold lz_seq_raw. apply lenN_sliceN. lia.
Qed.
Print Assumptions c05_lazy_sequence_is_splittable.

Example c05_example_split :
  split_at_checked 5 2 = Some ((0, 2), (2, 5)) /\ split_at_checked 5 6 = None /\
  subseq_get (pack_bases [65; 67; 71; 84; 65]) (2, 5) 2 = Some (Some 65) /\
  subseq_get (pack_bases [65; 67; 71; 84; 65]) (2, 5) 3 = Some None /\
  subseq_len (3, 2) = None.
Proof. vm_compute. repeat split; reflexivity. Qed.

(* ------------------------------------------------------------------------------------------
   RE-WRITING AN EAGERLY READ RECORD (wave 9).  write -> read_record_buf -> write reproduces the
   block byte for byte, for every record the writer accepts: the encoder is blind to the
   normalisation the decoder applies (encode (norm r) = encode r: the 4-bit base codes of the
   case-folded / N-mapped bases are the codes of the original bases, the user CG field is skipped
   by the encoder anyway, and a > 65535-operation CIGAR is stored through kSmN + CG again).
   (The DIRECT re-write of a lazy bam::Record - encoder paths CigarRef::FourBytePacked,
   SequenceRef::FourBitPacked, QualityScoresRef::Raw, DataRef::FieldEncoded - is modelled and
   proved in the next section, c05_lazy_rewrite_identity.) *)
Theorem c05_rewrite_eager_identity :
  forall nref r block,
    wf r -> wf_data (r_data r) -> NoDup (map fst (r_data r)) ->
    encode nref r = Ok block ->
    exists r', decode block = Ok r' /\ encode nref r' = Ok block.
Proof. exact rewrite_eager_identity. Qed.
Print Assumptions c05_rewrite_eager_identity.

Theorem c05_encode_blind_to_norm : forall nref r, encode nref (norm r) = encode nref r.
Proof. exact encode_norm. Qed.
Print Assumptions c05_encode_blind_to_norm.

(* ------------------------------------------------------------------------------------------
   THE DIRECT RE-WRITE OF A LAZY RECORD (wave 9; model NV.Bam.LazyRewrite.lazy_rewrite = the encoder
   over bam::Record's borrowed views: packed CIGAR copied after the kind check, packed bases
   copied, raw scores checked and copied, the raw data block copied after encoder/data.rs::validate,
   head fields re-encoded from the lazy accessors, bin recomputed from alignment_start and the
   lazily iterated CIGAR; for a CIGAR of more than 65535 operations: cigar() resolved from the CG
   field, n_cigar_op = 2 with the kSmN placeholder re-derived, DataRef::Data = the lazy fields
   without CG written one by one, CG:B,I appended again).  For EVERY record the writer accepts (any
   data, any CIGAR length): the written body is accepted by validate() and re-writing the lazy
   record over it gives the original block, byte for byte. *)
Theorem c05_lazy_rewrite_identity :
  forall nref r block,
    wf r -> wf_data (r_data r) -> NoDup (map fst (r_data r)) ->
    encode nref r = Ok block ->
    exists body, block = leW 4 (lenN body) ++ body /\ validate body = Ok tt /\
                 lazy_rewrite nref body = Some (Ok block).
Proof. exact lazy_rewrite_identity_full. Qed.
Print Assumptions c05_lazy_rewrite_identity.

(* the data block the encoder writes always passes the field-encoded validator *)
Theorem c05_written_data_passes_validator :
  forall d bs f, enc_data d = Ok bs -> (length bs <= f)%nat -> fe_valid f bs = Ok tt.
Proof. exact fe_valid_enc. Qed.
Print Assumptions c05_written_data_passes_validator.

(* non-vacuity: a mapped record with a name, 2 operations, 3 bases, scores and three typed fields
   (one a B array, one a string) is written, and the re-write of its lazy view gives the same 4 + 70
   bytes *)
Definition ex_rw_rec : record :=
  mkRecord (Some [114; 49]) 99 (Some 0) (Some 100) (Some 30) [(0, 2); (4, 1)] (Some 0) (Some 200) 150%Z
           [65; 99; 78] [30; 31; 32]
           [((78, 77), VNum tyC 1%Z); ((88, 66), VArr tys [-1; 2]%Z); ((88, 90), VStr tyZ [104; 105])].
Example c05_example_lazy_rewrite :
  exists block, encode 1 ex_rw_rec = Ok block /\ lazy_rewrite 1 (skipN 4 block) = Some (Ok block) /\
    lenN block = 74.
Proof. eexists. split; [vm_compute; reflexivity|]. split; vm_compute; reflexivity. Qed.

(* ------------------------------------------------------------------------------------------
   THE SEQUENCE ITERATOR AS A STATE MACHINE (wave 10; model NV.Bam.SeqIter of
   record/sequence/iter.rs: the struct { iter, front, back }, Iter::new with its slice-index panic,
   Iterator::next, DoubleEndedIterator::next_back, size_hint = ExactSizeIterator::len).  This is the
   iterator behind Sequence::iter() and behind both halves of Sequence::split_at_checked.
   For EVERY schedule of next / next_back calls the iterator over [start, end) is a double-ended
   queue over exactly the bases [start, end) of the unpacked buffer: next pops the front, next_back
   pops the back, None once (and for ever after) the queue is empty, no base is delivered twice or
   skipped where the two ends meet, and size_hint is the exact number of bases left after every
   call; Iter::new does not panic when end <= 2 * len(buffer). *)
Theorem c05_seq_iter_any_schedule :
  forall packed s e sched, s <= e -> e <= 2 * lenN packed ->
    seq_iter_run packed s e sched = Some (e - s, deque_run sched (window packed s e)).
Proof. exact seq_iter_any_schedule. Qed.
Print Assumptions c05_seq_iter_any_schedule.

(* Iter::new panics (bases[i..j]) exactly for a non-empty range whose last byte is beyond the buffer *)
Theorem c05_seq_iter_new_panic_iff :
  forall packed s e, sit_new packed s e = None <-> (s < e /\ lenN packed < (e + 1) / 2).
Proof. exact sit_new_panic_iff. Qed.
Print Assumptions c05_seq_iter_new_panic_iff.

(* the state-level statement: from any state in which front and back hold at most one base each
   (true after Iter::new and preserved by both calls) the run is the queue run over the contents *)
Theorem c05_seq_iter_state_machine :
  (forall packed s e st, sit_new packed s e = Some st -> sit_contents st = sub_iter packed s e /\ sit_inv st) /\
  (forall st, sit_inv st ->
     fst (sit_next st) = fst (pop_front (sit_contents st)) /\
     sit_contents (snd (sit_next st)) = snd (pop_front (sit_contents st)) /\ sit_inv (snd (sit_next st))) /\
  (forall st, sit_inv st ->
     fst (sit_next_back st) = fst (pop_back (sit_contents st)) /\
     sit_contents (snd (sit_next_back st)) = snd (pop_back (sit_contents st)) /\ sit_inv (snd (sit_next_back st))) /\
  (forall st, sit_size_hint st = lenN (sit_contents st)) /\
  (forall sched st, sit_inv st -> sit_run sched st = deque_run sched (sit_contents st)).
Proof.
  split; [exact sit_new_spec|]. split; [exact sit_next_spec|]. split; [exact sit_next_back_spec|].
  split; [exact sit_size_hint_exact|exact sit_run_is_deque].
Qed.
Print Assumptions c05_seq_iter_state_machine.

(* LAZY = EAGER for the iterator: on every validated body, sequence().iter() driven by any schedule
   is the queue over the (lazily = eagerly, c05_lazy_eq_eager) decoded sequence, and for mid <= l_seq
   the iterators of the halves of split_at_checked(mid) are the queues over its first mid bases and
   over the rest *)
Theorem c05_lazy_sequence_iter_any_schedule :
  forall bs, validate bs = Ok tt ->
    (forall sched, seq_iter_run (lz_seq_raw bs) 0 (lz_lseq bs) sched =
                   Some (lz_lseq bs, deque_run sched (lz_seq bs))) /\
    (forall mid sched, mid <= lz_lseq bs ->
       seq_iter_run (lz_seq_raw bs) 0 mid sched = Some (mid, deque_run sched (firstnN mid (lz_seq bs))) /\
       seq_iter_run (lz_seq_raw bs) mid (lz_lseq bs) sched =
         Some (lz_lseq bs - mid, deque_run sched (skipN mid (lz_seq bs)))).
Proof. exact lazy_sequence_iter_any_schedule. Qed.
Print Assumptions c05_lazy_sequence_iter_any_schedule.

(* iter().rev() yields the reversed sequence, iter() the sequence *)
Theorem c05_seq_iter_rev :
  forall l, map fst (deque_run (repeat true (length l)) l) = map Some (rev l) /\
            map fst (deque_run (repeat false (length l)) l) = map Some l.
Proof. intros l. split; [apply deque_run_all_back|apply deque_run_all_front]. Qed.
Print Assumptions c05_seq_iter_rev.

(* non-vacuity, and why the invariant is needed: 5 bases, window [1, 4), schedule back, front, back,
   back; and a state no public call sequence reaches (front holding two bases, nothing else) where
   next_back hands out the FIRST of them (the source's last resort is front.next()) *)
Example c05_example_seq_iter :
  seq_iter_run (pack_bases [65; 67; 71; 84; 65]) 1 4 [true; false; true; true] =
    Some (3, [(Some 84, 2); (Some 67, 1); (Some 71, 0); (None, 0)]) /\
  seq_iter_run (pack_bases [65; 67; 71; 84; 65]) 1 7 [] = None /\
  fst (sit_next_back (mk_sit [] (Some [65; 67]) None)) = Some 65.
Proof. vm_compute. repeat split; reflexivity. Qed.
