(* C05 — BAM record encode/decode are inverse; lazy field views agree with eager decode.
   Property theorems only.  Models: NV.Bam.Encode (record/codec/encoder*.rs + io/writer.rs),
   NV.Bam.Decode (io/reader/record.rs, record/codec/decoder*.rs, slices of record_ref.rs),
   bin = NV.Index.Bins.reg2bin 14 5 (shared with C17). *)
From Coq Require Import List NArith ZArith Bool Lia ZifyBool ZifyNat ZifyN.
From NV Require Import Index.Bins Bam.Record Bam.Encode Bam.Decode Bam.CodecProofs.
Import ListNotations.
Open Scope N_scope.

(* The full statement: every record the writer accepts is read back equal up to [norm]
   (bases case-folded / non-IUPAC -> N, a user CG field dropped). *)
Definition c05_decode_encode_full_statement : Prop :=
  forall nref r block, wf r -> NoDup (map fst (r_data r)) ->
    encode nref r = Ok block -> decode block = Ok (norm r).

(* Proved part: records without auxiliary fields and with at most 65535 CIGAR operations
   (name, flags, ids, positions, MAPQ, bin, CIGAR, template length, bases, qualities,
   block_size framing and the reader's layout validation).  The auxiliary data codec and the
   CG overflow convention are covered by the model/implementation comparison only. *)
Theorem c05_decode_encode_partial :
  forall nref r block,
    wf r -> r_data r = [] -> lenN (r_cigar r) <= 65535 ->
    encode nref r = Ok block -> decode block = Ok (norm r).
Proof. exact decode_encode_nodata. Qed.
Print Assumptions c05_decode_encode_partial.

(* Lengths, counts and coordinates that do not fit are errors, never wrapped; accepted ones are
   stored exactly. *)
Theorem c05_reject_not_truncate :
  (forall s, 254 < lenN s -> enc_name_len (Some s) = Err InvalidInput) /\
  (forall p, i32_max < p - 1 -> enc_pos (Some p) = Err InvalidInput) /\
  (forall nref id, nref <= id \/ i32_max < id -> enc_rid nref (Some id) = Err InvalidInput) /\
  (forall k l, max_op_len < l -> enc_op (k, l) = Err InvalidInput) /\
  (forall rl s, s <> [] -> 0 < rl -> lenN s <> rl -> enc_seq rl s = Err InvalidInput) /\
  (forall sq ql, ql <> [] -> lenN ql <> lenN sq -> enc_qual sq ql = Err InvalidInput) /\
  (forall sq ql, lenN ql = lenN sq -> (exists x, In x ql /\ 93 < x) -> enc_qual sq ql = Err InvalidInput) /\
  (forall p a, 1 <= p -> enc_pos (Some p) = Ok a -> rdW 4 a = Some (p - 1, [])) /\
  (forall k l a, k <= 8 -> enc_op (k, l) = Ok a ->
     exists n, rdW 4 a = Some (n, []) /\ n / 16 = l /\ n mod 16 = k).
Proof.
  repeat split.
  - exact enc_name_len_rejects.
  - exact enc_pos_rejects.
  - exact enc_rid_rejects.
  - exact enc_op_rejects.
  - exact enc_seq_rejects.
  - exact enc_qual_rejects_length.
  - exact enc_qual_rejects_score.
  - exact enc_pos_exact.
  - exact enc_op_exact.
Qed.
Print Assumptions c05_reject_not_truncate.

(* The bin field (bytes 10..12 of an accepted record) is the spec's reg2bin of the span
   [start, end] (1-based inclusive, end from the CIGAR reference span) for coordinates <= 2^29:
   the truncating `as u16` cast of encoder/bin.rs never bites there. *)
Theorem c05_bin :
  forall nref r body s,
    encode_body nref r = Ok body -> r_pos r = Some s -> 1 <= s ->
    alignment_end s (r_cigar r) <= 2 ^ 29 ->
    rdW 2 (skipn 10 body) = Some (reg2bin 14 5 s (alignment_end s (r_cigar r)), skipn 12 body).
Proof. exact encode_body_bin. Qed.
Print Assumptions c05_bin.

Theorem c05_cigar_roundtrip :
  forall c bs fuel, Forall op_ok c -> enc_cigar c = Ok bs -> (length c <= fuel)%nat ->
    dec_ops fuel (lenN c) bs = Ok c.
Proof. exact cigar_roundtrip. Qed.
Print Assumptions c05_cigar_roundtrip.

(* 4-bit packing, odd and even lengths, every byte value *)
Theorem c05_seq_roundtrip :
  forall s, firstnN (lenN s) (unpack_bases (pack_bases s)) = map norm_base s.
Proof. exact seq_roundtrip. Qed.
Print Assumptions c05_seq_roundtrip.

Theorem c05_qual_roundtrip :
  forall sq ql q, enc_qual sq ql = Ok q ->
    lenN q = lenN sq /\ (if lenN sq =? 0 then [] else dec_qual q) = ql.
Proof. exact qual_roundtrip. Qed.
Print Assumptions c05_qual_roundtrip.

Theorem c05_name_roundtrip : forall o bs, enc_name o = Ok bs -> dec_name bs = Ok o.
Proof. exact name_roundtrip. Qed.
Print Assumptions c05_name_roundtrip.

(* norm_base is exactly: upper-case, then anything outside =ACMGRSVTWYHKDBN becomes N
   (finite domain, by computation over all 256 byte values) *)
Definition upper (b : N) : N := if (97 <=? b) && (b <=? 122) then b - 32 else b.
Theorem c05_base_table :
  forall b, b < 256 ->
    norm_base b = (if existsb (N.eqb (upper b)) BASES then upper b else 78).
Proof.
  assert (H : forallb (fun b => norm_base b =? (if existsb (N.eqb (upper b)) BASES then upper b else 78))
                      (map N.of_nat (seq 0 256)) = true) by (vm_compute; reflexivity).
  intros b Hb. rewrite forallb_forall in H. apply N.eqb_eq. apply H.
  apply in_map_iff. exists (N.to_nat b). split; [apply N2Nat.id|]. apply in_seq.
  lia.
Qed.
Print Assumptions c05_base_table.

(* Subsequence::iter of Sequence::split_at_checked (iterator as repaired in /repo e98d36d): for
   every packed buffer and every range [start, end) inside it, the bases yielded are exactly
   bases start..end of the decoded nibble sequence -- odd/even starts and ends, empty ranges,
   single-byte windows included. *)
Theorem c05_subsequence_iter_exact :
  forall packed start end_,
    start <= end_ -> end_ <= 2 * lenN packed ->
    sub_iter packed start end_ = firstnN (end_ - start) (skipN start (unpack_bases packed)).
Proof. exact subsequence_iter_exact. Qed.
Print Assumptions c05_subsequence_iter_exact.

(* the regression case: ACGT split at 1 -> "A" / "CGT"; a 1-base sequence split at 1 -> "A" / "" *)
Example c05_example_subsequence :
  (sub_iter (pack_bases [65; 67; 71; 84]) 0 1 = [65]) /\
  (sub_iter (pack_bases [65; 67; 71; 84]) 1 4 = [67; 71; 84]) /\
  (sub_iter (pack_bases [65]) 1 1 = []) /\
  (sub_iter (pack_bases [65; 67; 71; 84; 65]) 2 5 = [71; 84; 65]).
Proof. vm_compute. repeat split; reflexivity. Qed.

(* lazy = eager: full statement (not proved in this revision; the slice arithmetic is modelled
   in NV.Bam.Decode (the lz_ definitions), the agreement is checked on the implementation by the harness) *)
Definition c05_lazy_eq_eager_full_statement : Prop :=
  forall body r, validate body = Ok tt -> decode_body body = Ok r ->
    lz_name body = r_name r /\ lz_flags body = r_flags r /\ lz_mapq body = r_mapq r /\
    lz_rid body = Ok (r_rid r) /\ lz_pos body = Ok (r_pos r) /\
    lz_mrid body = Ok (r_mrid r) /\ lz_mpos body = Ok (r_mpos r) /\ lz_tlen body = r_tlen r /\
    lz_seq body = r_seq r /\ lz_qual body = r_qual r.

(* non-vacuity: a mapped record with an odd-length lower-case/non-IUPAC sequence *)
Definition ex_rec : record :=
  mkRecord (Some [114; 49]) 99 (Some 1) (Some 16380) (Some 60) [(4, 1); (0, 3); (2, 20); (1, 1)]
           (Some 0) (Some 2147483648) (-150)%Z [97; 67; 120; 84; 46] [0; 93; 40; 1; 2] [].

Example c05_example_roundtrip :
  wf ex_rec /\ exists block, encode 2 ex_rec = Ok block /\ decode block = Ok (norm ex_rec) /\
  r_seq (norm ex_rec) = [65; 67; 78; 84; 78].
Proof.
  split.
  - unfold wf, ex_rec. cbn [r_flags r_mapq r_pos r_mpos r_tlen r_cigar].
    split; [lia|]. split; [intros q E; injection E as E; lia|].
    split; [intros p E; injection E as E; lia|]. split; [intros p E; injection E as E; lia|].
    split; [lia|]. repeat constructor; unfold op_ok; cbn [fst]; lia.
  - eexists. split; [vm_compute; reflexivity|]. split; vm_compute; reflexivity.
Qed.

Example c05_example_lazy :
  exists block body, encode 2 ex_rec = Ok block /\ body = skipn 4 block /\
    lz_name body = r_name ex_rec /\ lz_flags body = 99 /\ lz_seq body = r_seq (norm ex_rec) /\
    lz_qual body = r_qual ex_rec /\ lz_pos body = Ok (Some 16380) /\ lz_tlen body = (-150)%Z.
Proof. eexists. eexists. split; [vm_compute; reflexivity|]. split; [reflexivity|]. vm_compute. repeat split; reflexivity. Qed.

(* the default record of encoder.rs::test_encode_with_default_fields *)
Example c05_example_default :
  encode 0 (mkRecord None 4 None None None [] None None 0%Z [] [] []) =
  Ok [34;0;0;0; 255;255;255;255; 255;255;255;255; 2; 255; 72;18; 0;0; 4;0; 0;0;0;0;
      255;255;255;255; 255;255;255;255; 0;0;0;0; 42;0].
Proof. vm_compute. reflexivity. Qed.

(* rejects are reachable *)
Example c05_example_reject :
  encode 1 (mkRecord None 0 None (Some 2147483650) None [] None None 0%Z [] [] []) = Err InvalidInput /\
  encode 1 (mkRecord None 0 None None None [(2, 268435456)] None None 0%Z [] [] []) = Err InvalidInput.
Proof. split; vm_compute; reflexivity. Qed.
