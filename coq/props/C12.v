(* C12 — Decoded content does not depend on how the underlying stream chunks its reads.
   Property theorems only.  Models: NV.Io.Source (scripted byte source), NV.Io.ReadExact
   (std read_exact = bgzf default_read_exact; bam/bcf read_exact_or_eof), NV.Io.BufReader
   (std BufReader, read_until, noodles read_line), NV.Io.FastaScan (noodles-fasta sequence
   reader and indexer line consumer), NV.Io.FastaIndex (the whole fasta indexer), NV.Io.FastqRead
   (fastq record reader and indexer), NV.Io.HeaderRead (sam / vcf header readers), NV.Io.BedRead
   (bed record reader), NV.Io.TabRead (lazy sam / vcf record readers), NV.Io.BgzfRead (bgzf frame
   reader), NV.Io.Run (bam record framing, bgzf frame reading, entry points of the driver).
   Closed forms imported read-only: NV.Fasta.* (C11), NV.Bgzf.{Frame,Reader,ReaderOps} (C01, C02),
   NV.Text.BedRec (C18).

   A reader "simulates" a delivery of data d when each read either reports Interrupted (a
   bounded number of times) or returns a non-empty prefix of what is left, no longer than the
   buffer.  Every script of the scripted source does (c12_every_script_simulates), and so does
   a BufReader of any capacity >= 1 over such a reader (c12_bufreader_transparent); all other
   theorems are stated for an arbitrary simulating reader, so the script does not occur in
   their conclusions: the results are functions of the data alone. *)
From Coq Require Import List NArith Arith Lia.
From NV Require Import Io.Source Io.ReadExact Io.ReadExactProofs Io.BufReader Io.BufReaderProofs
  Io.Prog Io.ProgProofs Io.IndexProg Io.IndexProgProofs Io.ProgCram Io.ProgRun Io.ProgRunProofs Io.CsiProg Io.CsiProgProofs Io.HeaderAdapter Io.HeaderAdapterProofs Io.SeqRead Io.SeqReadProofs Io.SeqRun Io.SeqRunProofs Io.TabixProg Io.TabixProgProofs Io.CsiBodyProg Io.CsiBodyProgProofs
  Io.FastaScan Io.FastaScanProofs Io.FastaIndex Io.FastaIndexProofs Io.FastqRead Io.FastqReadProofs Io.HeaderRead Io.HeaderReadProofs Io.BgzfRead Io.BgzfReadProofs Io.BedRead Io.BedReadProofs Io.BedBridge Io.TabRead Io.TabReadProofs Io.Run Io.RunProofs.
From NV Require Fasta.Layout Fasta.Indexer Fasta.WholeFile Fasta.Fastq Bgzf.Frame Bgzf.Reader Bgzf.ReaderOps
  Text.TextBase Text.BedRec Index.Layout Index.CsiLayout Index.TextIndex Trunc.Stream Trunc.Cram CramIdx.AsyncQuery Bgzf.Crc32.
Import ListNotations.

(* every delivery script (any split sizes, any placement of Interrupted) is a simulating reader;
   the bound on pending Interrupted results is the number of Interrupted events in the script *)
Theorem c12_every_script_simulates : simulates src_read rep_src.
Proof. exact src_simulates. Qed.
Print Assumptions c12_every_script_simulates.

(* read_exact (std / bgzf default_read_exact): bytes stored, Ok vs UnexpectedEof and the stream
   position afterwards depend only on the data (fuel >= pending interrupts + n + 1) *)
Theorem c12_read_exact_sched_indep :
  forall (S : Type) (rd : reader S) (Rep : S -> list N -> nat -> Prop), simulates rd Rep ->
  forall fuel s d m n, Rep s d m -> m + n < fuel ->
    exists s' m',
      read_exact rd fuel s n = (firstn n d, if n <=? length d then XOk else XUnexpectedEof, s')
      /\ Rep s' (skipn n d) m' /\ m' <= m.
Proof. exact (@read_exact_spec). Qed.
Print Assumptions c12_read_exact_sched_indep.

(* directly on the scripted source: two scripts over the same data give the same bytes and result *)
Theorem c12_read_exact_two_scripts :
  forall data sc1 sc2 n,
    let f sc := n_interrupted sc + n + 1 in
    fst (read_exact src_read (f sc1) (mkSource data sc1) n)
    = fst (read_exact src_read (f sc2) (mkSource data sc2) n).
Proof.
  intros data sc1 sc2 n f.
  destruct (read_exact_spec src_read rep_src src_simulates (f sc1) (mkSource data sc1) data
              (n_interrupted sc1) n (conj eq_refl eq_refl) ltac:(unfold f; lia)) as [s1 [m1 [E1 _]]].
  destruct (read_exact_spec src_read rep_src src_simulates (f sc2) (mkSource data sc2) data
              (n_interrupted sc2) n (conj eq_refl eq_refl) ltac:(unfold f; lia)) as [s2 [m2 [E2 _]]].
  rewrite E1, E2. reflexivity.
Qed.
Print Assumptions c12_read_exact_two_scripts.

(* read_exact_or_eof (bam, bcf): the three-way outcome nothing / partial / full is a function of
   the data: full iff n <= |d|, nothing iff d is empty (and n > 0), partial otherwise *)
Theorem c12_read_exact_or_eof_sched_indep :
  forall (S : Type) (rd : reader S) (Rep : S -> list N -> nat -> Prop), simulates rd Rep ->
  forall fuel s d m n, Rep s d m -> m + n < fuel ->
    exists s' m',
      read_exact_or_eof rd fuel s n = (firstn n d, eof_class n d, s')
      /\ Rep s' (skipn n d) m' /\ m' <= m.
Proof. exact (@read_exact_or_eof_spec). Qed.
Print Assumptions c12_read_exact_or_eof_sched_indep.

(* a short read is never end of input: with data left and a non-empty buffer, a simulating
   reader never returns Ok(0), so the fill loop only stops at HitEof when the data is exhausted *)
Theorem c12_short_read_not_eof :
  forall (S : Type) (rd : reader S) (Rep : S -> list N -> nat -> Prop), simulates rd Rep ->
  forall s d m n s', Rep s d m -> 0 < n -> d <> [] -> rd s n <> (ROk [], s').
Proof.
  intros S rd Rep Hsim s d m n s' HR Hn Hd E.
  pose proof (Hsim s d m n HR) as H. rewrite E in H.
  destruct H as [[_ [_ Hpos]] _]. specialize (Hpos Hn Hd). cbn [length] in Hpos. lia.
Qed.
Print Assumptions c12_short_read_not_eof.

(* BufReader of any capacity >= 1 over a simulating reader is a simulating reader of the same data *)
Theorem c12_bufreader_transparent :
  forall (S : Type) (rd : reader S) (Rep : S -> list N -> nat -> Prop), simulates rd Rep ->
  forall cap, 1 <= cap -> simulates (br_read rd cap) (rep_buf Rep).
Proof. exact (@br_simulates). Qed.
Print Assumptions c12_bufreader_transparent.

(* hence read_exact through a BufReader of capacity cap gives the closed form as well *)
Theorem c12_read_exact_through_bufreader :
  forall (S : Type) (rd : reader S) (Rep : S -> list N -> nat -> Prop), simulates rd Rep ->
  forall cap, 1 <= cap ->
  forall fuel st d m n, rep_buf Rep st d m -> m + n < fuel ->
    exists st' m',
      read_exact (br_read rd cap) fuel st n
        = (firstn n d, if n <=? length d then XOk else XUnexpectedEof, st')
      /\ rep_buf Rep st' (skipn n d) m' /\ m' <= m.
Proof.
  intros S rd Rep Hsim cap Hcap.
  exact (read_exact_spec (br_read rd cap) (rep_buf Rep) (br_simulates rd Rep Hsim cap Hcap)).
Qed.
Print Assumptions c12_read_exact_through_bufreader.

(* read_until: the line is the data up to and including the first delimiter (or all of it) *)
Theorem c12_read_until_sched_indep :
  forall (S : Type) (rd : reader S) (Rep : S -> list N -> nat -> Prop), simulates rd Rep ->
  forall cap, 1 <= cap ->
  forall delim fuel st d m, rep_buf Rep st d m -> m + length d + 1 < fuel ->
    exists st' m',
      read_until rd cap delim fuel st = (take_line delim d, UOk, st')
      /\ rep_buf Rep st' (skipn (length (take_line delim d)) d) m' /\ m' <= m.
Proof. exact (@read_until_spec). Qed.
Print Assumptions c12_read_until_sched_indep.

(* noodles read_line (LF / CRLF stripped after the whole line is assembled) *)
Theorem c12_read_line_sched_indep :
  forall (S : Type) (rd : reader S) (Rep : S -> list N -> nat -> Prop), simulates rd Rep ->
  forall cap, 1 <= cap ->
  forall fuel st d m, rep_buf Rep st d m -> m + length d + 1 < fuel ->
    exists st' m',
      read_line rd cap fuel st = (length (take_line LF d), strip_eol (take_line LF d), UOk, st')
      /\ rep_buf Rep st' (skipn (length (take_line LF d)) d) m' /\ m' <= m.
Proof. exact (@read_line_spec). Qed.
Print Assumptions c12_read_line_sched_indep.

(* gff::io::Reader::read_line (read_line repeated while the line is blank): closed form *)
Theorem c12_gff_read_line_sched_indep :
  forall (S : Type) (rd : reader S) (Rep : S -> list N -> nat -> Prop), simulates rd Rep ->
  forall cap, 1 <= cap ->
  forall lines fuel st d m n l rest,
    rep_buf Rep st d m -> m + length d + 1 < fuel -> gff_closed lines d = Some (n, l, rest) ->
    exists st' m', gff_read_line rd cap lines fuel st = (n, l, UOk, st') /\ rep_buf Rep st' rest m' /\ m' <= m.
Proof. exact (@gff_read_line_spec). Qed.
Print Assumptions c12_gff_read_line_sched_indep.

(* BAM record stream (read_exact_or_eof(4) + read_exact(block_size) + validate, repeated) and
   BGZF frame reading (read_exact(18), size check, read_exact(rest), header check, EOF-marker
   blocks skipped) are compositions of the primitives: closed forms on the data, any script *)
Theorem c12_bam_record_stream_closed_form :
  forall k s d m, rep_src s d m ->
    exists s' m', bam_read_records k s = (fst (bam_records_closed k d), s')
                  /\ rep_src s' (snd (bam_records_closed k d)) m'.
Proof. exact bam_read_records_spec. Qed.
Print Assumptions c12_bam_record_stream_closed_form.

Theorem c12_bam_record_stream_sched_indep :
  forall k data sc1 sc2,
    fst (bam_read_records k (mkSource data sc1)) = fst (bam_read_records k (mkSource data sc2)).
Proof.
  intros k data sc1 sc2.
  destruct (bam_read_records_spec k (mkSource data sc1) data _ (conj eq_refl eq_refl)) as [s1 [m1 [E1 _]]].
  destruct (bam_read_records_spec k (mkSource data sc2) data _ (conj eq_refl eq_refl)) as [s2 [m2 [E2 _]]].
  rewrite E1, E2. reflexivity.
Qed.
Print Assumptions c12_bam_record_stream_sched_indep.

Theorem c12_bgzf_frames_sched_indep :
  forall k data sc1 sc2,
    fst (bgzf_read k (mkSource data sc1)) = fst (bgzf_read k (mkSource data sc2)).
Proof.
  intros k data sc1 sc2.
  destruct (bgzf_read_spec k (mkSource data sc1) data _ (conj eq_refl eq_refl)) as [s1 [m1 [E1 _]]].
  destruct (bgzf_read_spec k (mkSource data sc2) data _ (conj eq_refl eq_refl)) as [s2 [m2 [E2 _]]].
  rewrite E1, E2. reflexivity.
Qed.
Print Assumptions c12_bgzf_frames_sched_indep.

(* FASTA sequence reader (repaired code: line-start flag + held-back CR + Interrupted retried):
   for EVERY data, every window layout and every placement of Interrupted the sequence returned
   is the closed form [spec] of the data — line terminator = LF optionally preceded by one CR, CRs
   at a line start skipped, a CR elsewhere is data, '>' ends the sequence only at a line start.
   No side condition on the text (the former known classes fasta-bare-cr / fasta-midline-gt). *)
Theorem c12_fasta_scanner_chunk_indep :
  forall (S : Type) (rd : reader S) (Rep : S -> list N -> nat -> Prop), simulates rd Rep ->
  forall cap, 1 <= cap ->
  forall fuel ib p st d m acc,
    rep_buf Rep st d m -> (p = true -> ib = false) -> mu m d p < fuel ->
    exists s', read_sequence rd cap fuel (ib, p, st) acc = (SOk, acc ++ spec ib p d, s').
Proof. exact (@read_sequence_spec). Qed.
Print Assumptions c12_fasta_scanner_chunk_indep.

(* on the scripted source behind a BufReader: any script, any capacity, same sequence *)
Theorem c12_fasta_read_sequence_any_delivery :
  forall data sc cap, 1 <= cap ->
    exists s', run_read_sequence cap (mkSource data sc) = (SOk, seq_spec data, s').
Proof.
  intros data sc cap Hcap. unfold run_read_sequence.
  destruct (read_sequence_spec src_read rep_src src_simulates cap Hcap
              (s_fuel ([], mkSource data sc)) true false ([], mkSource data sc) data
              (n_interrupted sc) []) as [s' E].
  - exists data. cbn [fst snd app]. split; [reflexivity|]. split; reflexivity.
  - intros H; discriminate.
  - unfold mu, s_fuel, b_fuel, src_fuel. cbn [fst snd s_data s_script length]. lia.
  - exists s'. exact E.
Qed.
Print Assumptions c12_fasta_read_sequence_any_delivery.

(* FASTA indexer, consume_sequence_line at the beginning of a line: (line width, base count) =
   (length of the raw line including its LF, its bytes before the LF minus one final CR); nothing
   for a line that starts with '>'.  Every delivery, no side condition. *)
Theorem c12_fasta_indexer_line_chunk_indep :
  forall (S : Type) (rd : reader S) (Rep : S -> list N -> nat -> Prop), simulates rd Rep ->
  forall cap, 1 <= cap ->
  forall fuel st d m, rep_buf Rep st d m -> m + length d + 1 < fuel ->
    exists st', consume_sequence_line rd cap fuel st false false 0 0
                = (SOk, length (idx_line d), length (strip_cr (until_lf (idx_line d))), st').
Proof. exact (@consume_sequence_line_spec). Qed.
Print Assumptions c12_fasta_indexer_line_chunk_indep.

(* ---- the whole FASTA indexer (Indexer::index_record in the loop of fasta::fs::index): for every
   simulating reader, every BufReader capacity and every data the records and the final error are
   those of C11's line-driven model on the lines of the data (j = outer loop fuel, the same on both
   sides; k > |d| bounds the lines of one record; fuel bounds the reads of one primitive call) *)
Theorem c12_fasta_indexer_whole_file_chunk_indep :
  forall (S : Type) (rd : reader S) (Rep : S -> list N -> nat -> Prop), simulates rd Rep ->
  forall cap, 1 <= cap ->
  forall j k fuel st d m off, rep_buf Rep st d m -> length d < k -> m + length d + 1 < fuel ->
    exists st', d_index_loop rd cap j k fuel st off = (Indexer.index_loop j (Layout.lines d) off, st').
Proof. exact (@d_index_loop_spec). Qed.
Print Assumptions c12_fasta_indexer_whole_file_chunk_indep.

(* on the scripted source: any script, any capacity: exactly C11's index_file of the data *)
Theorem c12_fasta_index_file_any_delivery :
  forall data sc cap, 1 <= cap ->
    exists st', run_index_file cap (mkSource data sc) = (Indexer.index_file data, st').
Proof. exact run_index_file_spec. Qed.
Print Assumptions c12_fasta_index_file_any_delivery.

(* composed with C11's whole-file theorem: under every delivery the fai records produced are, in
   order, records of the naive whole-file parse of the data (all of them when the indexer ends
   without error), each with the right name, length, base offsets and region queries *)
Theorem c12_fasta_index_file_delivery_is_naive_parse :
  forall data sc cap recs e, 1 <= cap ->
    fst (run_index_file cap (mkSource data sc)) = (recs, e) ->
    Forall2 (WholeFile.rec_matches data) recs (firstn (length recs) (Layout.naive_file data)) /\
    (e = None -> length recs = length (Layout.naive_file data)).
Proof.
  intros data sc cap recs e Hcap H.
  destruct (run_index_file_spec data sc cap Hcap) as [st' E]. rewrite E in H. cbn [fst] in H.
  exact (WholeFile.index_file_whole data recs e H).
Qed.
Print Assumptions c12_fasta_index_file_delivery_is_naive_parse.

(* ---- FASTQ record reader (read_u8 + memchr3 name loop over fill_buf windows + read_line +
   consume_plus_line + consume_line): one read_record under any delivery returns C11's whole-buffer
   result on the data (record or error) and leaves the reader exactly at the unread rest *)
Theorem c12_fastq_read_record_chunk_indep :
  forall (S : Type) (rd : reader S) (Rep : S -> list N -> nat -> Prop), simulates rd Rep ->
  forall cap, 1 <= cap ->
  forall fuel st d m, rep_buf Rep st d m -> m + length d + 1 < fuel ->
    match Fastq.read_qrec d with
    | inl e => exists st', d_read_qrec rd cap fuel st = (inl e, st')
    | inr None => exists st', d_read_qrec rd cap fuel st = (inr None, st')
    | inr (Some (r, rest)) =>
        exists st' m', d_read_qrec rd cap fuel st = (inr (Some r), st')
                       /\ rep_buf Rep st' rest m' /\ m' <= m /\ length rest < length d
    end.
Proof. exact (@d_read_qrec_spec). Qed.
Print Assumptions c12_fastq_read_record_chunk_indep.

(* the records() loop, and on the scripted source: any script, any capacity = C11's read_qfile *)
Theorem c12_fastq_reader_whole_file_chunk_indep :
  forall (S : Type) (rd : reader S) (Rep : S -> list N -> nat -> Prop), simulates rd Rep ->
  forall cap, 1 <= cap ->
  forall j fuel st d m, rep_buf Rep st d m -> m + length d + 1 < fuel ->
    exists st', d_read_qrecs rd cap j fuel st = (Fastq.read_qrecs j d, st').
Proof. exact (@d_read_qrecs_spec). Qed.
Print Assumptions c12_fastq_reader_whole_file_chunk_indep.

Theorem c12_fastq_read_file_any_delivery :
  forall data sc cap, 1 <= cap ->
    exists st', run_fastq cap (mkSource data sc) = (Fastq.read_qfile data, st').
Proof. exact run_fastq_spec. Qed.
Print Assumptions c12_fastq_read_file_any_delivery.

(* FASTQ indexer (read_definition with its byte count + UTF-8 check + three raw read_until lines):
   under any delivery the fai records, offsets and the final error are C11's index_qfile of the data *)
Theorem c12_fastq_indexer_whole_file_chunk_indep :
  forall (S : Type) (rd : reader S) (Rep : S -> list N -> nat -> Prop), simulates rd Rep ->
  forall cap, 1 <= cap ->
  forall j fuel st d m off, rep_buf Rep st d m -> m + length d + 1 < fuel ->
    exists st', d_index_qrecs rd cap j fuel st off = (Fastq.index_qrecs j d off, st').
Proof. exact (@d_index_qrecs_spec). Qed.
Print Assumptions c12_fastq_indexer_whole_file_chunk_indep.

Theorem c12_fastq_index_file_any_delivery :
  forall data sc cap, 1 <= cap ->
    exists st', run_fastq_index cap (mkSource data sc) = (Fastq.index_qfile data, st').
Proof. exact run_fastq_index_spec. Qed.
Print Assumptions c12_fastq_index_file_any_delivery.

(* ---- SAM ('@') and VCF ('#') header readers: the adapter that peeks at the first byte of a
   fill_buf window when a line starts.  Under every delivery read_header's read_line loop hands the
   parser exactly the (LF/CRLF-stripped) lines of the longest run of lines that begin with the
   prefix, and the reader is left at the first other line (k > |d| bounds the number of lines).
   The hypothesis on is_eol is the initial state of header::Reader (is_eol = true). *)
Theorem c12_header_reader_chunk_indep :
  forall (S : Type) (rd : reader S) (Rep : S -> list N -> nat -> Prop), simulates rd Rep ->
  forall cap, 1 <= cap ->
  forall prefix k fuel is_eol st d m,
    rep_buf Rep st d m -> length d < k -> m + length d + 1 < fuel -> (is_eol = true \/ d = []) ->
    exists st' m' e,
      h_read_lines rd cap prefix k fuel is_eol st
        = (map strip_eol (fst (hdr_closed k prefix d)), UOk, e, st')
      /\ rep_buf Rep st' (snd (hdr_closed k prefix d)) m' /\ m' <= m.
Proof. exact (@h_read_lines_spec). Qed.
Print Assumptions c12_header_reader_chunk_indep.

(* the same at the BufRead interface of header_reader() (raw lines; what the L2 check drives) *)
Theorem c12_header_reader_raw_lines_chunk_indep :
  forall (S : Type) (rd : reader S) (Rep : S -> list N -> nat -> Prop), simulates rd Rep ->
  forall cap, 1 <= cap ->
  forall prefix k fuel is_eol st d m,
    rep_buf Rep st d m -> length d < k -> m + length d + 1 < fuel -> (is_eol = true \/ d = []) ->
    exists st' m' e,
      h_raw_lines rd cap prefix k fuel is_eol st = (fst (hdr_closed k prefix d), UOk, e, st')
      /\ rep_buf Rep st' (snd (hdr_closed k prefix d)) m' /\ m' <= m.
Proof. exact (@h_raw_lines_spec). Qed.
Print Assumptions c12_header_reader_raw_lines_chunk_indep.

Theorem c12_header_reader_any_delivery :
  forall prefix data sc cap, 1 <= cap ->
  exists st' m' e,
    h_raw_lines src_read cap prefix (Datatypes.S (length data)) (b_fuel ([], mkSource data sc) 0) true
      ([], mkSource data sc)
    = (fst (hdr_closed (Datatypes.S (length data)) prefix data), UOk, e, st')
    /\ rep_buf rep_src st' (snd (hdr_closed (Datatypes.S (length data)) prefix data)) m'.
Proof. exact run_header_lines_spec. Qed.
Print Assumptions c12_header_reader_any_delivery.

(* ---- the same adapters used as a plain Read (`impl Read for header::Reader`: fill_buf, copy,
   is_eol := false when the window was not taken whole, consume): over any simulating reader behind
   a BufReader of any capacity >= 1 the adapter is ITSELF a simulating reader, of the header bytes
   [hdr_text] of the data.  So read, read_exact, every read program, take(n).read_to_end and
   read_to_end / read_to_string with whatever buffer sizes see exactly the header bytes, for every
   delivery (c12_read_exact_sched_indep, c12_read_program_delivery_indep, ... apply with rd := h_read) *)
Theorem c12_header_adapter_read_simulates :
  forall (S : Type) (rd : reader S) (Rep : S -> list N -> nat -> Prop), simulates rd Rep ->
  forall cap, 1 <= cap -> forall prefix,
    simulates (h_read rd cap prefix) (rep_hdr Rep prefix).
Proof. exact (@h_read_simulates). Qed.
Print Assumptions c12_header_adapter_read_simulates.

(* at a line start the header bytes are the raw header lines of c12_header_reader_raw_lines_chunk_indep *)
Theorem c12_header_adapter_text_is_header_lines :
  forall prefix k d, length d < k -> hdr_text k prefix true d = concat (fst (hdr_closed k prefix d)).
Proof. exact hdr_text_is_hdr_closed. Qed.
Print Assumptions c12_header_adapter_text_is_header_lines.

(* read_to_end through the adapter on the scripted source: any script, any capacity >= 1, any
   request size of read_to_end's buffer growth: the header bytes of the data *)
Theorem c12_header_adapter_read_to_end_any_delivery :
  forall prefix data sc cap chunk, 1 <= cap ->
    fst (run_hdr_read_to_end prefix cap chunk (mkSource data sc))
    = COk (hdr_text (Datatypes.S (length data)) prefix true data).
Proof. exact run_hdr_read_to_end_spec. Qed.
Print Assumptions c12_header_adapter_read_to_end_any_delivery.

(* ---- the FASTA sequence reader used as a plain Read (`impl Read for sequence::Reader`: fill_buf,
   copy min(buf.len(), slice) bytes, consume THAT MANY -- a partial consume of the slice, of the
   one-byte slice of a held-back CR, or of nothing).  One fill_buf followed by a consume of any
   part k of the slice: the slice starts the sequence bytes still to come, the state afterwards
   stands for the rest (line-start flag dropped, held-back CR released only when k = 1), the
   work left does not grow, what follows the sequence ([seq_rest]) is unchanged, and after an empty
   slice the BufReader stands exactly at it *)
Theorem c12_fasta_sequence_fill_buf_partial_consume :
  forall (S : Type) (rd : reader S) (Rep : S -> list N -> nat -> Prop), simulates rd Rep ->
  forall cap, 1 <= cap ->
  forall fuel ib p st d m,
    rep_buf Rep st d m -> (p = true -> ib = false) -> mu m d p < fuel ->
    exists piece ib1 p1 st1,
      seq_fill_buf rd cap fuel ib p st = (SOk, piece, (ib1, p1, st1))
      /\ (piece = [] -> spec ib p d = [])
      /\ forall k, k <= length piece ->
         exists ib2 p2 st2 d2 m2,
           seq_consume k (ib1, p1, st1) = (ib2, p2, st2)
           /\ rep_buf Rep st2 d2 m2 /\ (p2 = true -> ib2 = false)
           /\ spec ib p d = firstn k piece ++ spec ib2 p2 d2
           /\ mu m2 d2 p2 <= mu m d p
           /\ seq_rest (lst ib) d = seq_rest (lst ib2) d2
           /\ (piece = [] -> d2 = seq_rest (lst ib) d).
Proof. exact (@fill_spec). Qed.
Print Assumptions c12_fasta_sequence_fill_buf_partial_consume.

(* over ANY simulating reader behind a BufReader of any capacity >= 1 the sequence reader's `read`
   is itself a simulating reader of the sequence bytes of the data ([rep_seq]: the state stands for
   [spec is_bol has_pending_cr d], d = what its BufReader stands for; the fuel of its own fill_buf
   loop exceeds the work left).  Everything proved for simulating readers -- read_exact, every read
   program, take(n).read_to_end and read_to_end with whatever buffer sizes -- therefore holds for
   `sequence_reader()` used as a Read *)
Theorem c12_fasta_sequence_read_simulates :
  forall (S : Type) (rd : reader S) (Rep : S -> list N -> nat -> Prop), simulates rd Rep ->
  forall cap, 1 <= cap -> forall fuel,
    simulates (sq_read rd cap fuel) (rep_seq Rep fuel).
Proof. exact (@sq_read_simulates). Qed.
Print Assumptions c12_fasta_sequence_read_simulates.

(* and it never reports Interrupted, however many the source delivers: fill_buf retries them *)
Theorem c12_fasta_sequence_read_never_interrupted :
  forall (S : Type) (rd : reader S) (Rep : S -> list N -> nat -> Prop), simulates rd Rep ->
  forall cap, 1 <= cap -> forall fuel s dS m n, rep_seq Rep fuel s dS m ->
    exists bs s', sq_read rd cap fuel s n = (ROk bs, s').
Proof. exact (@sq_read_never_interrupted). Qed.
Print Assumptions c12_fasta_sequence_read_never_interrupted.

(* read_sequence = `sequence::Reader::new(inner).read_to_end(buf)`: over any simulating reader behind
   a BufReader of any capacity >= 1, for EVERY sequence of sizes read_to_end's buffer growth asks
   for ([req]), a fresh sequence reader returns exactly the sequence bytes of the data *)
Theorem c12_fasta_read_sequence_read_to_end_chunk_indep :
  forall (S : Type) (rd : reader S) (Rep : S -> list N -> nat -> Prop), simulates rd Rep ->
  forall cap, 1 <= cap ->
  forall fuel (req : nat -> nat) st d m, rep_buf Rep st d m -> m + 2 * length d < fuel ->
    exists s', run_raw (sq_read rd cap fuel) req (fun _ n => n + 1)
                 (Take (Datatypes.S (length d)) (fun bs => Ret bs)) (true, false, st)
               = (RVal (seq_spec d), s').
Proof. exact sq_read_to_end_spec. Qed.
Print Assumptions c12_fasta_read_sequence_read_to_end_chunk_indep.

(* ... and it leaves the inner BufReader standing for exactly [seq_rest BOL d]: the data from the
   next definition line ('>' at a line start) on, or nothing -- blank lines and the terminator of
   the last sequence line are consumed, nothing of the next record is *)
Theorem c12_fasta_read_sequence_read_to_end_position :
  forall (S : Type) (rd : reader S) (Rep : S -> list N -> nat -> Prop), simulates rd Rep ->
  forall cap, 1 <= cap ->
  forall fuel (req : nat -> nat) st d m, rep_buf Rep st d m -> m + 2 * length d < fuel ->
    exists s' mi, run_raw (sq_read rd cap fuel) req (fun _ n => n + 1)
                    (Take (Datatypes.S (length d)) (fun bs => Ret bs)) (true, false, st)
                  = (RVal (seq_spec d), s')
                  /\ rep_buf Rep (snd s') (seq_rest BOL d) mi.
Proof. exact sq_read_to_end_pos_spec. Qed.
Print Assumptions c12_fasta_read_sequence_read_to_end_position.

(* on the scripted source: any script, any capacity >= 1, any request size *)
Theorem c12_fasta_read_sequence_read_to_end_any_delivery :
  forall data sc cap chunk, 1 <= cap ->
    fst (run_seq_read_to_end cap chunk (mkSource data sc)) = COk (seq_spec data).
Proof. exact run_seq_read_to_end_spec. Qed.
Print Assumptions c12_fasta_read_sequence_read_to_end_any_delivery.

(* the whole observation of kind seqe: bytes and number of source bytes not yet consumed *)
Theorem c12_fasta_read_sequence_read_to_end_obs_any_delivery :
  forall data sc cap chunk, 1 <= cap ->
    run_seq_read_to_end cap chunk (mkSource data sc) = (COk (seq_spec data), length (seq_rest BOL data)).
Proof. exact run_seq_read_to_end_pos_spec. Qed.
Print Assumptions c12_fasta_read_sequence_read_to_end_obs_any_delivery.

(* ---- bgzf::io::Reader over a chunked source.  read_frame_into (read_exact(18), BSIZE check,
   read_exact(rest)) over ANY simulating reader returns what C01's whole-buffer [Reader.read_frame]
   returns on the data: the same frame and rest, or the same end / error *)
Theorem c12_bgzf_read_frame_chunk_indep :
  forall (S : Type) (rd : reader S) (Rep : S -> list N -> nat -> Prop), simulates rd Rep ->
  forall fuel s d m, Rep s d m -> m + 18 < fuel ->
    match Bgzf.Reader.read_frame d with
    | Bgzf.Frame.Ok None => exists s', d_read_frame rd fuel s = (DEof, s')
    | Bgzf.Frame.Err e => exists s', d_read_frame rd fuel s = (DErr e, s')
    | Bgzf.Frame.Ok (Some (f, rest)) =>
        exists s' m', d_read_frame rd fuel s = (DFrame f, s')
                      /\ Rep s' rest m' /\ m' <= m /\ length rest < length d
    | Bgzf.Frame.Panic => True
    end.
Proof. exact (@d_read_frame_spec). Qed.
Print Assumptions c12_bgzf_read_frame_chunk_indep.

(* all frames, parsed with C01's parse_block (inflate = a parameter: the external DEFLATE decoder):
   the list of (compressed size, data) frames and the final result are those of the whole data *)
Theorem c12_bgzf_frames_chunk_indep :
  forall (S : Type) (rd : reader S) (Rep : S -> list N -> nat -> Prop), simulates rd Rep ->
  forall (inflate : list N -> N -> option (list N)) k fuel s d m, Rep s d m -> m + 18 < fuel ->
    exists s', d_read_frames rd inflate k fuel s = (whole_frames inflate k d, s').
Proof. exact (@d_read_frames_spec). Qed.
Print Assumptions c12_bgzf_frames_chunk_indep.

(* their data is C01's read_to_end view of the same input *)
Theorem c12_bgzf_whole_frames_are_read_blocks :
  forall inflate k d,
    (map Bgzf.ReaderOps.fdata (fst (whole_frames inflate k d)), snd (whole_frames inflate k d))
    = Bgzf.Reader.read_blocks inflate k d.
Proof. exact whole_frames_read_blocks. Qed.
Print Assumptions c12_bgzf_whole_frames_are_read_blocks.

(* composed with C02's position state machine (ReaderOps.fill_buf / consume on the parsed frames):
   for every script, raw source (cap = 0) or BufReader of any capacity, the sequence of
   (block offset, block data), Reader::position() and the final result are those of the whole data *)
Theorem c12_bgzf_reader_any_delivery :
  forall inflate data sc cap, run_bgzf inflate cap (mkSource data sc) = whole_bgzf inflate data.
Proof. exact run_bgzf_spec. Qed.
Print Assumptions c12_bgzf_reader_any_delivery.

(* and every operation of C02's ReaderOps started on the delivered frames is the operation on the
   frames of the whole data (here: the caller-side read-to-end loop with an n-byte buffer) *)
Theorem c12_bgzf_reader_ops_delivery_indep :
  forall inflate data sc fx n,
    let k := Datatypes.S (length data) in
    Bgzf.ReaderOps.read_all fx
      (Bgzf.ReaderOps.init (fst (fst (d_read_frames src_read inflate k (src_fuel (mkSource data sc) 18)
                                         (mkSource data sc))))) n
    = Bgzf.ReaderOps.read_all fx (Bgzf.ReaderOps.init (fst (whole_frames inflate k data))) n.
Proof.
  intros inflate data sc fx n k.
  destruct (d_read_frames_spec src_read rep_src src_simulates inflate k
              (src_fuel (mkSource data sc) 18) (mkSource data sc) data (n_interrupted sc)) as [s' E].
  - split; reflexivity.
  - unfold src_fuel. cbn [s_data s_script]. lia.
  - rewrite E. reflexivity.
Qed.
Print Assumptions c12_bgzf_reader_ops_delivery_indep.

(* ---- BED record reader: a field scanner over fill_buf windows (skip_comment_lines with its '#'
   peek, discard_line, read_field with memchr2 and the extra fill_buf after the delimiter,
   read_required_field, read_other_fields; the same read_field is noodles-sam's).  One read_record_N
   under any delivery returns the whole-buffer closed form on the data: same io result, same record
   buffer and bounds (including the stale bounds a reused record keeps), and the reader is left at
   the same rest.  k > m + |d| bounds the comment-skipping and other-fields loops. *)
Theorem c12_bed_read_record_chunk_indep :
  forall (S : Type) (rd : reader S) (Rep : S -> list N -> nat -> Prop), simulates rd Rep ->
  forall cap, 1 <= cap ->
  forall n k fuel st d m old,
    rep_buf Rep st d m -> m + length d < k -> m + length d + 2 < fuel ->
    exists st' m',
      d_bed_read_record rd cap n k fuel st old
        = (fst (fst (w_bed_read_record n d old)), snd (w_bed_read_record n d old), st')
      /\ rep_buf Rep st' (snd (fst (w_bed_read_record n d old))) m' /\ m' <= m
      /\ length (snd (fst (w_bed_read_record n d old))) <= length d.
Proof. exact (@d_bed_read_record_spec). Qed.
Print Assumptions c12_bed_read_record_chunk_indep.

(* the caller's loop over one reused record (going on after errors), with C18's accessor views *)
Theorem c12_bed_reader_any_delivery :
  forall n j data sc cap, 1 <= cap ->
    exists st', run_bed n j cap (mkSource data sc)
                = (w_bed_read_raw j n data (BedRec.bed_default n), st').
Proof. exact run_bed_spec. Qed.
Print Assumptions c12_bed_reader_any_delivery.

(* the closed form is C18's whole-buffer model (NV.Text.BedRec, after /repo 6993cf2), so the
   delivered reader returns what C18's bed_read_raw returns on the data *)
Theorem c12_bed_reader_is_c18_model :
  forall n j data sc cap, 1 <= cap ->
    exists st', run_bed n j cap (mkSource data sc)
                = (BedRec.bed_read_raw j n data (BedRec.bed_default n), st').
Proof.
  intros n j data sc cap Hcap. destruct (run_bed_spec n j data sc cap Hcap) as [st' E].
  exists st'. rewrite E. rewrite w_bed_read_raw_eq. reflexivity.
Qed.
Print Assumptions c12_bed_reader_is_c18_model.

(* ---- lazy SAM record reader (10 required fields + the last one with BED's read_field, then the
   rest of the line with read_line into the same buffer): io result, record buffer, field ends and
   the rest of the input are the closed form on the data, for every delivery *)
Theorem c12_sam_read_record_chunk_indep :
  forall (S : Type) (rd : reader S) (Rep : S -> list N -> nat -> Prop), simulates rd Rep ->
  forall cap, 1 <= cap ->
  forall fuel st d m, rep_buf Rep st d m -> m + length d + 2 < fuel ->
    exists st' m',
      d_sam_read_record rd cap fuel st
        = (fst (fst (fst (w_sam_read_record d))), snd (fst (fst (w_sam_read_record d))),
           snd (fst (w_sam_read_record d)), st')
      /\ rep_buf Rep st' (snd (w_sam_read_record d)) m' /\ m' <= m
      /\ length (snd (w_sam_read_record d)) <= length d.
Proof. exact (@d_sam_read_record_spec). Qed.
Print Assumptions c12_sam_read_record_chunk_indep.

Theorem c12_sam_records_any_delivery :
  forall data sc cap, 1 <= cap ->
    exists st', run_sam_records cap (mkSource data sc)
                = (fst (tab_loop w_sam_read_record (Datatypes.S (length data)) data), st').
Proof. exact run_sam_records_spec. Qed.
Print Assumptions c12_sam_records_any_delivery.

(* ---- lazy VCF record reader.  TabRead.vcf_utf8_repaired says which read_field the tree has
   (false: every fill_buf window slice validated on its own = the known class
   vcf-record-field-utf8-split-capacity-dependent; true: after /tmp/C12/fixes/05b, one validation per
   field).  Through the switch: the reader of the tree returns the closed form with whole-field
   validation for every data once the switch is true, and for ASCII data before *)
Theorem c12_vcf_read_record_chunk_indep :
  forall (S : Type) (rd : reader S) (Rep : S -> list N -> nat -> Prop), simulates rd Rep ->
  forall cap, 1 <= cap ->
  forall fuel st d m, rep_buf Rep st d m -> m + length d + 2 < fuel ->
    (vcf_utf8_repaired = true \/ ascii d = true) ->
    exists st' m',
      d_vcf_read_record rd cap fuel st
        = (fst (fst (fst (wx_vcf_read_record d))), snd (fst (fst (wx_vcf_read_record d))),
           snd (fst (wx_vcf_read_record d)), st')
      /\ rep_buf Rep st' (snd (wx_vcf_read_record d)) m' /\ m' <= m
      /\ length (snd (wx_vcf_read_record d)) <= length d.
Proof. exact (@d_vcf_read_record_spec). Qed.
Print Assumptions c12_vcf_read_record_chunk_indep.

(* the repaired read_field (fx = true) itself, whatever the switch says: every data, no premise *)
Theorem c12_vcf_read_record_repaired_chunk_indep :
  forall (S : Type) (rd : reader S) (Rep : S -> list N -> nat -> Prop), simulates rd Rep ->
  forall cap, 1 <= cap ->
  forall fuel st d m, rep_buf Rep st d m -> m + length d + 2 < fuel ->
    exists st' m',
      d_vcf_read_record_fx rd cap true fuel st
        = (fst (fst (fst (wx_vcf_read_record d))), snd (fst (fst (wx_vcf_read_record d))),
           snd (fst (wx_vcf_read_record d)), st')
      /\ rep_buf Rep st' (snd (wx_vcf_read_record d)) m' /\ m' <= m
      /\ length (snd (wx_vcf_read_record d)) <= length d.
Proof.
  intros S rd Rep Hsim cap Hcap fuel st d m HR Hf.
  exact (d_vcf_read_record_fx_spec rd Rep Hsim cap Hcap true fuel st d m HR Hf (or_introl eq_refl)).
Qed.
Print Assumptions c12_vcf_read_record_repaired_chunk_indep.

(* the unconditional statement about the reader of the tree; FALSE while the switch is false:
   the same record read through capacity 1 and capacity 64 *)
Definition c12_vcf_read_record_full_statement : Prop :=
  forall data sc1 sc2 cap1 cap2, 1 <= cap1 -> 1 <= cap2 ->
    fst (run_vcf_records cap1 (mkSource data sc1)) = fst (run_vcf_records cap2 (mkSource data sc2)).

Definition vcf_utf8_witness : list N :=
  [115; 9; 49; 9; 195; 169; 9; 65; 9; 46; 9; 46; 9; 46; 9; 46; 10]%N.   (* s 1 "e-acute" A . . . . *)

Theorem c12_vcf_read_record_refuted :
  vcf_utf8_repaired = false -> ~ c12_vcf_read_record_full_statement.
Proof.
  intros Hsw. vm_compute in Hsw.
  first [ discriminate Hsw
        | intros H; specialize (H vcf_utf8_witness [] [] 1 64 ltac:(lia) ltac:(lia));
          vm_compute in H; discriminate H ].
Qed.
Print Assumptions c12_vcf_read_record_refuted.

(* outside the known class (all bytes < 128) the reader of the tree equals the plain closed form *)
Theorem c12_vcf_read_record_ascii_chunk_indep :
  forall (S : Type) (rd : reader S) (Rep : S -> list N -> nat -> Prop), simulates rd Rep ->
  forall cap, 1 <= cap ->
  forall fuel st d m, rep_buf Rep st d m -> m + length d + 2 < fuel -> ascii d = true ->
    exists st' m',
      d_vcf_read_record rd cap fuel st
        = (fst (fst (fst (w_vcf_read_record d))), snd (fst (fst (w_vcf_read_record d))),
           snd (fst (w_vcf_read_record d)), st')
      /\ rep_buf Rep st' (snd (w_vcf_read_record d)) m' /\ m' <= m
      /\ length (snd (w_vcf_read_record d)) <= length d.
Proof. exact (@d_vcf_read_record_ascii_spec). Qed.
Print Assumptions c12_vcf_read_record_ascii_chunk_indep.

(* ---- read_line to the end of the input (gtf::io::Reader::read_line; the line step of the
   read_line-based record readers of sam / vcf / gtf): the raw lines of the data, one per call *)
Theorem c12_read_lines_any_delivery :
  forall data sc cap, 1 <= cap ->
    exists st', run_read_lines cap (mkSource data sc)
                = (map (fun l => (length l, strip_eol l)) (Layout.lines data), st').
Proof. exact run_read_lines_spec. Qed.
Print Assumptions c12_read_lines_any_delivery.

(* ---- read programs (NV.Io.Prog): every reader that only uses the read_exact loop (Fill: read_exact,
   read_exact_or_eof, a read_exact whose UnexpectedEof is caught), `take(n).read_to_end` (Take, with
   whatever sizes read_to_end asks for) and BufRead::read_until (Until) is delivery independent.
   Over a plain Read (any simulating reader; programs without read_until): the result is the
   result on the data and the reader is left exactly at the bytes the program leaves -- also when
   it ends with an error *)
Theorem c12_read_program_delivery_indep :
  forall (S : Type) (rd : reader S) (Rep : S -> list N -> nat -> Prop), simulates rd Rep ->
  forall (req : nat -> nat) (fuelf : S -> nat -> nat),
    (forall s d m n, Rep s d m -> m + n < fuelf s n) ->
  forall (A : Type) (p : prog A), until_free p ->
  forall s d m, Rep s d m ->
    exists s' m', run_raw rd req fuelf p s = (fst (run_pure p d), s')
                  /\ Rep s' (snd (run_pure p d)) m' /\ m' <= m.
Proof. exact run_raw_spec. Qed.
Print Assumptions c12_read_program_delivery_indep.

(* over a std BufReader of any capacity >= 1 (any program, read_until included) *)
Theorem c12_read_program_buffered_delivery_indep :
  forall (S : Type) (rd : reader S) (Rep : S -> list N -> nat -> Prop), simulates rd Rep ->
  forall cap, 1 <= cap ->
  forall (req : nat -> nat) (fuelf : bstate S -> nat -> nat) (fuelu : bstate S -> nat),
    (forall st d m n, rep_buf Rep st d m -> m + n < fuelf st n) ->
    (forall st d m, rep_buf Rep st d m -> m + length d + 1 < fuelu st) ->
  forall (A : Type) (p : prog A) st d m, rep_buf Rep st d m ->
    exists st' m', run_buf rd cap req fuelf fuelu p st = (fst (run_pure p d), st')
                   /\ rep_buf Rep st' (snd (run_pure p d)) m' /\ m' <= m.
Proof. exact run_buf_spec. Qed.
Print Assumptions c12_read_program_buffered_delivery_indep.

(* on the scripted source, raw (cap = 0) or buffered: any script, any capacity, any read_to_end
   request size: (result, bytes left) are those of the program on the data *)
Theorem c12_read_program_any_delivery :
  forall (A : Type) (p : prog A) data sc cap chunk, (cap = 0 -> until_free p) ->
    run_prog cap chunk p (mkSource data sc)
    = (cres_of (fst (run_pure p data)), length (snd (run_pure p data))).
Proof. exact run_prog_spec. Qed.
Print Assumptions c12_read_program_any_delivery.

(* two deliveries of the same data through two different readers *)
Theorem c12_read_program_two_deliveries :
  forall (S1 S2 : Type) (rd1 : reader S1) (rd2 : reader S2) Rep1 Rep2,
    simulates rd1 Rep1 -> simulates rd2 Rep2 ->
  forall req1 req2 fuelf1 fuelf2,
    (forall s d m n, Rep1 s d m -> m + n < fuelf1 s n) ->
    (forall s d m n, Rep2 s d m -> m + n < fuelf2 s n) ->
  forall (A : Type) (p : prog A), until_free p ->
  forall s1 s2 d m1 m2, Rep1 s1 d m1 -> Rep2 s2 d m2 ->
    fst (run_raw rd1 req1 fuelf1 p s1) = fst (run_raw rd2 req2 fuelf2 p s2).
Proof. exact run_raw_two_deliveries. Qed.
Print Assumptions c12_read_program_two_deliveries.

(* count-driven loops are built on the binary representation of the count (so that a count of
   2^64 read from the input costs nothing until the reads fail); they run like the unary loops *)
Theorem c12_count_loop_is_unary_loop :
  forall (A : Type) (p : prog A) n d, run_pure (p_rep n p) d = run_pure (p_repeat (N.to_nat n) p) d.
Proof. exact p_rep_pure. Qed.
Print Assumptions c12_count_loop_is_unary_loop.

(* ---- instances.  gzi (read_index): under any delivery = C17's whole-buffer read_gzi *)
Theorem c12_gzi_reader_any_delivery :
  forall data sc cap,
    run_gzi cap (mkSource data sc) = (cres_of (fst (run_pure p_gzi data)), length (snd (run_pure p_gzi data)))
    /\ opt_of (run_pure p_gzi data) = Layout.read_gzi data.
Proof. intros data sc cap. split; [apply run_gzi_spec|apply p_gzi_is_read_gzi]. Qed.
Print Assumptions c12_gzi_reader_any_delivery.

(* BAI (read_index: magic, references with bins / metadata pseudo-bin / intervals, optional
   trailing count): under any delivery = C17's whole-buffer read_bai *)
Theorem c12_bai_reader_any_delivery :
  forall data sc cap,
    run_bai cap (mkSource data sc) = (cres_of (fst (run_pure p_bai data)), length (snd (run_pure p_bai data)))
    /\ opt_of (run_pure p_bai data) = Layout.read_bai data.
Proof. intros data sc cap. split; [apply run_bai_spec|apply p_bai_is_read_bai]. Qed.
Print Assumptions c12_bai_reader_any_delivery.

(* fai (read_line loop + UTF-8 validation of each line + parse_record) behind any BufReader *)
Theorem c12_fai_reader_any_delivery :
  forall data sc cap, 1 <= cap ->
    let p := p_fai (Datatypes.S (length data)) in
    run_fai cap (mkSource data sc) = (cres_of (fst (run_pure p data)), length (snd (run_pure p data))).
Proof. exact run_fai_spec. Qed.
Print Assumptions c12_fai_reader_any_delivery.

(* and that result is C17's byte-based whole-buffer read_fai of the data (after /repo 24986d3) *)
Theorem c12_fai_reader_is_c17_read_fai :
  forall data, opt_of (run_pure (p_fai (Datatypes.S (length data))) data) = TextIndex.read_fai data.
Proof. exact p_fai_is_read_fai. Qed.
Print Assumptions c12_fai_reader_is_c17_read_fai.

(* the CSI / tabix header reader (csi read_header: six i32 fields with their conversions, then
   l_nm and the NUL-terminated names read through BufReader::new(reader.take(l_nm))): under any
   delivery its result is C17's whole-buffer p_header of the data, with the same rest *)
Theorem c12_csi_header_reader_any_delivery :
  forall data sc cap chunk,
    run_csi_header cap chunk (mkSource data sc)
      = (cres_of (fst (run_pure g_header data)), length (snd (run_pure g_header data)))
    /\ match run_pure g_header data with
       | (RVal h, r) => CsiLayout.p_header data = Some (h, r)
       | (RErr e, _) => CsiLayout.p_header data = None /\ e <> Stream.OutOfFuel
       end.
Proof. intros data sc cap chunk. split; [apply run_csi_header_spec|apply g_header_is_p_header]. Qed.
Print Assumptions c12_csi_header_reader_any_delivery.

(* BCF record reader (read_exact_or_eof(4), read_u32_le, take(l_shared).read_to_end, the site
   indexer -- a parameter --, take(l_indiv).read_to_end): one record under any delivery is C13's
   framing model on the data; the loop on the scripted source *)
Theorem c12_bcf_record_chunk_indep :
  forall (site_ok : list N -> option Stream.ekind)
         (S : Type) (rd : reader S) (Rep : S -> list N -> nat -> Prop), simulates rd Rep ->
  forall (req : nat -> nat) (fuelf : S -> nat -> nat),
    (forall s d m n, Rep s d m -> m + n < fuelf s n) ->
  forall s d m, Rep s d m ->
    exists s' m', run_raw rd req fuelf (p_bcf_record site_ok) s = (fst (run_pure (p_bcf_record site_ok) d), s')
                  /\ Rep s' (snd (run_pure (p_bcf_record site_ok) d)) m' /\ m' <= m
                  /\ step_of (run_pure (p_bcf_record site_ok) d) = Stream.bcf_read_record site_ok Stream.Eof d.
Proof.
  intros site_ok S rd Rep Hsim req fuelf Hfuel s d m HR.
  destruct (run_raw_spec S rd Rep Hsim req fuelf Hfuel _ (p_bcf_record site_ok)
              (until_free_p_bcf_record site_ok) s d m HR) as [s' [m' [E [HR' Hm']]]].
  exists s', m'. repeat split; auto. apply p_bcf_record_is_c13.
Qed.
Print Assumptions c12_bcf_record_chunk_indep.

Theorem c12_bcf_records_any_delivery :
  forall tab data sc cap chunk,
    let p := p_bcf_records (site_table tab) (Datatypes.S (length data)) in
    run_bcf tab cap chunk (mkSource data sc) = (cres_of (fst (run_pure p data)), length (snd (run_pure p data))).
Proof. exact run_bcf_spec. Qed.
Print Assumptions c12_bcf_records_any_delivery.

(* CRAM container reader: C19's read program of the sync reader (header fields with ITF8 / LTF8,
   CRC32, EOF container, take(len).read_to_end body) is a read program; one container under any
   delivery is C19's run_pure on the data; the read_container loop on the scripted source *)
Theorem c12_cram_container_chunk_indep :
  forall (crc : list N -> N)
         (S : Type) (rd : reader S) (Rep : S -> list N -> nat -> Prop), simulates rd Rep ->
  forall (req : nat -> nat) (fuelf : S -> nat -> nat),
    (forall s d m n, Rep s d m -> m + n < fuelf s n) ->
  forall s d m, Rep s d m ->
    exists s' m', run_raw rd req fuelf (p_cram_container crc) s = (fst (run_pure (p_cram_container crc) d), s')
                  /\ Rep s' (snd (run_pure (p_cram_container crc) d)) m' /\ m' <= m
                  /\ match AsyncQuery.run_pure (AsyncQuery.p_read_container crc false) d with
                     | Cram.POk a r => run_pure (p_cram_container crc) d = (RVal a, r)
                     | Cram.PErr e => fst (run_pure (p_cram_container crc) d) = RErr e
                     end.
Proof.
  intros crc S rd Rep Hsim req fuelf Hfuel s d m HR.
  destruct (run_raw_spec S rd Rep Hsim req fuelf Hfuel _ (p_cram_container crc)
              (until_free_of_c19 _ _) s d m HR) as [s' [m' [E [HR' Hm']]]].
  exists s', m'. repeat split; auto. apply of_c19_pure.
Qed.
Print Assumptions c12_cram_container_chunk_indep.

Theorem c12_cram_containers_any_delivery :
  forall data sc cap chunk,
    let p := p_cram_containers Crc32.crc32 (Datatypes.S (length data)) in
    run_cram cap chunk (mkSource data sc) = (cres_of (fst (run_pure p data)), length (snd (run_pure p data))).
Proof. exact run_cram_spec. Qed.
Print Assumptions c12_cram_containers_any_delivery.

(* ---- tabix::io::Reader::read_index stacked on the BGZF block reader (NV.Io.TabixProg) ------------ *)
(* the layer above the block reader: read_index (magic, n_ref, csi read_header, bins / chunks /
   metadata / intervals, optional n_no_coor) over ANY delivery of the decompressed bytes returns
   what it returns on the whole bytes, error result and bytes consumed included *)
Theorem c12_tabix_body_any_delivery : forall data sc cap chunk,
  run_tabix_plain cap chunk (mkSource data sc)
  = (cres_of (fst (run_pure p_tabix data)), length (snd (run_pure p_tabix data))).
Proof. exact run_tabix_plain_spec. Qed.
Print Assumptions c12_tabix_body_any_delivery.

(* the stack: read_index over the BGZF frames read from ANY delivery (raw or behind a BufReader of
   any capacity) of the COMPRESSED bytes = over the frames of the whole buffer, where a corrupt or
   truncated block is the terminal outcome of the decompressed stream ([run_term]) *)
Theorem c12_tabix_over_bgzf_any_delivery : forall inflate data sc cap,
  run_tabix inflate cap (mkSource data sc) = whole_over_bgzf p_tabix inflate data.
Proof. exact run_tabix_spec. Qed.
Print Assumptions c12_tabix_over_bgzf_any_delivery.

(* the same for every read program (CSI, BAI-in-BGZF, ...) *)
Theorem c12_prog_over_bgzf_any_delivery : forall (A : Type) (p : prog A) inflate data sc cap,
  run_over_bgzf p inflate cap (mkSource data sc) = whole_over_bgzf p inflate data.
Proof. exact run_over_bgzf_spec. Qed.
Print Assumptions c12_prog_over_bgzf_any_delivery.

(* a program whose reads are all satisfied by the good blocks does not see how the stream ends
   afterwards; a stream that ends with a frame cut short (UnexpectedEof) is a clean end for the
   caller; on a clean end run_term is run_pure *)
Theorem c12_terminal_error_seen_only_when_reached : forall (A : Type) (p : prog A) d t,
  (fits p d -> run_term t p d = run_pure p d)
  /\ run_term (Some Trunc.Stream.UnexpectedEof) p d = run_pure p d
  /\ run_term None p d = run_pure p d.
Proof.
  intros A p d t. split; [apply run_term_fits|]. split; [apply run_term_eof|apply run_term_none].
Qed.
Print Assumptions c12_terminal_error_seen_only_when_reached.

(* a well-formed BGZF stream: read_index over any delivery of the file is the plain program on the
   concatenated block data *)
Theorem c12_tabix_clean_stream : forall inflate data sc cap fs,
  whole_frames inflate (Datatypes.S (length data)) data = (fs, Bgzf.Frame.Ok tt) ->
  run_tabix inflate cap (mkSource data sc)
  = let d := concat (map Bgzf.ReaderOps.fdata fs) in
    (cres_of (fst (run_pure p_tabix d)), length (snd (run_pure p_tabix d))).
Proof. exact run_tabix_clean. Qed.
Print Assumptions c12_tabix_clean_stream.

(* ---- csi::io::Reader::read_index (the CSI index body) stacked on the BGZF block reader (NV.Io.CsiBodyProg) *)
(* reads made through `Read::take(L)`: the program [limit L p] (every read_exact loop / read_to_end
   asks the inner reader for min(n, limit left) bytes) returns what p returns on the first L
   bytes, and leaves in the stream what p leaves of them followed by the bytes behind the limit *)
Theorem c12_take_limit_is_prefix : forall (A : Type) (p : prog A) L d,
  until_free p ->
  run_pure (limit L p) d
  = (fst (run_pure p (firstn L d)), snd (run_pure p (firstn L d)) ++ skipn L d).
Proof. exact run_pure_limit. Qed.
Print Assumptions c12_take_limit_is_prefix.

(* read_aux with l_aux > 0: the csi header reader on the l_aux bytes behind the length field; the
   bytes of the take it leaves are not skipped *)
Theorem c12_csi_aux_through_take : forall l d,
  (0 < l)%N -> (l < 2147483648)%N -> 4 <= length (firstn 4 d) ->
  NV.Base.LE.le_dec (firstn 4 d) = l ->
  let r := skipn 4 d in
  let L := N.to_nat l in
  run_pure g_aux d
  = match fst (run_pure g_header (firstn L r)) with
    | RVal h => (RVal (Some h), snd (run_pure g_header (firstn L r)) ++ skipn L r)
    | RErr e => (RErr e, snd (run_pure g_header (firstn L r)) ++ skipn L r)
    end.
Proof. exact run_pure_g_aux_positive. Qed.
Print Assumptions c12_csi_aux_through_take.

(* the whole CSI read_index (magic, min_shift, depth, binning scheme, l_aux + aux through the take,
   n_ref, bins with loffset and the depth-dependent metadata pseudo-bin, duplicates, optional
   n_no_coor, every error reported as InvalidData) over ANY delivery of the decompressed bytes *)
Theorem c12_csi_body_any_delivery : forall data sc cap chunk,
  run_csi_plain cap chunk (mkSource data sc)
  = (cres_of (fst (run_pure p_csi data)), length (snd (run_pure p_csi data))).
Proof. exact run_csi_plain_spec. Qed.
Print Assumptions c12_csi_body_any_delivery.

(* the stack: over the BGZF frames read from ANY delivery of the COMPRESSED file *)
Theorem c12_csi_over_bgzf_any_delivery : forall inflate data sc cap,
  run_csi inflate cap (mkSource data sc) = whole_over_bgzf p_csi inflate data.
Proof. exact run_csi_spec. Qed.
Print Assumptions c12_csi_over_bgzf_any_delivery.

Theorem c12_csi_clean_stream : forall inflate data sc cap fs,
  whole_frames inflate (Datatypes.S (length data)) data = (fs, Bgzf.Frame.Ok tt) ->
  run_csi inflate cap (mkSource data sc)
  = let d := concat (map Bgzf.ReaderOps.fdata fs) in
    (cres_of (fst (run_pure p_csi d)), length (snd (run_pure p_csi d))).
Proof. exact run_csi_clean. Qed.
Print Assumptions c12_csi_clean_stream.

(* ---- non-vacuity *)
(* a script with 1-byte deliveries and an Interrupted in the middle: read_exact 4 of "abcdef" *)
Example c12_example_read_exact :
  fst (read_exact src_read 10 (mkSource [97; 98; 99; 100; 101; 102]%N
                                 [Deliver 1; Interrupted; Deliver 2; Deliver 1; Interrupted; Deliver 7]) 4)
  = ([97; 98; 99; 100]%N, XOk).
Proof. vm_compute. reflexivity. Qed.

(* three-way outcome of read_exact_or_eof *)
Example c12_example_or_eof :
  snd (fst (read_exact_or_eof src_read 9 (mkSource []%N [Interrupted]) 4)) = ENothing /\
  snd (fst (read_exact_or_eof src_read 9 (mkSource [1; 2]%N [Deliver 1; Interrupted; Deliver 1]) 4)) = EPartial /\
  snd (fst (read_exact_or_eof src_read 9 (mkSource [1; 2; 3; 4]%N [Deliver 1; Deliver 1; Deliver 1]) 4)) = EFull.
Proof. vm_compute. auto. Qed.

(* the former refutation witnesses now agree for the capacities that used to differ *)
Example c12_example_fasta_former_witnesses :
  snd (fst (run_read_sequence 64 (mkSource [65; 67; 13; 71; 84; 10]%N []))) = [65; 67; 13; 71; 84]%N /\
  snd (fst (run_read_sequence 3 (mkSource [65; 67; 13; 71; 84; 10]%N []))) = [65; 67; 13; 71; 84]%N /\
  snd (fst (run_read_sequence 64 (mkSource [65; 67; 62; 71; 84; 10]%N []))) = [65; 67; 62; 71; 84]%N /\
  snd (fst (run_read_sequence 2 (mkSource [65; 67; 62; 71; 84; 10]%N [Interrupted; Deliver 1]))) = [65; 67; 62; 71; 84]%N /\
  fst (fidx_first_line 64 (mkSource [62; 120; 10; 65; 67; 13; 71; 84; 10]%N [])) = (SOk, 6, 5) /\
  fst (fidx_first_line 3 (mkSource [62; 120; 10; 65; 67; 13; 71; 84; 10]%N [])) = (SOk, 6, 5).
Proof. vm_compute. repeat split. Qed.

(* CRLF text, capacity 1, CR and LF always in different windows *)
Example c12_example_fasta :
  snd (fst (run_read_sequence 1 (mkSource [65; 67; 13; 10; 71; 84; 13; 10; 62; 120]%N []))) = [65; 67; 71; 84]%N.
Proof. vm_compute. reflexivity. Qed.

(* the Read side: CR and LF in different windows, buffers of 1 byte, then a 0-byte and a 5-byte
   buffer; read_sequence with 1-byte requests, capacity 1, Interrupted in the script *)
Example c12_example_fasta_read :
  fst (run_seq_reads 1 [1; 0; 5; 1; 1; 3; 3] (mkSource [65; 13; 71; 13; 10; 84; 13; 10; 62; 120]%N []))
    = [ROk [65]; ROk []; ROk [13]; ROk [71]; ROk [84]; ROk []; ROk []]%N /\
  fst (run_seq_read_to_end 1 1 (mkSource [65; 13; 71; 13; 10; 84; 13; 10; 62; 120]%N [Interrupted; Deliver 1; Interrupted]))
    = COk [65; 13; 71; 84]%N.
Proof. vm_compute. split; reflexivity. Qed.

(* whole-file indexer: two CRLF records, capacity 1 with Interrupted, capacity 3, one window *)
Example c12_example_index_file :
  let f := [62; 97; 13; 10; 65; 67; 13; 10; 71; 13; 10; 62; 98; 10; 84; 84; 10]%N in
  fst (run_index_file 1 (mkSource f [Interrupted; Deliver 1; Interrupted])) = Indexer.index_file f /\
  fst (run_index_file 3 (mkSource f [Deliver 2; Deliver 1])) = Indexer.index_file f /\
  length (fst (Indexer.index_file f)) = 2 /\ snd (Indexer.index_file f) = None.
Proof. vm_compute. repeat split. Qed.

(* FASTQ: CRLF name line without description (the former capacity-dependent class), capacity 1 / 4 *)
Example c12_example_fastq :
  let f := [64; 114; 13; 10; 65; 67; 13; 10; 43; 13; 10; 33; 33; 13; 10]%N in
  fst (run_fastq 1 (mkSource f [Interrupted; Deliver 1])) = Fastq.read_qfile f /\
  fst (run_fastq 4 (mkSource f [Deliver 3])) = Fastq.read_qfile f /\
  fst (Fastq.read_qfile f) = [Fastq.mkqrec [114] [] [65; 67] [33; 33]]%N /\
  fst (run_fastq_index 2 (mkSource f [Interrupted; Deliver 1])) = Fastq.index_qfile f /\
  length (fst (Fastq.index_qfile f)) = 1.
Proof. vm_compute. repeat split. Qed.

(* header reader: "@a\n@b" + record line; capacity 1 (the peek sees one byte) and capacity 64 *)
Example c12_example_header :
  let f := [64; 97; 10; 64; 98; 13; 10; 114; 64; 10; 64; 99; 10]%N in
  fst (fst (fst (fst (run_header 64 1 (mkSource f [Interrupted; Deliver 1; Interrupted])))))
    = [[64; 97; 10]; [64; 98; 13; 10]]%N /\
  fst (fst (fst (fst (run_header 64 64 (mkSource f [])))))
    = [[64; 97; 10]; [64; 98; 13; 10]]%N /\
  snd (fst (run_header 64 2 (mkSource f [Deliver 1]))) = [[114; 64; 10]; [64; 99; 10]]%N.
Proof. vm_compute. repeat split. Qed.

(* bgzf: two EOF-marker frames, 1-byte deliveries with Interrupted, raw and behind a BufReader;
   inflate instance: the empty stored stream only *)
Example c12_example_bgzf :
  let inf := fun (c : list N) (n : N) => if (n =? 0)%N then Some ([] : list N) else None in
  let f := (bgzf_eof_block ++ bgzf_eof_block)%list in
  run_bgzf inf 0 (mkSource f [Deliver 1; Interrupted; Deliver 5]) = whole_bgzf inf f /\
  run_bgzf inf 7 (mkSource f [Interrupted; Deliver 3]) = whole_bgzf inf f /\
  snd (fst (whole_bgzf inf f)) = 56%N.
Proof. vm_compute. repeat split. Qed.

(* BED3: comment line, CRLF record with an extra field, capacity 1 with Interrupted / capacity 5 *)
Example c12_example_bed :
  let f := [35; 99; 9; 10; 115; 9; 49; 9; 50; 9; 120; 13; 10]%N in
  fst (run_bed 3 4 1 (mkSource f [Interrupted; Deliver 1; Interrupted]))
    = w_bed_read_raw 4 3 f (BedRec.bed_default 3) /\
  fst (run_bed 3 4 5 (mkSource f [Deliver 2])) = w_bed_read_raw 4 3 f (BedRec.bed_default 3) /\
  map fst (w_bed_read_raw 4 3 f (BedRec.bed_default 3)) = [TextBase.Ok 9; TextBase.Ok 0].
Proof. vm_compute. repeat split. Qed.

(* SAM record: 11 fields + optional data, CRLF, capacity 1 with Interrupted = one window *)
Example c12_example_sam :
  let f := [114; 9; 52; 9; 42; 9; 48; 9; 48; 9; 42; 9; 42; 9; 48; 9; 48; 9; 65; 9; 33; 9; 88; 13; 10]%N in
  fst (run_sam_records 1 (mkSource f [Interrupted; Deliver 1])) = fst (run_sam_records 64 (mkSource f [])) /\
  map (fun x => fst (fst x)) (fst (run_sam_records 3 (mkSource f [Deliver 2])))
    = [TextBase.Ok 25; TextBase.Ok 0].
Proof. vm_compute. repeat split. Qed.

(* VCF: the repaired read_field reads the witness of the known class the same through capacity 1
   (with Interrupted) and capacity 64, and reports an invalid byte after consuming its field *)
Example c12_example_vcf_repaired :
  fst (fst (d_vcf_read_record_fx src_read 1 true 200 ([], mkSource vcf_utf8_witness [Interrupted; Deliver 1])))
    = fst (fst (d_vcf_read_record_fx src_read 64 true 200 ([], mkSource vcf_utf8_witness []))) /\
  fst (fst (fst (d_vcf_read_record_fx src_read 64 true 200 ([], mkSource vcf_utf8_witness []))))
    = TextBase.Ok 17 /\
  fst (fst (fst (d_vcf_read_record_fx src_read 2 true 200 ([], mkSource [115; 9; 233; 9; 65; 10]%N []))))
    = TextBase.Err TextBase.InvalidData.
Proof. vm_compute. repeat split. Qed.

(* read programs: a gzi index with one entry, 1-byte deliveries with Interrupted, raw and buffered;
   a BAI file with no reference and a trailing count, cut inside the count (the partial count is
   dropped, as read_exact's UnexpectedEof is mapped to None) *)
Example c12_example_read_programs :
  let g := [1; 0; 0; 0; 0; 0; 0; 0; 5; 0; 0; 0; 0; 0; 0; 0; 9; 0; 0; 0; 0; 0; 0; 0]%N in
  run_gzi 0 (mkSource g [Deliver 1; Interrupted; Deliver 3]) = (COk [(5, 9)]%N, 0) /\
  run_gzi 3 (mkSource g [Interrupted; Deliver 2]) = (COk [(5, 9)]%N, 0) /\
  fst (run_gzi 0 (mkSource (g ++ [7]%N) [Deliver 2])) = CErr 1 /\
  fst (run_gzi 0 (mkSource (firstn 20 g) [Deliver 2])) = CErr 2 /\
  let b := [66; 65; 73; 1; 0; 0; 0; 0; 4; 0; 0; 0; 0; 0; 0; 0]%N in
  fst (run_bai 0 (mkSource b [Deliver 1; Interrupted])) = COk (Layout.mkbai [] (Some 4%N)) /\
  run_bai 2 (mkSource (firstn 13 b) [Deliver 1]) = (COk (Layout.mkbai [] None), 0).
Proof. vm_compute. repeat split. Qed.

(* tabix read_index on decompressed data that ends with a terminal outcome: a header without
   references; the trailing count is read when it is there (a corrupt LATER block is not reached),
   dropped when the stream ends cleanly or with a frame cut short, and a corrupt next block is the
   result when the count has to be looked for in it *)
Example c12_example_tabix_terminal :
  let h := [84; 66; 73; 1; 0; 0; 0; 0; 2; 0; 0; 0; 1; 0; 0; 0; 2; 0; 0; 0; 0; 0; 0; 0;
            35; 0; 0; 0; 0; 0; 0; 0; 0; 0; 0; 0]%N in
  let hd := CsiLayout.mkhdr CsiLayout.FVcf 0 1 None 35 0 [] in
  fst (run_term (Some Trunc.Stream.InvalidData) p_tabix (h ++ [7; 0; 0; 0; 0; 0; 0; 0]%N))
    = RVal (CsiLayout.mktbi (Some hd) [] (Some 7%N)) /\
  fst (run_term None p_tabix h) = RVal (CsiLayout.mktbi (Some hd) [] None) /\
  fst (run_term (Some Trunc.Stream.UnexpectedEof) p_tabix (h ++ [7; 0; 0]%N))
    = RVal (CsiLayout.mktbi (Some hd) [] None) /\
  fst (run_term (Some Trunc.Stream.InvalidData) p_tabix h) = RErr Trunc.Stream.InvalidData /\
  fst (run_term None p_tabix (firstn 30 h)) = RErr Trunc.Stream.InvalidData.
Proof. vm_compute. repeat split. Qed.
