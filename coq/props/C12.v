(* C12 — Decoded content does not depend on how the underlying stream chunks its reads.
   Property theorems only.  Models: NV.Io.Source (scripted byte source), NV.Io.ReadExact
   (std read_exact = bgzf default_read_exact; bam/bcf read_exact_or_eof), NV.Io.BufReader
   (std BufReader, read_until, noodles read_line), NV.Io.FastaScan (noodles-fasta sequence
   reader and indexer line consumer), NV.Io.Run (bam record framing, bgzf frame reading).

   A reader "simulates" a delivery of data d when each read either reports Interrupted (a
   bounded number of times) or returns a non-empty prefix of what is left, no longer than the
   buffer.  Every script of the scripted source does (c12_every_script_simulates), and so does
   a BufReader of any capacity >= 1 over such a reader (c12_bufreader_transparent); all other
   theorems are stated for an arbitrary simulating reader, so the script does not occur in
   their conclusions: the results are functions of the data alone. *)
From Coq Require Import List NArith Arith Lia.
From NV Require Import Io.Source Io.ReadExact Io.ReadExactProofs Io.BufReader Io.BufReaderProofs
  Io.FastaScan Io.FastaScanProofs Io.FastaIndex Io.FastaIndexProofs Io.Run Io.RunProofs.
From NV Require Fasta.Layout Fasta.Indexer Fasta.WholeFile.
Import ListNotations.

(* every delivery script (any split sizes, any placement of Interrupted) is a simulating reader;
   the bound on pending Interrupted results is the number of Interrupted events in the script *)
Theorem c12_every_script_simulates : simulates src_read rep_src.
Proof. exact src_simulates. Qed.
Print Assumptions c12_every_script_simulates.

(* read_exact (std / bgzf default_read_exact): bytes stored, Ok vs UnexpectedEof and the stream
   position afterwards depend only on the data (fuel >= pending interrupts + n + 1) *)
Theorem c12_read_exact_sched_indep :
  forall (S : Type) (rd : reader S) (Rep : S -> list N -> nat -> Prop), simulates rd Rep ->
  forall fuel s d m n, Rep s d m -> m + n < fuel ->
    exists s' m',
      read_exact rd fuel s n = (firstn n d, if n <=? length d then XOk else XUnexpectedEof, s')
      /\ Rep s' (skipn n d) m' /\ m' <= m.
Proof. exact (@read_exact_spec). Qed.
Print Assumptions c12_read_exact_sched_indep.

(* directly on the scripted source: two scripts over the same data give the same bytes and result *)
Theorem c12_read_exact_two_scripts :
  forall data sc1 sc2 n,
    let f sc := n_interrupted sc + n + 1 in
    fst (read_exact src_read (f sc1) (mkSource data sc1) n)
    = fst (read_exact src_read (f sc2) (mkSource data sc2) n).
Proof.
  intros data sc1 sc2 n f.
  destruct (read_exact_spec src_read rep_src src_simulates (f sc1) (mkSource data sc1) data
              (n_interrupted sc1) n (conj eq_refl eq_refl) ltac:(unfold f; lia)) as [s1 [m1 [E1 _]]].
  destruct (read_exact_spec src_read rep_src src_simulates (f sc2) (mkSource data sc2) data
              (n_interrupted sc2) n (conj eq_refl eq_refl) ltac:(unfold f; lia)) as [s2 [m2 [E2 _]]].
  rewrite E1, E2. reflexivity.
Qed.
Print Assumptions c12_read_exact_two_scripts.

(* read_exact_or_eof (bam, bcf): the three-way outcome nothing / partial / full is a function of
   the data: full iff n <= |d|, nothing iff d is empty (and n > 0), partial otherwise *)
Theorem c12_read_exact_or_eof_sched_indep :
  forall (S : Type) (rd : reader S) (Rep : S -> list N -> nat -> Prop), simulates rd Rep ->
  forall fuel s d m n, Rep s d m -> m + n < fuel ->
    exists s' m',
      read_exact_or_eof rd fuel s n = (firstn n d, eof_class n d, s')
      /\ Rep s' (skipn n d) m' /\ m' <= m.
Proof. exact (@read_exact_or_eof_spec). Qed.
Print Assumptions c12_read_exact_or_eof_sched_indep.

(* a short read is never end of input: with data left and a non-empty buffer, a simulating
   reader never returns Ok(0), so the fill loop only stops at HitEof when the data is exhausted *)
Theorem c12_short_read_not_eof :
  forall (S : Type) (rd : reader S) (Rep : S -> list N -> nat -> Prop), simulates rd Rep ->
  forall s d m n s', Rep s d m -> 0 < n -> d <> [] -> rd s n <> (ROk [], s').
Proof.
  intros S rd Rep Hsim s d m n s' HR Hn Hd E.
  pose proof (Hsim s d m n HR) as H. rewrite E in H.
  destruct H as [[_ [_ Hpos]] _]. specialize (Hpos Hn Hd). cbn [length] in Hpos. lia.
Qed.
Print Assumptions c12_short_read_not_eof.

(* BufReader of any capacity >= 1 over a simulating reader is a simulating reader of the same data *)
Theorem c12_bufreader_transparent :
  forall (S : Type) (rd : reader S) (Rep : S -> list N -> nat -> Prop), simulates rd Rep ->
  forall cap, 1 <= cap -> simulates (br_read rd cap) (rep_buf Rep).
Proof. exact (@br_simulates). Qed.
Print Assumptions c12_bufreader_transparent.

(* hence read_exact through a BufReader of capacity cap gives the closed form as well *)
Theorem c12_read_exact_through_bufreader :
  forall (S : Type) (rd : reader S) (Rep : S -> list N -> nat -> Prop), simulates rd Rep ->
  forall cap, 1 <= cap ->
  forall fuel st d m n, rep_buf Rep st d m -> m + n < fuel ->
    exists st' m',
      read_exact (br_read rd cap) fuel st n
        = (firstn n d, if n <=? length d then XOk else XUnexpectedEof, st')
      /\ rep_buf Rep st' (skipn n d) m' /\ m' <= m.
Proof.
  intros S rd Rep Hsim cap Hcap.
  exact (read_exact_spec (br_read rd cap) (rep_buf Rep) (br_simulates rd Rep Hsim cap Hcap)).
Qed.
Print Assumptions c12_read_exact_through_bufreader.

(* read_until: the line is the data up to and including the first delimiter (or all of it) *)
Theorem c12_read_until_sched_indep :
  forall (S : Type) (rd : reader S) (Rep : S -> list N -> nat -> Prop), simulates rd Rep ->
  forall cap, 1 <= cap ->
  forall delim fuel st d m, rep_buf Rep st d m -> m + length d + 1 < fuel ->
    exists st' m',
      read_until rd cap delim fuel st = (take_line delim d, UOk, st')
      /\ rep_buf Rep st' (skipn (length (take_line delim d)) d) m' /\ m' <= m.
Proof. exact (@read_until_spec). Qed.
Print Assumptions c12_read_until_sched_indep.

(* noodles read_line (LF / CRLF stripped after the whole line is assembled) *)
Theorem c12_read_line_sched_indep :
  forall (S : Type) (rd : reader S) (Rep : S -> list N -> nat -> Prop), simulates rd Rep ->
  forall cap, 1 <= cap ->
  forall fuel st d m, rep_buf Rep st d m -> m + length d + 1 < fuel ->
    exists st' m',
      read_line rd cap fuel st = (length (take_line LF d), strip_eol (take_line LF d), UOk, st')
      /\ rep_buf Rep st' (skipn (length (take_line LF d)) d) m' /\ m' <= m.
Proof. exact (@read_line_spec). Qed.
Print Assumptions c12_read_line_sched_indep.

(* gff::io::Reader::read_line (read_line repeated while the line is blank): closed form *)
Theorem c12_gff_read_line_sched_indep :
  forall (S : Type) (rd : reader S) (Rep : S -> list N -> nat -> Prop), simulates rd Rep ->
  forall cap, 1 <= cap ->
  forall lines fuel st d m n l rest,
    rep_buf Rep st d m -> m + length d + 1 < fuel -> gff_closed lines d = Some (n, l, rest) ->
    exists st' m', gff_read_line rd cap lines fuel st = (n, l, UOk, st') /\ rep_buf Rep st' rest m' /\ m' <= m.
Proof. exact (@gff_read_line_spec). Qed.
Print Assumptions c12_gff_read_line_sched_indep.

(* BAM record stream (read_exact_or_eof(4) + read_exact(block_size) + validate, repeated) and
   BGZF frame reading (read_exact(18), size check, read_exact(rest), header check, EOF-marker
   blocks skipped) are compositions of the primitives: closed forms on the data, any script *)
Theorem c12_bam_record_stream_closed_form :
  forall k s d m, rep_src s d m ->
    exists s' m', bam_read_records k s = (fst (bam_records_closed k d), s')
                  /\ rep_src s' (snd (bam_records_closed k d)) m'.
Proof. exact bam_read_records_spec. Qed.
Print Assumptions c12_bam_record_stream_closed_form.

Theorem c12_bam_record_stream_sched_indep :
  forall k data sc1 sc2,
    fst (bam_read_records k (mkSource data sc1)) = fst (bam_read_records k (mkSource data sc2)).
Proof.
  intros k data sc1 sc2.
  destruct (bam_read_records_spec k (mkSource data sc1) data _ (conj eq_refl eq_refl)) as [s1 [m1 [E1 _]]].
  destruct (bam_read_records_spec k (mkSource data sc2) data _ (conj eq_refl eq_refl)) as [s2 [m2 [E2 _]]].
  rewrite E1, E2. reflexivity.
Qed.
Print Assumptions c12_bam_record_stream_sched_indep.

Theorem c12_bgzf_frames_sched_indep :
  forall k data sc1 sc2,
    fst (bgzf_read k (mkSource data sc1)) = fst (bgzf_read k (mkSource data sc2)).
Proof.
  intros k data sc1 sc2.
  destruct (bgzf_read_spec k (mkSource data sc1) data _ (conj eq_refl eq_refl)) as [s1 [m1 [E1 _]]].
  destruct (bgzf_read_spec k (mkSource data sc2) data _ (conj eq_refl eq_refl)) as [s2 [m2 [E2 _]]].
  rewrite E1, E2. reflexivity.
Qed.
Print Assumptions c12_bgzf_frames_sched_indep.

(* FASTA sequence reader (repaired code: line-start flag + held-back CR + Interrupted retried):
   for EVERY data, every window layout and every placement of Interrupted the sequence returned
   is the closed form [spec] of the data — line terminator = LF optionally preceded by one CR, CRs
   at a line start skipped, a CR elsewhere is data, '>' ends the sequence only at a line start.
   No side condition on the text (the former known classes fasta-bare-cr / fasta-midline-gt). *)
Theorem c12_fasta_scanner_chunk_indep :
  forall (S : Type) (rd : reader S) (Rep : S -> list N -> nat -> Prop), simulates rd Rep ->
  forall cap, 1 <= cap ->
  forall fuel ib p st d m acc,
    rep_buf Rep st d m -> (p = true -> ib = false) -> mu m d p < fuel ->
    exists s', read_sequence rd cap fuel (ib, p, st) acc = (SOk, acc ++ spec ib p d, s').
Proof. exact (@read_sequence_spec). Qed.
Print Assumptions c12_fasta_scanner_chunk_indep.

(* on the scripted source behind a BufReader: any script, any capacity, same sequence *)
Theorem c12_fasta_read_sequence_any_delivery :
  forall data sc cap, 1 <= cap ->
    exists s', run_read_sequence cap (mkSource data sc) = (SOk, seq_spec data, s').
Proof.
  intros data sc cap Hcap. unfold run_read_sequence.
  destruct (read_sequence_spec src_read rep_src src_simulates cap Hcap
              (s_fuel ([], mkSource data sc)) true false ([], mkSource data sc) data
              (n_interrupted sc) []) as [s' E].
  - exists data. cbn [fst snd app]. split; [reflexivity|]. split; reflexivity.
  - intros H; discriminate.
  - unfold mu, s_fuel, b_fuel, src_fuel. cbn [fst snd s_data s_script length]. lia.
  - exists s'. exact E.
Qed.
Print Assumptions c12_fasta_read_sequence_any_delivery.

(* FASTA indexer, consume_sequence_line at the beginning of a line: (line width, base count) =
   (length of the raw line including its LF, its bytes before the LF minus one final CR); nothing
   for a line that starts with '>'.  Every delivery, no side condition. *)
Theorem c12_fasta_indexer_line_chunk_indep :
  forall (S : Type) (rd : reader S) (Rep : S -> list N -> nat -> Prop), simulates rd Rep ->
  forall cap, 1 <= cap ->
  forall fuel st d m, rep_buf Rep st d m -> m + length d + 1 < fuel ->
    exists st', consume_sequence_line rd cap fuel st false false 0 0
                = (SOk, length (idx_line d), length (strip_cr (until_lf (idx_line d))), st').
Proof. exact (@consume_sequence_line_spec). Qed.
Print Assumptions c12_fasta_indexer_line_chunk_indep.

(* ---- the whole FASTA indexer (Indexer::index_record in the loop of fasta::fs::index): for every
   simulating reader, every BufReader capacity and every data the records and the final error are
   those of C11's line-driven model on the lines of the data (j = outer loop fuel, the same on both
   sides; k > |d| bounds the lines of one record; fuel bounds the reads of one primitive call) *)
Theorem c12_fasta_indexer_whole_file_chunk_indep :
  forall (S : Type) (rd : reader S) (Rep : S -> list N -> nat -> Prop), simulates rd Rep ->
  forall cap, 1 <= cap ->
  forall j k fuel st d m off, rep_buf Rep st d m -> length d < k -> m + length d + 1 < fuel ->
    exists st', d_index_loop rd cap j k fuel st off = (Indexer.index_loop j (Layout.lines d) off, st').
Proof. exact (@d_index_loop_spec). Qed.
Print Assumptions c12_fasta_indexer_whole_file_chunk_indep.

(* on the scripted source: any script, any capacity: exactly C11's index_file of the data *)
Theorem c12_fasta_index_file_any_delivery :
  forall data sc cap, 1 <= cap ->
    exists st', run_index_file cap (mkSource data sc) = (Indexer.index_file data, st').
Proof. exact run_index_file_spec. Qed.
Print Assumptions c12_fasta_index_file_any_delivery.

(* composed with C11's whole-file theorem: under every delivery the fai records produced are, in
   order, records of the naive whole-file parse of the data (all of them when the indexer ends
   without error), each with the right name, length, base offsets and region queries *)
Theorem c12_fasta_index_file_delivery_is_naive_parse :
  forall data sc cap recs e, 1 <= cap ->
    fst (run_index_file cap (mkSource data sc)) = (recs, e) ->
    Forall2 (WholeFile.rec_matches data) recs (firstn (length recs) (Layout.naive_file data)) /\
    (e = None -> length recs = length (Layout.naive_file data)).
Proof.
  intros data sc cap recs e Hcap H.
  destruct (run_index_file_spec data sc cap Hcap) as [st' E]. rewrite E in H. cbn [fst] in H.
  exact (WholeFile.index_file_whole data recs e H).
Qed.
Print Assumptions c12_fasta_index_file_delivery_is_naive_parse.

(* ---- non-vacuity *)
(* a script with 1-byte deliveries and an Interrupted in the middle: read_exact 4 of "abcdef" *)
Example c12_example_read_exact :
  fst (read_exact src_read 10 (mkSource [97; 98; 99; 100; 101; 102]%N
                                 [Deliver 1; Interrupted; Deliver 2; Deliver 1; Interrupted; Deliver 7]) 4)
  = ([97; 98; 99; 100]%N, XOk).
Proof. vm_compute. reflexivity. Qed.

(* three-way outcome of read_exact_or_eof *)
Example c12_example_or_eof :
  snd (fst (read_exact_or_eof src_read 9 (mkSource []%N [Interrupted]) 4)) = ENothing /\
  snd (fst (read_exact_or_eof src_read 9 (mkSource [1; 2]%N [Deliver 1; Interrupted; Deliver 1]) 4)) = EPartial /\
  snd (fst (read_exact_or_eof src_read 9 (mkSource [1; 2; 3; 4]%N [Deliver 1; Deliver 1; Deliver 1]) 4)) = EFull.
Proof. vm_compute. auto. Qed.

(* the former refutation witnesses now agree for the capacities that used to differ *)
Example c12_example_fasta_former_witnesses :
  snd (fst (run_read_sequence 64 (mkSource [65; 67; 13; 71; 84; 10]%N []))) = [65; 67; 13; 71; 84]%N /\
  snd (fst (run_read_sequence 3 (mkSource [65; 67; 13; 71; 84; 10]%N []))) = [65; 67; 13; 71; 84]%N /\
  snd (fst (run_read_sequence 64 (mkSource [65; 67; 62; 71; 84; 10]%N []))) = [65; 67; 62; 71; 84]%N /\
  snd (fst (run_read_sequence 2 (mkSource [65; 67; 62; 71; 84; 10]%N [Interrupted; Deliver 1]))) = [65; 67; 62; 71; 84]%N /\
  fst (fidx_first_line 64 (mkSource [62; 120; 10; 65; 67; 13; 71; 84; 10]%N [])) = (SOk, 6, 5) /\
  fst (fidx_first_line 3 (mkSource [62; 120; 10; 65; 67; 13; 71; 84; 10]%N [])) = (SOk, 6, 5).
Proof. vm_compute. repeat split. Qed.

(* CRLF text, capacity 1, CR and LF always in different windows *)
Example c12_example_fasta :
  snd (fst (run_read_sequence 1 (mkSource [65; 67; 13; 10; 71; 84; 13; 10; 62; 120]%N []))) = [65; 67; 71; 84]%N.
Proof. vm_compute. reflexivity. Qed.

(* whole-file indexer: two CRLF records, capacity 1 with Interrupted, capacity 3, one window *)
Example c12_example_index_file :
  let f := [62; 97; 13; 10; 65; 67; 13; 10; 71; 13; 10; 62; 98; 10; 84; 84; 10]%N in
  fst (run_index_file 1 (mkSource f [Interrupted; Deliver 1; Interrupted])) = Indexer.index_file f /\
  fst (run_index_file 3 (mkSource f [Deliver 2; Deliver 1])) = Indexer.index_file f /\
  length (fst (Indexer.index_file f)) = 2 /\ snd (Indexer.index_file f) = None.
Proof. vm_compute. repeat split. Qed.
