(* C13 — A truncated file yields a prefix of the original records, then EOF or an error.
   Property theorems only: each is closed by [exact] of a lemma proved in theories/Trunc and is
   followed by Print Assumptions.  Models: NV.Trunc.Stream (BAM / BCF record readers, BGZF frame
   and block readers, a record reader layered on the BGZF reader) and NV.Index.Layout (BAI).
   All theorems quantify over EVERY written item list and EVERY cut point k (no bound). *)
From Coq Require Import List Arith NArith ZArith Bool.
From NV Require Import Base.LE Trunc.Stream Trunc.StreamProofs Index.Layout Index.LayoutProofs Trunc.BaiProofs.
From NV Require Import Bgzf.Crc32 Trunc.Cram Trunc.CramProofs Trunc.GziProofs Trunc.TextProofs.
From NV Require Import Index.CsiLayout Index.CsiLayoutProofs Index.TextIndex Index.TextIndexProofs.
From NV Require Import Trunc.CsiProofs Trunc.TextIdxProofs Trunc.IndexCut Trunc.IndexCutProofs.
From NV Require Import Trunc.Header Trunc.HeaderProofs Trunc.TextHeader Trunc.TextHeaderProofs.
From NV Require Import Trunc.CramBlocks Trunc.CramBlocksProofs Trunc.HeaderSharp.
From NV Require Sam.Header Sam.HeaderProofs Sam.BamHeader.
Import ListNotations.
Open Scope N_scope.

(* ---- generic: any item reader that decodes one written item from the front of its input and
   stops with [pout x j] when the input ends j bytes into item x ---- *)
Theorem c13_stream_truncation :
  forall (X A : Type) (enc : X -> list N) (out : X -> A) (good : X -> Prop)
         (rd : list N -> step A) (s_end : stop) (pout : X -> nat -> stop),
    rd [] = Stop s_end ->
    (forall x rest, good x -> rd (enc x ++ rest) = Item (out x) rest) ->
    (forall x j, good x -> (0 < j < length (enc x))%nat -> rd (firstn j (enc x)) = Stop (pout x j)) ->
    (forall x, good x -> (0 < length (enc x))%nat) ->
    forall (xs : list X) (k : nat), Forall good xs ->
    exists j : nat,
      (j <= length xs)%nat /\
      (length (encode X enc (firstn j xs)) <= k)%nat /\
      (j < length xs -> k < length (encode X enc (firstn (S j) xs)))%nat /\
      read_stream rd (firstn k (encode X enc xs)) =
        (map out (firstn j xs),
         match nth_error xs j with
         | None => s_end
         | Some x => if (k =? length (encode X enc (firstn j xs)))%nat then s_end
                     else pout x (k - length (encode X enc (firstn j xs)))%nat
         end).
Proof. exact stream_truncation_generic. Qed.
Print Assumptions c13_stream_truncation.

Theorem c13_no_fabrication :
  forall (X A : Type) (enc : X -> list N) (out : X -> A) (good : X -> Prop)
         (rd : list N -> step A) (s_end : stop) (pout : X -> nat -> stop),
    rd [] = Stop s_end ->
    (forall x rest, good x -> rd (enc x ++ rest) = Item (out x) rest) ->
    (forall x j, good x -> (0 < j < length (enc x))%nat -> rd (firstn j (enc x)) = Stop (pout x j)) ->
    (forall x, good x -> (0 < length (enc x))%nat) ->
    forall (xs : list X) (k i : nat) (a : A), Forall good xs ->
    nth_error (fst (read_stream rd (firstn k (encode X enc xs)))) i = Some a ->
    exists x, nth_error xs i = Some x /\ a = out x.
Proof. exact no_fabrication_generic. Qed.
Print Assumptions c13_no_fabrication.

(* ---- BAM record stream (u32 LE block_size + body; model of bam/src/io/reader/record.rs), on a
   plain source (after = Eof) and below a failing source (after = Err e): the records wholly
   inside the cut, unchanged and in order; then [after] exactly at record boundaries and an
   error (UnexpectedEof on a plain source) when the stream ends inside a record ---- *)
Theorem c13_bam_stream_truncation : forall after rs k, Forall bam_good rs ->
  exists j : nat,
    (j <= length rs)%nat /\
    (length (bam_encode (firstn j rs)) <= k)%nat /\
    (j < length rs -> k < length (bam_encode (firstn (S j) rs)))%nat /\
    read_stream (bam_read_record after) (firstn k (bam_encode rs)) =
      (firstn j rs,
       if (j <? length rs)%nat && negb (k =? length (bam_encode (firstn j rs)))%nat
       then Err (short after) else after).
Proof. exact bam_stream_truncation. Qed.
Print Assumptions c13_bam_stream_truncation.

Theorem c13_bam_no_fabrication : forall after rs k i r, Forall bam_good rs ->
  nth_error (fst (read_stream (bam_read_record after) (firstn k (bam_encode rs)))) i = Some r ->
  nth_error rs i = Some r.
Proof. exact bam_no_fabrication. Qed.
Print Assumptions c13_bam_no_fabrication.

(* ---- BCF record stream (l_shared, l_indiv, site, samples; model of bcf/src/io/reader/record.rs;
   the site-buffer indexer is a parameter that accepts the written sites) ---- *)
Theorem c13_bcf_stream_truncation :
  forall (site_ok : list N -> option ekind) after rs k, Forall (bcf_good site_ok) rs ->
  exists j : nat,
    (j <= length rs)%nat /\
    (length (bcf_encode (firstn j rs)) <= k)%nat /\
    (j < length rs -> k < length (bcf_encode (firstn (S j) rs)))%nat /\
    read_stream (bcf_read_record site_ok after) (firstn k (bcf_encode rs)) =
      (firstn j rs,
       if (j <? length rs)%nat && negb (k =? length (bcf_encode (firstn j rs)))%nat
       then Err (short after) else after).
Proof. exact bcf_stream_truncation. Qed.
Print Assumptions c13_bcf_stream_truncation.

(* ---- the eager BCF path (record_bufs; bcf/src/io/reader/record_buf.rs after the repair 762d61e;
   read_site and read_samples are parameters that accept the written records): record by record it
   is the lazy reader followed by the sample decoder, it obeys the same framing rule, and on every
   cut of a written stream the two paths return the same records and the same outcome ---- *)
Theorem c13_bcf_eager_is_lazy :
  forall (site_ok : list N -> option ekind) (samples_ok : list N -> list N -> option ekind) after bs,
    bcf_read_record_buf site_ok samples_ok after bs =
      match bcf_read_record site_ok after bs with
      | Item (site, samples) r =>
          match samples_ok site samples with
          | Some e => Stop (Err e)
          | None => Item (site, samples) r
          end
      | Stop s => Stop s
      end.
Proof. exact bcf_eager_is_lazy. Qed.
Print Assumptions c13_bcf_eager_is_lazy.

Theorem c13_bcf_recordbuf_truncation :
  forall (site_ok : list N -> option ekind) (samples_ok : list N -> list N -> option ekind) after rs k,
  Forall (bcf_buf_good site_ok samples_ok) rs ->
  exists j : nat,
    (j <= length rs)%nat /\
    (length (bcf_encode (firstn j rs)) <= k)%nat /\
    (j < length rs -> k < length (bcf_encode (firstn (S j) rs)))%nat /\
    read_stream (bcf_read_record_buf site_ok samples_ok after) (firstn k (bcf_encode rs)) =
      (firstn j rs,
       if (j <? length rs)%nat && negb (k =? length (bcf_encode (firstn j rs)))%nat
       then Err (short after) else after).
Proof. exact bcf_buf_stream_truncation. Qed.
Print Assumptions c13_bcf_recordbuf_truncation.

Theorem c13_bcf_eager_lazy_coincide :
  forall (site_ok : list N -> option ekind) (samples_ok : list N -> list N -> option ekind) after rs k,
  Forall (bcf_buf_good site_ok samples_ok) rs ->
  read_stream (bcf_read_record_buf site_ok samples_ok after) (firstn k (bcf_encode rs)) =
  read_stream (bcf_read_record site_ok after) (firstn k (bcf_encode rs)).
Proof. exact bcf_eager_lazy_coincide. Qed.
Print Assumptions c13_bcf_eager_lazy_coincide.

(* ---- BGZF block sequence (model of bgzf/src/io/reader/frame.rs + reader.rs; DEFLATE + CRC of
   a complete frame is the parameter [inflate]): the data of the frames wholly inside the cut;
   clean end iff the cut is at a frame boundary or fewer than 18 bytes into the next frame (the
   code's convention for a partial header), UnexpectedEof otherwise ---- *)
Theorem c13_bgzf_truncation :
  forall (inflate : list N -> option (list N)) fs k, Forall (frame_good inflate) fs ->
  exists j : nat,
    (j <= length fs)%nat /\
    (length (bgzf_file (firstn j fs)) <= k)%nat /\
    (j < length fs -> k < length (bgzf_file (firstn (S j) fs)))%nat /\
    bgzf_blocks inflate (firstn k (bgzf_file fs)) =
      (map (frame_data inflate) (firstn j fs),
       if (j <? length fs)%nat && negb (k - length (bgzf_file (firstn j fs)) <? 18)%nat
       then Err UnexpectedEof else Eof).
Proof. exact bgzf_truncation. Qed.
Print Assumptions c13_bgzf_truncation.

Theorem c13_bgzf_no_fabrication :
  forall (inflate : list N -> option (list N)) fs k i d, Forall (frame_good inflate) fs ->
  nth_error (fst (bgzf_blocks inflate (firstn k (bgzf_file fs)))) i = Some d ->
  exists f, nth_error fs i = Some f /\ d = frame_data inflate f.
Proof. exact bgzf_no_fabrication. Qed.
Print Assumptions c13_bgzf_no_fabrication.

(* ---- a BAM record reader on top of the BGZF reader: it behaves as the plain-stream reader on
   the part of the record stream delivered by the frames wholly inside the cut, followed by the
   BGZF layer's own outcome s; with c13_bam_stream_truncation: the records wholly inside the
   delivered bytes, then a clean end only if s = Eof and the delivered bytes end at a record
   boundary ---- *)
Theorem c13_bam_over_bgzf_truncation :
  forall (inflate : list N -> option (list N)) fs rs hdrbytes k,
    Forall (frame_good inflate) fs ->
    concat (map (frame_data inflate) fs) = hdrbytes ++ bam_encode rs ->
    exists (j : nat) (s : stop),
      bgzf_blocks inflate (firstn k (bgzf_file fs)) = (map (frame_data inflate) (firstn j fs), s) /\
      (s = Eof \/ s = Err UnexpectedEof) /\
      let p := concat (map (frame_data inflate) (firstn j fs)) in
      bam_over_bgzf inflate (length hdrbytes) (firstn k (bgzf_file fs)) =
        if (length p <? length hdrbytes)%nat then None
        else Some (read_stream (bam_read_record s)
                     (firstn (length p - length hdrbytes) (bam_encode rs))).
Proof. exact bam_over_bgzf_truncation. Qed.
Print Assumptions c13_bam_over_bgzf_truncation.

(* ---- ANY record reader rd on top of the BGZF reader (BCF: rd = bcf_read_record_buf ..., payload =
   bcf_encode rs, and c13_bcf_recordbuf_truncation describes the result; BAM as above): it behaves
   as the plain-stream reader [rd s] on the part of the payload delivered by the frames wholly
   inside the cut, s being the BGZF layer's own outcome ---- *)
Theorem c13_records_over_bgzf_truncation :
  forall (inflate : list N -> option (list N)) (A : Type) (rd : stop -> list N -> step A)
         fs payload hdrbytes k,
    Forall (frame_good inflate) fs ->
    concat (map (frame_data inflate) fs) = hdrbytes ++ payload ->
    exists (j : nat) (s : stop),
      bgzf_blocks inflate (firstn k (bgzf_file fs)) = (map (frame_data inflate) (firstn j fs), s) /\
      (s = Eof \/ s = Err UnexpectedEof) /\
      let p := concat (map (frame_data inflate) (firstn j fs)) in
      rec_over_bgzf inflate rd (length hdrbytes) (firstn k (bgzf_file fs)) =
        if (length p <? length hdrbytes)%nat then None
        else Some (read_stream (rd s) (firstn (length p - length hdrbytes) payload)).
Proof. exact rec_over_bgzf_truncation. Qed.
Print Assumptions c13_records_over_bgzf_truncation.

(* ---- BAI (count-driven layout): Err for every cut below the start of the optional trailing
   n_no_coor field; the same index without the count for cuts inside / just before that field;
   the index itself on the whole file ---- *)
Theorem c13_bai_truncation : forall i k, bai_ok i ->
  let file := w_bai i in
  let base := length (w_bai (mkbai (bi_refs i) None)) in
  ((k < base)%nat -> read_bai (firstn k file) = None) /\
  ((base <= k < length file)%nat -> read_bai (firstn k file) = Some (mkbai (bi_refs i) None)) /\
  ((length file <= k)%nat -> read_bai (firstn k file) = Some i).
Proof. exact bai_truncation. Qed.
Print Assumptions c13_bai_truncation.

(* ---- gzi (u64 count, count pairs of u64, end of input demanded): no optional tail, so every
   proper prefix of a written index is an error ---- *)
Theorem c13_gzi_truncation : forall idx k,
  N.of_nat (length idx) < 18446744073709551616 -> Forall chunk_ok idx ->
  let file := w_gzi idx in
  ((k < length file)%nat -> read_gzi (firstn k file) = None) /\
  ((length file <= k)%nat -> read_gzi (firstn k file) = Some idx).
Proof. exact gzi_truncation. Qed.
Print Assumptions c13_gzi_truncation.

(* ---- CRAM at the container level (model of cram/src/io/reader/{header.rs, header/container/**,
   container.rs, container/header.rs}; ITF8/LTF8 bit-exact, CRC32 = any function [crc], decoding of
   the header container's body = any function [hdr_body]).  A data container / the EOF container is
   any byte string the reader parses as exactly one such unit.  The container stream behind the
   header: for EVERY cut short of the whole stream exactly the containers wholly inside the cut are
   returned and then UnexpectedEof -- at container boundaries and inside the EOF container's
   23-byte header or 15-byte body as well; an instance of c13_stream_truncation ---- *)
Theorem c13_cram_stream_truncation :
  forall (crc : list N -> N) cs eofc k, Forall (cram_good crc) cs -> cram_eof_good crc eofc ->
    let s := cram_encode cs ++ eofc in
    ((k < length s)%nat ->
       exists j : nat,
         (j <= length cs)%nat /\
         (length (cram_encode (firstn j cs)) <= k)%nat /\
         (j < length cs -> k < length (cram_encode (firstn (S j) cs)))%nat /\
         read_stream (cram_read_container crc) (firstn k s) =
           (map (cram_out crc) (firstn j cs), Err UnexpectedEof)) /\
    ((length s <= k)%nat ->
       read_stream (cram_read_container crc) (firstn k s) = (map (cram_out crc) cs, Eof)).
Proof. exact cram_stream_truncation. Qed.
Print Assumptions c13_cram_stream_truncation.

(* the whole file: file definition fd, header container = header hch + body hb, data containers,
   EOF container.  Every cut k < |file| ends in an ERROR (never a clean end): UnexpectedEof inside
   the file definition or the header container's header; inside the header container's body what
   the body decoder reports on the bytes present or, if it accepts them (the body is read through
   io::Take), UnexpectedEof from the next container read; behind the header exactly the data
   containers wholly inside the cut, then UnexpectedEof.  Only the whole file ends cleanly. *)
Theorem c13_cram_container_truncation :
  forall (crc : list N -> N) (hdr_body : list N -> option ekind)
         (fd hch hb : list N) (fdv : list N * list N) (hlen : N),
    read_file_definition fd = POk fdv [] ->
    hc_read_header crc hch = POk hlen [] ->
    length hb = N.to_nat hlen ->
    hdr_body hb = None ->
    forall cs eofc k, Forall (cram_good crc) cs -> cram_eof_good crc eofc ->
      let file := fd ++ hch ++ hb ++ cram_encode cs ++ eofc in
      let h2 := (length fd + length hch)%nat in
      let base := (length fd + length hch + length hb)%nat in
      ((k < h2)%nat -> cram_read crc hdr_body (firstn k file) = (false, ([], Err UnexpectedEof))) /\
      ((h2 <= k < base)%nat ->
         cram_read crc hdr_body (firstn k file) =
           match hdr_body (firstn (k - h2) hb) with
           | Some e => (false, ([], Err e))
           | None => (true, ([], Err UnexpectedEof))
           end) /\
      ((base <= k < length file)%nat ->
         exists j : nat,
           (j <= length cs)%nat /\
           (base + length (cram_encode (firstn j cs)) <= k)%nat /\
           (j < length cs -> k < base + length (cram_encode (firstn (S j) cs)))%nat /\
           cram_read crc hdr_body (firstn k file) =
             (true, (map (cram_out crc) (firstn j cs), Err UnexpectedEof))) /\
      ((length file <= k)%nat ->
         cram_read crc hdr_body (firstn k file) = (true, (map (cram_out crc) cs, Eof))).
Proof. exact cram_container_truncation. Qed.
Print Assumptions c13_cram_container_truncation.

(* ---- text records (VCF / SAM lines; model of the record_bufs path: read_line + record parser, the
   parser being the parameter [parse_ok]) on a source that ends ([after] = Eof) or fails
   ([after] = Err e) after its last byte.  The statement of C13 taken literally -- the items
   returned are a prefix of the written records -- is FALSE for such a reader (refuted below);
   what holds for every cut is [text_cut_result]: all the complete lines before the cut, then
   [after] at a line boundary, the error when the source fails inside a line, and, when the source
   ENDS inside a line, the partial line as one more record if the parser accepts it ---- *)
Definition c13_text_truncation_full_statement : Prop :=
  forall (parse_ok : list N -> option ekind) ls k, Forall (line_good parse_ok) ls ->
    exists j, fst (read_stream (text_read_record parse_ok Eof) (firstn k (text_encode ls))) = firstn j ls.

Theorem c13_text_over_bgzf_truncation_refuted : ~ c13_text_truncation_full_statement.
Proof. exact text_truncation_refuted. Qed.
Print Assumptions c13_text_over_bgzf_truncation_refuted.

Theorem c13_text_stream_truncation :
  forall (parse_ok : list N -> option ekind) after ls k, Forall (line_good parse_ok) ls ->
    exists i : nat,
      (i <= length ls)%nat /\
      (length (text_encode (firstn i ls)) <= k)%nat /\
      (i < length ls -> k < length (text_encode (firstn (S i) ls)))%nat /\
      read_stream (text_read_record parse_ok after) (firstn k (text_encode ls)) =
        text_cut_result parse_ok after ls i k.
Proof. exact text_stream_truncation. Qed.
Print Assumptions c13_text_stream_truncation.

(* every returned item other than the last one is the written line at the same index *)
Theorem c13_text_complete_lines_unchanged :
  forall (parse_ok : list N -> option ekind) after ls k i l, Forall (line_good parse_ok) ls ->
    let res := fst (read_stream (text_read_record parse_ok after) (firstn k (text_encode ls))) in
    (S i < length res)%nat -> nth_error res i = Some l -> nth_error ls i = Some l.
Proof. exact text_complete_lines_unchanged. Qed.
Print Assumptions c13_text_complete_lines_unchanged.

(* bgzipped text: the BGZF layer's outcome s at the cut decides; the only possible alteration is
   the LAST returned record being a prefix of the written line, exactly when the delivered bytes
   end inside that line and the BGZF layer reads the cut as a clean end (cut at a block boundary
   or < 18 bytes into the next block header) and the record parser accepts the partial line: this
   is the finding class text-truncated-final-line-accepted-{vcfgz,samgz} *)
Theorem c13_text_over_bgzf_truncation_partial :
  forall (inflate : list N -> option (list N)) (parse_ok : list N -> option ekind) fs ls hdrbytes k,
    Forall (frame_good inflate) fs -> Forall (line_good parse_ok) ls ->
    concat (map (frame_data inflate) fs) = hdrbytes ++ text_encode ls ->
    exists (j : nat) (s : stop),
      bgzf_blocks inflate (firstn k (bgzf_file fs)) = (map (frame_data inflate) (firstn j fs), s) /\
      (s = Eof \/ s = Err UnexpectedEof) /\
      let p := concat (map (frame_data inflate) (firstn j fs)) in
      let n := (length p - length hdrbytes)%nat in
      if (length p <? length hdrbytes)%nat
      then rec_over_bgzf inflate (text_read_record parse_ok) (length hdrbytes) (firstn k (bgzf_file fs)) = None
      else exists i : nat,
        (i <= length ls)%nat /\
        (length (text_encode (firstn i ls)) <= n)%nat /\
        (i < length ls -> n < length (text_encode (firstn (S i) ls)))%nat /\
        rec_over_bgzf inflate (text_read_record parse_ok) (length hdrbytes) (firstn k (bgzf_file fs)) =
          Some (text_cut_result parse_ok s ls i n).
Proof. exact text_over_bgzf_truncation. Qed.
Print Assumptions c13_text_over_bgzf_truncation_partial.

(* ---- CSI (model read_csi / w_csi_bytes of NV.Index.CsiLayout = the uncompressed payload):
   an error for every cut below the optional trailing n_no_coor, the index without the count
   inside that field, the index on the whole payload.  The aux block and the sequence names are
   read through io::Take; since repair d82cb79 the names reader demands all l_nm bytes, so the
   header parser fails on every strict prefix of its written bytes ---- *)
Theorem c13_csi_truncation : forall i k, csi_ok i ->
  let file := w_csi_bytes i in
  let base := length (w_csi_bytes (csi_no_count i)) in
  ((k < base)%nat -> read_csi (firstn k file) = None) /\
  ((base <= k < length file)%nat -> read_csi (firstn k file) = Some (reread_csi (csi_no_count i))) /\
  ((length file <= k)%nat -> read_csi (firstn k file) = Some (reread_csi i)).
Proof. exact csi_truncation. Qed.
Print Assumptions c13_csi_truncation.

(* ---- tabix: the same, for EVERY well-formed index (the premise `a reference sequence follows
   the header or the header has no names` was needed before repair d82cb79: finding
   tabix-truncated-names-accepted-no-refs, fixed) ---- *)
Theorem c13_tabix_truncation : forall i hd k, tbi_ok i -> ti_header i = Some hd ->
  let file := w_tbi_bytes i in
  let base := length (w_tbi_bytes (tbi_no_count i)) in
  ((k < base)%nat -> read_tbi (firstn k file) = None) /\
  ((base <= k < length file)%nat -> read_tbi (firstn k file) = Some (reread_tbi (tbi_no_count i))) /\
  ((length file <= k)%nat -> read_tbi (firstn k file) = Some (reread_tbi i)).
Proof. exact tbi_truncation. Qed.
Print Assumptions c13_tabix_truncation.

(* ---- CSI / tabix files = BGZF frames around the payload: composition with c13_bgzf_truncation.
   Whatever the cut of the compressed file, the layered reader is the payload parser on the data
   of the frames wholly inside the cut ---- *)
Theorem c13_index_over_bgzf_truncation :
  forall (inflate : list N -> option (list N)) (I : Type) (rd : list N -> option I) fs payload k,
    Forall (frame_good inflate) fs ->
    concat (map (frame_data inflate) fs) = payload ->
    exists j : nat,
      (j <= length fs)%nat /\
      (length (bgzf_file (firstn j fs)) <= k)%nat /\
      (j < length fs -> k < length (bgzf_file (firstn (S j) fs)))%nat /\
      let n := length (concat (map (frame_data inflate) (firstn j fs))) in
      (n <= length payload)%nat /\ (j = length fs -> n = length payload) /\
      idx_over_bgzf inflate rd (firstn k (bgzf_file fs)) = Some (rd (firstn n payload)).
Proof. exact idx_over_bgzf_truncation. Qed.
Print Assumptions c13_index_over_bgzf_truncation.

Theorem c13_csi_over_bgzf_truncation :
  forall (inflate : list N -> option (list N)) i fs k, csi_ok i ->
    Forall (frame_good inflate) fs ->
    concat (map (frame_data inflate) fs) = w_csi_bytes i ->
    exists n : nat,
      (n <= length (w_csi_bytes i))%nat /\
      idx_over_bgzf inflate read_csi (firstn k (bgzf_file fs)) =
        Some (if (n <? length (w_csi_bytes (csi_no_count i)))%nat then None
              else if (n <? length (w_csi_bytes i))%nat then Some (reread_csi (csi_no_count i))
              else Some (reread_csi i)).
Proof. exact csi_over_bgzf_truncation. Qed.
Print Assumptions c13_csi_over_bgzf_truncation.

Theorem c13_tabix_over_bgzf_truncation :
  forall (inflate : list N -> option (list N)) i hd fs k, tbi_ok i -> ti_header i = Some hd ->
    Forall (frame_good inflate) fs ->
    concat (map (frame_data inflate) fs) = w_tbi_bytes i ->
    exists n : nat,
      (n <= length (w_tbi_bytes i))%nat /\
      idx_over_bgzf inflate read_tbi (firstn k (bgzf_file fs)) =
        Some (if (n <? length (w_tbi_bytes (tbi_no_count i)))%nat then None
              else if (n <? length (w_tbi_bytes i))%nat then Some (reread_tbi (tbi_no_count i))
              else Some (reread_tbi i)).
Proof. exact tbi_over_bgzf_truncation. Qed.
Print Assumptions c13_tabix_over_bgzf_truncation.

(* ---- text indexes fai and crai (crai: the text inside the gzip member).  Exact result of every
   cut ([text_index_cut]): complete lines unchanged; at a line boundary exactly them; inside a
   line an error up to and including the last TAB, and behind it the record with its LAST field
   replaced by the value of the digits present (class text-truncated-final-line-accepted-fai) ---- *)
Theorem c13_fai_truncation : forall l k, Forall fai_ok l ->
  read_fai (firstn k (w_fai l)) = text_index_cut fai_partial fai_line l k.
Proof. exact fai_truncation. Qed.
Print Assumptions c13_fai_truncation.

Theorem c13_crai_truncation : forall l k, Forall crai_ok l ->
  read_crai (firstn k (w_crai l)) = text_index_cut crai_partial crai_line l k.
Proof. exact crai_truncation. Qed.
Print Assumptions c13_crai_truncation.

Theorem c13_fai_truncation_prefix : forall l k res, Forall fai_ok l ->
  read_fai (firstn k (w_fai l)) = Some res ->
  exists j, (j <= length l)%nat /\
    (res = firstn j l \/
     exists r lw, nth_error l j = Some r /\
       res = firstn j l ++ [mkfai (f_name r) (f_len r) (f_pos r) (f_lb r) lw]).
Proof. exact fai_truncation_prefix. Qed.
Print Assumptions c13_fai_truncation_prefix.

Theorem c13_crai_truncation_prefix : forall l k res, Forall crai_ok l ->
  read_crai (firstn k (w_crai l)) = Some res ->
  exists j, (j <= length l)%nat /\
    (res = firstn j l \/
     exists r sl, nth_error l j = Some r /\
       res = firstn j l ++ [mkcrai (c_rid r) (c_start r) (c_span r) (c_off r) (c_land r) sl]).
Proof. exact crai_truncation_prefix. Qed.
Print Assumptions c13_crai_truncation_prefix.


(* ---- header reading over a truncated stream.  BAM: the model is C06's NV.Sam.BamHeader.read_bam_header
   (magic, l_text, text through io::Take with the sam_header::Reader line discipline and the concrete
   SAM header parser, n_ref, references, reconciliation), extended to a source that FAILS after its
   last byte (the BGZF layer below).  For every well-formed header, EVERY cut inside the block the
   writer emits is an error: the source's error (UnexpectedEof on a source that ends), or InvalidData
   when the cut is inside the text and the parser refuses the partial last line ---- *)
Theorem c13_header_truncation_bam : forall h hb, Sam.HeaderProofs.wf_header h ->
  Sam.BamHeader.write_bam_header h = Some hb ->
  forall after k, (k < length hb)%nat ->
  exists e, bam_read_header after (firstn k hb) = HErr e /\ (e = short after \/ e = InvalidData).
Proof. exact bam_header_truncation. Qed.
Print Assumptions c13_header_truncation_bam.

(* the sharper form: InvalidData only for a cut inside the text (magic and l_text present, fewer
   than l_text bytes behind them) *)
Theorem c13_header_cut_bam : forall h hb, Sam.HeaderProofs.wf_header h ->
  Sam.BamHeader.write_bam_header h = Some hb ->
  forall after p q, hb = p ++ q -> q <> [] ->
  exists e, bam_read_header after p = HErr e /\
    (e = short after \/ (e = InvalidData /\ exists t, bam_short_text p = Some t)).
Proof. exact bam_header_cut. Qed.
Print Assumptions c13_header_cut_bam.

(* below a FAILING source (the BGZF layer reporting a torn block) every cut inside a written BAM
   header returns exactly the source's error: the complete lines delivered are written lines and are
   accepted, the partial last line is never handed to the parser *)
Theorem c13_header_cut_bam_failing_source : forall h hb, Sam.HeaderProofs.wf_header h ->
  Sam.BamHeader.write_bam_header h = Some hb ->
  forall e p q, hb = p ++ q -> q <> [] -> bam_read_header (Err e) p = HErr e.
Proof. exact bam_header_cut_failing. Qed.
Print Assumptions c13_header_cut_bam_failing_source.

Theorem c13_header_whole_bam : forall h hb, Sam.HeaderProofs.wf_header h ->
  Sam.BamHeader.write_bam_header h = Some hb ->
  forall after rest, bam_read_header after (hb ++ rest) = HOk h rest.
Proof. exact bam_header_whole. Qed.
Print Assumptions c13_header_whole_bam.

(* BCF (model of bcf/src/io/reader/header.rs + header/vcf_header.rs after repair b36f6c8; the VCF
   header parser - parse_partial + insert_entry per line, finish - is a parameter): EVERY cut
   inside the block magic, version, l_text, text, NUL is an error, WHATEVER the header parser does
   with the partial text: discard_to_end demands all l_text bytes *)
Theorem c13_header_truncation_bcf :
  forall (St H : Type) (init : St) (parse_line : St -> list N -> option St) (finish : St -> option H)
         maj min (text : list N) after k,
    N.of_nat (length text) + 1 < 4294967296 ->
    (k < length (bcf_header_block maj min text))%nat ->
    exists e, bcf_read_header St H init parse_line finish after (firstn k (bcf_header_block maj min text)) = HErr e /\
              (e = short after \/ e = InvalidData).
Proof. exact bcf_header_truncation. Qed.
Print Assumptions c13_header_truncation_bcf.

Theorem c13_header_whole_bcf :
  forall (St H : Type) (init : St) (parse_line : St -> list N -> option St) (finish : St -> option H)
         after maj min ls h rest,
    N.of_nat (length (bcf_text ls)) + 1 < 4294967296 ->
    bcf_header_good St H init parse_line finish ls h ->
    bcf_read_header St H init parse_line finish after (bcf_header_block maj min (bcf_text ls) ++ rest) = HOk h rest.
Proof. exact bcf_header_whole. Qed.
Print Assumptions c13_header_whole_bcf.

(* ---- the whole file = header + records, for ANY header reader that reads its written block and
   fails on every strict prefix of it, and any record reader ---- *)
Theorem c13_file_truncation :
  forall (H A : Type) (hdr : stop -> list N -> hres H) (rd : stop -> list N -> step A) (hb : list N) (h : H),
    (forall after rest, hdr after (hb ++ rest) = HOk h rest) ->
    (forall after p q, hb = p ++ q -> q <> [] -> exists e, hdr after p = HErr e) ->
    forall after payload k,
      ((k < length hb)%nat ->
         exists e, hdr after (firstn k hb) = HErr e /\
           file_read hdr rd after (firstn k (hb ++ payload)) = (None, ([], Err e))) /\
      ((length hb <= k)%nat ->
         file_read hdr rd after (firstn k (hb ++ payload)) =
           (Some h, read_stream (rd after) (firstn (k - length hb) payload))).
Proof. exact file_truncation. Qed.
Print Assumptions c13_file_truncation.

(* BAM file (uncompressed stream): header block ++ records, EVERY cut: an error and no record
   inside the header; behind it the written header, the records wholly inside the cut, a clean end
   exactly at record boundaries (and at the end of the header) and an error inside a record *)
Theorem c13_bam_file_truncation : forall h hb rs after k,
  Sam.HeaderProofs.wf_header h -> Sam.BamHeader.write_bam_header h = Some hb -> Forall bam_good rs ->
  let file := hb ++ bam_encode rs in
  ((k < length hb)%nat ->
     exists e, file_read bam_read_header bam_read_record after (firstn k file) = (None, ([], Err e)) /\
               (e = short after \/ e = InvalidData)) /\
  ((length hb <= k)%nat ->
     exists j : nat,
       (j <= length rs)%nat /\
       (length hb + length (bam_encode (firstn j rs)) <= k)%nat /\
       (j < length rs -> k < length hb + length (bam_encode (firstn (S j) rs)))%nat /\
       file_read bam_read_header bam_read_record after (firstn k file) =
         (Some h, (firstn j rs,
                   if (j <? length rs)%nat && negb (k =? length hb + length (bam_encode (firstn j rs)))%nat
                   then Err (short after) else after))).
Proof. exact bam_file_truncation. Qed.
Print Assumptions c13_bam_file_truncation.

Theorem c13_bcf_file_truncation :
  forall (St H : Type) (init : St) (parse_line : St -> list N -> option St) (finish : St -> option H)
         (site_ok : list N -> option ekind) maj min ls h rs after k,
    N.of_nat (length (bcf_text ls)) + 1 < 4294967296 ->
    bcf_header_good St H init parse_line finish ls h -> Forall (bcf_good site_ok) rs ->
    let hdr := bcf_read_header St H init parse_line finish in
    let hb := bcf_header_block maj min (bcf_text ls) in
    let file := hb ++ bcf_encode rs in
    ((k < length hb)%nat ->
       exists e, file_read hdr (bcf_read_record site_ok) after (firstn k file) = (None, ([], Err e)) /\
                 (e = short after \/ e = InvalidData)) /\
    ((length hb <= k)%nat ->
       exists j : nat,
         (j <= length rs)%nat /\
         (length hb + length (bcf_encode (firstn j rs)) <= k)%nat /\
         (j < length rs -> k < length hb + length (bcf_encode (firstn (S j) rs)))%nat /\
         file_read hdr (bcf_read_record site_ok) after (firstn k file) =
           (Some h, (firstn j rs,
                     if (j <? length rs)%nat && negb (k =? length hb + length (bcf_encode (firstn j rs)))%nat
                     then Err (short after) else after))).
Proof. exact bcf_file_truncation. Qed.
Print Assumptions c13_bcf_file_truncation.

(* ---- the same files behind the BGZF layer: whatever the cut k of the compressed file, the file
   reader (header AND records) behaves as on the first n bytes of the uncompressed stream - n = the
   data of the frames wholly inside the cut - followed by the BGZF layer's outcome s (Eof, or
   UnexpectedEof for a torn block); c13_bam_file_truncation / c13_bcf_file_truncation (which hold
   for every [after]) then give the result: error inside the header, else header + the records
   wholly inside n, clean end only if s = Eof and n is a record boundary; n = the whole stream only
   when every frame is inside the cut ---- *)
Theorem c13_bam_file_over_bgzf_truncation :
  forall (inflate : list N -> option (list N)) h hb rs fs k,
    Sam.HeaderProofs.wf_header h -> Sam.BamHeader.write_bam_header h = Some hb ->
    Forall (frame_good inflate) fs ->
    concat (map (frame_data inflate) fs) = hb ++ bam_encode rs ->
    exists (j : nat) (s : stop),
      bgzf_blocks inflate (firstn k (bgzf_file fs)) = (map (frame_data inflate) (firstn j fs), s) /\
      (s = Eof \/ s = Err UnexpectedEof) /\
      let n := length (concat (map (frame_data inflate) (firstn j fs))) in
      (n <= length (hb ++ bam_encode rs))%nat /\ (j = length fs -> n = length (hb ++ bam_encode rs)) /\
      file_over_bgzf inflate bam_read_header bam_read_record (firstn k (bgzf_file fs)) =
        file_read bam_read_header bam_read_record s (firstn n (hb ++ bam_encode rs)).
Proof. exact bam_file_over_bgzf_truncation. Qed.
Print Assumptions c13_bam_file_over_bgzf_truncation.

Theorem c13_bcf_file_over_bgzf_truncation :
  forall (St H : Type) (init : St) (parse_line : St -> list N -> option St) (finish : St -> option H)
         (site_ok : list N -> option ekind) (inflate : list N -> option (list N)) maj min ls h rs fs k,
    N.of_nat (length (bcf_text ls)) + 1 < 4294967296 ->
    bcf_header_good St H init parse_line finish ls h ->
    Forall (frame_good inflate) fs ->
    let hdr := bcf_read_header St H init parse_line finish in
    let hb := bcf_header_block maj min (bcf_text ls) in
    concat (map (frame_data inflate) fs) = hb ++ bcf_encode rs ->
    exists (j : nat) (s : stop),
      bgzf_blocks inflate (firstn k (bgzf_file fs)) = (map (frame_data inflate) (firstn j fs), s) /\
      (s = Eof \/ s = Err UnexpectedEof) /\
      let n := length (concat (map (frame_data inflate) (firstn j fs))) in
      (n <= length (hb ++ bcf_encode rs))%nat /\ (j = length fs -> n = length (hb ++ bcf_encode rs)) /\
      file_over_bgzf inflate hdr (bcf_read_record site_ok) (firstn k (bgzf_file fs)) =
        file_read hdr (bcf_read_record site_ok) s (firstn n (hb ++ bcf_encode rs)).
Proof. exact bcf_file_over_bgzf_truncation. Qed.
Print Assumptions c13_bcf_file_over_bgzf_truncation.


(* ---- the TEXT header (SAM '@' / VCF '#'; model of {sam,vcf}/src/io/reader/header.rs: the header
   ends at the first line that does not start with the prefix - C12's closed form hdr_closed -, every
   line to the header parser, then finish; parser = a parameter, for SAM the concrete parser of C06).
   The literal statement - a cut inside the header text gives an error or the header of the complete
   lines - is REFUTED for the SAM reader; what holds for EVERY cut k is the exact result
   [text_hdr_cut_result]: with j complete header lines and a strict prefix t of line j delivered, a
   failing source gives its error; a source that ends gives the header the parser builds from the j
   lines and, if t is not empty, from t taken as a final line without newline - an error if the
   parser or finish refuse, else a header that can DIFFER from the written one, with no record and a
   clean end (class text-truncated-header-line-accepted-{sam,vcf}); beyond the header text the written
   header and the delivered part of the record lines (c13_text_stream_truncation describes them) ---- *)
Definition c13_text_header_truncation_full_statement : Prop := text_header_literal_statement.

Theorem c13_text_header_truncation_refuted : ~ c13_text_header_truncation_full_statement.
Proof. exact text_header_truncation_refuted. Qed.
Print Assumptions c13_text_header_truncation_refuted.

Theorem c13_text_header_truncation :
  forall (prefix : N) (St H : Type) (init : St) (parse_line : St -> list N -> option St)
         (finish : St -> option H) hls h body after k,
    Forall (hline_ok prefix) hls -> th_good St H init parse_line finish hls h ->
    ((k <= length (htext hls))%nat ->
       exists j t, (j <= length hls)%nat /\ firstn k (htext hls) = htext (firstn j hls) ++ t /\
         partial_ok prefix t /\
         (t = [] \/ exists l u, nth_error hls j = Some l /\ l ++ [10] = t ++ u /\ u <> []) /\
         text_read_header prefix St H init parse_line finish after (firstn k (htext hls ++ body)) =
           text_hdr_cut_result St H init parse_line finish after hls j t) /\
    ((length (htext hls) < k)%nat -> forall x r, body = x :: r -> x <> prefix ->
       text_read_header prefix St H init parse_line finish after (firstn k (htext hls ++ body)) =
         HOk h (firstn (k - length (htext hls)) body)).
Proof. exact text_header_truncation. Qed.
Print Assumptions c13_text_header_truncation.

(* header + records for any record reader that passes the source's outcome on at end of data (the
   text record reader does); through BGZF: c13_file_over_bgzf_any below *)
Theorem c13_text_file_truncation :
  forall (prefix : N) (St H : Type) (init : St) (parse_line : St -> list N -> option St)
         (finish : St -> option H) (A : Type) (rd : stop -> list N -> step A) hls h body after k,
    Forall (hline_ok prefix) hls -> th_good St H init parse_line finish hls h ->
    (forall a, rd a [] = Stop a) ->
    let hdr := text_read_header prefix St H init parse_line finish in
    ((k <= length (htext hls))%nat ->
       exists j t, (j <= length hls)%nat /\ firstn k (htext hls) = htext (firstn j hls) ++ t /\
         partial_ok prefix t /\
         file_read hdr rd after (firstn k (htext hls ++ body)) =
           match text_hdr_cut_result St H init parse_line finish after hls j t with
           | HErr e => (None, ([], Err e))
           | HOk h' _ => (Some h', ([], after))
           end) /\
    ((length (htext hls) < k)%nat -> forall x r, body = x :: r -> x <> prefix ->
       file_read hdr rd after (firstn k (htext hls ++ body)) =
         (Some h, read_stream (rd after) (firstn (k - length (htext hls)) body))).
Proof. exact text_file_truncation. Qed.
Print Assumptions c13_text_file_truncation.

(* ANY header reader and record reader behind the BGZF layer (no premise on the readers): the file
   reader sees the first n bytes of the uncompressed stream and then the BGZF layer's outcome *)
Theorem c13_file_over_bgzf_any :
  forall (H A : Type) (hdr : stop -> list N -> hres H) (rd : stop -> list N -> step A)
         (inflate : list N -> option (list N)) fs (stream : list N) k,
    Forall (frame_good inflate) fs ->
    concat (map (frame_data inflate) fs) = stream ->
    exists (j : nat) (s : stop),
      bgzf_blocks inflate (firstn k (bgzf_file fs)) = (map (frame_data inflate) (firstn j fs), s) /\
      (s = Eof \/ s = Err UnexpectedEof) /\
      let n := length (concat (map (frame_data inflate) (firstn j fs))) in
      (n <= length stream)%nat /\ (j = length fs -> n = length stream) /\
      file_over_bgzf inflate hdr rd (firstn k (bgzf_file fs)) = file_read hdr rd s (firstn n stream).
Proof. exact file_over_bgzf_any. Qed.
Print Assumptions c13_file_over_bgzf_any.


(* ---- CRAM: the blocks and slices INSIDE a container (model of cram/src/io/reader/container/{block,
   slice, slice/header}.rs and Container::compression_header / slices; CRC32 = any function, codecs of
   compressed blocks = a parameter).  What the block-level readers make of a container body that is
   cut - the situation the container reader excludes by demanding all `length` bytes
   (c13_cram_container_truncation) -: every strict prefix of a block is UnexpectedEof (header fields,
   data or the CRC32 field cut), a complete block with a wrong CRC32 is InvalidData, every strict
   prefix of a slice (header block, core block, external blocks) is UnexpectedEof, and in a container
   with any number of slices cut at ANY offset the slices wholly inside the cut are decoded and then
   an ERROR follows - UnexpectedEof in the last slice, InvalidData (invalid landmark) when a landmark
   points beyond the cut -, never a clean end; the whole body decodes every slice ---- *)
Theorem c13_cram_block_truncation :
  forall (crc : list N -> N) ct c j, block_good crc ct c -> (j < length c)%nat ->
    read_block_as crc ct (firstn j c) = PErr UnexpectedEof.
Proof. exact block_truncation. Qed.
Print Assumptions c13_cram_block_truncation.

Theorem c13_cram_block_crc_mismatch :
  forall (crc : list N -> N) (dec : blk -> ekind + list N) ct c b r ext,
    blk_fields c = POk b r ->
    (exists x r', r_u32le r = POk x r' /\ x <> crc (firstn (length c - length r) c)) ->
    read_block_as crc ct (c ++ ext) = PErr InvalidData.
Proof. exact block_crc_mismatch. Qed.
Print Assumptions c13_cram_block_crc_mismatch.

Theorem c13_cram_slice_truncation :
  forall (crc : list N -> N) (dec : blk -> ekind + list N) c j,
    slice_good crc dec c -> (j < length c)%nat ->
    slice_blocks crc dec (firstn j c) = PErr UnexpectedEof.
Proof. exact slice_truncation. Qed.
Print Assumptions c13_cram_slice_truncation.

Theorem c13_cram_container_slices_truncation :
  forall (crc : list N -> N) (dec : blk -> ekind + list N) regions pre j,
    Forall (slice_good crc dec) regions -> regions <> [] ->
    (j < length (pre ++ concat regions))%nat ->
    exists i e, (i < length regions)%nat /\ (e = UnexpectedEof \/ e = InvalidData) /\
      container_slices crc dec (offsets (length pre) regions) (firstn j (pre ++ concat regions)) =
        (map (slice_out crc dec) (firstn i regions), Err e).
Proof. exact container_slices_cut. Qed.
Print Assumptions c13_cram_container_slices_truncation.

Theorem c13_cram_container_slices_whole :
  forall (crc : list N -> N) (dec : blk -> ekind + list N) regions pre,
    Forall (slice_good crc dec) regions ->
    container_slices crc dec (offsets (length pre) regions) (pre ++ concat regions) =
      (map (slice_out crc dec) regions, Eof).
Proof. exact container_slices_whole. Qed.
Print Assumptions c13_cram_container_slices_whole.

(* a container without slices has no landmark: there the cut is caught by compression_header *)
Theorem c13_cram_comp_header_cut :
  forall (crc : list N -> N) (dec : blk -> ekind + list N) ch regions j,
    (exists bd, r_decoded crc dec CT_COMPRESSION_HEADER ch = POk bd []) ->
    (j < length ch)%nat ->
    exists e, container_comp_header crc dec (offsets (length ch) regions) (firstn j (ch ++ concat regions)) = Some e.
Proof. exact container_comp_header_cut. Qed.
Print Assumptions c13_cram_comp_header_cut.

(* ---- non-vacuity ---- *)
(* a 36-byte BAM record (32 fixed bytes, name "r\0", no cigar, 1 base, 1 quality) is [bam_good] *)
Definition ex_rec : list N :=
  [255;255;255;255; 255;255;255;255; 2;0;72;18; 0;0;4;0; 1;0;0;0; 255;255;255;255; 255;255;255;255;
   0;0;0;0; 114;0; 16; 30].
Example c13_ex_bam_good : bam_validate ex_rec = None /\ length ex_rec = 36%nat.
Proof. vm_compute. split; reflexivity. Qed.

(* two records, cut at every interesting place *)
Example c13_ex_bam_cuts :
  let s := bam_encode [ex_rec; ex_rec] in
  length s = 80%nat /\
  read_stream (bam_read_record Eof) (firstn 0 s) = ([], Eof) /\
  read_stream (bam_read_record Eof) (firstn 3 s) = ([], Err UnexpectedEof) /\
  read_stream (bam_read_record Eof) (firstn 39 s) = ([], Err UnexpectedEof) /\
  read_stream (bam_read_record Eof) (firstn 40 s) = ([ex_rec], Eof) /\
  read_stream (bam_read_record Eof) (firstn 41 s) = ([ex_rec], Err UnexpectedEof) /\
  read_stream (bam_read_record Eof) (firstn 80 s) = ([ex_rec; ex_rec], Eof) /\
  read_stream (bam_read_record (Err InvalidData)) (firstn 40 s) = ([ex_rec], Err InvalidData).
Proof. vm_compute. repeat split. Qed.

(* the BGZF EOF marker block is a well-formed frame for an inflate that accepts it; a cut 17
   bytes into it reads as a clean end, a cut 18 bytes into it as UnexpectedEof *)
Definition ex_eof_frame : list N :=
  [31;139;8;4;0;0;0;0;0;255;6;0;66;67;2;0;27;0;3;0;0;0;0;0;0;0;0;0].
Example c13_ex_bgzf :
  let inf := fun _ : list N => Some ([] : list N) in
  parse_block inf ex_eof_frame = inr [] /\
  N.of_nat (length ex_eof_frame) = le_at 16 2 ex_eof_frame + 1 /\
  bgzf_blocks inf (firstn 17 (ex_eof_frame ++ ex_eof_frame)) = ([], Eof) /\
  bgzf_blocks inf (firstn 18 (ex_eof_frame ++ ex_eof_frame)) = ([], Err UnexpectedEof) /\
  bgzf_blocks inf (firstn 45 (ex_eof_frame ++ ex_eof_frame)) = ([[]], Eof) /\
  bgzf_blocks inf (firstn 46 (ex_eof_frame ++ ex_eof_frame)) = ([[]], Err UnexpectedEof).
Proof. vm_compute. repeat split. Qed.

Example c13_ex_bai :
  let i := mkbai [mkbref [] None []] (Some 7) in
  length (w_bai i) = 24%nat /\
  read_bai (firstn 15 (w_bai i)) = None /\
  read_bai (firstn 16 (w_bai i)) = Some (mkbai [mkbref [] None []] None) /\
  read_bai (firstn 23 (w_bai i)) = Some (mkbai [mkbref [] None []] None) /\
  read_bai (firstn 24 (w_bai i)) = Some i.
Proof. exact bai_trunc_example. Qed.

(* CRAM: with the real CRC-32, the 38-byte EOF container of the specification is [cram_eof_good],
   a small hand-made container is [cram_good], "CRAM" 3.0 + 20 id bytes is a file definition, and
   a cut inside the EOF container's body is an error *)
Definition ex_cram_eof : list N :=
  [15;0;0;0; 255;255;255;255;15; 224;69;79;70; 0; 0; 0; 0; 1; 0; 5;189;217;79;
   0;1;0;6;6;1;0;1;0;1;0;238;99;1;75].
Definition ex_cram_dc_fields : list N := [3;0;0;0; 255;255;255;255;15; 0; 0; 2; 0; 7; 1; 1; 0].
Definition ex_cram_dc : list N :=
  ex_cram_dc_fields ++ le32 (crc32 ex_cram_dc_fields) ++ [1;2;3].
Example c13_ex_cram :
  cram_eof_good crc32 ex_cram_eof /\ cram_good crc32 ex_cram_dc /\
  (exists v, read_file_definition (cram_magic ++ [3;0] ++ repeat 0 20) = POk v []) /\
  read_stream (cram_read_container crc32) (firstn 61 (ex_cram_dc ++ ex_cram_eof)) =
    ([cram_out crc32 ex_cram_dc], Err UnexpectedEof) /\
  read_stream (cram_read_container crc32) (ex_cram_dc ++ ex_cram_eof) = ([cram_out crc32 ex_cram_dc], Eof) /\
  ch_nrec (fst (cram_out crc32 ex_cram_dc)) = 2 /\ snd (cram_out crc32 ex_cram_dc) = [1;2;3].
Proof.
  split; [eexists; eexists; vm_compute; reflexivity|].
  split; [eexists; eexists; vm_compute; reflexivity|].
  split; [eexists; vm_compute; reflexivity|].
  vm_compute. repeat split.
Qed.

Example c13_ex_gzi :
  let idx := [(100, 65280); (230, 130560)] in
  length (w_gzi idx) = 40%nat /\
  read_gzi (firstn 39 (w_gzi idx)) = None /\
  read_gzi (firstn 24 (w_gzi idx)) = None /\
  read_gzi (firstn 8 (w_gzi idx)) = None /\
  read_gzi (firstn 40 (w_gzi idx)) = Some idx.
Proof. exact gzi_trunc_example. Qed.

(* text: two lines "AB", "CD"; a source that ends inside the second line returns the altered
   record "C", a source that fails there returns the error *)
Example c13_ex_text :
  let ok := fun _ : list N => @None ekind in
  let s := text_encode [[65;66];[67;68]] in
  read_stream (text_read_record ok Eof) (firstn 3 s) = ([[65;66]], Eof) /\
  read_stream (text_read_record ok Eof) (firstn 4 s) = ([[65;66];[67]], Eof) /\
  read_stream (text_read_record ok (Err UnexpectedEof)) (firstn 4 s) = ([[65;66]], Err UnexpectedEof) /\
  read_stream (text_read_record ok Eof) (firstn 6 s) = ([[65;66];[67;68]], Eof).
Proof. vm_compute. repeat split. Qed.

(* CSI: one empty reference and a count; tabix without references but with names "a", "b": every
   proper prefix is an error, also the cuts behind l_nm and behind the NUL of "a" *)
Example c13_ex_csi :
  let i := mkcsi 14 5 None [mkcref [] [] None] (Some 7) in
  length (w_csi_bytes i) = 32%nat /\
  read_csi (firstn 23 (w_csi_bytes i)) = None /\
  read_csi (firstn 24 (w_csi_bytes i)) = Some (mkcsi 14 5 None [mkcref [] [] None] None) /\
  read_csi (firstn 31 (w_csi_bytes i)) = Some (mkcsi 14 5 None [mkcref [] [] None] None) /\
  read_csi (firstn 32 (w_csi_bytes i)) = Some i.
Proof. exact csi_trunc_example. Qed.

Example c13_ex_tabix_no_refs :
  length (w_tbi_bytes ex_tbi_norefs) = 40%nat /\
  read_tbi (w_tbi_bytes ex_tbi_norefs) = Some ex_tbi_norefs /\
  read_tbi (firstn 39 (w_tbi_bytes ex_tbi_norefs)) = None /\
  read_tbi (firstn 38 (w_tbi_bytes ex_tbi_norefs)) = None /\
  read_tbi (firstn 37 (w_tbi_bytes ex_tbi_norefs)) = None /\
  read_tbi (firstn 36 (w_tbi_bytes ex_tbi_norefs)) = None.
Proof. exact tbi_no_refs_example. Qed.

Example c13_ex_fai :
  let r1 := mkfai [115;49] 100 4 60 61 in
  let r2 := mkfai [115;50] 250 110 70 71 in
  let f := w_fai [r1; r2] in
  length f = 32%nat /\
  read_fai (firstn 15 f) = Some [r1] /\
  read_fai (firstn 16 f) = None /\
  read_fai (firstn 29 f) = None /\
  read_fai (firstn 30 f) = Some [r1; mkfai [115;50] 250 110 70 7] /\
  read_fai (firstn 31 f) = Some [r1; r2] /\
  read_fai (firstn 32 f) = Some [r1; r2].
Proof. exact fai_trunc_example. Qed.

(* header cuts.  BAM: the header with one reference "s" of length 5 is well formed, its block has
   36 bytes (text "@SQ\tSN:s\tLN:5\n"); a cut in the magic / l_text / n_ref / reference part is
   UnexpectedEof, a cut inside the text line is InvalidData on a source that ends (the partial
   @SQ line is refused) and the source's error on a source that fails; the whole block reads back *)
Definition ex_bam_header : Sam.Header.header :=
  Sam.Header.mkHeader None [Sam.Header.mkSq [115] 5 []] [] [] [].
Definition ex_bam_block : list N :=
  [66;65;77;1; 14;0;0;0; 64;83;81;9;83;78;58;115;9;76;78;58;53;10; 1;0;0;0; 2;0;0;0;115;0;5;0;0;0].
Example c13_ex_bam_header :
  Sam.HeaderProofs.wf_header ex_bam_header /\
  Sam.BamHeader.write_bam_header ex_bam_header = Some ex_bam_block /\
  bam_read_header Eof (firstn 3 ex_bam_block) = HErr UnexpectedEof /\
  bam_read_header Eof (firstn 12 ex_bam_block) = HErr InvalidData /\
  bam_read_header (Err UnexpectedEof) (firstn 12 ex_bam_block) = HErr UnexpectedEof /\
  bam_read_header Eof (firstn 21 ex_bam_block) = HErr UnexpectedEof /\
  bam_read_header Eof (firstn 35 ex_bam_block) = HErr UnexpectedEof /\
  bam_read_header Eof (ex_bam_block ++ [7]) = HOk ex_bam_header [7].
Proof.
  split.
  - unfold Sam.HeaderProofs.wf_header, ex_bam_header.
    cbn [Sam.Header.h_hd Sam.Header.h_sq Sam.Header.h_rg Sam.Header.h_pg Sam.Header.h_co].
    split; [exact I|]. split.
    { constructor; [|constructor]. unfold Sam.HeaderProofs.wf_sq, Sam.HeaderProofs.others_ok.
      cbn. split; [discriminate|]. split; constructor. }
    split; [cbn; constructor; [intros []|constructor]|].
    split; [constructor|]. split; [constructor|]. split; [constructor|]. split; constructor.
  - vm_compute. repeat split.
Qed.

(* BCF: with a parser that accepts lines starting with '#' and a finish that wants two lines, the
   text "##x\n#C\n" is a good header; its block has 17 bytes and every proper prefix is an error *)
Definition ex_bcf_parse (st : N) (l : list N) : option N := match l with 35 :: _ => Some (st + 1) | _ => None end.
Definition ex_bcf_finish (st : N) : option N := if st =? 2 then Some st else None.
Example c13_ex_bcf_header :
  let ls := [[35;35;120]; [35;67]] in
  let hb := bcf_header_block 2 2 (bcf_text ls) in
  let rd := bcf_read_header N N 0 ex_bcf_parse ex_bcf_finish in
  bcf_header_good N N 0 ex_bcf_parse ex_bcf_finish ls 2 /\
  length hb = 17%nat /\
  rd Eof (firstn 2 hb) = HErr UnexpectedEof /\
  rd Eof (firstn 11 hb) = HErr UnexpectedEof /\
  rd Eof (firstn 16 hb) = HErr UnexpectedEof /\
  rd (Err InvalidData) (firstn 16 hb) = HErr InvalidData /\
  rd Eof (hb ++ [9]) = HOk 2 [9].
Proof.
  cbn zeta. split.
  - split.
    + repeat constructor; try (eexists; eexists; split; [reflexivity|split; discriminate]); discriminate.
    + exists 2. split; reflexivity.
  - vm_compute. repeat split.
Qed.

(* text header: the cut "@HD\tVN:1.6" of "@HD\tVN:1.6\tSO:unsorted\n" returns a header without the
   sort order and no error on a source that ends, the error on a source that fails; one byte less
   ("@HD\tVN:1.") is InvalidData; behind the header text the source's outcome does not matter *)
Example c13_ex_text_header :
  let text := htext [ex_hd_line] in
  (exists h1, sam_text_read_header Eof text = HOk h1 [] /\
     exists m, Sam.Header.h_hd h1 = Some m /\ Sam.Header.hd_other m <> []) /\
  (exists h2, sam_text_read_header Eof (firstn 10 text) = HOk h2 [] /\
     exists m, Sam.Header.h_hd h2 = Some m /\ Sam.Header.hd_other m = []) /\
  sam_text_read_header (Err UnexpectedEof) (firstn 10 text) = HErr UnexpectedEof /\
  sam_text_read_header Eof (firstn 9 text) = HErr InvalidData /\
  sam_text_read_header Eof (text ++ [114; 49]) = sam_text_read_header (Err UnexpectedEof) (text ++ [114; 49]).
Proof. exact text_header_example. Qed.

(* CRAM blocks, with the real CRC-32: the 15-byte body of the EOF container is a good compression
   header block; a hand-made slice (raw slice header block announcing 1 block, empty core block) is
   a good slice; two of them behind a 3-byte prefix: cut inside the second -> the first decoded, then
   UnexpectedEof; cut inside the first -> InvalidData (the second landmark is beyond the cut) *)
Definition ex_blk (fields : list N) : list N := fields ++ le32 (crc32 fields).
Definition ex_slice_hdr_content : list N :=
  [255;255;255;255;15; 0; 0; 0; 0; 1; 0; 255;255;255;255;15] ++ repeat 0 16.
Definition ex_slice : list N :=
  ex_blk ([0; 2; 0; 32; 32] ++ ex_slice_hdr_content) ++ ex_blk [0; 5; 0; 0; 0].
Example c13_ex_cram_blocks :
  let dec := fun _ : blk => @inl ekind (list N) InvalidData in
  block_good crc32 CT_COMPRESSION_HEADER [0;1;0;6;6;1;0;1;0;1;0;238;99;1;75] /\
  slice_good crc32 dec ex_slice /\ length ex_slice = 50%nat /\
  container_slices crc32 dec (offsets 3 [ex_slice; ex_slice]) ([9;9;9] ++ ex_slice ++ ex_slice) = ([0; 0], Eof) /\
  container_slices crc32 dec (offsets 3 [ex_slice; ex_slice]) (firstn 102 ([9;9;9] ++ ex_slice ++ ex_slice)) =
    ([0], Err UnexpectedEof) /\
  container_slices crc32 dec (offsets 3 [ex_slice; ex_slice]) (firstn 52 ([9;9;9] ++ ex_slice ++ ex_slice)) =
    ([], Err InvalidData).
Proof.
  cbn zeta. split; [eexists; vm_compute; reflexivity|].
  split; [eexists; vm_compute; reflexivity|].
  vm_compute. repeat split.
Qed.

(* ---- the crai FILE: the gzip container around the text (round 8).  Models: C19's NV.CramIdx.Gz
   (flate2's GzHeaderParser / single-member GzDecoder) with C01's executable RFC 1951 inflater
   NV.Bgzf.Inflate inside (both imported read-only), composed with C17's crai text reader
   (NV.Trunc.CraiGz.crai_file_read).  EVERY cut of a .crai file is an error, UnexpectedEof ---- *)
From NV Require Import Bgzf.Frame Bgzf.Inflate CramIdx.Gz CramIdx.GzProofs Trunc.InflateExtProofs Trunc.CraiGz Trunc.CraiGzProofs.

(* C01's inflater is stable under extension of its input: what it accepts it accepts, with the same
   output, whatever follows - and it leaves exactly what follows behind *)
Theorem c13_inflate_stable_under_extension : forall limit p x out rest,
  inflate_raw limit p = Some (out, rest) -> inflate_raw limit (p ++ x) = Some (out, rest ++ x).
Proof. exact inflate_raw_ext. Qed.
Print Assumptions c13_inflate_stable_under_extension.

(* hence a DEFLATE stream (any blocks: stored, fixed, dynamic) that is read up to the bytes behind
   it is REFUSED at every strict prefix: a cut inside the stream never reads as a complete stream *)
Theorem c13_deflate_strict_prefix_refused : forall limit d tail out j,
  inflate_raw limit (d ++ tail) = Some (out, tail) -> (j < length d)%nat ->
  inflate_raw limit (firstn j d) = None.
Proof. exact inflate_raw_strict_prefix. Qed.
Print Assumptions c13_deflate_strict_prefix_refused.

(* the gzip header parser: an accepted header stays accepted, a refusal other than "source ended"
   stays a refusal, whatever follows *)
Theorem c13_gzip_header_stable : forall bs x,
  (forall r, gz_header bs = GOk r -> gz_header (bs ++ x) = GOk (r ++ x)) /\
  (forall e, gz_header bs = GErr e -> e <> GzEof -> gz_header (bs ++ x) = GErr e).
Proof. intros bs x. split; [exact (gz_header_ext bs x)|exact (gz_header_err_ext bs x)]. Qed.
Print Assumptions c13_gzip_header_stable.

(* ANY gzip member (whatever header fields - FEXTRA, FNAME, FCOMMENT, FHCRC -, whatever DEFLATE
   blocks, whoever wrote it) with nothing behind its 8 trailer bytes: EVERY strict prefix is refused,
   with GzEof (the source ends inside the header or the trailer) or GzBody (inside the DEFLATE
   stream) - both io::ErrorKind::UnexpectedEof *)
Theorem c13_gzip_member_truncation : forall bs k, gz_exact_member bs -> (k < length bs)%nat ->
  gunzip (firstn k bs) = GErr GzEof \/ gunzip (firstn k bs) = GErr GzBody.
Proof. exact gunzip_cut. Qed.
Print Assumptions c13_gzip_member_truncation.

Theorem c13_crai_file_truncation_any_member : forall bs k, gz_exact_member bs -> (k < length bs)%nat ->
  crai_file_obs (firstn k bs) = inl KUnexpectedEof.
Proof. exact crai_file_cut_any. Qed.
Print Assumptions c13_crai_file_truncation_any_member.

(* the executable test of the premise, evaluated on every file of the correspondence check *)
Theorem c13_gz_exact_test_sound : forall bs, gz_exact_b bs = true -> gz_exact_member bs.
Proof. exact gz_exact_b_spec. Qed.
Print Assumptions c13_gz_exact_test_sound.

(* the file crai::io::Writer emits (10-byte header, the stream of ANY compressor that C01's inflater
   inverts - the premise under which flate2's compressor enters, as in C19 -, CRC32 + ISIZE), cut
   at k, by region: UnexpectedEof inside the header (GzEof), inside the DEFLATE stream (GzBody) and
   inside the trailer (GzEof); the written index on the whole file *)
Theorem c13_crai_file_cut_regions : forall comp, inflatable comp -> forall l k,
  Forall crai_ok l -> lenN (w_crai l) <= gz_limit ->
  crai_file_read (firstn k (crai_file_write comp l)) =
    if (k <? 10)%nat then GErr GzEof
    else if (k <? 10 + length (comp (w_crai l)))%nat then GErr GzBody
    else if (k <? length (crai_file_write comp l))%nat then GErr GzEof
    else GOk l.
Proof. exact crai_file_cut_written. Qed.
Print Assumptions c13_crai_file_cut_regions.

(* the property for crai files: an error at EVERY cut short of the whole file, the written index on
   the whole file; never another index *)
Theorem c13_crai_file_truncation : forall comp, inflatable comp -> forall l k,
  Forall crai_ok l -> lenN (w_crai l) <= gz_limit ->
  crai_file_obs (firstn k (crai_file_write comp l)) =
    if (k <? length (crai_file_write comp l))%nat then inl KUnexpectedEof else inr l.
Proof. exact crai_file_truncation. Qed.
Print Assumptions c13_crai_file_truncation.

(* the stored-block compressor (flate2 level 0): no premise about the compressor *)
Theorem c13_crai_file_truncation_stored : forall l k,
  Forall crai_ok l -> lenN (w_crai l) <= gz_limit ->
  crai_file_obs (firstn k (crai_file_write deflate_stored l)) =
    if (k <? length (crai_file_write deflate_stored l))%nat then inl KUnexpectedEof else inr l.
Proof. exact crai_file_truncation_stored. Qed.
Print Assumptions c13_crai_file_truncation_stored.

(* the crai TEXT cut at k inside an INTACT member (what the `crai` kind of the correspondence check
   builds): the text theorem c13_crai_truncation lifted through the gzip layer *)
Theorem c13_crai_regzipped_text_truncation : forall comp, inflatable comp -> forall l k,
  Forall crai_ok l -> lenN (w_crai l) <= gz_limit ->
  crai_file_read (gzip_text comp (firstn k (w_crai l))) =
    match text_index_cut crai_partial crai_line l k with
    | Some res => GOk res
    | None => GErr GzText
    end.
Proof. exact crai_regzipped_cut. Qed.
Print Assumptions c13_crai_regzipped_text_truncation.

(* non-vacuity: a two-record index in a stored-block member is an exact member; all of its cuts,
   computed: 61 errors, then the index; and a member with FEXTRA, FNAME and FHCRC fields (real CRC-32) *)
Definition ex_crai : list crai_rec :=
  [mkcrai (Some 0) (Some 5) 10 26 3 100; mkcrai None None 0 200 7 50].
Definition ex_gz_fields : list N :=
  let h := [31; 139; 8; 14; 1; 2; 3; 4; 0; 3] ++ [2; 0; 65; 66] ++ [120; 0] in
  h ++ firstn 2 (le32 (crc32 h)) ++ deflate_stored (w_crai ex_crai) ++ gz_trailer (w_crai ex_crai).
Example c13_ex_crai_file :
  Forall crai_ok ex_crai /\
  gz_exact_b (crai_file_write deflate_stored ex_crai) = true /\
  crai_file_cuts (crai_file_write deflate_stored ex_crai) =
    repeat (inl KUnexpectedEof) (length (crai_file_write deflate_stored ex_crai)) ++ [inr ex_crai] /\
  gz_exact_b ex_gz_fields = true /\
  crai_file_cuts ex_gz_fields = repeat (inl KUnexpectedEof) (length ex_gz_fields) ++ [inr ex_crai].
Proof.
  split; [repeat constructor; cbv; intuition discriminate|].
  vm_compute. repeat split.
Qed.

(* ---- error KINDS of the gzi reader (round 8): the kind model read_gzi_k refines C17's read_gzi;
   every cut of a written gzi short of the whole file is UnexpectedEof (never InvalidData), the
   whole file the index; bytes behind a written index are InvalidData ---- *)
From NV Require Import Trunc.GziKind Trunc.GziKindProofs.

Theorem c13_gzi_kind_refines : forall bs,
  read_gzi bs = match read_gzi_k bs with inr l => Some l | inl _ => None end.
Proof. exact read_gzi_k_erase. Qed.
Print Assumptions c13_gzi_kind_refines.

Theorem c13_gzi_truncation_kind : forall idx k,
  N.of_nat (length idx) < 18446744073709551616 -> Forall chunk_ok idx ->
  read_gzi_k (firstn k (w_gzi idx)) =
    if (k <? length (w_gzi idx))%nat then inl Stream.UnexpectedEof else inr idx.
Proof. exact gzi_truncation_kind. Qed.
Print Assumptions c13_gzi_truncation_kind.

Theorem c13_gzi_trailing_bytes_invalid_data : forall idx b t,
  N.of_nat (length idx) < 18446744073709551616 -> Forall chunk_ok idx ->
  read_gzi_k (w_gzi idx ++ b :: t) = inl Stream.InvalidData.
Proof. exact gzi_trailing_kind. Qed.
Print Assumptions c13_gzi_trailing_bytes_invalid_data.

(* ---- VCF text header since `fix:` ae9f807 (read_header stops behind the line the parser takes
   for #CHROM; model NV.Trunc.TextHeader.text_read_header_sw, used by vcf_text_read_header): the
   whole header text followed by ANYTHING - nothing, a record, a line that starts with '#', a
   source that fails right behind it - returns the written header and leaves exactly what follows
   unread.  Cuts INSIDE the header text are compared with the reader cut by cut (kinds vcfth /
   vcfthz); c13_text_header_truncation keeps describing the SAM reader (no stop) ---- *)
From NV Require Import Trunc.TextHeaderSwProofs.
Theorem c13_vcf_text_header_whole_stops_at_chrom :
  forall (prefix : N) (St H : Type) (init : St) (parse_line : St -> list N -> option St)
         (finish : St -> option H) (done : St -> bool) hls last h st after tail,
    Forall (hline_ok prefix) (hls ++ [last]) ->
    th_run St parse_line (lines (hls ++ [last])) init = Some st -> done st = true -> finish st = Some h ->
    not_done_before St init parse_line done (hls ++ [last]) ->
    text_read_header_sw prefix St H init parse_line finish done after (htext (hls ++ [last]) ++ tail) = HOk h tail.
Proof. exact text_header_whole_sw. Qed.
Print Assumptions c13_vcf_text_header_whole_stops_at_chrom.

(* ---- deepen10: CUTS INSIDE the VCF header text for the reader that stops behind #CHROM
   (text_read_header_sw; before this round compared cut by cut only).  For the written lines
   hls ++ [last] (each starts with the prefix, holds no LF; the parser takes them in order, is
   `done` behind the last and not before, finish accepts) followed by ANY body (nothing, records,
   more '#' lines), every cut k: strictly inside the header text, with j (< number of lines)
   complete lines and a strict prefix t of line j delivered, the result is [text_hdr_cut_result]
   - a failing source gives its error; a source that ends gives what the parser and finish say
   about the j lines and (if not empty) t taken as a final line without newline, with NOTHING left
   unread; from k = |header text| on (the end itself included, whatever the source does there) the
   written header and the delivered part of the body ---- *)
From NV Require Import Trunc.TextHeaderSwCutProofs.
Theorem c13_vcf_text_header_truncation_stops_at_chrom :
  forall (prefix : N) (St H : Type) (init : St) (parse_line : St -> list N -> option St)
         (finish : St -> option H) (done : St -> bool) hls last h st body after k,
    Forall (hline_ok prefix) (hls ++ [last]) ->
    th_run St parse_line (lines (hls ++ [last])) init = Some st -> done st = true -> finish st = Some h ->
    not_done_before St init parse_line done (hls ++ [last]) ->
    let all := hls ++ [last] in
    let rd := text_read_header_sw prefix St H init parse_line finish done in
    ((k < length (htext all))%nat ->
       exists j t, (j < length all)%nat /\ firstn k (htext all) = htext (firstn j all) ++ t /\
         partial_ok prefix t /\
         (t = [] \/ exists l u, nth_error all j = Some l /\ l ++ [10] = t ++ u /\ u <> []) /\
         rd after (firstn k (htext all ++ body)) = text_hdr_cut_result St H init parse_line finish after all j t) /\
    ((length (htext all) <= k)%nat ->
       rd after (firstn k (htext all ++ body)) = HOk h (firstn (k - length (htext all)) body)).
Proof. exact text_header_truncation_sw. Qed.
Print Assumptions c13_vcf_text_header_truncation_stops_at_chrom.

(* the VERDICT for the function the driver runs for the kinds vcfth / vcfthz
   (vcf_text_read_header tab nfin = text_read_header_sw with the table parser: state = number of
   lines taken, line i refused iff (i, line) is in tab, done / finish = nfin lines taken): for a
   header of nfin written lines none of which the table refuses, followed by any body, a cut
   strictly inside the header text is an ERROR - the source's error on a failing source (the BGZF
   layer's UnexpectedEof), InvalidData on a source that ends - with exactly ONE exception: the
   source ends, the nfin - 1 lines before the last are complete, a NON-EMPTY strict prefix t of the
   last (#CHROM) line is delivered and the parser does not refuse t as line nfin - 1; then the
   header built from the partial line is returned with nothing left unread
   (class text-truncated-header-line-accepted-vcf).  In particular a cut at a line boundary and a
   cut in any ## line is always an error ---- *)
Theorem c13_vcf_text_header_cut_verdict :
  forall tab nfin hls st body after k,
    Forall (hline_ok 35) hls -> N.of_nat (length hls) = nfin ->
    th_run N (tab_parse_line tab) (lines hls) 0 = Some st ->
    (k < length (htext hls))%nat ->
    exists j t, (j < length hls)%nat /\ firstn k (htext hls) = htext (firstn j hls) ++ t /\
      (t = [] \/ exists l u, nth_error hls j = Some l /\ l ++ [10] = t ++ u /\ u <> []) /\
      vcf_text_read_header tab nfin after (firstn k (htext hls ++ body)) =
        match after with
        | Stream.Err e => HErr e
        | Stream.Eof =>
            if (negb (N.of_nat (S j) =? nfin) ||
                match t with [] => true | _ => line_refused tab (N.of_nat j) t end)%bool
            then HErr Stream.InvalidData
            else HOk nfin []
        end.
Proof. exact vcf_text_header_cut_verdict. Qed.
Print Assumptions c13_vcf_text_header_cut_verdict.

(* ---- wave 10b: ERROR KINDS of the BAI reader on a truncated stream.  The reader with kinds is
   C12's read program NV.Io.IndexProg.p_bai (= read_index of noodles-bam/src/bai/io/reader/index.rs,
   proved there to erase to C17's read_bai); NV.Trunc.ProgCut proves for every STRICT read program
   (read_exact only) that a prefix of accepted bytes can only be refused with UnexpectedEof ---- *)
From NV Require Import Io.Prog Io.IndexProg Trunc.ProgCut.

(* any read program made of read_exact reads only: once it accepts d, no prefix of d makes it
   report InvalidData (or anything but UnexpectedEof) *)
Theorem c13_strict_program_prefix_kind : forall (A : Type) (p : prog A), strict p ->
  forall d a, fst (run_pure p d) = RVal a ->
  forall j e, fst (run_pure p (firstn j d)) = RErr e -> e = Stream.UnexpectedEof.
Proof. exact strict_prefix_kind. Qed.
Print Assumptions c13_strict_program_prefix_kind.

(* the same for read_index of BAI on ANY accepted bytes (not only written files), although its
   last read (n_no_coor) is optional *)
Theorem c13_bai_prefix_error_kind : forall d i, fst (run_pure p_bai d) = RVal i ->
  forall j e, fst (run_pure p_bai (firstn j d)) = RErr e -> e = Stream.UnexpectedEof.
Proof. exact bai_prefix_kind. Qed.
Print Assumptions c13_bai_prefix_error_kind.

(* every cut of the file written for a well-formed index: UnexpectedEof below the end of the
   references; THE DOCUMENTED EXCEPTION, stated exactly: with 0..7 bytes of the optional trailing
   n_no_coor present the reader returns Ok with the same references and the count absent; the
   index itself on the whole file *)
Theorem c13_bai_truncation_error_kind : forall i k, bai_ok i ->
  let file := w_bai i in
  let base := length (w_bai (mkbai (bi_refs i) None)) in
  ((k < base)%nat -> fst (run_pure p_bai (firstn k file)) = RErr Stream.UnexpectedEof) /\
  ((base <= k < length file)%nat ->
     fst (run_pure p_bai (firstn k file)) = RVal (mkbai (bi_refs i) None)) /\
  ((length file <= k)%nat -> fst (run_pure p_bai (firstn k file)) = RVal i).
Proof. exact bai_cut_kind. Qed.
Print Assumptions c13_bai_truncation_error_kind.
