(* C13 — A truncated file yields a prefix of the original records, then EOF or an error.
   Property theorems only (proofs in theories/Trunc). *)
From Coq Require Import List NArith.
From NV Require Import Base.LE Trunc.Stream Trunc.StreamProofs.
Import ListNotations.
Open Scope N_scope.

(* BAM record stream (u32 LE block_size + body), for EVERY record list and EVERY cut k, on a plain
   source (after = Eof) and below a failing source (after = Err e): prefix of whole records, then
   [after] exactly at record boundaries and an error (UnexpectedEof on a plain source) inside a
   record. *)
Theorem c13_bam_stream_truncation : forall after rs k, Forall bam_good rs ->
  exists j : nat,
    (j <= length rs)%nat /\
    (length (bam_encode (firstn j rs)) <= k)%nat /\
    (j < length rs -> k < length (bam_encode (firstn (S j) rs)))%nat /\
    read_stream (bam_read_record after) (firstn k (bam_encode rs)) =
      (firstn j rs,
       if (j <? length rs)%nat && negb (k =? length (bam_encode (firstn j rs)))%nat
       then Err (short after) else after).
Proof. exact bam_stream_truncation. Qed.
Print Assumptions c13_bam_stream_truncation.

Theorem c13_bam_no_fabrication : forall after rs k i r, Forall bam_good rs ->
  nth_error (fst (read_stream (bam_read_record after) (firstn k (bam_encode rs)))) i = Some r ->
  nth_error rs i = Some r.
Proof. exact bam_no_fabrication. Qed.
Print Assumptions c13_bam_no_fabrication.
