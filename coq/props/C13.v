(* C13 — A truncated file yields a prefix of the original records, then EOF or an error.
   Property theorems only: each is closed by [exact] of a lemma proved in theories/Trunc and is
   followed by Print Assumptions.  Models: NV.Trunc.Stream (BAM / BCF record readers, BGZF frame
   and block readers, a record reader layered on the BGZF reader) and NV.Index.Layout (BAI).
   All theorems quantify over EVERY written item list and EVERY cut point k (no bound). *)
From Coq Require Import List Arith NArith Bool.
From NV Require Import Base.LE Trunc.Stream Trunc.StreamProofs Index.Layout Index.LayoutProofs Trunc.BaiProofs.
Import ListNotations.
Open Scope N_scope.

(* ---- generic: any item reader that decodes one written item from the front of its input and
   stops with [pout x j] when the input ends j bytes into item x ---- *)
Theorem c13_stream_truncation :
  forall (X A : Type) (enc : X -> list N) (out : X -> A) (good : X -> Prop)
         (rd : list N -> step A) (s_end : stop) (pout : X -> nat -> stop),
    rd [] = Stop s_end ->
    (forall x rest, good x -> rd (enc x ++ rest) = Item (out x) rest) ->
    (forall x j, good x -> (0 < j < length (enc x))%nat -> rd (firstn j (enc x)) = Stop (pout x j)) ->
    (forall x, good x -> (0 < length (enc x))%nat) ->
    forall (xs : list X) (k : nat), Forall good xs ->
    exists j : nat,
      (j <= length xs)%nat /\
      (length (encode X enc (firstn j xs)) <= k)%nat /\
      (j < length xs -> k < length (encode X enc (firstn (S j) xs)))%nat /\
      read_stream rd (firstn k (encode X enc xs)) =
        (map out (firstn j xs),
         match nth_error xs j with
         | None => s_end
         | Some x => if (k =? length (encode X enc (firstn j xs)))%nat then s_end
                     else pout x (k - length (encode X enc (firstn j xs)))%nat
         end).
Proof. exact stream_truncation_generic. Qed.
Print Assumptions c13_stream_truncation.

Theorem c13_no_fabrication :
  forall (X A : Type) (enc : X -> list N) (out : X -> A) (good : X -> Prop)
         (rd : list N -> step A) (s_end : stop) (pout : X -> nat -> stop),
    rd [] = Stop s_end ->
    (forall x rest, good x -> rd (enc x ++ rest) = Item (out x) rest) ->
    (forall x j, good x -> (0 < j < length (enc x))%nat -> rd (firstn j (enc x)) = Stop (pout x j)) ->
    (forall x, good x -> (0 < length (enc x))%nat) ->
    forall (xs : list X) (k i : nat) (a : A), Forall good xs ->
    nth_error (fst (read_stream rd (firstn k (encode X enc xs)))) i = Some a ->
    exists x, nth_error xs i = Some x /\ a = out x.
Proof. exact no_fabrication_generic. Qed.
Print Assumptions c13_no_fabrication.

(* ---- BAM record stream (u32 LE block_size + body; model of bam/src/io/reader/record.rs), on a
   plain source (after = Eof) and below a failing source (after = Err e): the records wholly
   inside the cut, unchanged and in order; then [after] exactly at record boundaries and an
   error (UnexpectedEof on a plain source) when the stream ends inside a record ---- *)
Theorem c13_bam_stream_truncation : forall after rs k, Forall bam_good rs ->
  exists j : nat,
    (j <= length rs)%nat /\
    (length (bam_encode (firstn j rs)) <= k)%nat /\
    (j < length rs -> k < length (bam_encode (firstn (S j) rs)))%nat /\
    read_stream (bam_read_record after) (firstn k (bam_encode rs)) =
      (firstn j rs,
       if (j <? length rs)%nat && negb (k =? length (bam_encode (firstn j rs)))%nat
       then Err (short after) else after).
Proof. exact bam_stream_truncation. Qed.
Print Assumptions c13_bam_stream_truncation.

Theorem c13_bam_no_fabrication : forall after rs k i r, Forall bam_good rs ->
  nth_error (fst (read_stream (bam_read_record after) (firstn k (bam_encode rs)))) i = Some r ->
  nth_error rs i = Some r.
Proof. exact bam_no_fabrication. Qed.
Print Assumptions c13_bam_no_fabrication.

(* ---- BCF record stream (l_shared, l_indiv, site, samples; model of bcf/src/io/reader/record.rs;
   the site-buffer indexer is a parameter that accepts the written sites) ---- *)
Theorem c13_bcf_stream_truncation :
  forall (site_ok : list N -> option ekind) after rs k, Forall (bcf_good site_ok) rs ->
  exists j : nat,
    (j <= length rs)%nat /\
    (length (bcf_encode (firstn j rs)) <= k)%nat /\
    (j < length rs -> k < length (bcf_encode (firstn (S j) rs)))%nat /\
    read_stream (bcf_read_record site_ok after) (firstn k (bcf_encode rs)) =
      (firstn j rs,
       if (j <? length rs)%nat && negb (k =? length (bcf_encode (firstn j rs)))%nat
       then Err (short after) else after).
Proof. exact bcf_stream_truncation. Qed.
Print Assumptions c13_bcf_stream_truncation.

(* ---- BGZF block sequence (model of bgzf/src/io/reader/frame.rs + reader.rs; DEFLATE + CRC of
   a complete frame is the parameter [inflate]): the data of the frames wholly inside the cut;
   clean end iff the cut is at a frame boundary or fewer than 18 bytes into the next frame (the
   code's convention for a partial header), UnexpectedEof otherwise ---- *)
Theorem c13_bgzf_truncation :
  forall (inflate : list N -> option (list N)) fs k, Forall (frame_good inflate) fs ->
  exists j : nat,
    (j <= length fs)%nat /\
    (length (bgzf_file (firstn j fs)) <= k)%nat /\
    (j < length fs -> k < length (bgzf_file (firstn (S j) fs)))%nat /\
    bgzf_blocks inflate (firstn k (bgzf_file fs)) =
      (map (frame_data inflate) (firstn j fs),
       if (j <? length fs)%nat && negb (k - length (bgzf_file (firstn j fs)) <? 18)%nat
       then Err UnexpectedEof else Eof).
Proof. exact bgzf_truncation. Qed.
Print Assumptions c13_bgzf_truncation.

Theorem c13_bgzf_no_fabrication :
  forall (inflate : list N -> option (list N)) fs k i d, Forall (frame_good inflate) fs ->
  nth_error (fst (bgzf_blocks inflate (firstn k (bgzf_file fs)))) i = Some d ->
  exists f, nth_error fs i = Some f /\ d = frame_data inflate f.
Proof. exact bgzf_no_fabrication. Qed.
Print Assumptions c13_bgzf_no_fabrication.

(* ---- a BAM record reader on top of the BGZF reader: it behaves as the plain-stream reader on
   the part of the record stream delivered by the frames wholly inside the cut, followed by the
   BGZF layer's own outcome s; with c13_bam_stream_truncation: the records wholly inside the
   delivered bytes, then a clean end only if s = Eof and the delivered bytes end at a record
   boundary ---- *)
Theorem c13_bam_over_bgzf_truncation :
  forall (inflate : list N -> option (list N)) fs rs hdrbytes k,
    Forall (frame_good inflate) fs ->
    concat (map (frame_data inflate) fs) = hdrbytes ++ bam_encode rs ->
    exists (j : nat) (s : stop),
      bgzf_blocks inflate (firstn k (bgzf_file fs)) = (map (frame_data inflate) (firstn j fs), s) /\
      (s = Eof \/ s = Err UnexpectedEof) /\
      let p := concat (map (frame_data inflate) (firstn j fs)) in
      bam_over_bgzf inflate (length hdrbytes) (firstn k (bgzf_file fs)) =
        if (length p <? length hdrbytes)%nat then None
        else Some (read_stream (bam_read_record s)
                     (firstn (length p - length hdrbytes) (bam_encode rs))).
Proof. exact bam_over_bgzf_truncation. Qed.
Print Assumptions c13_bam_over_bgzf_truncation.

(* ---- BAI (count-driven layout): Err for every cut below the start of the optional trailing
   n_no_coor field; the same index without the count for cuts inside / just before that field;
   the index itself on the whole file ---- *)
Theorem c13_bai_truncation : forall i k, bai_ok i ->
  let file := w_bai i in
  let base := length (w_bai (mkbai (bi_refs i) None)) in
  ((k < base)%nat -> read_bai (firstn k file) = None) /\
  ((base <= k < length file)%nat -> read_bai (firstn k file) = Some (mkbai (bi_refs i) None)) /\
  ((length file <= k)%nat -> read_bai (firstn k file) = Some i).
Proof. exact bai_truncation. Qed.
Print Assumptions c13_bai_truncation.

(* ---- non-vacuity ---- *)
(* a 36-byte BAM record (32 fixed bytes, name "r\0", no cigar, 1 base, 1 quality) is [bam_good] *)
Definition ex_rec : list N :=
  [255;255;255;255; 255;255;255;255; 2;0;72;18; 0;0;4;0; 1;0;0;0; 255;255;255;255; 255;255;255;255;
   0;0;0;0; 114;0; 16; 30].
Example c13_ex_bam_good : bam_validate ex_rec = None /\ length ex_rec = 36%nat.
Proof. vm_compute. split; reflexivity. Qed.

(* two records, cut at every interesting place *)
Example c13_ex_bam_cuts :
  let s := bam_encode [ex_rec; ex_rec] in
  length s = 80%nat /\
  read_stream (bam_read_record Eof) (firstn 0 s) = ([], Eof) /\
  read_stream (bam_read_record Eof) (firstn 3 s) = ([], Err UnexpectedEof) /\
  read_stream (bam_read_record Eof) (firstn 39 s) = ([], Err UnexpectedEof) /\
  read_stream (bam_read_record Eof) (firstn 40 s) = ([ex_rec], Eof) /\
  read_stream (bam_read_record Eof) (firstn 41 s) = ([ex_rec], Err UnexpectedEof) /\
  read_stream (bam_read_record Eof) (firstn 80 s) = ([ex_rec; ex_rec], Eof) /\
  read_stream (bam_read_record (Err InvalidData)) (firstn 40 s) = ([ex_rec], Err InvalidData).
Proof. vm_compute. repeat split. Qed.

(* the BGZF EOF marker block is a well-formed frame for an inflate that accepts it; a cut 17
   bytes into it reads as a clean end, a cut 18 bytes into it as UnexpectedEof *)
Definition ex_eof_frame : list N :=
  [31;139;8;4;0;0;0;0;0;255;6;0;66;67;2;0;27;0;3;0;0;0;0;0;0;0;0;0].
Example c13_ex_bgzf :
  let inf := fun _ : list N => Some ([] : list N) in
  parse_block inf ex_eof_frame = inr [] /\
  N.of_nat (length ex_eof_frame) = le_at 16 2 ex_eof_frame + 1 /\
  bgzf_blocks inf (firstn 17 (ex_eof_frame ++ ex_eof_frame)) = ([], Eof) /\
  bgzf_blocks inf (firstn 18 (ex_eof_frame ++ ex_eof_frame)) = ([], Err UnexpectedEof) /\
  bgzf_blocks inf (firstn 45 (ex_eof_frame ++ ex_eof_frame)) = ([[]], Eof) /\
  bgzf_blocks inf (firstn 46 (ex_eof_frame ++ ex_eof_frame)) = ([[]], Err UnexpectedEof).
Proof. vm_compute. repeat split. Qed.

Example c13_ex_bai :
  let i := mkbai [mkbref [] None []] (Some 7) in
  length (w_bai i) = 24%nat /\
  read_bai (firstn 15 (w_bai i)) = None /\
  read_bai (firstn 16 (w_bai i)) = Some (mkbai [mkbref [] None []] None) /\
  read_bai (firstn 23 (w_bai i)) = Some (mkbai [mkbref [] None []] None) /\
  read_bai (firstn 24 (w_bai i)) = Some i.
Proof. exact bai_trunc_example. Qed.
