(* C13 — A truncated file yields a prefix of the original records, then EOF or an error.
   Property theorems only: each is closed by [exact] of a lemma proved in theories/Trunc and is
   followed by Print Assumptions.  Models: NV.Trunc.Stream (BAM / BCF record readers, BGZF frame
   and block readers, a record reader layered on the BGZF reader) and NV.Index.Layout (BAI).
   All theorems quantify over EVERY written item list and EVERY cut point k (no bound). *)
From Coq Require Import List Arith NArith ZArith Bool.
From NV Require Import Base.LE Trunc.Stream Trunc.StreamProofs Index.Layout Index.LayoutProofs Trunc.BaiProofs.
From NV Require Import Bgzf.Crc32 Trunc.Cram Trunc.CramProofs Trunc.GziProofs Trunc.TextProofs.
From NV Require Import Index.CsiLayout Index.CsiLayoutProofs Index.TextIndex Index.TextIndexProofs.
From NV Require Import Trunc.CsiProofs Trunc.TextIdxProofs Trunc.IndexCut Trunc.IndexCutProofs.
Import ListNotations.
Open Scope N_scope.

(* ---- generic: any item reader that decodes one written item from the front of its input and
   stops with [pout x j] when the input ends j bytes into item x ---- *)
Theorem c13_stream_truncation :
  forall (X A : Type) (enc : X -> list N) (out : X -> A) (good : X -> Prop)
         (rd : list N -> step A) (s_end : stop) (pout : X -> nat -> stop),
    rd [] = Stop s_end ->
    (forall x rest, good x -> rd (enc x ++ rest) = Item (out x) rest) ->
    (forall x j, good x -> (0 < j < length (enc x))%nat -> rd (firstn j (enc x)) = Stop (pout x j)) ->
    (forall x, good x -> (0 < length (enc x))%nat) ->
    forall (xs : list X) (k : nat), Forall good xs ->
    exists j : nat,
      (j <= length xs)%nat /\
      (length (encode X enc (firstn j xs)) <= k)%nat /\
      (j < length xs -> k < length (encode X enc (firstn (S j) xs)))%nat /\
      read_stream rd (firstn k (encode X enc xs)) =
        (map out (firstn j xs),
         match nth_error xs j with
         | None => s_end
         | Some x => if (k =? length (encode X enc (firstn j xs)))%nat then s_end
                     else pout x (k - length (encode X enc (firstn j xs)))%nat
         end).
Proof. exact stream_truncation_generic. Qed.
Print Assumptions c13_stream_truncation.

Theorem c13_no_fabrication :
  forall (X A : Type) (enc : X -> list N) (out : X -> A) (good : X -> Prop)
         (rd : list N -> step A) (s_end : stop) (pout : X -> nat -> stop),
    rd [] = Stop s_end ->
    (forall x rest, good x -> rd (enc x ++ rest) = Item (out x) rest) ->
    (forall x j, good x -> (0 < j < length (enc x))%nat -> rd (firstn j (enc x)) = Stop (pout x j)) ->
    (forall x, good x -> (0 < length (enc x))%nat) ->
    forall (xs : list X) (k i : nat) (a : A), Forall good xs ->
    nth_error (fst (read_stream rd (firstn k (encode X enc xs)))) i = Some a ->
    exists x, nth_error xs i = Some x /\ a = out x.
Proof. exact no_fabrication_generic. Qed.
Print Assumptions c13_no_fabrication.

(* ---- BAM record stream (u32 LE block_size + body; model of bam/src/io/reader/record.rs), on a
   plain source (after = Eof) and below a failing source (after = Err e): the records wholly
   inside the cut, unchanged and in order; then [after] exactly at record boundaries and an
   error (UnexpectedEof on a plain source) when the stream ends inside a record ---- *)
Theorem c13_bam_stream_truncation : forall after rs k, Forall bam_good rs ->
  exists j : nat,
    (j <= length rs)%nat /\
    (length (bam_encode (firstn j rs)) <= k)%nat /\
    (j < length rs -> k < length (bam_encode (firstn (S j) rs)))%nat /\
    read_stream (bam_read_record after) (firstn k (bam_encode rs)) =
      (firstn j rs,
       if (j <? length rs)%nat && negb (k =? length (bam_encode (firstn j rs)))%nat
       then Err (short after) else after).
Proof. exact bam_stream_truncation. Qed.
Print Assumptions c13_bam_stream_truncation.

Theorem c13_bam_no_fabrication : forall after rs k i r, Forall bam_good rs ->
  nth_error (fst (read_stream (bam_read_record after) (firstn k (bam_encode rs)))) i = Some r ->
  nth_error rs i = Some r.
Proof. exact bam_no_fabrication. Qed.
Print Assumptions c13_bam_no_fabrication.

(* ---- BCF record stream (l_shared, l_indiv, site, samples; model of bcf/src/io/reader/record.rs;
   the site-buffer indexer is a parameter that accepts the written sites) ---- *)
Theorem c13_bcf_stream_truncation :
  forall (site_ok : list N -> option ekind) after rs k, Forall (bcf_good site_ok) rs ->
  exists j : nat,
    (j <= length rs)%nat /\
    (length (bcf_encode (firstn j rs)) <= k)%nat /\
    (j < length rs -> k < length (bcf_encode (firstn (S j) rs)))%nat /\
    read_stream (bcf_read_record site_ok after) (firstn k (bcf_encode rs)) =
      (firstn j rs,
       if (j <? length rs)%nat && negb (k =? length (bcf_encode (firstn j rs)))%nat
       then Err (short after) else after).
Proof. exact bcf_stream_truncation. Qed.
Print Assumptions c13_bcf_stream_truncation.

(* ---- the eager BCF path (record_bufs; bcf/src/io/reader/record_buf.rs after the repair 762d61e;
   read_site and read_samples are parameters that accept the written records): record by record it
   is the lazy reader followed by the sample decoder, it obeys the same framing rule, and on every
   cut of a written stream the two paths return the same records and the same outcome ---- *)
Theorem c13_bcf_eager_is_lazy :
  forall (site_ok : list N -> option ekind) (samples_ok : list N -> list N -> option ekind) after bs,
    bcf_read_record_buf site_ok samples_ok after bs =
      match bcf_read_record site_ok after bs with
      | Item (site, samples) r =>
          match samples_ok site samples with
          | Some e => Stop (Err e)
          | None => Item (site, samples) r
          end
      | Stop s => Stop s
      end.
Proof. exact bcf_eager_is_lazy. Qed.
Print Assumptions c13_bcf_eager_is_lazy.

Theorem c13_bcf_recordbuf_truncation :
  forall (site_ok : list N -> option ekind) (samples_ok : list N -> list N -> option ekind) after rs k,
  Forall (bcf_buf_good site_ok samples_ok) rs ->
  exists j : nat,
    (j <= length rs)%nat /\
    (length (bcf_encode (firstn j rs)) <= k)%nat /\
    (j < length rs -> k < length (bcf_encode (firstn (S j) rs)))%nat /\
    read_stream (bcf_read_record_buf site_ok samples_ok after) (firstn k (bcf_encode rs)) =
      (firstn j rs,
       if (j <? length rs)%nat && negb (k =? length (bcf_encode (firstn j rs)))%nat
       then Err (short after) else after).
Proof. exact bcf_buf_stream_truncation. Qed.
Print Assumptions c13_bcf_recordbuf_truncation.

Theorem c13_bcf_eager_lazy_coincide :
  forall (site_ok : list N -> option ekind) (samples_ok : list N -> list N -> option ekind) after rs k,
  Forall (bcf_buf_good site_ok samples_ok) rs ->
  read_stream (bcf_read_record_buf site_ok samples_ok after) (firstn k (bcf_encode rs)) =
  read_stream (bcf_read_record site_ok after) (firstn k (bcf_encode rs)).
Proof. exact bcf_eager_lazy_coincide. Qed.
Print Assumptions c13_bcf_eager_lazy_coincide.

(* ---- BGZF block sequence (model of bgzf/src/io/reader/frame.rs + reader.rs; DEFLATE + CRC of
   a complete frame is the parameter [inflate]): the data of the frames wholly inside the cut;
   clean end iff the cut is at a frame boundary or fewer than 18 bytes into the next frame (the
   code's convention for a partial header), UnexpectedEof otherwise ---- *)
Theorem c13_bgzf_truncation :
  forall (inflate : list N -> option (list N)) fs k, Forall (frame_good inflate) fs ->
  exists j : nat,
    (j <= length fs)%nat /\
    (length (bgzf_file (firstn j fs)) <= k)%nat /\
    (j < length fs -> k < length (bgzf_file (firstn (S j) fs)))%nat /\
    bgzf_blocks inflate (firstn k (bgzf_file fs)) =
      (map (frame_data inflate) (firstn j fs),
       if (j <? length fs)%nat && negb (k - length (bgzf_file (firstn j fs)) <? 18)%nat
       then Err UnexpectedEof else Eof).
Proof. exact bgzf_truncation. Qed.
Print Assumptions c13_bgzf_truncation.

Theorem c13_bgzf_no_fabrication :
  forall (inflate : list N -> option (list N)) fs k i d, Forall (frame_good inflate) fs ->
  nth_error (fst (bgzf_blocks inflate (firstn k (bgzf_file fs)))) i = Some d ->
  exists f, nth_error fs i = Some f /\ d = frame_data inflate f.
Proof. exact bgzf_no_fabrication. Qed.
Print Assumptions c13_bgzf_no_fabrication.

(* ---- a BAM record reader on top of the BGZF reader: it behaves as the plain-stream reader on
   the part of the record stream delivered by the frames wholly inside the cut, followed by the
   BGZF layer's own outcome s; with c13_bam_stream_truncation: the records wholly inside the
   delivered bytes, then a clean end only if s = Eof and the delivered bytes end at a record
   boundary ---- *)
Theorem c13_bam_over_bgzf_truncation :
  forall (inflate : list N -> option (list N)) fs rs hdrbytes k,
    Forall (frame_good inflate) fs ->
    concat (map (frame_data inflate) fs) = hdrbytes ++ bam_encode rs ->
    exists (j : nat) (s : stop),
      bgzf_blocks inflate (firstn k (bgzf_file fs)) = (map (frame_data inflate) (firstn j fs), s) /\
      (s = Eof \/ s = Err UnexpectedEof) /\
      let p := concat (map (frame_data inflate) (firstn j fs)) in
      bam_over_bgzf inflate (length hdrbytes) (firstn k (bgzf_file fs)) =
        if (length p <? length hdrbytes)%nat then None
        else Some (read_stream (bam_read_record s)
                     (firstn (length p - length hdrbytes) (bam_encode rs))).
Proof. exact bam_over_bgzf_truncation. Qed.
Print Assumptions c13_bam_over_bgzf_truncation.

(* ---- ANY record reader rd on top of the BGZF reader (BCF: rd = bcf_read_record_buf ..., payload =
   bcf_encode rs, and c13_bcf_recordbuf_truncation describes the result; BAM as above): it behaves
   as the plain-stream reader [rd s] on the part of the payload delivered by the frames wholly
   inside the cut, s being the BGZF layer's own outcome ---- *)
Theorem c13_records_over_bgzf_truncation :
  forall (inflate : list N -> option (list N)) (A : Type) (rd : stop -> list N -> step A)
         fs payload hdrbytes k,
    Forall (frame_good inflate) fs ->
    concat (map (frame_data inflate) fs) = hdrbytes ++ payload ->
    exists (j : nat) (s : stop),
      bgzf_blocks inflate (firstn k (bgzf_file fs)) = (map (frame_data inflate) (firstn j fs), s) /\
      (s = Eof \/ s = Err UnexpectedEof) /\
      let p := concat (map (frame_data inflate) (firstn j fs)) in
      rec_over_bgzf inflate rd (length hdrbytes) (firstn k (bgzf_file fs)) =
        if (length p <? length hdrbytes)%nat then None
        else Some (read_stream (rd s) (firstn (length p - length hdrbytes) payload)).
Proof. exact rec_over_bgzf_truncation. Qed.
Print Assumptions c13_records_over_bgzf_truncation.

(* ---- BAI (count-driven layout): Err for every cut below the start of the optional trailing
   n_no_coor field; the same index without the count for cuts inside / just before that field;
   the index itself on the whole file ---- *)
Theorem c13_bai_truncation : forall i k, bai_ok i ->
  let file := w_bai i in
  let base := length (w_bai (mkbai (bi_refs i) None)) in
  ((k < base)%nat -> read_bai (firstn k file) = None) /\
  ((base <= k < length file)%nat -> read_bai (firstn k file) = Some (mkbai (bi_refs i) None)) /\
  ((length file <= k)%nat -> read_bai (firstn k file) = Some i).
Proof. exact bai_truncation. Qed.
Print Assumptions c13_bai_truncation.

(* ---- gzi (u64 count, count pairs of u64, end of input demanded): no optional tail, so every
   proper prefix of a written index is an error ---- *)
Theorem c13_gzi_truncation : forall idx k,
  N.of_nat (length idx) < 18446744073709551616 -> Forall chunk_ok idx ->
  let file := w_gzi idx in
  ((k < length file)%nat -> read_gzi (firstn k file) = None) /\
  ((length file <= k)%nat -> read_gzi (firstn k file) = Some idx).
Proof. exact gzi_truncation. Qed.
Print Assumptions c13_gzi_truncation.

(* ---- CRAM at the container level (model of cram/src/io/reader/{header.rs, header/container/**,
   container.rs, container/header.rs}; ITF8/LTF8 bit-exact, CRC32 = any function [crc], decoding of
   the header container's body = any function [hdr_body]).  A data container / the EOF container is
   any byte string the reader parses as exactly one such unit.  The container stream behind the
   header: for EVERY cut short of the whole stream exactly the containers wholly inside the cut are
   returned and then UnexpectedEof -- at container boundaries and inside the EOF container's
   23-byte header or 15-byte body as well; an instance of c13_stream_truncation ---- *)
Theorem c13_cram_stream_truncation :
  forall (crc : list N -> N) cs eofc k, Forall (cram_good crc) cs -> cram_eof_good crc eofc ->
    let s := cram_encode cs ++ eofc in
    ((k < length s)%nat ->
       exists j : nat,
         (j <= length cs)%nat /\
         (length (cram_encode (firstn j cs)) <= k)%nat /\
         (j < length cs -> k < length (cram_encode (firstn (S j) cs)))%nat /\
         read_stream (cram_read_container crc) (firstn k s) =
           (map (cram_out crc) (firstn j cs), Err UnexpectedEof)) /\
    ((length s <= k)%nat ->
       read_stream (cram_read_container crc) (firstn k s) = (map (cram_out crc) cs, Eof)).
Proof. exact cram_stream_truncation. Qed.
Print Assumptions c13_cram_stream_truncation.

(* the whole file: file definition fd, header container = header hch + body hb, data containers,
   EOF container.  Every cut k < |file| ends in an ERROR (never a clean end): UnexpectedEof inside
   the file definition or the header container's header; inside the header container's body what
   the body decoder reports on the bytes present or, if it accepts them (the body is read through
   io::Take), UnexpectedEof from the next container read; behind the header exactly the data
   containers wholly inside the cut, then UnexpectedEof.  Only the whole file ends cleanly. *)
Theorem c13_cram_container_truncation :
  forall (crc : list N -> N) (hdr_body : list N -> option ekind)
         (fd hch hb : list N) (fdv : list N * list N) (hlen : N),
    read_file_definition fd = POk fdv [] ->
    hc_read_header crc hch = POk hlen [] ->
    length hb = N.to_nat hlen ->
    hdr_body hb = None ->
    forall cs eofc k, Forall (cram_good crc) cs -> cram_eof_good crc eofc ->
      let file := fd ++ hch ++ hb ++ cram_encode cs ++ eofc in
      let h2 := (length fd + length hch)%nat in
      let base := (length fd + length hch + length hb)%nat in
      ((k < h2)%nat -> cram_read crc hdr_body (firstn k file) = (false, ([], Err UnexpectedEof))) /\
      ((h2 <= k < base)%nat ->
         cram_read crc hdr_body (firstn k file) =
           match hdr_body (firstn (k - h2) hb) with
           | Some e => (false, ([], Err e))
           | None => (true, ([], Err UnexpectedEof))
           end) /\
      ((base <= k < length file)%nat ->
         exists j : nat,
           (j <= length cs)%nat /\
           (base + length (cram_encode (firstn j cs)) <= k)%nat /\
           (j < length cs -> k < base + length (cram_encode (firstn (S j) cs)))%nat /\
           cram_read crc hdr_body (firstn k file) =
             (true, (map (cram_out crc) (firstn j cs), Err UnexpectedEof))) /\
      ((length file <= k)%nat ->
         cram_read crc hdr_body (firstn k file) = (true, (map (cram_out crc) cs, Eof))).
Proof. exact cram_container_truncation. Qed.
Print Assumptions c13_cram_container_truncation.

(* ---- text records (VCF / SAM lines; model of the record_bufs path: read_line + record parser, the
   parser being the parameter [parse_ok]) on a source that ends ([after] = Eof) or fails
   ([after] = Err e) after its last byte.  The statement of C13 taken literally -- the items
   returned are a prefix of the written records -- is FALSE for such a reader (refuted below);
   what holds for every cut is [text_cut_result]: all the complete lines before the cut, then
   [after] at a line boundary, the error when the source fails inside a line, and, when the source
   ENDS inside a line, the partial line as one more record if the parser accepts it ---- *)
Definition c13_text_truncation_full_statement : Prop :=
  forall (parse_ok : list N -> option ekind) ls k, Forall (line_good parse_ok) ls ->
    exists j, fst (read_stream (text_read_record parse_ok Eof) (firstn k (text_encode ls))) = firstn j ls.

Theorem c13_text_over_bgzf_truncation_refuted : ~ c13_text_truncation_full_statement.
Proof. exact text_truncation_refuted. Qed.
Print Assumptions c13_text_over_bgzf_truncation_refuted.

Theorem c13_text_stream_truncation :
  forall (parse_ok : list N -> option ekind) after ls k, Forall (line_good parse_ok) ls ->
    exists i : nat,
      (i <= length ls)%nat /\
      (length (text_encode (firstn i ls)) <= k)%nat /\
      (i < length ls -> k < length (text_encode (firstn (S i) ls)))%nat /\
      read_stream (text_read_record parse_ok after) (firstn k (text_encode ls)) =
        text_cut_result parse_ok after ls i k.
Proof. exact text_stream_truncation. Qed.
Print Assumptions c13_text_stream_truncation.

(* every returned item other than the last one is the written line at the same index *)
Theorem c13_text_complete_lines_unchanged :
  forall (parse_ok : list N -> option ekind) after ls k i l, Forall (line_good parse_ok) ls ->
    let res := fst (read_stream (text_read_record parse_ok after) (firstn k (text_encode ls))) in
    (S i < length res)%nat -> nth_error res i = Some l -> nth_error ls i = Some l.
Proof. exact text_complete_lines_unchanged. Qed.
Print Assumptions c13_text_complete_lines_unchanged.

(* bgzipped text: the BGZF layer's outcome s at the cut decides; the only possible alteration is
   the LAST returned record being a prefix of the written line, exactly when the delivered bytes
   end inside that line and the BGZF layer reads the cut as a clean end (cut at a block boundary
   or < 18 bytes into the next block header) and the record parser accepts the partial line: this
   is the finding class text-truncated-final-line-accepted-{vcfgz,samgz} *)
Theorem c13_text_over_bgzf_truncation_partial :
  forall (inflate : list N -> option (list N)) (parse_ok : list N -> option ekind) fs ls hdrbytes k,
    Forall (frame_good inflate) fs -> Forall (line_good parse_ok) ls ->
    concat (map (frame_data inflate) fs) = hdrbytes ++ text_encode ls ->
    exists (j : nat) (s : stop),
      bgzf_blocks inflate (firstn k (bgzf_file fs)) = (map (frame_data inflate) (firstn j fs), s) /\
      (s = Eof \/ s = Err UnexpectedEof) /\
      let p := concat (map (frame_data inflate) (firstn j fs)) in
      let n := (length p - length hdrbytes)%nat in
      if (length p <? length hdrbytes)%nat
      then rec_over_bgzf inflate (text_read_record parse_ok) (length hdrbytes) (firstn k (bgzf_file fs)) = None
      else exists i : nat,
        (i <= length ls)%nat /\
        (length (text_encode (firstn i ls)) <= n)%nat /\
        (i < length ls -> n < length (text_encode (firstn (S i) ls)))%nat /\
        rec_over_bgzf inflate (text_read_record parse_ok) (length hdrbytes) (firstn k (bgzf_file fs)) =
          Some (text_cut_result parse_ok s ls i n).
Proof. exact text_over_bgzf_truncation. Qed.
Print Assumptions c13_text_over_bgzf_truncation_partial.

(* ---- CSI (model read_csi / w_csi_bytes of NV.Index.CsiLayout = the uncompressed payload):
   an error for every cut below the optional trailing n_no_coor, the index without the count
   inside that field, the index on the whole payload.  The aux block and the sequence names are
   read through io::Take; since repair d82cb79 the names reader demands all l_nm bytes, so the
   header parser fails on every strict prefix of its written bytes ---- *)
Theorem c13_csi_truncation : forall i k, csi_ok i ->
  let file := w_csi_bytes i in
  let base := length (w_csi_bytes (csi_no_count i)) in
  ((k < base)%nat -> read_csi (firstn k file) = None) /\
  ((base <= k < length file)%nat -> read_csi (firstn k file) = Some (reread_csi (csi_no_count i))) /\
  ((length file <= k)%nat -> read_csi (firstn k file) = Some (reread_csi i)).
Proof. exact csi_truncation. Qed.
Print Assumptions c13_csi_truncation.

(* ---- tabix: the same, for EVERY well-formed index (the premise `a reference sequence follows
   the header or the header has no names` was needed before repair d82cb79: finding
   tabix-truncated-names-accepted-no-refs, fixed) ---- *)
Theorem c13_tabix_truncation : forall i hd k, tbi_ok i -> ti_header i = Some hd ->
  let file := w_tbi_bytes i in
  let base := length (w_tbi_bytes (tbi_no_count i)) in
  ((k < base)%nat -> read_tbi (firstn k file) = None) /\
  ((base <= k < length file)%nat -> read_tbi (firstn k file) = Some (reread_tbi (tbi_no_count i))) /\
  ((length file <= k)%nat -> read_tbi (firstn k file) = Some (reread_tbi i)).
Proof. exact tbi_truncation. Qed.
Print Assumptions c13_tabix_truncation.

(* ---- CSI / tabix files = BGZF frames around the payload: composition with c13_bgzf_truncation.
   Whatever the cut of the compressed file, the layered reader is the payload parser on the data
   of the frames wholly inside the cut ---- *)
Theorem c13_index_over_bgzf_truncation :
  forall (inflate : list N -> option (list N)) (I : Type) (rd : list N -> option I) fs payload k,
    Forall (frame_good inflate) fs ->
    concat (map (frame_data inflate) fs) = payload ->
    exists j : nat,
      (j <= length fs)%nat /\
      (length (bgzf_file (firstn j fs)) <= k)%nat /\
      (j < length fs -> k < length (bgzf_file (firstn (S j) fs)))%nat /\
      let n := length (concat (map (frame_data inflate) (firstn j fs))) in
      (n <= length payload)%nat /\ (j = length fs -> n = length payload) /\
      idx_over_bgzf inflate rd (firstn k (bgzf_file fs)) = Some (rd (firstn n payload)).
Proof. exact idx_over_bgzf_truncation. Qed.
Print Assumptions c13_index_over_bgzf_truncation.

Theorem c13_csi_over_bgzf_truncation :
  forall (inflate : list N -> option (list N)) i fs k, csi_ok i ->
    Forall (frame_good inflate) fs ->
    concat (map (frame_data inflate) fs) = w_csi_bytes i ->
    exists n : nat,
      (n <= length (w_csi_bytes i))%nat /\
      idx_over_bgzf inflate read_csi (firstn k (bgzf_file fs)) =
        Some (if (n <? length (w_csi_bytes (csi_no_count i)))%nat then None
              else if (n <? length (w_csi_bytes i))%nat then Some (reread_csi (csi_no_count i))
              else Some (reread_csi i)).
Proof. exact csi_over_bgzf_truncation. Qed.
Print Assumptions c13_csi_over_bgzf_truncation.

Theorem c13_tabix_over_bgzf_truncation :
  forall (inflate : list N -> option (list N)) i hd fs k, tbi_ok i -> ti_header i = Some hd ->
    Forall (frame_good inflate) fs ->
    concat (map (frame_data inflate) fs) = w_tbi_bytes i ->
    exists n : nat,
      (n <= length (w_tbi_bytes i))%nat /\
      idx_over_bgzf inflate read_tbi (firstn k (bgzf_file fs)) =
        Some (if (n <? length (w_tbi_bytes (tbi_no_count i)))%nat then None
              else if (n <? length (w_tbi_bytes i))%nat then Some (reread_tbi (tbi_no_count i))
              else Some (reread_tbi i)).
Proof. exact tbi_over_bgzf_truncation. Qed.
Print Assumptions c13_tabix_over_bgzf_truncation.

(* ---- text indexes fai and crai (crai: the text inside the gzip member).  Exact result of every
   cut ([text_index_cut]): complete lines unchanged; at a line boundary exactly them; inside a
   line an error up to and including the last TAB, and behind it the record with its LAST field
   replaced by the value of the digits present (class text-truncated-final-line-accepted-fai) ---- *)
Theorem c13_fai_truncation : forall l k, Forall fai_ok l ->
  read_fai (firstn k (w_fai l)) = text_index_cut fai_partial fai_line l k.
Proof. exact fai_truncation. Qed.
Print Assumptions c13_fai_truncation.

Theorem c13_crai_truncation : forall l k, Forall crai_ok l ->
  read_crai (firstn k (w_crai l)) = text_index_cut crai_partial crai_line l k.
Proof. exact crai_truncation. Qed.
Print Assumptions c13_crai_truncation.

Theorem c13_fai_truncation_prefix : forall l k res, Forall fai_ok l ->
  read_fai (firstn k (w_fai l)) = Some res ->
  exists j, (j <= length l)%nat /\
    (res = firstn j l \/
     exists r lw, nth_error l j = Some r /\
       res = firstn j l ++ [mkfai (f_name r) (f_len r) (f_pos r) (f_lb r) lw]).
Proof. exact fai_truncation_prefix. Qed.
Print Assumptions c13_fai_truncation_prefix.

Theorem c13_crai_truncation_prefix : forall l k res, Forall crai_ok l ->
  read_crai (firstn k (w_crai l)) = Some res ->
  exists j, (j <= length l)%nat /\
    (res = firstn j l \/
     exists r sl, nth_error l j = Some r /\
       res = firstn j l ++ [mkcrai (c_rid r) (c_start r) (c_span r) (c_off r) (c_land r) sl]).
Proof. exact crai_truncation_prefix. Qed.
Print Assumptions c13_crai_truncation_prefix.

(* ---- non-vacuity ---- *)
(* a 36-byte BAM record (32 fixed bytes, name "r\0", no cigar, 1 base, 1 quality) is [bam_good] *)
Definition ex_rec : list N :=
  [255;255;255;255; 255;255;255;255; 2;0;72;18; 0;0;4;0; 1;0;0;0; 255;255;255;255; 255;255;255;255;
   0;0;0;0; 114;0; 16; 30].
Example c13_ex_bam_good : bam_validate ex_rec = None /\ length ex_rec = 36%nat.
Proof. vm_compute. split; reflexivity. Qed.

(* two records, cut at every interesting place *)
Example c13_ex_bam_cuts :
  let s := bam_encode [ex_rec; ex_rec] in
  length s = 80%nat /\
  read_stream (bam_read_record Eof) (firstn 0 s) = ([], Eof) /\
  read_stream (bam_read_record Eof) (firstn 3 s) = ([], Err UnexpectedEof) /\
  read_stream (bam_read_record Eof) (firstn 39 s) = ([], Err UnexpectedEof) /\
  read_stream (bam_read_record Eof) (firstn 40 s) = ([ex_rec], Eof) /\
  read_stream (bam_read_record Eof) (firstn 41 s) = ([ex_rec], Err UnexpectedEof) /\
  read_stream (bam_read_record Eof) (firstn 80 s) = ([ex_rec; ex_rec], Eof) /\
  read_stream (bam_read_record (Err InvalidData)) (firstn 40 s) = ([ex_rec], Err InvalidData).
Proof. vm_compute. repeat split. Qed.

(* the BGZF EOF marker block is a well-formed frame for an inflate that accepts it; a cut 17
   bytes into it reads as a clean end, a cut 18 bytes into it as UnexpectedEof *)
Definition ex_eof_frame : list N :=
  [31;139;8;4;0;0;0;0;0;255;6;0;66;67;2;0;27;0;3;0;0;0;0;0;0;0;0;0].
Example c13_ex_bgzf :
  let inf := fun _ : list N => Some ([] : list N) in
  parse_block inf ex_eof_frame = inr [] /\
  N.of_nat (length ex_eof_frame) = le_at 16 2 ex_eof_frame + 1 /\
  bgzf_blocks inf (firstn 17 (ex_eof_frame ++ ex_eof_frame)) = ([], Eof) /\
  bgzf_blocks inf (firstn 18 (ex_eof_frame ++ ex_eof_frame)) = ([], Err UnexpectedEof) /\
  bgzf_blocks inf (firstn 45 (ex_eof_frame ++ ex_eof_frame)) = ([[]], Eof) /\
  bgzf_blocks inf (firstn 46 (ex_eof_frame ++ ex_eof_frame)) = ([[]], Err UnexpectedEof).
Proof. vm_compute. repeat split. Qed.

Example c13_ex_bai :
  let i := mkbai [mkbref [] None []] (Some 7) in
  length (w_bai i) = 24%nat /\
  read_bai (firstn 15 (w_bai i)) = None /\
  read_bai (firstn 16 (w_bai i)) = Some (mkbai [mkbref [] None []] None) /\
  read_bai (firstn 23 (w_bai i)) = Some (mkbai [mkbref [] None []] None) /\
  read_bai (firstn 24 (w_bai i)) = Some i.
Proof. exact bai_trunc_example. Qed.

(* CRAM: with the real CRC-32, the 38-byte EOF container of the specification is [cram_eof_good],
   a small hand-made container is [cram_good], "CRAM" 3.0 + 20 id bytes is a file definition, and
   a cut inside the EOF container's body is an error *)
Definition ex_cram_eof : list N :=
  [15;0;0;0; 255;255;255;255;15; 224;69;79;70; 0; 0; 0; 0; 1; 0; 5;189;217;79;
   0;1;0;6;6;1;0;1;0;1;0;238;99;1;75].
Definition ex_cram_dc_fields : list N := [3;0;0;0; 255;255;255;255;15; 0; 0; 2; 0; 7; 1; 1; 0].
Definition ex_cram_dc : list N :=
  ex_cram_dc_fields ++ le32 (crc32 ex_cram_dc_fields) ++ [1;2;3].
Example c13_ex_cram :
  cram_eof_good crc32 ex_cram_eof /\ cram_good crc32 ex_cram_dc /\
  (exists v, read_file_definition (cram_magic ++ [3;0] ++ repeat 0 20) = POk v []) /\
  read_stream (cram_read_container crc32) (firstn 61 (ex_cram_dc ++ ex_cram_eof)) =
    ([cram_out crc32 ex_cram_dc], Err UnexpectedEof) /\
  read_stream (cram_read_container crc32) (ex_cram_dc ++ ex_cram_eof) = ([cram_out crc32 ex_cram_dc], Eof) /\
  ch_nrec (fst (cram_out crc32 ex_cram_dc)) = 2 /\ snd (cram_out crc32 ex_cram_dc) = [1;2;3].
Proof.
  split; [eexists; eexists; vm_compute; reflexivity|].
  split; [eexists; eexists; vm_compute; reflexivity|].
  split; [eexists; vm_compute; reflexivity|].
  vm_compute. repeat split.
Qed.

Example c13_ex_gzi :
  let idx := [(100, 65280); (230, 130560)] in
  length (w_gzi idx) = 40%nat /\
  read_gzi (firstn 39 (w_gzi idx)) = None /\
  read_gzi (firstn 24 (w_gzi idx)) = None /\
  read_gzi (firstn 8 (w_gzi idx)) = None /\
  read_gzi (firstn 40 (w_gzi idx)) = Some idx.
Proof. exact gzi_trunc_example. Qed.

(* text: two lines "AB", "CD"; a source that ends inside the second line returns the altered
   record "C", a source that fails there returns the error *)
Example c13_ex_text :
  let ok := fun _ : list N => @None ekind in
  let s := text_encode [[65;66];[67;68]] in
  read_stream (text_read_record ok Eof) (firstn 3 s) = ([[65;66]], Eof) /\
  read_stream (text_read_record ok Eof) (firstn 4 s) = ([[65;66];[67]], Eof) /\
  read_stream (text_read_record ok (Err UnexpectedEof)) (firstn 4 s) = ([[65;66]], Err UnexpectedEof) /\
  read_stream (text_read_record ok Eof) (firstn 6 s) = ([[65;66];[67;68]], Eof).
Proof. vm_compute. repeat split. Qed.

(* CSI: one empty reference and a count; tabix without references but with names "a", "b": every
   proper prefix is an error, also the cuts behind l_nm and behind the NUL of "a" *)
Example c13_ex_csi :
  let i := mkcsi 14 5 None [mkcref [] [] None] (Some 7) in
  length (w_csi_bytes i) = 32%nat /\
  read_csi (firstn 23 (w_csi_bytes i)) = None /\
  read_csi (firstn 24 (w_csi_bytes i)) = Some (mkcsi 14 5 None [mkcref [] [] None] None) /\
  read_csi (firstn 31 (w_csi_bytes i)) = Some (mkcsi 14 5 None [mkcref [] [] None] None) /\
  read_csi (firstn 32 (w_csi_bytes i)) = Some i.
Proof. exact csi_trunc_example. Qed.

Example c13_ex_tabix_no_refs :
  length (w_tbi_bytes ex_tbi_norefs) = 40%nat /\
  read_tbi (w_tbi_bytes ex_tbi_norefs) = Some ex_tbi_norefs /\
  read_tbi (firstn 39 (w_tbi_bytes ex_tbi_norefs)) = None /\
  read_tbi (firstn 38 (w_tbi_bytes ex_tbi_norefs)) = None /\
  read_tbi (firstn 37 (w_tbi_bytes ex_tbi_norefs)) = None /\
  read_tbi (firstn 36 (w_tbi_bytes ex_tbi_norefs)) = None.
Proof. exact tbi_no_refs_example. Qed.

Example c13_ex_fai :
  let r1 := mkfai [115;49] 100 4 60 61 in
  let r2 := mkfai [115;50] 250 110 70 71 in
  let f := w_fai [r1; r2] in
  length f = 32%nat /\
  read_fai (firstn 15 f) = Some [r1] /\
  read_fai (firstn 16 f) = None /\
  read_fai (firstn 29 f) = None /\
  read_fai (firstn 30 f) = Some [r1; mkfai [115;50] 250 110 70 7] /\
  read_fai (firstn 31 f) = Some [r1; r2] /\
  read_fai (firstn 32 f) = Some [r1; r2].
Proof. exact fai_trunc_example. Qed.
