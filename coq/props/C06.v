(* C06 -- SAM text records and headers round-trip; SAM and BAM carry the same content (partial). *)
From Coq Require Import List NArith ZArith.
From NV Require Import Base.Decimal Base.DecimalProofs.
Import ListNotations.

Theorem c06_decimal_parse_fmt : forall z : Z, parse_dec true (fmt_dec z) = Some z.
Proof. exact parse_fmt. Qed.
Print Assumptions c06_decimal_parse_fmt.
