(* C06 -- SAM text records and headers round-trip, and SAM and BAM carry the same content.
   PARTIAL BY DESIGN.  Proved here, about the Gallina models NV.Base.Decimal, NV.Sam.Fields and
   NV.Sam.Record (mirrors of noodles-sam io/writer/record.rs etc., io/writer/num.rs, io/reader/record_buf.rs etc.):
   the record half of the property (one alignment line, all 11 columns and all optional-field types),
   with float text as a Section oracle; the header half (NV.Sam.Header: @HD/@SQ/@RG/@PG/@CO lines with
   ordered tag maps, sam::io::Reader::read_header line handling and the duplicate-tag context);
   every header the reader accepts satisfies the type-level premises, so parse -> write -> parse is
   stable for every accepted text (NV.Sam.HeaderWfProofs); the BAM header block (NV.Sam.BamHeader:
   magic, l_text, text read with the BAM reader's own line discipline and NUL padding, binary
   reference dictionary, reconciliation of the two) with its write -> read identity; and the
   SAM/BAM agreement for EVERY record of the data model (any optional fields, any CIGAR length) by
   composition with the C05 BAM codec theorem.  The lazy sam::Record (NV.Sam.Lazy: field splitter,
   bounds, the accessors of the eleven mandatory columns with their panics) is modelled and tied to
   the implementation; its theorems are at the end of this file.  Round 8 (end of file): noodles'
   own output satisfies the text premises (arr_canon, wf_refs), Data::get, header write-then-read. *)
From Coq Require Import List NArith ZArith Bool Lia.
From NV Require Import Base.Decimal Base.DecimalProofs Sam.Fields Sam.FieldsProofs Sam.Record Sam.RecordProofs.
From NV Require Import Sam.Header Sam.HeaderProofs Sam.HeaderWfProofs Sam.BamAgree.
From NV Require Import Sam.BamHeader Sam.BamHeaderProofs Sam.Lazy Sam.LazyProofs Sam.LazyWritten.
From NV Require Import Sam.LazyData Sam.LazyDataProofs Sam.File Sam.FileProofs Sam.FileAgree.
From NV Require Import Sam.WrittenProofs Sam.LazyGet Sam.LazyGetProofs.
From NV Require Bam.File Bam.FileProofs.
From NV Require Bam.Record Bam.Encode Bam.Decode Bam.CodecProofs Bam.AuxProofs.
Import ListNotations.
Open Scope N_scope.

(* ---- decimal text (io/writer/num.rs vs lexical_core::parse) *)
Theorem c06_decimal_parse_fmt : forall z : Z, parse_dec true (fmt_dec z) = Some z.
Proof. exact parse_fmt. Qed.
Print Assumptions c06_decimal_parse_fmt.

Theorem c06_decimal_parse_fmt_unsigned : forall n : N, parse_dec false (fmt_dec (Z.of_N n)) = Some (Z.of_N n).
Proof. exact parse_fmt_unsigned. Qed.
Print Assumptions c06_decimal_parse_fmt_unsigned.

(* digits and '-' only: no tab, newline, comma, colon, '+' *)
Theorem c06_decimal_chars : forall z : Z, Forall (fun c => is_digit c = true \/ c = 45) (fmt_dec z).
Proof. exact fmt_dec_chars. Qed.
Print Assumptions c06_decimal_chars.

(* ---- columns *)
Theorem c06_cigar_roundtrip : forall ops, Forall wf_op ops ->
  parse_cigar (write_cigar ops) = Some ops /\ PR (write_cigar ops).
Proof. exact cigar_rt. Qed.
Print Assumptions c06_cigar_roundtrip.

(* Phred+33; the single score 9 is the text "*" and reads back as "missing" (norm_qual_f) *)
Theorem c06_qual_roundtrip : forall bc q f, write_qual bc q = Some f ->
  parse_qual bc f = Some (norm_qual_f q) /\ PR f.
Proof. exact qual_rt. Qed.
Print Assumptions c06_qual_roundtrip.

(* RNEXT: '=' collapsing and its expansion *)
Theorem c06_rnext_roundtrip : forall refs rid mrid nm mnm,
  NoDup refs -> Forall refname_ok refs ->
  ref_name refs rid = Some nm -> ref_name refs mrid = Some mnm ->
  parse_rnext refs rid (write_rnext nm mnm) = Some mrid /\ PR (write_rnext nm mnm).
Proof. exact rnext_rt. Qed.
Print Assumptions c06_rnext_roundtrip.

(* TAG:TYPE:VALUE for A, i (all six storage widths), f, Z, H, B (all seven subtypes); the
   float oracle hypotheses are premises *)
Theorem c06_aux_roundtrip :
  forall (fmt32 fmtd32 : N -> bytes) (parse32 : bytes -> option N) (parse32p : bytes -> option (N * bytes)),
    (forall b, finite32 b = true -> parse32 (fmt32 b) = Some b) ->
    (forall b, PR (fmt32 b)) ->
    (forall b rest, finite32 b = true -> (rest = [] \/ exists r, rest = 44 :: r) ->
                    parse32p (fmtd32 b ++ rest) = Some (b, rest)) ->
    (forall b, PR (fmtd32 b)) ->
    forall t a f, wf_aux a -> write_field fmt32 fmtd32 (t, a) = Some f ->
      parse_field parse32 parse32p f = Some (t, norm_aux a) /\ PR f /\ (5 <= length f)%nat.
Proof. exact field_rt. Qed.
Print Assumptions c06_aux_roundtrip.

(* ---- the record *)
(* The statement the property makes for one alignment line (integer tags by value): *)
Definition c06_record_roundtrip_full_statement : Prop :=
  forall (fmt32 fmtd32 : N -> bytes) (parse32 : bytes -> option N) (parse32p : bytes -> option (N * bytes)),
    (forall b, finite32 b = true -> parse32 (fmt32 b) = Some b) ->
    (forall b, PR (fmt32 b)) ->
    (forall b rest, finite32 b = true -> (rest = [] \/ exists r, rest = 44 :: r) ->
                    parse32p (fmtd32 b ++ rest) = Some (b, rest)) ->
    (forall b, PR (fmtd32 b)) ->
    forall refs r t, wf_refs refs -> wf_rec r ->
      write_record fmt32 fmtd32 refs r = Some t ->
      parse_line parse32 parse32p refs t = POk (norm_i r).

(* It is false for the faithful model (and for noodles): known class = a single quality score 9. *)
(* the refutation stated without having to exhibit a float oracle: for EVERY oracle the written
   text of this valid record parses to a different record *)
Theorem c06_record_roundtrip_refuted :
  forall (fmt32 fmtd32 : N -> bytes) (parse32 : bytes -> option N) (parse32p : bytes -> option (N * bytes)),
  exists r t r', wf_rec r /\ wf_refs [] /\
    write_record fmt32 fmtd32 [] r = Some t /\
    parse_line parse32 parse32p [] t = POk r' /\ r' <> norm_i r.
Proof.
  intros. exists (mkRec None 4 None 0 255 [] None 0 0%Z [65] [9] []).
  exists [42;9;52;9;42;9;48;9;50;53;53;9;42;9;42;9;48;9;48;9;65;9;42;10].
  exists (mkRec None 4 None 0 255 [] None 0 0%Z [65] [] []).
  split; [|split; [|split; [|split]]].
  - unfold wf_rec. cbn. repeat split; try constructor; try discriminate; reflexivity.
  - split; constructor.
  - vm_compute. reflexivity.
  - vm_compute. reflexivity.
  - cbn. discriminate.
Qed.
Print Assumptions c06_record_roundtrip_refuted.

(* positive theorem, known class excluded *)
Theorem c06_record_roundtrip_partial :
  forall (fmt32 fmtd32 : N -> bytes) (parse32 : bytes -> option N) (parse32p : bytes -> option (N * bytes)),
    (forall b, finite32 b = true -> parse32 (fmt32 b) = Some b) ->
    (forall b, PR (fmt32 b)) ->
    (forall b rest, finite32 b = true -> (rest = [] \/ exists r, rest = 44 :: r) ->
                    parse32p (fmtd32 b ++ rest) = Some (b, rest)) ->
    (forall b, PR (fmtd32 b)) ->
    forall refs r t, wf_refs refs -> wf_rec r ->
      r_qual r <> [9] ->
      write_record fmt32 fmtd32 refs r = Some t ->
      parse_line parse32 parse32p refs t = POk (norm_i r).
Proof.
  intros f fd p pp H1 H2 H3 H4 refs r t WR W NQ HW.
  rewrite (record_roundtrip f fd p pp H1 H2 H3 H4 refs r t WR W HW).
  f_equal. apply norm_rec_id. now apply norm_qual_not9.
Qed.
Print Assumptions c06_record_roundtrip_partial.

(* what the text path does on EVERY accepted record (no exclusion): norm_rec = norm_i + the
   single-score-9 -> missing collapse *)
Theorem c06_record_roundtrip_faithful :
  forall (fmt32 fmtd32 : N -> bytes) (parse32 : bytes -> option N) (parse32p : bytes -> option (N * bytes)),
    (forall b, finite32 b = true -> parse32 (fmt32 b) = Some b) ->
    (forall b, PR (fmt32 b)) ->
    (forall b rest, finite32 b = true -> (rest = [] \/ exists r, rest = 44 :: r) ->
                    parse32p (fmtd32 b ++ rest) = Some (b, rest)) ->
    (forall b, PR (fmtd32 b)) ->
    forall refs r t, wf_refs refs -> wf_rec r ->
      write_record fmt32 fmtd32 refs r = Some t ->
      parse_line parse32 parse32p refs t = POk (norm_rec r).
Proof. exact record_roundtrip. Qed.
Print Assumptions c06_record_roundtrip_faithful.

(* fixed point, for every accepted record (the known class included) *)
Theorem c06_fixed_point :
  forall (fmt32 fmtd32 : N -> bytes) (parse32 : bytes -> option N) (parse32p : bytes -> option (N * bytes)),
    (forall b, finite32 b = true -> parse32 (fmt32 b) = Some b) ->
    (forall b, PR (fmt32 b)) ->
    (forall b rest, finite32 b = true -> (rest = [] \/ exists r, rest = 44 :: r) ->
                    parse32p (fmtd32 b ++ rest) = Some (b, rest)) ->
    (forall b, PR (fmtd32 b)) ->
    forall refs r t r', wf_refs refs -> wf_rec r ->
      write_record fmt32 fmtd32 refs r = Some t ->
      parse_line parse32 parse32p refs t = POk r' ->
      write_record fmt32 fmtd32 refs r' = Some t.
Proof. exact fixed_point. Qed.
Print Assumptions c06_fixed_point.

(* ---- headers *)
(* wf_header = what the Rust types guarantee and the writer does not check: tags of the "other"
   maps are unique and are not the kind's standard tags (IndexMap<Other<S>, _>), @SQ names /
   @RG ids / @PG ids are unique (IndexMap keys), LN >= 1 (NonZero), version components fit u32,
   and comments contain no LF and do not end in CR (the writer emits @CO text unvalidated).
   Everything else (tag and value alphabets, reference-name grammar, LN <= 2^31-1) is checked by
   write_header itself. *)
Theorem c06_header_roundtrip_partial :
  forall h t, wf_header h -> write_header h = Some t -> read_header t = Some h.
Proof. exact header_roundtrip. Qed.
Print Assumptions c06_header_roundtrip_partial.

Theorem c06_header_fixed_point :
  forall h t h', wf_header h -> write_header h = Some t -> read_header t = Some h' ->
    write_header h' = Some t.
Proof. exact header_fixed_point. Qed.
Print Assumptions c06_header_fixed_point.

(* Every header the reader accepts satisfies wf_header -- the only part that parsing does not
   guarantee is "a comment does not end in CR" (a line "@CO\tx\r\r\n" gives the comment "x\r") --
   so the round trip applies to PARSED headers: for every accepted text, write-then-parse gives the
   same header back and the written text is a fixed point. *)
Theorem c06_header_parsed_wf : forall t h, read_header t = Some h -> co_no_cr h -> wf_header h.
Proof. exact read_header_wf. Qed.
Print Assumptions c06_header_parsed_wf.

Theorem c06_header_parse_write_parse : forall t h t',
  read_header t = Some h -> co_no_cr h -> write_header h = Some t' -> read_header t' = Some h.
Proof. exact header_parse_write_parse. Qed.
Print Assumptions c06_header_parse_write_parse.

Theorem c06_header_parse_write_fixed : forall t h t' h',
  read_header t = Some h -> co_no_cr h -> write_header h = Some t' ->
  read_header t' = Some h' -> write_header h' = Some t'.
Proof. exact header_parse_write_fixed. Qed.
Print Assumptions c06_header_parse_write_fixed.

(* Since /repo 9bfd7d2 the header writer refuses a comment that contains LF or ends in CR, so the
   comment part of wf_header follows from write_header succeeding: the parse -> write -> parse
   theorems hold with NO premise besides the writer accepting the parsed header. *)
Theorem c06_header_written_co_ok : forall h t, write_header h = Some t -> Forall co_ok (h_co h).
Proof. exact write_header_co_ok. Qed.
Print Assumptions c06_header_written_co_ok.

Theorem c06_header_parse_write_parse_w : forall t h t',
  read_header t = Some h -> write_header h = Some t' -> read_header t' = Some h.
Proof. exact header_parse_write_parse_w. Qed.
Print Assumptions c06_header_parse_write_parse_w.

Theorem c06_header_parse_write_fixed_w : forall t h t' h',
  read_header t = Some h -> write_header h = Some t' ->
  read_header t' = Some h' -> write_header h' = Some t'.
Proof. exact header_parse_write_fixed_w. Qed.
Print Assumptions c06_header_parse_write_fixed_w.

(* formerly c06_header_comment_cr_refuted (comment "x\r" accepted, written, read back as "x"):
   a header with a comment that is not one line is now REJECTED by the writer *)
Theorem c06_header_comment_cr_rejected : forall h, ~ Forall co_ok (h_co h) -> write_header h = None.
Proof. exact header_comment_rejected. Qed.
Print Assumptions c06_header_comment_cr_rejected.

Example c06_header_comment_cr_witness : exists t h,
  read_header t = Some h /\ h_co h = [[120; 13]] /\ write_header h = None.
Proof. exact header_comment_cr_rejected. Qed.

Definition c06_example_header : header :=
  mkHeader (Some (mkHd 1 6 [((83,79), [117;110;107])]))
           [mkSq [99;104;114;49] 2147483647 [((77,53), [97;98])]; mkSq [50] 1 []]
           [mkId [114;103;32;49] [((83,77), [115])]] [mkId [112] []; mkId [113] [((80,80), [112])]]
           [[104;105;9;120]; []].

Example c06_header_example :
  wf_header c06_example_header /\
  exists t, write_header c06_example_header = Some t /\ read_header t = Some c06_example_header.
Proof.
  split.
  - unfold wf_header, c06_example_header. cbn [h_hd h_sq h_rg h_pg h_co].
    split; [|split; [|split; [|split; [|split; [|split; [|split]]]]]].
    + unfold wf_hd, others_ok. cbn [hd_major hd_minor hd_other map fst].
      split; [unfold U32_MAX; lia|]. split; [unfold U32_MAX; lia|]. split; [apply nodup1|repeat constructor].
    + unfold wf_sq, others_ok. repeat constructor; cbn; try lia; try apply nodup1; try (intros []).
    + cbn. constructor; [intros [H|[]]; discriminate H|apply nodup1].
    + unfold wf_id, others_ok. repeat constructor; cbn; try apply nodup1; try (intros []).
    + cbn. apply nodup1.
    + unfold wf_id, others_ok. repeat constructor; cbn; try apply nodup1; try (intros []).
    + cbn. constructor; [intros [H|[]]; discriminate H|apply nodup1].
    + unfold co_ok. repeat constructor; cbn; try lia; try discriminate.
  - eexists. split; [vm_compute; reflexivity|vm_compute; reflexivity].
Qed.

(* ---- SAM vs BAM, records without optional fields (scope of C05's codec theorem) *)
Theorem c06_sam_bam_agree_partial :
  forall (fmt32 fmtd32 : N -> bytes) (parse32 : bytes -> option N) (parse32p : bytes -> option (N * bytes)),
    (forall b, finite32 b = true -> parse32 (fmt32 b) = Some b) ->
    (forall b, PR (fmt32 b)) ->
    (forall b rest, finite32 b = true -> (rest = [] \/ exists r, rest = 44 :: r) ->
                    parse32p (fmtd32 b ++ rest) = Some (b, rest)) ->
    (forall b, PR (fmtd32 b)) ->
    forall refs nref r t block,
      wf_refs refs -> wf_rec r -> r_data r = [] -> r_qual r <> [9] ->
      Bam.Record.lenN (r_cigar r) <= 65535 ->
      write_record fmt32 fmtd32 refs r = Some t ->
      Bam.Encode.encode nref (to_bam r) = Bam.Record.Ok block ->
      exists rs, parse_line parse32 parse32p refs t = POk rs
                 /\ Bam.Decode.decode block = Bam.Record.Ok (Bam.CodecProofs.norm (to_bam rs)).
Proof. exact sam_bam_agree. Qed.
Print Assumptions c06_sam_bam_agree_partial.

(* ---- the BAM header block: "BAM\1", l_text, the SAM header text, n_ref, the binary reference
   dictionary.  What bam::io::Writer::write_header emits, followed by any bytes (the records), is
   read by bam::io::Reader::read_header as the same header, leaving exactly those bytes: the text
   goes through the BAM reader's own line handling (NUL padding at a line start ends it, every
   line is parsed), the binary dictionary is read into an insertion-ordered map and compared with
   the @SQ lines pairwise by name and length. *)
Theorem c06_bam_header_roundtrip : forall h bs rest,
  wf_header h -> write_bam_header h = Some bs -> read_bam_header (bs ++ rest) = Ok (h, rest).
Proof. exact bam_header_roundtrip. Qed.
Print Assumptions c06_bam_header_roundtrip.

(* SAM header vs BAM header of the same value: both read back equal *)
Theorem c06_header_sam_bam_agree : forall h t bs rest,
  wf_header h -> write_header h = Some t -> write_bam_header h = Some bs ->
  read_header t = Some h /\ read_bam_header (bs ++ rest) = Ok (h, rest).
Proof.
  intros h t bs rest W HT HB. split; [exact (header_roundtrip h t W HT)|exact (bam_header_roundtrip h bs rest W HB)].
Qed.
Print Assumptions c06_header_sam_bam_agree.

(* the reference loop of read_bam_header cannot run out of the fuel it is given *)
Theorem c06_bam_refs_fuel : forall fuel cnt bs acc, (length bs < fuel)%nat ->
  forall fuel', (length bs < fuel')%nat -> read_bam_refs fuel cnt bs acc = read_bam_refs fuel' cnt bs acc.
Proof. exact read_refs_fuel. Qed.
Print Assumptions c06_bam_refs_fuel.

Example c06_bam_header_example :
  exists bs, write_bam_header c06_example_header = Some bs /\
             read_bam_header (bs ++ [1; 2; 3]) = Ok (c06_example_header, [1; 2; 3]) /\
             (* a text without @SQ lines takes the binary dictionary over; NUL padding is skipped *)
             read_bam_header [66;65;77;1; 6;0;0;0; 64;67;79;9;10;0; 1;0;0;0; 2;0;0;0; 97;0; 7;0;0;0]
             = Ok (mkHeader None [mkSq [97] 7 []] [] [] [[]], []).
Proof. eexists. split; [vm_compute; reflexivity|]. split; vm_compute; reflexivity. Qed.

(* ---- SAM vs BAM for EVERY record (any optional fields, any number of CIGAR operations): the
   record written as SAM text and parsed back (rs) and the same record written as a BAM block and
   decoded (rb) are equal up to what the property allows: integer tags by value (by_value: the SAM
   reader's smallest type, applied to the BAM side), the BAM base alphabet and the dropped user
   CG field (Bam.CodecProofs.norm, applied to the SAM side).  wf_bits: an `A` value is a byte, a
   float 32 bits (Rust types).  The single-score-9 class stays excluded (c06_record_roundtrip_refuted). *)
Theorem c06_sam_bam_agree :
  forall (fmt32 fmtd32 : N -> bytes) (parse32 : bytes -> option N) (parse32p : bytes -> option (N * bytes)),
    (forall b, finite32 b = true -> parse32 (fmt32 b) = Some b) ->
    (forall b, PR (fmt32 b)) ->
    (forall b rest, finite32 b = true -> (rest = [] \/ exists r, rest = 44 :: r) ->
                    parse32p (fmtd32 b ++ rest) = Some (b, rest)) ->
    (forall b, PR (fmtd32 b)) ->
    forall refs nref r t block,
      wf_refs refs -> wf_rec r -> wf_bits r -> r_qual r <> [9] ->
      write_record fmt32 fmtd32 refs r = Some t ->
      Bam.Encode.encode nref (to_bam_d r) = Bam.Record.Ok block ->
      exists rs rb, parse_line parse32 parse32p refs t = POk rs
                    /\ Bam.Decode.decode block = Bam.Record.Ok rb
                    /\ Bam.CodecProofs.norm (to_bam_d rs) = by_value rb.
Proof. exact sam_bam_agree_data. Qed.
Print Assumptions c06_sam_bam_agree.

(* ---- the complete property as one statement, kept visible.  Its three conjuncts are now proved
   separately for the concrete models (c06_header_roundtrip_partial, c06_record_roundtrip_partial,
   c06_bam_header_roundtrip + c06_sam_bam_agree per record) and, since round 4, composed at file
   level as ONE theorem (c06_file_sam_bam_agree at the end of this file, with the premises under
   which it is true).  The unconditional statement below stays a Definition: it is false of the
   faithful models in exactly the two refuted classes (comment ending in CR, single score 9). *)
Section FullStatement.
  Variable header : Type.
  Variable write_header : header -> option bytes.
  Variable parse_header : bytes -> option header.
  Variable refs_of : header -> list bytes.
  Variable bam_roundtrip : header -> list sam_rec -> option (header * list sam_rec).
  Variable canon_bam : sam_rec -> sam_rec.   (* case folding, non-IUPAC -> N, integers by value *)
  Variable fmt32 fmtd32 : N -> bytes.
  Variable parse32 : bytes -> option N.
  Variable parse32p : bytes -> option (N * bytes).

  Definition c06_full_statement : Prop :=
    (forall h t, write_header h = Some t -> parse_header t = Some h)
    /\ (forall h r t, wf_refs (refs_of h) -> wf_rec r ->
          write_record fmt32 fmtd32 (refs_of h) r = Some t ->
          parse_line parse32 parse32p (refs_of h) t = POk (norm_i r))
    /\ (forall h rs h' rs', Forall wf_rec rs -> bam_roundtrip h rs = Some (h', rs') ->
          h' = h /\ map canon_bam rs' = map canon_bam (map norm_i rs)).
End FullStatement.

(* ---- the lazy sam::Record = the eager RecordBuf.  NV.Sam.Lazy.lazy_view = sam::io::Reader::
   read_record (the field splitter filling one buffer and eleven end offsets, with its CR
   handling as repaired in /repo 3506cd5) followed by every accessor of the eleven mandatory columns in order, each with its
   error and its slice panic.  For EVERY line the eager parser accepts (POk r): no accessor errs
   or panics, the eleven columns are r's, and Record::data() is exactly the tab-joined text of
   the optional fields from which the eager parser produced r's data.  The one premise, canon_pos:
   POS / PNEXT text denoting 0 must be the single character "0" -- the lazy accessor compares the
   text with "0" and otherwise rejects a parsed 0 (Position::try_from), the eager parser takes
   "00" or "+0" as missing (c06_lazy_pos_noncanonical_refuted).  noodles' own writer only emits
   "0".  The typed lazy parsers of the optional fields (record/data/field/*.rs) are modelled in
   NV.Sam.LazyData; their theorems (c06_lazy_convert_eq_eager, c06_lazy_data_eq_eager) follow below. *)
Theorem c06_lazy_eq_eager : forall parse32 parse32p refs text r,
  parse_line parse32 parse32p refs text = POk r ->
  let fs := split_tab (line_of text) in
  canon_pos (fld fs 3) -> canon_pos (fld fs 7) ->
  lazy_view refs text = LOk (strip_data r) (join_tab (skipn 11 fs))
  /\ parse_data_top parse32 parse32p (skipn 11 fs) = Some (r_data r).
Proof. exact lazy_eq_eager. Qed.
Print Assumptions c06_lazy_eq_eager.

Theorem c06_lazy_pos_noncanonical_refuted : exists refs text r,
  parse_line (fun _ => None) (fun _ => None) refs text = POk r /\ lazy_view refs text = LErr 3.
Proof. exact lazy_pos_noncanonical_refuted. Qed.
Print Assumptions c06_lazy_pos_noncanonical_refuted.

(* written records: the line noodles writes for ANY valid record is read lazily as that record
   (eleven columns; integer tags / the single score 9 as in c06_record_roundtrip_faithful), no
   premise on the text: the writer renders positions with fmt_N, whose only text for 0 is "0" *)
Theorem c06_lazy_written :
  forall (fmt32 fmtd32 : N -> bytes) (parse32 : bytes -> option N) (parse32p : bytes -> option (N * bytes)),
    (forall b, finite32 b = true -> parse32 (fmt32 b) = Some b) ->
    (forall b, PR (fmt32 b)) ->
    (forall b rest, finite32 b = true -> (rest = [] \/ exists r, rest = 44 :: r) ->
                    parse32p (fmtd32 b ++ rest) = Some (b, rest)) ->
    (forall b, PR (fmtd32 b)) ->
    forall refs r t, wf_refs refs -> wf_rec r ->
      write_record fmt32 fmtd32 refs r = Some t ->
      lazy_view refs t = LOk (strip_data (norm_rec r)) (join_tab (skipn 11 (split_tab (line_of t))))
      /\ parse_data_top parse32 parse32p (skipn 11 (split_tab (line_of t))) = Some (r_data (norm_rec r)).
Proof. exact lazy_written. Qed.
Print Assumptions c06_lazy_written.

Example c06_lazy_example :
  lazy_view [[99;104;114;49]]
    [114;9;48;9;99;104;114;49;9;53;9;55;9;51;77;9;61;9;57;9;45;55;9;65;67;71;9;33;126;43;9;78;77;58;105;58;49;13;10]
  = LOk (mkRec (Some [114]) 0 (Some 0) 5 7 [(0, 3)] (Some 0) 9 (-7)%Z [65;67;71] [0;93;10] [])
        [78;77;58;105;58;49]
  /\ (* a CR at the end of SEQ followed by an empty QUAL stays in SEQ (before /repo 3506cd5 it was
        popped after the end offset of SEQ was recorded and sequence() panicked) *)
  lazy_view [] [42;9;52;9;42;9;48;9;50;53;53;9;42;9;42;9;48;9;48;9;65;13;9;10]
  = LOk (mkRec None 4 None 0 255 [] None 0 0%Z [65; 13] [] []) [].
Proof. split; vm_compute; reflexivity. Qed.

(* ---- non-vacuity: a mapped read with '=' mate, all premises hold, and the writer accepts it *)
Example c06_example :
  let refs := [[99;104;114;49]; [99;104;114;50]] in
  let r := mkRec (Some [114;49]) 99 (Some 1) 2147483647 60 [(4,2);(0,3)] (Some 1) 100 (-150)%Z
                 [65;67;71;84;78] [0;93;9;40;1] [((78,77), AInt I32 5%Z); ((88,66), AArrI I8 [(-128)%Z; 127%Z])] in
  wf_refs refs /\ wf_rec r /\
  write_record (fun _ => []) (fun _ => []) refs r
  = Some [114;49;9;57;57;9;99;104;114;50;9;50;49;52;55;52;56;51;54;52;55;9;54;48;9;50;83;51;77;9;61;9;49;48;48;9;
          45;49;53;48;9;65;67;71;84;78;9;33;126;42;73;34;9;78;77;58;105;58;53;9;88;66;58;66;58;99;44;45;49;50;56;44;49;50;55;10].
Proof.
  cbn zeta. split; [|split].
  - split.
    + repeat constructor; cbn; intuition discriminate.
    + repeat constructor; cbn; try discriminate; try reflexivity.
  - unfold wf_rec. cbn. repeat split; try (repeat constructor; cbn; try lia; intuition discriminate); try discriminate.
  - vm_compute. reflexivity.
Qed.

(* ---- the optional fields of the lazy record (NV.Sam.LazyData: Data::iter, parse_field, the
   per-type lazy value parsers incl. the i32-then-u32 integer parser, Z / H slices, arrays kept as
   text and parsed element by element, the value conversion and the data loop of
   RecordBuf::try_from_alignment_record).  Float text stays an oracle; the two premises relate
   lexical's parse and parse_partial (validated on the implementation by the lzc cases):
   (H_a) a complete float followed by the end or a TAB is read by parse_partial with that rest;
   (H_b) what parse_partial consumed has no comma and is a complete float of the same value;
   (H_e) the empty text is not a float.
   For EVERY line the eager parser accepts -- POS/PNEXT zero written "0" as before, and every
   element of an integer array has a digit (arr_canon; `B:c,,1` is refuted below) --
   try_from_alignment_record of the lazy record is the eager record, the optional fields in the
   same order with equal values, integer tags by value (the lazy parser yields Int32/UInt32, the
   eager one the smallest type: normf). *)
Theorem c06_lazy_convert_eq_eager :
  forall (parse32 : bytes -> option N) (parse32p : bytes -> option (N * bytes)),
    (forall f b rest, parse32 f = Some b -> NoTab f -> tail_ok rest -> parse32p (f ++ rest) = Some (b, rest)) ->
    (forall s v rest, parse32p s = Some (v, rest) -> exists f, s = f ++ rest /\ parse32 f = Some v /\ NoComma f) ->
    parse32 [] = None ->
    forall refs text r,
      parse_line parse32 parse32p refs text = POk r ->
      let fs := split_tab (line_of text) in
      canon_pos (fld fs 3) -> canon_pos (fld fs 7) -> forallb arr_canon (skipn 11 fs) = true ->
      exists d', lazy_convert parse32 parse32p refs text = COk (set_data (strip_data r) d')
                 /\ map normf d' = r_data r.
Proof. exact lazy_convert_eq_eager. Qed.
Print Assumptions c06_lazy_convert_eq_eager.

(* the iterator itself: data().iter() of the lazy record yields a list of fields without error,
   and converting them one by one (conv_list = TryFrom<Value> + Data::insert) gives the eager data *)
Theorem c06_lazy_data_eq_eager :
  forall (parse32 : bytes -> option N) (parse32p : bytes -> option (N * bytes)),
    (forall f b rest, parse32 f = Some b -> NoTab f -> tail_ok rest -> parse32p (f ++ rest) = Some (b, rest)) ->
    (forall s v rest, parse32p s = Some (v, rest) -> exists f, s = f ++ rest /\ parse32 f = Some v /\ NoComma f) ->
    parse32 [] = None ->
    forall refs text r,
      parse_line parse32 parse32p refs text = POk r ->
      let fs := split_tab (line_of text) in
      canon_pos (fld fs 3) -> canon_pos (fld fs 7) -> forallb arr_canon (skipn 11 fs) = true ->
      exists data l d', lazy_view refs text = LOk (strip_data r) data
                        /\ lazy_data parse32p data = DOk l
                        /\ conv_list parse32 l [] = Some d' /\ map normf d' = r_data r.
Proof. exact lazy_data_eq_eager. Qed.
Print Assumptions c06_lazy_data_eq_eager.

Theorem c06_lazy_array_digitless_refuted : exists refs text r,
  parse_line (fun _ => None) (fun _ => None) refs text = POk r
  /\ r_data r = [((88, 66), AArrI I8 [0%Z; 1%Z])]
  /\ lazy_convert (fun _ => None) (fun _ => None) refs text = CErr 11.
Proof. exact lazy_array_digitless_refuted. Qed.
Print Assumptions c06_lazy_array_digitless_refuted.

(* totality on ANY bytes (the statement C15 asks for as sam_lazy_data_never_panics): the model of
   the optional-field parsers has no panic outcome -- the only partial operation of the code is
   `&src[i..]` with the index lexical's parse_partial returns -- and the iteration and the
   conversion loop always END: every successfully parsed field consumes at least one byte, so the
   out-of-fuel result is unreachable; the outcome is a list or UnexpectedEof / InvalidData *)
Theorem c06_lazy_data_total :
  forall (parse32 : bytes -> option N) (parse32p : bytes -> option (N * bytes)),
    (forall s v rest, parse32p s = Some (v, rest) -> (length rest <= length s)%nat) ->
    forall data, lazy_data parse32p data <> DErr DFuel
                 /\ lazy_data_conv parse32 parse32p data <> DErr DFuel.
Proof.
  intros p pp H data. split; [exact (lazy_data_total p pp H data)|exact (lazy_data_conv_total p pp H data)].
Qed.
Print Assumptions c06_lazy_data_total.

Example c06_lazy_data_example :
  lazy_data (fun _ => None) [78;77;58;105;58;49;9;88;65;58;66;58;67;44;49;44;50;9;88;66;58;90;58;97;32;98]
  = DOk [((78,77), LI32 1%Z); ((88,65), LArrI U8 [49;44;50]); ((88,66), LStr [97;32;98])]
  /\ lazy_convert (fun _ => None) (fun _ => None) []
       [42;9;52;9;42;9;48;9;50;53;53;9;42;9;42;9;48;9;48;9;42;9;42;9;
        78;77;58;105;58;52;50;57;52;57;54;55;50;57;53;9;88;65;58;66;58;67;44;49;44;50;10]
     = COk (mkRec None 4 None 0 255 [] None 0 0%Z [] []
                  [((78,77), AInt U32 4294967295%Z); ((88,65), AArrI U8 [1%Z; 2%Z])]).
Proof. split; vm_compute; reflexivity. Qed.

(* ---- whole files (NV.Sam.File: sam::io::Writer = header text then one line per record;
   sam::io::Reader = read_header through the header adapter, which consumes exactly the leading
   '@' lines, then read_record_buf until it returns 0).  What the writer emits for a header and ANY
   number of records is read back as the same header and the same records (as the text path
   returns them: norm_rec), and then the end of input -- no record is lost, split or invented at
   the header/record boundary (a QNAME cannot start with '@') or between lines. *)
Theorem c06_file_roundtrip :
  forall (fmt32 fmtd32 : N -> bytes) (parse32 : bytes -> option N) (parse32p : bytes -> option (N * bytes)),
    (forall b, finite32 b = true -> parse32 (fmt32 b) = Some b) ->
    (forall b, PR (fmt32 b)) ->
    (forall b rest, finite32 b = true -> (rest = [] \/ exists r, rest = 44 :: r) ->
                    parse32p (fmtd32 b ++ rest) = Some (b, rest)) ->
    (forall b, PR (fmtd32 b)) ->
    forall h rs t,
      wf_header h -> wf_refs (refs_of h) -> Forall wf_rec rs ->
      Sam.File.write_file fmt32 fmtd32 h rs = Some t ->
      Sam.File.read_file parse32 parse32p t = Some (h, (map norm_rec rs, FEof)).
Proof. exact file_roundtrip. Qed.
Print Assumptions c06_file_roundtrip.

(* ---- the property as ONE statement about whole files: the same header and record list written
   as a SAM file and as a BAM file (C05's NV.Bam.File: header block + framed records read in a
   loop) read back with equal headers and record lists that agree record by record up to integer
   tags by value, the BAM base alphabet and a dropped user CG field.  This is c06_full_statement
   restricted to the premises under which it is true of the faithful models (wf_header incl.
   "a comment does not end in CR", no single quality score 9: both refuted above). *)
Theorem c06_file_sam_bam_agree :
  forall (fmt32 fmtd32 : N -> bytes) (parse32 : bytes -> option N) (parse32p : bytes -> option (N * bytes)),
    (forall b, finite32 b = true -> parse32 (fmt32 b) = Some b) ->
    (forall b, PR (fmt32 b)) ->
    (forall b rest, finite32 b = true -> (rest = [] \/ exists r, rest = 44 :: r) ->
                    parse32p (fmtd32 b ++ rest) = Some (b, rest)) ->
    (forall b, PR (fmtd32 b)) ->
    forall h rs t bs,
      wf_header h -> wf_refs (refs_of h) ->
      Forall wf_rec rs -> Forall wf_bits rs -> Forall (fun r => r_qual r <> [9]) rs ->
      Sam.File.write_file fmt32 fmtd32 h rs = Some t ->
      Bam.File.write_file h (map to_bam_d rs) = Bam.Record.Ok bs ->
      exists rs_s rs_b,
        Sam.File.read_file parse32 parse32p t = Some (h, (rs_s, FEof)) /\
        Bam.File.read_file bs = Bam.Record.Ok (h, (rs_b, Bam.File.EndEof)) /\
        map (fun r => Bam.CodecProofs.norm (to_bam_d r)) rs_s = map by_value rs_b.
Proof. exact file_sam_bam_agree. Qed.
Print Assumptions c06_file_sam_bam_agree.

Definition c06_file_example_h : header := mkHeader None [mkSq [99;104;114;49] 9 []] [] [] [].
Definition c06_file_example_r : sam_rec :=
  mkRec (Some [114]) 0 (Some 0) 1 0 [(0, 1)] None 0 0%Z [65] [0] [((78,77), AInt I32 1%Z)].
Example c06_file_example :
  match Sam.File.write_file (fun _ => []) (fun _ => []) c06_file_example_h [c06_file_example_r; c06_file_example_r] with
  | Some t => Sam.File.read_file (fun _ => None) (fun _ => None) t
  | None => None
  end = Some (c06_file_example_h, ([norm_rec c06_file_example_r; norm_rec c06_file_example_r], FEof)).
Proof. vm_compute. reflexivity. Qed.

(* ==== ROUND 8: what noodles' own writers guarantee, so the theorems about accepted text apply to
   written text with no premise on the text.
   (a) every optional field the record writer emits satisfies the digit premise arr_canon (array
   elements are fmt_dec text: always a digit, never a comma), so for ANY valid record the lazy
   sam::Record read from the written line, converted by RecordBuf::try_from_alignment_record, is
   the record that was written (norm_rec: integer tags by value, the single score 9). *)
Theorem c06_lazy_convert_written :
  forall (fmt32 fmtd32 : N -> bytes) (parse32 : bytes -> option N) (parse32p : bytes -> option (N * bytes)),
    (forall b, finite32 b = true -> parse32 (fmt32 b) = Some b) ->
    (forall b, PR (fmt32 b)) ->
    (forall b rest, finite32 b = true -> (rest = [] \/ exists r, rest = 44 :: r) ->
                    parse32p (fmtd32 b ++ rest) = Some (b, rest)) ->
    (forall b, PR (fmtd32 b)) ->
    (forall f b rest, parse32 f = Some b -> NoTab f -> tail_ok rest -> parse32p (f ++ rest) = Some (b, rest)) ->
    (forall s v rest, parse32p s = Some (v, rest) -> exists f, s = f ++ rest /\ parse32 f = Some v /\ NoComma f) ->
    parse32 [] = None ->
    forall refs r t, wf_refs refs -> wf_rec r ->
      write_record fmt32 fmtd32 refs r = Some t ->
      exists d', lazy_convert parse32 parse32p refs t = COk (set_data (strip_data (norm_rec r)) d')
                 /\ map normf d' = r_data (norm_rec r).
Proof. exact lazy_convert_written. Qed.
Print Assumptions c06_lazy_convert_written.

(* the premise itself, for every written line *)
Theorem c06_written_arr_canon :
  forall (fmt32 fmtd32 : N -> bytes) (parse32 : bytes -> option N) (parse32p : bytes -> option (N * bytes)),
    (forall b, finite32 b = true -> parse32 (fmt32 b) = Some b) ->
    (forall b, PR (fmt32 b)) ->
    (forall b rest, finite32 b = true -> (rest = [] \/ exists r, rest = 44 :: r) ->
                    parse32p (fmtd32 b ++ rest) = Some (b, rest)) ->
    (forall b, PR (fmtd32 b)) ->
    forall refs r t, wf_refs refs -> wf_rec r ->
      write_record fmt32 fmtd32 refs r = Some t ->
      forallb arr_canon (skipn 11 (split_tab (line_of t))) = true.
Proof. exact written_arr_canon. Qed.
Print Assumptions c06_written_arr_canon.

(* (b) Data::get of the lazy record (NV.Sam.LazyGet.lazy_get: the loop over Data::iter): it is the
   first field with that tag of the list the iteration yields; an iteration error is returned
   unless a field with the tag comes first; it ends on any bytes.  On noodles' own line it never
   errs, and the list it searches, converted field by field, is the written data. *)
Theorem c06_lazy_get_iter : forall parse32p tag data l,
  lazy_data parse32p data = DOk l -> lazy_get parse32p tag data = get_of_list tag l.
Proof. exact lazy_get_iter. Qed.
Print Assumptions c06_lazy_get_iter.

Theorem c06_lazy_get_iter_err : forall parse32p tag data e,
  lazy_data parse32p data = DErr e ->
  lazy_get parse32p tag data = GErr e \/ exists v, lazy_get parse32p tag data = GOk v.
Proof. exact lazy_get_iter_err. Qed.
Print Assumptions c06_lazy_get_iter_err.

Theorem c06_lazy_get_total : forall (parse32p : bytes -> option (N * bytes)),
  (forall s v rest, parse32p s = Some (v, rest) -> (length rest <= length s)%nat) ->
  forall tag data, lazy_get parse32p tag data <> GErr DFuel.
Proof. exact lazy_get_total. Qed.
Print Assumptions c06_lazy_get_total.

Theorem c06_lazy_get_written :
  forall (fmt32 fmtd32 : N -> bytes) (parse32 : bytes -> option N) (parse32p : bytes -> option (N * bytes)),
    (forall b, finite32 b = true -> parse32 (fmt32 b) = Some b) ->
    (forall b, PR (fmt32 b)) ->
    (forall b rest, finite32 b = true -> (rest = [] \/ exists r, rest = 44 :: r) ->
                    parse32p (fmtd32 b ++ rest) = Some (b, rest)) ->
    (forall b, PR (fmtd32 b)) ->
    (forall f b rest, parse32 f = Some b -> NoTab f -> tail_ok rest -> parse32p (f ++ rest) = Some (b, rest)) ->
    (forall s v rest, parse32p s = Some (v, rest) -> exists f, s = f ++ rest /\ parse32 f = Some v /\ NoComma f) ->
    parse32 [] = None ->
    forall refs r t, wf_refs refs -> wf_rec r ->
      write_record fmt32 fmtd32 refs r = Some t ->
      exists data l d', lazy_view refs t = LOk (strip_data (norm_rec r)) data
                        /\ lazy_data parse32p data = DOk l
                        /\ conv_list parse32 l [] = Some d' /\ map normf d' = r_data (norm_rec r)
                        /\ forall tag, lazy_get parse32p tag data = get_of_list tag l.
Proof. exact lazy_get_written. Qed.
Print Assumptions c06_lazy_get_written.

Example c06_lazy_get_example :
  lazy_get (fun _ => None) (88, 65) [78;77;58;105;58;49;9;88;65;58;66;58;67;44;49;44;50;9;88;66;58;90;58;97;32;98]
  = GOk (LArrI U8 [49;44;50])
  /\ lazy_get (fun _ => None) (88, 67) [78;77;58;105;58;49;9;88;65;58;66;58;67;44;49;44;50] = GNone
  /\ (* an error after the field that is asked for is not seen; before it, it is the result *)
  lazy_get (fun _ => None) (78, 77) [78;77;58;105;58;49;9;88;65;58;105;58;120] = GOk (LI32 1%Z)
  /\ lazy_get (fun _ => None) (88, 66) [78;77;58;105;58;49;9;88;65;58;105;58;120;9;88;66;58;105;58;50] = GErr DInv.
Proof. repeat split; vm_compute; reflexivity. Qed.

(* (c) the reference dictionary of a header the header writer accepts satisfies wf_refs:
   is_valid_name (rname_valid) gives the name grammar, the IndexMap keys (wf_header) uniqueness;
   so the file theorems hold without the wf_refs premise. *)
Theorem c06_written_refs_wf : forall h t, wf_header h -> write_header h = Some t -> wf_refs (refs_of h).
Proof. exact wf_refs_written. Qed.
Print Assumptions c06_written_refs_wf.

Theorem c06_file_roundtrip_written :
  forall (fmt32 fmtd32 : N -> bytes) (parse32 : bytes -> option N) (parse32p : bytes -> option (N * bytes)),
    (forall b, finite32 b = true -> parse32 (fmt32 b) = Some b) ->
    (forall b, PR (fmt32 b)) ->
    (forall b rest, finite32 b = true -> (rest = [] \/ exists r, rest = 44 :: r) ->
                    parse32p (fmtd32 b ++ rest) = Some (b, rest)) ->
    (forall b, PR (fmtd32 b)) ->
    forall h rs t,
      wf_header h -> Forall wf_rec rs ->
      Sam.File.write_file fmt32 fmtd32 h rs = Some t ->
      Sam.File.read_file parse32 parse32p t = Some (h, (map norm_rec rs, FEof)).
Proof. exact file_roundtrip_written. Qed.
Print Assumptions c06_file_roundtrip_written.

Theorem c06_file_sam_bam_agree_written :
  forall (fmt32 fmtd32 : N -> bytes) (parse32 : bytes -> option N) (parse32p : bytes -> option (N * bytes)),
    (forall b, finite32 b = true -> parse32 (fmt32 b) = Some b) ->
    (forall b, PR (fmt32 b)) ->
    (forall b rest, finite32 b = true -> (rest = [] \/ exists r, rest = 44 :: r) ->
                    parse32p (fmtd32 b ++ rest) = Some (b, rest)) ->
    (forall b, PR (fmtd32 b)) ->
    forall h rs t bs,
      wf_header h ->
      Forall wf_rec rs -> Forall wf_bits rs -> Forall (fun r => r_qual r <> [9]) rs ->
      Sam.File.write_file fmt32 fmtd32 h rs = Some t ->
      Bam.File.write_file h (map to_bam_d rs) = Bam.Record.Ok bs ->
      exists rs_s rs_b,
        Sam.File.read_file parse32 parse32p t = Some (h, (rs_s, FEof)) /\
        Bam.File.read_file bs = Bam.Record.Ok (h, (rs_b, Bam.File.EndEof)) /\
        map (fun r => Bam.CodecProofs.norm (to_bam_d r)) rs_s = map by_value rs_b.
Proof. exact file_sam_bam_agree_written. Qed.
Print Assumptions c06_file_sam_bam_agree_written.

(* (d) write-then-read of a header as one observable (header_write_read, compared with the
   implementation by the hco cases): the identity under the TYPE-level part of wf_header only
   (wf_header_ty: IndexMap keys, NonZero, u32 -- the comment conjunct follows from the writer's
   check since /repo 9bfd7d2); the same for the header and file theorems. *)
Theorem c06_header_write_read : forall h t, wf_header_ty h -> write_header h = Some t ->
  header_write_read h = Some (t, Some h).
Proof. exact header_write_read_ty. Qed.
Print Assumptions c06_header_write_read.

Theorem c06_header_roundtrip : forall h t, wf_header_ty h -> write_header h = Some t -> read_header t = Some h.
Proof. exact header_roundtrip_ty. Qed.
Print Assumptions c06_header_roundtrip.

Theorem c06_file_roundtrip_ty :
  forall (fmt32 fmtd32 : N -> bytes) (parse32 : bytes -> option N) (parse32p : bytes -> option (N * bytes)),
    (forall b, finite32 b = true -> parse32 (fmt32 b) = Some b) ->
    (forall b, PR (fmt32 b)) ->
    (forall b rest, finite32 b = true -> (rest = [] \/ exists r, rest = 44 :: r) ->
                    parse32p (fmtd32 b ++ rest) = Some (b, rest)) ->
    (forall b, PR (fmtd32 b)) ->
    forall h rs t,
      wf_header_ty h -> Forall wf_rec rs ->
      Sam.File.write_file fmt32 fmtd32 h rs = Some t ->
      Sam.File.read_file parse32 parse32p t = Some (h, (map norm_rec rs, FEof)).
Proof. exact file_roundtrip_ty. Qed.
Print Assumptions c06_file_roundtrip_ty.

Theorem c06_file_sam_bam_agree_ty :
  forall (fmt32 fmtd32 : N -> bytes) (parse32 : bytes -> option N) (parse32p : bytes -> option (N * bytes)),
    (forall b, finite32 b = true -> parse32 (fmt32 b) = Some b) ->
    (forall b, PR (fmt32 b)) ->
    (forall b rest, finite32 b = true -> (rest = [] \/ exists r, rest = 44 :: r) ->
                    parse32p (fmtd32 b ++ rest) = Some (b, rest)) ->
    (forall b, PR (fmtd32 b)) ->
    forall h rs t bs,
      wf_header_ty h ->
      Forall wf_rec rs -> Forall wf_bits rs -> Forall (fun r => r_qual r <> [9]) rs ->
      Sam.File.write_file fmt32 fmtd32 h rs = Some t ->
      Bam.File.write_file h (map to_bam_d rs) = Bam.Record.Ok bs ->
      exists rs_s rs_b,
        Sam.File.read_file parse32 parse32p t = Some (h, (rs_s, FEof)) /\
        Bam.File.read_file bs = Bam.Record.Ok (h, (rs_b, Bam.File.EndEof)) /\
        map (fun r => Bam.CodecProofs.norm (to_bam_d r)) rs_s = map by_value rs_b.
Proof. exact file_sam_bam_agree_ty. Qed.
Print Assumptions c06_file_sam_bam_agree_ty.

(* formerly c06_header_comment_lf_refuted (`a LF b` read back as `a` in SAM and refused in BAM;
   `a LF @SQ..` injected a reference sequence; finding sam-header-comment-line-break-unvalidated,
   fixed in /repo 9bfd7d2): a comment containing a line feed is now REJECTED by both writers *)
Theorem c06_header_comment_lf_rejected : forall h c, In c (h_co h) -> In 10 c ->
  write_header h = None /\ header_write_read h = None /\ write_bam_header h = None.
Proof. exact header_comment_lf_rejected. Qed.
Print Assumptions c06_header_comment_lf_rejected.

Example c06_header_comment_lf_witnesses :
  header_write_read (mkHeader None [] [] [] [[97; 10; 98]]) = None
  /\ header_write_read (mkHeader None [] [] [] [[97; 10; 64; 83; 81; 9; 83; 78; 58; 120; 9; 76; 78; 58; 53]]) = None
  /\ header_write_read (mkHeader None [] [] [] [[97; 13]]) = None
  /\ header_write_read (mkHeader None [] [] [] [[97; 13; 98]])
  = Some ([64; 67; 79; 9; 97; 13; 98; 10], Some (mkHeader None [] [] [] [[97; 13; 98]])).
Proof. exact header_comment_lf_witnesses. Qed.
