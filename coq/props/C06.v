(* C06 -- SAM text records and headers round-trip, and SAM and BAM carry the same content.
   PARTIAL BY DESIGN.  Proved here, about the Gallina models NV.Base.Decimal, NV.Sam.Fields and
   NV.Sam.Record (mirrors of noodles-sam io/writer/record.rs etc., io/writer/num.rs, io/reader/record_buf.rs etc.):
   the record half of the property (one alignment line, all 11 columns and all optional-field types),
   with float text as a Section oracle; the header half (NV.Sam.Header: @HD/@SQ/@RG/@PG/@CO lines with
   ordered tag maps, sam::io::Reader::read_header line handling and the duplicate-tag context);
   and the SAM/BAM agreement for records without optional fields, by composition with the C05
   BAM codec theorem.  NOT modelled: the BAM header block, optional fields on the BAM side, the lazy
   sam::Record -- those are evaluated on the implementation only (harness kinds rt/hdr/lz). *)
From Coq Require Import List NArith ZArith Bool Lia.
From NV Require Import Base.Decimal Base.DecimalProofs Sam.Fields Sam.FieldsProofs Sam.Record Sam.RecordProofs.
From NV Require Import Sam.Header Sam.HeaderProofs Sam.BamAgree.
From NV Require Bam.Record Bam.Encode Bam.Decode Bam.CodecProofs.
Import ListNotations.
Open Scope N_scope.

(* ---- decimal text (io/writer/num.rs vs lexical_core::parse) *)
Theorem c06_decimal_parse_fmt : forall z : Z, parse_dec true (fmt_dec z) = Some z.
Proof. exact parse_fmt. Qed.
Print Assumptions c06_decimal_parse_fmt.

Theorem c06_decimal_parse_fmt_unsigned : forall n : N, parse_dec false (fmt_dec (Z.of_N n)) = Some (Z.of_N n).
Proof. exact parse_fmt_unsigned. Qed.
Print Assumptions c06_decimal_parse_fmt_unsigned.

(* digits and '-' only: no tab, newline, comma, colon, '+' *)
Theorem c06_decimal_chars : forall z : Z, Forall (fun c => is_digit c = true \/ c = 45) (fmt_dec z).
Proof. exact fmt_dec_chars. Qed.
Print Assumptions c06_decimal_chars.

(* ---- columns *)
Theorem c06_cigar_roundtrip : forall ops, Forall wf_op ops ->
  parse_cigar (write_cigar ops) = Some ops /\ PR (write_cigar ops).
Proof. exact cigar_rt. Qed.
Print Assumptions c06_cigar_roundtrip.

(* Phred+33; the single score 9 is the text "*" and reads back as "missing" (norm_qual_f) *)
Theorem c06_qual_roundtrip : forall bc q f, write_qual bc q = Some f ->
  parse_qual bc f = Some (norm_qual_f q) /\ PR f.
Proof. exact qual_rt. Qed.
Print Assumptions c06_qual_roundtrip.

(* RNEXT: '=' collapsing and its expansion *)
Theorem c06_rnext_roundtrip : forall refs rid mrid nm mnm,
  NoDup refs -> Forall refname_ok refs ->
  ref_name refs rid = Some nm -> ref_name refs mrid = Some mnm ->
  parse_rnext refs rid (write_rnext nm mnm) = Some mrid /\ PR (write_rnext nm mnm).
Proof. exact rnext_rt. Qed.
Print Assumptions c06_rnext_roundtrip.

(* TAG:TYPE:VALUE for A, i (all six storage widths), f, Z, H, B (all seven subtypes); the
   float oracle hypotheses are premises *)
Theorem c06_aux_roundtrip :
  forall (fmt32 fmtd32 : N -> bytes) (parse32 : bytes -> option N) (parse32p : bytes -> option (N * bytes)),
    (forall b, finite32 b = true -> parse32 (fmt32 b) = Some b) ->
    (forall b, PR (fmt32 b)) ->
    (forall b rest, finite32 b = true -> (rest = [] \/ exists r, rest = 44 :: r) ->
                    parse32p (fmtd32 b ++ rest) = Some (b, rest)) ->
    (forall b, PR (fmtd32 b)) ->
    forall t a f, wf_aux a -> write_field fmt32 fmtd32 (t, a) = Some f ->
      parse_field parse32 parse32p f = Some (t, norm_aux a) /\ PR f /\ (5 <= length f)%nat.
Proof. exact field_rt. Qed.
Print Assumptions c06_aux_roundtrip.

(* ---- the record *)
(* The statement the property makes for one alignment line (integer tags by value): *)
Definition c06_record_roundtrip_full_statement : Prop :=
  forall (fmt32 fmtd32 : N -> bytes) (parse32 : bytes -> option N) (parse32p : bytes -> option (N * bytes)),
    (forall b, finite32 b = true -> parse32 (fmt32 b) = Some b) ->
    (forall b, PR (fmt32 b)) ->
    (forall b rest, finite32 b = true -> (rest = [] \/ exists r, rest = 44 :: r) ->
                    parse32p (fmtd32 b ++ rest) = Some (b, rest)) ->
    (forall b, PR (fmtd32 b)) ->
    forall refs r t, wf_refs refs -> wf_rec r ->
      write_record fmt32 fmtd32 refs r = Some t ->
      parse_line parse32 parse32p refs t = POk (norm_i r).

(* It is false for the faithful model (and for noodles): known class = a single quality score 9. *)
(* the refutation stated without having to exhibit a float oracle: for EVERY oracle the written
   text of this valid record parses to a different record *)
Theorem c06_record_roundtrip_refuted :
  forall (fmt32 fmtd32 : N -> bytes) (parse32 : bytes -> option N) (parse32p : bytes -> option (N * bytes)),
  exists r t r', wf_rec r /\ wf_refs [] /\
    write_record fmt32 fmtd32 [] r = Some t /\
    parse_line parse32 parse32p [] t = POk r' /\ r' <> norm_i r.
Proof.
  intros. exists (mkRec None 4 None 0 255 [] None 0 0%Z [65] [9] []).
  exists [42;9;52;9;42;9;48;9;50;53;53;9;42;9;42;9;48;9;48;9;65;9;42;10].
  exists (mkRec None 4 None 0 255 [] None 0 0%Z [65] [] []).
  split; [|split; [|split; [|split]]].
  - unfold wf_rec. cbn. repeat split; try constructor; try discriminate; reflexivity.
  - split; constructor.
  - vm_compute. reflexivity.
  - vm_compute. reflexivity.
  - cbn. discriminate.
Qed.
Print Assumptions c06_record_roundtrip_refuted.

(* positive theorem, known class excluded *)
Theorem c06_record_roundtrip_partial :
  forall (fmt32 fmtd32 : N -> bytes) (parse32 : bytes -> option N) (parse32p : bytes -> option (N * bytes)),
    (forall b, finite32 b = true -> parse32 (fmt32 b) = Some b) ->
    (forall b, PR (fmt32 b)) ->
    (forall b rest, finite32 b = true -> (rest = [] \/ exists r, rest = 44 :: r) ->
                    parse32p (fmtd32 b ++ rest) = Some (b, rest)) ->
    (forall b, PR (fmtd32 b)) ->
    forall refs r t, wf_refs refs -> wf_rec r ->
      r_qual r <> [9] ->
      write_record fmt32 fmtd32 refs r = Some t ->
      parse_line parse32 parse32p refs t = POk (norm_i r).
Proof.
  intros f fd p pp H1 H2 H3 H4 refs r t WR W NQ HW.
  rewrite (record_roundtrip f fd p pp H1 H2 H3 H4 refs r t WR W HW).
  f_equal. apply norm_rec_id. now apply norm_qual_not9.
Qed.
Print Assumptions c06_record_roundtrip_partial.

(* what the text path does on EVERY accepted record (no exclusion): norm_rec = norm_i + the
   single-score-9 -> missing collapse *)
Theorem c06_record_roundtrip_faithful :
  forall (fmt32 fmtd32 : N -> bytes) (parse32 : bytes -> option N) (parse32p : bytes -> option (N * bytes)),
    (forall b, finite32 b = true -> parse32 (fmt32 b) = Some b) ->
    (forall b, PR (fmt32 b)) ->
    (forall b rest, finite32 b = true -> (rest = [] \/ exists r, rest = 44 :: r) ->
                    parse32p (fmtd32 b ++ rest) = Some (b, rest)) ->
    (forall b, PR (fmtd32 b)) ->
    forall refs r t, wf_refs refs -> wf_rec r ->
      write_record fmt32 fmtd32 refs r = Some t ->
      parse_line parse32 parse32p refs t = POk (norm_rec r).
Proof. exact record_roundtrip. Qed.
Print Assumptions c06_record_roundtrip_faithful.

(* fixed point, for every accepted record (the known class included) *)
Theorem c06_fixed_point :
  forall (fmt32 fmtd32 : N -> bytes) (parse32 : bytes -> option N) (parse32p : bytes -> option (N * bytes)),
    (forall b, finite32 b = true -> parse32 (fmt32 b) = Some b) ->
    (forall b, PR (fmt32 b)) ->
    (forall b rest, finite32 b = true -> (rest = [] \/ exists r, rest = 44 :: r) ->
                    parse32p (fmtd32 b ++ rest) = Some (b, rest)) ->
    (forall b, PR (fmtd32 b)) ->
    forall refs r t r', wf_refs refs -> wf_rec r ->
      write_record fmt32 fmtd32 refs r = Some t ->
      parse_line parse32 parse32p refs t = POk r' ->
      write_record fmt32 fmtd32 refs r' = Some t.
Proof. exact fixed_point. Qed.
Print Assumptions c06_fixed_point.

(* ---- headers *)
(* wf_header = what the Rust types guarantee and the writer does not check: tags of the "other"
   maps are unique and are not the kind's standard tags (IndexMap<Other<S>, _>), @SQ names /
   @RG ids / @PG ids are unique (IndexMap keys), LN >= 1 (NonZero), version components fit u32,
   and comments contain no LF and do not end in CR (the writer emits @CO text unvalidated).
   Everything else (tag and value alphabets, reference-name grammar, LN <= 2^31-1) is checked by
   write_header itself. *)
Theorem c06_header_roundtrip_partial :
  forall h t, wf_header h -> write_header h = Some t -> read_header t = Some h.
Proof. exact header_roundtrip. Qed.
Print Assumptions c06_header_roundtrip_partial.

Theorem c06_header_fixed_point :
  forall h t h', wf_header h -> write_header h = Some t -> read_header t = Some h' ->
    write_header h' = Some t.
Proof. exact header_fixed_point. Qed.
Print Assumptions c06_header_fixed_point.

Definition c06_example_header : header :=
  mkHeader (Some (mkHd 1 6 [((83,79), [117;110;107])]))
           [mkSq [99;104;114;49] 2147483647 [((77,53), [97;98])]; mkSq [50] 1 []]
           [mkId [114;103;32;49] [((83,77), [115])]] [mkId [112] []; mkId [113] [((80,80), [112])]]
           [[104;105;9;120]; []].

Example c06_header_example :
  wf_header c06_example_header /\
  exists t, write_header c06_example_header = Some t /\ read_header t = Some c06_example_header.
Proof.
  split.
  - unfold wf_header, c06_example_header. cbn [h_hd h_sq h_rg h_pg h_co].
    split; [|split; [|split; [|split; [|split; [|split; [|split]]]]]].
    + unfold wf_hd, others_ok. cbn [hd_major hd_minor hd_other map fst].
      split; [unfold U32_MAX; lia|]. split; [unfold U32_MAX; lia|]. split; [apply nodup1|repeat constructor].
    + unfold wf_sq, others_ok. repeat constructor; cbn; try lia; try apply nodup1; try (intros []).
    + cbn. constructor; [intros [H|[]]; discriminate H|apply nodup1].
    + unfold wf_id, others_ok. repeat constructor; cbn; try apply nodup1; try (intros []).
    + cbn. apply nodup1.
    + unfold wf_id, others_ok. repeat constructor; cbn; try apply nodup1; try (intros []).
    + cbn. constructor; [intros [H|[]]; discriminate H|apply nodup1].
    + unfold co_ok. repeat constructor; cbn; try lia; try discriminate.
  - eexists. split; [vm_compute; reflexivity|vm_compute; reflexivity].
Qed.

(* ---- SAM vs BAM, records without optional fields (scope of C05's codec theorem) *)
Theorem c06_sam_bam_agree_partial :
  forall (fmt32 fmtd32 : N -> bytes) (parse32 : bytes -> option N) (parse32p : bytes -> option (N * bytes)),
    (forall b, finite32 b = true -> parse32 (fmt32 b) = Some b) ->
    (forall b, PR (fmt32 b)) ->
    (forall b rest, finite32 b = true -> (rest = [] \/ exists r, rest = 44 :: r) ->
                    parse32p (fmtd32 b ++ rest) = Some (b, rest)) ->
    (forall b, PR (fmtd32 b)) ->
    forall refs nref r t block,
      wf_refs refs -> wf_rec r -> r_data r = [] -> r_qual r <> [9] ->
      Bam.Record.lenN (r_cigar r) <= 65535 ->
      write_record fmt32 fmtd32 refs r = Some t ->
      Bam.Encode.encode nref (to_bam r) = Bam.Record.Ok block ->
      exists rs, parse_line parse32 parse32p refs t = POk rs
                 /\ Bam.Decode.decode block = Bam.Record.Ok (Bam.CodecProofs.norm (to_bam rs)).
Proof. exact sam_bam_agree. Qed.
Print Assumptions c06_sam_bam_agree_partial.

(* ---- the complete property, kept visible; header and BAM parts are NOT proved (L3 only) *)
Section FullStatement.
  Variable header : Type.
  Variable write_header : header -> option bytes.
  Variable parse_header : bytes -> option header.
  Variable refs_of : header -> list bytes.
  Variable bam_roundtrip : header -> list sam_rec -> option (header * list sam_rec).
  Variable canon_bam : sam_rec -> sam_rec.   (* case folding, non-IUPAC -> N, integers by value *)
  Variable fmt32 fmtd32 : N -> bytes.
  Variable parse32 : bytes -> option N.
  Variable parse32p : bytes -> option (N * bytes).

  Definition c06_full_statement : Prop :=
    (forall h t, write_header h = Some t -> parse_header t = Some h)
    /\ (forall h r t, wf_refs (refs_of h) -> wf_rec r ->
          write_record fmt32 fmtd32 (refs_of h) r = Some t ->
          parse_line parse32 parse32p (refs_of h) t = POk (norm_i r))
    /\ (forall h rs h' rs', Forall wf_rec rs -> bam_roundtrip h rs = Some (h', rs') ->
          h' = h /\ map canon_bam rs' = map canon_bam (map norm_i rs)).
End FullStatement.

(* ---- non-vacuity: a mapped read with '=' mate, all premises hold, and the writer accepts it *)
Example c06_example :
  let refs := [[99;104;114;49]; [99;104;114;50]] in
  let r := mkRec (Some [114;49]) 99 (Some 1) 2147483647 60 [(4,2);(0,3)] (Some 1) 100 (-150)%Z
                 [65;67;71;84;78] [0;93;9;40;1] [((78,77), AInt I32 5%Z); ((88,66), AArrI I8 [(-128)%Z; 127%Z])] in
  wf_refs refs /\ wf_rec r /\
  write_record (fun _ => []) (fun _ => []) refs r
  = Some [114;49;9;57;57;9;99;104;114;50;9;50;49;52;55;52;56;51;54;52;55;9;54;48;9;50;83;51;77;9;61;9;49;48;48;9;
          45;49;53;48;9;65;67;71;84;78;9;33;126;42;73;34;9;78;77;58;105;58;53;9;88;66;58;66;58;99;44;45;49;50;56;44;49;50;55;10].
Proof.
  cbn zeta. split; [|split].
  - split.
    + repeat constructor; cbn; intuition discriminate.
    + repeat constructor; cbn; try discriminate; try reflexivity.
  - unfold wf_rec. cbn. repeat split; try (repeat constructor; cbn; try lia; intuition discriminate); try discriminate.
  - vm_compute. reflexivity.
Qed.
