(* C16 -- Async readers and writers behave exactly like their synchronous counterparts
   (partial: the BGZF framing layer is modelled and proved; everything above it is compared
   sync-vs-async on the implementation, see checks/C16.json).

   Model: NV.Async.Framing -- BlockCodec::decode / decode_eof driven by FramedRead over a source
   that delivers the file in arbitrary chunks (= an arbitrary poll script), the sync reader's
   read_frame_into loop, parse_block up to the inflate call, and the block transcript
   (compressed offset and data length of every non-empty block, final position, ending) that a
   caller observes through fill_buf / consume / virtual_position / position. *)
From Coq Require Import List Arith NArith Bool.
From NV Require Import Async.Framing Async.FramingProofs.
Import ListNotations.

(* For EVERY partition of the file into chunks (every poll script of the AsyncRead source:
   arbitrary transfer sizes; Pending polls transfer nothing and leave the state unchanged) the
   frames the async codec yields are those of the flat file. *)
Theorem c16_async_frames_poll_indep :
  forall chunks, async_frames chunks = flat_frames (concat chunks).
Proof. exact async_frames_poll_indep. Qed.
Print Assumptions c16_async_frames_poll_indep.

Theorem c16_async_obs_poll_indep :
  forall inflate_ok c1 c2, concat c1 = concat c2 -> async_obs inflate_ok c1 = async_obs inflate_ok c2.
Proof. exact async_obs_poll_indep. Qed.
Print Assumptions c16_async_obs_poll_indep.

(* the poll scripts of the correspondence cases are partitions of the file *)
Theorem c16_chunks_of_is_partition : forall sizes file, concat (chunks_of sizes file) = file.
Proof. exact chunks_of_concat. Qed.
Print Assumptions c16_chunks_of_is_partition.

(* The framing loses and invents nothing *)
Theorem c16_async_frames_concat : forall file, concat (flat_frames file) = file.
Proof. exact flat_frames_concat. Qed.
Print Assumptions c16_async_frames_concat.

(* FULL STATEMENT of "async framing = sync framing": false for the pinned code (see the three
   _refuted witnesses below); kept visible. *)
Definition c16_async_framing_equals_sync_full_statement : Prop :=
  forall inflate_ok file chunks, concat chunks = file ->
    async_obs inflate_ok chunks = sync_obs inflate_ok file.

(* Complete classification of the relation between the two framings, for ALL files: the async
   frames start with the sync frames; the rest is empty or one of exactly three shapes, decided by
   how the sync framing stopped. *)
Theorem c16_sync_vs_async_framing :
  forall file fs e, sync_all file = (fs, e) ->
  exists rest, flat_frames file = fs ++ rest /\
    match e with
    | Eof => rest = [] \/ exists s, rest = [s] /\ 0 < length s < HDR
    | Err InvalidData => exists s rest', rest = s :: rest' /\ 0 < length s < MIN_FRAME
    | Err UnexpectedEof => exists s, rest = [s] /\ HDR <= length s < block_size s
    end.
Proof. exact sync_vs_async_framing. Qed.
Print Assumptions c16_sync_vs_async_framing.

(* PARTIAL positive theorem (known class excluded): whenever the sync framing consumes the whole
   file -- i.e. the file is NOT of the known class "ends in 1..17 stray bytes / contains a frame
   with BSIZE+1 < 26 / ends inside a frame" -- it ends cleanly and, for every poll script and
   every inflate oracle, the async reader's block transcript equals the sync reader's. *)
Theorem c16_async_framing_equals_sync_partial :
  forall inflate_ok file chunks fs e,
    concat chunks = file -> sync_all file = (fs, e) -> concat fs = file ->
    e = Eof /\ async_frames chunks = fs /\ async_obs inflate_ok chunks = sync_obs inflate_ok file.
Proof.
  intros io file chunks fs e Hc Hs Hall.
  destruct (async_framing_equals_sync_consumed file chunks fs e Hc Hs Hall) as [He Ha].
  split; [exact He|]. split; [exact Ha|].
  exact (async_obs_equals_sync_obs io file chunks fs e Hc Hs Hall).
Qed.
Print Assumptions c16_async_framing_equals_sync_partial.

(* the same for files given as a list of well-formed frames (>= 26 bytes, BSIZE+1 = length) *)
Theorem c16_async_framing_equals_sync_wf :
  forall frs chunks, Forall wf_frame frs -> concat chunks = concat frs ->
    async_frames chunks = frs /\ sync_all (concat chunks) = (frs, Eof).
Proof. exact async_framing_equals_sync_wf. Qed.
Print Assumptions c16_async_framing_equals_sync_wf.

(* The known class is not empty and the full statement fails on it: candidate finding F16. *)
Theorem c16_trailing_partial_frame_refuted :
  exists file, sync_obs all_ok file = ([], 28%N, Eof) /\
               async_obs all_ok [file] = ([], 28%N, Err UnexpectedEof).
Proof. exact async_equals_sync_trailing_partial_refuted. Qed.
Print Assumptions c16_trailing_partial_frame_refuted.

Theorem c16_undersized_bsize_refuted :
  exists file, sync_obs all_ok file = ([], 0%N, Err InvalidData) /\
               async_obs all_ok [file] = ([], 0%N, Err UnexpectedEof).
Proof. exact async_equals_sync_undersized_bsize_refuted. Qed.
Print Assumptions c16_undersized_bsize_refuted.

Theorem c16_truncated_frame_refuted :
  exists file, sync_obs all_ok file = ([], 0%N, Err UnexpectedEof) /\
               async_obs all_ok [file] = ([], 0%N, Err InvalidData).
Proof. exact async_equals_sync_truncated_frame_refuted. Qed.
Print Assumptions c16_truncated_frame_refuted.

Theorem c16_full_statement_refuted : ~ c16_async_framing_equals_sync_full_statement.
Proof.
  intros H. destruct async_equals_sync_trailing_partial_refuted as (file & Hs & Ha).
  specialize (H all_ok file [file]). cbn [concat] in H. rewrite app_nil_r in H.
  specialize (H eq_refl). rewrite Hs, Ha in H. discriminate.
Qed.
Print Assumptions c16_full_statement_refuted.

(* non-vacuity: a two-block file (the EOF marker twice) satisfies the premises of the partial
   theorem, is cut into three chunks that split both headers, and both sides see two frames *)
Example c16_example :
  let file := eof_block ++ eof_block in
  let chunks := [firstn 5 file; firstn 30 (skipn 5 file); skipn 35 file] in
  concat chunks = file /\ sync_all file = ([eof_block; eof_block], Eof) /\
  concat [eof_block; eof_block] = file /\ Forall wf_frame [eof_block; eof_block] /\
  async_frames chunks = [eof_block; eof_block].
Proof.
  vm_compute. repeat split; try reflexivity.
  repeat constructor.
Qed.
