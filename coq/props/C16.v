(* C16 -- Async readers and writers behave exactly like their synchronous counterparts
   (partial: the BGZF framing layer is modelled and proved; everything above it is compared
   sync-vs-async on the implementation, see checks/C16.json).

   Model: NV.Async.Framing -- BlockCodec::decode / decode_eof (with the minimum frame size check
   and the end-of-input rule of the repaired codec) driven by FramedRead over a source that
   delivers the file in arbitrary chunks (= an arbitrary poll script), the sync reader's
   read_frame_into loop, parse_block up to the inflate call, and the block transcript
   (compressed offset and data length of every non-empty block, final position, ending) that a
   caller observes through fill_buf / consume / virtual_position / position. *)
From Coq Require Import List Arith NArith Bool.
From NV Require Import Async.Framing Async.FramingProofs.
Import ListNotations.

(* FULL STATEMENT for the framing layer, for EVERY byte string (well-formed or not) and EVERY
   partition of it into chunks (every poll script of the AsyncRead source: arbitrary transfer
   sizes; Pending polls transfer nothing and leave the state unchanged): the async frame stream
   -- the frames AND the way it ends (clean end, InvalidData, UnexpectedEof) -- is exactly the
   sync reader's. *)
Theorem c16_async_framing_equals_sync :
  forall chunks, async_frames chunks = sync_all (concat chunks).
Proof. exact async_framing_equals_sync. Qed.
Print Assumptions c16_async_framing_equals_sync.

(* hence the block transcripts are equal, for every inflate oracle *)
Theorem c16_async_obs_equals_sync_obs :
  forall inflate_ok file chunks, concat chunks = file ->
    async_obs inflate_ok chunks = sync_obs inflate_ok file.
Proof. exact async_obs_equals_sync_obs. Qed.
Print Assumptions c16_async_obs_equals_sync_obs.

(* and nothing depends on the poll script *)
Theorem c16_async_frames_poll_indep :
  forall c1 c2, concat c1 = concat c2 -> async_frames c1 = async_frames c2.
Proof. exact async_frames_poll_indep. Qed.
Print Assumptions c16_async_frames_poll_indep.

Theorem c16_async_obs_poll_indep :
  forall inflate_ok c1 c2, concat c1 = concat c2 -> async_obs inflate_ok c1 = async_obs inflate_ok c2.
Proof. exact async_obs_poll_indep. Qed.
Print Assumptions c16_async_obs_poll_indep.

(* the poll scripts of the correspondence cases are partitions of the file *)
Theorem c16_chunks_of_is_partition : forall sizes file, concat (chunks_of sizes file) = file.
Proof. exact chunks_of_concat. Qed.
Print Assumptions c16_chunks_of_is_partition.

(* the frames are a prefix of the input (nothing is invented), and a clean end leaves fewer than
   18 bytes unread *)
Theorem c16_frames_are_a_prefix :
  forall file fs e, sync_all file = (fs, e) ->
    exists rest, file = concat fs ++ rest /\ (e = Eof -> length rest < HDR).
Proof. exact sync_all_prefix. Qed.
Print Assumptions c16_frames_are_a_prefix.

(* files made of well-formed frames (>= 26 bytes, BSIZE+1 = length): exactly those frames, clean end *)
Theorem c16_async_frames_wf :
  forall frs chunks, Forall wf_frame frs -> concat chunks = concat frs ->
    async_frames chunks = (frs, Eof).
Proof. exact async_frames_wf. Qed.
Print Assumptions c16_async_frames_wf.

(* The three input classes of candidate finding F16, on which the two readers differed before the
   async codec was repaired (trailing 1..17 bytes; BSIZE+1 < 26; file cut inside a frame): the
   model of the repaired codec agrees with the sync reader on the old witnesses. *)
Theorem c16_trailing_partial_frame_now_equal :
  let file := (eof_block ++ [31; 139])%N in
  sync_obs all_ok file = ([], 28%N, Eof) /\ async_obs all_ok [file] = ([], 28%N, Eof).
Proof. exact trailing_partial_frame_example. Qed.
Print Assumptions c16_trailing_partial_frame_now_equal.

Theorem c16_undersized_bsize_now_equal :
  let file := (firstn 16 eof_block ++ [17; 0; 237; 242])%N in
  sync_obs all_ok file = ([], 0%N, Err InvalidData) /\
  async_obs all_ok [file] = ([], 0%N, Err InvalidData).
Proof. exact undersized_bsize_example. Qed.
Print Assumptions c16_undersized_bsize_now_equal.

Theorem c16_truncated_frame_now_equal :
  let file := (eof_block ++ firstn 16 eof_block ++ [40; 0; 1; 2; 3; 4; 5; 6; 7; 8; 255; 255; 255; 255])%N in
  sync_obs all_ok file = ([], 28%N, Err UnexpectedEof) /\
  async_obs all_ok [firstn 40 file; skipn 40 file] = ([], 28%N, Err UnexpectedEof).
Proof. exact truncated_frame_example. Qed.
Print Assumptions c16_truncated_frame_now_equal.

(* non-vacuity: a two-block file (the EOF marker twice) cut into three chunks that split both
   headers: both sides see two frames and a clean end *)
Example c16_example :
  let file := eof_block ++ eof_block in
  let chunks := [firstn 5 file; firstn 30 (skipn 5 file); skipn 35 file] in
  concat chunks = file /\ sync_all file = ([eof_block; eof_block], Eof) /\
  Forall wf_frame [eof_block; eof_block] /\
  async_frames chunks = ([eof_block; eof_block], Eof).
Proof.
  vm_compute. repeat split; try reflexivity.
  repeat constructor.
Qed.
