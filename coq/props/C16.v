(* C16 -- Async readers and writers behave exactly like their synchronous counterparts
   (partial: the BGZF layer -- framing, the reader's operations incl. seek, the writer -- and the
   BAM record framing are modelled and proved; the other format-level async readers and writers
   are compared sync-vs-async on the implementation, see checks/C16.json).

   Models:
     NV.Async.Framing    BlockCodec::decode / decode_eof under FramedRead over a source that delivers
                         the file in arbitrary chunks (= an arbitrary poll script), the sync
                         read_frame_into loop, parse_block up to the inflate call, block transcripts
     NV.Async.Reader     (module RD below) Inflater + TryBuffered + blocking pool as an instance of
                         the ticket pipeline NV.Io.Sched; poll_fill_buf / consume / poll_read /
                         read_exact / read-to-end / seek / seek_by_uncompressed_position; sync side =
                         C02's NV.Bgzf.ReaderOps
     NV.Async.Writer     (module WR) staging buffer, lazy flush, Buffer + Deflater pipeline,
                         shutdown; sync side = C01's NV.Bgzf.Writer
     NV.Async.ReadExact  (module RX) awaited reads over poll scripts as a C12 reader; tokio
                         read_exact, bam/bcf read_exact_or_eof, take + read_to_end, BAM record
                         framing; sync side = C12's NV.Io.Run *)
From Coq Require Import List Arith NArith Bool.
From NV Require Bgzf.Vpos Bgzf.Gzi Bgzf.ReaderOps Io.Sched Io.SchedProofs Async.Reader Async.ReaderProofs.
From NV Require Async.Lines Async.LinesProofs Async.WriteAll Async.WriteAllProofs Fasta.Fastq Io.HeaderRead.
From NV Require Async.BcfFraming Async.BcfFramingProofs Trunc.Stream.
From NV Require Async.Tab Async.TabProofs Io.TabRead Text.TextBase.
From NV Require Async.PollSeek Async.PollSeekProofs.
From NV Require Io.HeaderAdapter Async.HeaderReads Async.HeaderReadsProofs.
From NV Require Cram.Itf8 Cram.Ltf8 Trunc.Cram CramIdx.AsyncQuery CramIdx.AsyncQueryProofs Async.CramFraming Async.CramFramingProofs.
From NV Require Base.LE Bgzf.Crc32 Bgzf.Frame Bgzf.Writer Async.Writer Async.WriterProofs.
From NV Require Io.Source Io.ReadExact Io.ReadExactProofs Io.Run Io.RunProofs Async.ReadExact Async.ReadExactProofs.
From NV Require Import Async.Framing Async.FramingProofs.
Import ListNotations.

(* FULL STATEMENT for the framing layer, for EVERY byte string (well-formed or not) and EVERY
   partition of it into chunks (every poll script of the AsyncRead source: arbitrary transfer
   sizes; Pending polls transfer nothing and leave the state unchanged): the async frame stream
   -- the frames AND the way it ends (clean end, InvalidData, UnexpectedEof) -- is exactly the
   sync reader's. *)
Theorem c16_async_framing_equals_sync :
  forall chunks, async_frames chunks = sync_all (concat chunks).
Proof. exact async_framing_equals_sync. Qed.
Print Assumptions c16_async_framing_equals_sync.

(* hence the block transcripts are equal, for every inflate oracle *)
Theorem c16_async_obs_equals_sync_obs :
  forall inflate_ok file chunks, concat chunks = file ->
    async_obs inflate_ok chunks = sync_obs inflate_ok file.
Proof. exact async_obs_equals_sync_obs. Qed.
Print Assumptions c16_async_obs_equals_sync_obs.

(* and nothing depends on the poll script *)
Theorem c16_async_frames_poll_indep :
  forall c1 c2, concat c1 = concat c2 -> async_frames c1 = async_frames c2.
Proof. exact async_frames_poll_indep. Qed.
Print Assumptions c16_async_frames_poll_indep.

Theorem c16_async_obs_poll_indep :
  forall inflate_ok c1 c2, concat c1 = concat c2 -> async_obs inflate_ok c1 = async_obs inflate_ok c2.
Proof. exact async_obs_poll_indep. Qed.
Print Assumptions c16_async_obs_poll_indep.

(* the poll scripts of the correspondence cases are partitions of the file *)
Theorem c16_chunks_of_is_partition : forall sizes file, concat (chunks_of sizes file) = file.
Proof. exact chunks_of_concat. Qed.
Print Assumptions c16_chunks_of_is_partition.

(* the frames are a prefix of the input (nothing is invented), and a clean end leaves fewer than
   18 bytes unread *)
Theorem c16_frames_are_a_prefix :
  forall file fs e, sync_all file = (fs, e) ->
    exists rest, file = concat fs ++ rest /\ (e = Eof -> length rest < HDR).
Proof. exact sync_all_prefix. Qed.
Print Assumptions c16_frames_are_a_prefix.

(* files made of well-formed frames (>= 26 bytes, BSIZE+1 = length): exactly those frames, clean end *)
Theorem c16_async_frames_wf :
  forall frs chunks, Forall wf_frame frs -> concat chunks = concat frs ->
    async_frames chunks = (frs, Eof).
Proof. exact async_frames_wf. Qed.
Print Assumptions c16_async_frames_wf.

(* The three input classes of candidate finding F16, on which the two readers differed before the
   async codec was repaired (trailing 1..17 bytes; BSIZE+1 < 26; file cut inside a frame): the
   model of the repaired codec agrees with the sync reader on the old witnesses. *)
Theorem c16_trailing_partial_frame_now_equal :
  let file := (eof_block ++ [31; 139])%N in
  sync_obs all_ok file = ([], 28%N, Eof) /\ async_obs all_ok [file] = ([], 28%N, Eof).
Proof. exact trailing_partial_frame_example. Qed.
Print Assumptions c16_trailing_partial_frame_now_equal.

Theorem c16_undersized_bsize_now_equal :
  let file := (firstn 16 eof_block ++ [17; 0; 237; 242])%N in
  sync_obs all_ok file = ([], 0%N, Err InvalidData) /\
  async_obs all_ok [file] = ([], 0%N, Err InvalidData).
Proof. exact undersized_bsize_example. Qed.
Print Assumptions c16_undersized_bsize_now_equal.

Theorem c16_truncated_frame_now_equal :
  let file := (eof_block ++ firstn 16 eof_block ++ [40; 0; 1; 2; 3; 4; 5; 6; 7; 8; 255; 255; 255; 255])%N in
  sync_obs all_ok file = ([], 28%N, Err UnexpectedEof) /\
  async_obs all_ok [firstn 40 file; skipn 40 file] = ([], 28%N, Err UnexpectedEof).
Proof. exact truncated_frame_example. Qed.
Print Assumptions c16_truncated_frame_now_equal.

(* non-vacuity: a two-block file (the EOF marker twice) cut into three chunks that split both
   headers: both sides see two frames and a clean end *)
Example c16_example :
  let file := eof_block ++ eof_block in
  let chunks := [firstn 5 file; firstn 30 (skipn 5 file); skipn 35 file] in
  concat chunks = file /\ sync_all file = ([eof_block; eof_block], Eof) /\
  Forall wf_frame [eof_block; eof_block] /\
  async_frames chunks = ([eof_block; eof_block], Eof).
Proof.
  vm_compute. repeat split; try reflexivity.
  repeat constructor.
Qed.

(* ============================================================================================
   The async BGZF READER above the framing layer (model: NV.Async.Reader -- Inflater +
   TryBuffered as an instance of the generic ticket pipeline NV.Io.Sched with window =
   worker_count, the reader's poll_fill_buf / consume / poll_read / virtual_position cursor,
   tokio's read_exact, the read-to-end loop, the repaired seek and seek_by_uncompressed_position)
   against the sync reader model of property C02 (NV.Bgzf.ReaderOps, the reader after its repair).
   ============================================================================================ *)
Module RD.
Import NV.Bgzf.Vpos NV.Bgzf.Gzi NV.Bgzf.ReaderOps NV.Io.Sched NV.Async.Reader NV.Async.ReaderProofs.

(* FULL STATEMENT for the reader over parsed well-formed files: for EVERY file (frames with at
   most 65536 data bytes each, empty blocks anywhere), EVERY worker count W >= 1, EVERY size P >= 1
   of the blocking pool, EVERY scheduler (which pipeline actions -- decode the next frame, start a
   task, complete ANY running task, hand a result over -- are played during each wait for a block,
   i.e. every completion order and every poll script of the source), EVERY index and EVERY history
   of operations (read, read_exact, fill_buf, consume, read to the end, seek, seek by uncompressed
   position): the result of each operation and the virtual position after it are exactly those of
   the sync reader. *)
Theorem c16_async_reader_equals_sync :
  forall (W P : nat) (sch : nat -> list act) (f : file) (idx : gzi_index) (ops : list op),
    (0 < W)%nat -> (0 < P)%nat -> Forall (fun b => (flen b <= 65536)%N) f ->
    a_run W P sch f idx (a_init f) ops = ReaderOps.run true f idx (ReaderOps.init f) ops.
Proof. intros W P sch f idx ops HW HP Hf. exact (async_reader_equals_sync W P sch HW HP f idx ops Hf). Qed.
Print Assumptions c16_async_reader_equals_sync.

(* hence nothing depends on the worker count, the pool size or the schedule *)
Theorem c16_async_reader_schedule_indep :
  forall W P sch W' P' sch' f idx ops,
    (0 < W)%nat -> (0 < P)%nat -> (0 < W')%nat -> (0 < P')%nat -> Forall (fun b => (flen b <= 65536)%N) f ->
    a_run W P sch f idx (a_init f) ops = a_run W' P' sch' f idx (a_init f) ops.
Proof.
  intros. rewrite !c16_async_reader_equals_sync by assumption. reflexivity.
Qed.
Print Assumptions c16_async_reader_schedule_indep.

(* The schedules quantified over are ALL complete schedules: a wait for a block ("pull") plays
   the scheduler's actions and then a canonical completion; when the scheduler's own actions
   already end the wait, the canonical part does nothing ... *)
Theorem c16_pull_any_complete_schedule :
  forall W P seg s, pfinal (fold_left (pstep W P) seg (start_pull s)) = true ->
    pull_with W P seg s = fold_left (pstep W P) seg (start_pull s).
Proof. exact pull_complete_schedule. Qed.
Print Assumptions c16_pull_any_complete_schedule.

(* ... and every wait does end (no deadlock for any window >= 1 and pool >= 1): the reader gets
   a block with data or the end of the stream. *)
Theorem c16_pull_ends :
  forall W P, (0 < W)%nat -> (0 < P)%nat -> forall s, SchedProofs.wf frame rdr s ->
    pfinal (pcomplete W P s) = true.
Proof. exact pcomplete_final. Qed.
Print Assumptions c16_pull_ends.

(* Whatever the schedule, a wait for a block leaves the reader where the sync reader's
   read_nonempty_block loop leaves it (empty blocks skipped, the last frame taken is current). *)
Theorem c16_pull_is_next_nonempty :
  forall W P, (0 < W)%nat -> (0 < P)%nat -> forall seg s, SchedProofs.wf frame rdr s ->
    let s' := pull_with W P seg s in
    SchedProofs.wf frame rdr s' /\
    match next_nonempty (remaining s) (r_position (cs s)) with
    | None =>
        remaining s' = [] /\
        cs s' = mkRdr true (r_position (cs s)) (r_blk (cs s)) (S (pulls (cs s)))
    | Some (b, p, r, np) =>
        remaining s' = r /\
        cs s' = mkRdr (flen b =? 0)%N np (mkBlk p (csize b) (fdata b) 0) (S (pulls (cs s)))
    end.
Proof. exact pull_spec. Qed.
Print Assumptions c16_pull_is_next_nonempty.

(* non-vacuity: data, an empty block, data, the EOF marker; 3 workers; during the first wait all
   three frames are decoded, their tasks started and completed in the order 2, 0, 1 before any
   result is handed over; a seek to the empty block lands on the data block after it, a seek to
   the end leaves an empty block there. *)
Example c16_reader_example :
  let f := [mkFrame 30 [1; 2; 3]; mkFrame 28 []; mkFrame 31 [4; 5; 6; 7]; mkFrame 28 []]%N in
  let sch := sch_of [[0; 0; 0; 1; 1; 1; 6; 4; 5; 2; 3]; []; [0; 1; 4]]%nat in
  let ops := [Read 2; FillBuf; Consume 1; ReadExact 3; Seek (pack 30 0); Read 10; Seek (pack 117 0); FillBuf]%N in
  a_run 3 2 sch f [] (a_init f) ops
  = [ (OBytes (Ok [1; 2]), Ok (pack 0 2)); (OBytes (Ok [3]), Ok (pack 0 2)); (OUnit, Ok (pack 30 0));
      (OBytes (Ok [4; 5; 6]), Ok (pack 58 3)); (OPos (Ok (pack 30 0)), Ok (pack 58 0));
      (OBytes (Ok [4; 5; 6; 7]), Ok (pack 89 0)); (OPos (Ok (pack 117 0)), Ok (pack 117 0));
      (OBytes (Ok []), Ok (pack 117 0)) ]%N
  /\ ReaderOps.run true f [] (ReaderOps.init f) ops = a_run 3 2 sch f [] (a_init f) ops.
Proof. vm_compute. split; reflexivity. Qed.
End RD.

(* ============================================================================================
   The POLLED seek (Reader::poll_seek / Inflater::poll_seek: is_seeking flag, pre-seek
   poll_complete, start_seek, post-seek poll_complete, buffer clear) -- the path of the async
   csi / tabix query readers -- over a source whose poll_complete may return Pending at every
   call, also before start_seek (model: NV.Async.PollSeek).
   ============================================================================================ *)
Module PS.
Import NV.Bgzf.Vpos NV.Bgzf.Gzi NV.Bgzf.ReaderOps NV.Io.Sched NV.Async.Reader NV.Async.ReaderProofs.
Import NV.Async.PollSeek NV.Async.PollSeekProofs.

(* for EVERY poll script of poll_complete, EVERY offset the source is at and EVERY target: the
   polled seek leaves the source at the target, no seek in flight, is_seeking cleared *)
Theorem c16_poll_seek_source_lands :
  forall (sc : list bool) (pos c : N),
    infl_seek (S (length sc)) (mkInfl (mkSrc pos None) false) c sc = Some (mkInfl (mkSrc c None) false).
Proof. intros. apply infl_seek_lands. apply Nat.lt_succ_diag_r. Qed.
Print Assumptions c16_poll_seek_source_lands.

(* hence the polled seek is `async fn seek`, whatever the poll script *)
Theorem c16_poll_seek_equals_seek :
  forall W P sch f s v src_at sc, a_poll_seek W P sch f s v src_at sc = a_seek W P sch f s v.
Proof. exact poll_seek_equals_seek. Qed.
Print Assumptions c16_poll_seek_equals_seek.

(* and op histories that use polled seeks (each with its own poll script) equal the sync
   reader's histories with plain seeks: results and virtual positions after every op *)
Theorem c16_async_reader_poll_seek_equals_sync :
  forall (W P : nat) (sch : nat -> list act) (f : file) (idx : gzi_index) (ops : list xop),
    (0 < W)%nat -> (0 < P)%nat -> Forall (fun b => (flen b <= 65536)%N) f ->
    a_xrun W P sch f idx (a_init f) ops
    = ReaderOps.run true f idx (ReaderOps.init f) (map erase ops).
Proof. intros W P sch f idx ops HW HP Hf. exact (async_reader_with_poll_seek_equals_sync W P sch HW HP f idx ops Hf). Qed.
Print Assumptions c16_async_reader_poll_seek_equals_sync.

(* the model separates the defect class "success reported, source not moved": with the source
   left at offset 61 the reader's position after the seek is not the sync reader's *)
Theorem c16_stale_source_seek_differs :
  let f := [mkFrame 30 [1; 2; 3]; mkFrame 31 [4; 5; 6; 7]; mkFrame 28 []]%N in
  let s := a_init f in
  snd (a_poll_seek 1 1 (fun _ => []) f s (pack 0 0) 61 [true]) = Ok (pack 0 0) /\
  a_virtual_position (cs (fst (a_poll_seek 1 1 (fun _ => []) f s (pack 0 0) 61 [true]))) = Ok (pack 0 0) /\
  a_virtual_position (cs (fst (a_seek_at 1 1 (fun _ => []) f s (pack 0 0) 61))) = Ok (pack 28 0).
Proof. exact stale_source_differs. Qed.
Print Assumptions c16_stale_source_seek_differs.
End PS.

(* ============================================================================================
   The async BGZF WRITER (model: NV.Async.Writer -- staging buffer of MAX_BUF_SIZE with its LAZY
   flush, tokio write_all, poll_flush handing Deflate tasks to the bounded Buffer sink, the
   Buffer/Deflater/blocking-pool pipeline as an instance of NV.Io.Sched, poll_shutdown = flush,
   close, EOF marker) against the sync writer model of property C01 (NV.Bgzf.Writer).
   DEFLATE is a parameter shared by both writers (same compression level).
   ============================================================================================ *)
Module WR.
Import NV.Bgzf.Frame NV.Bgzf.Writer NV.Io.Sched NV.Async.Writer NV.Async.WriterProofs.

(* FULL STATEMENT for the writer: for EVERY script of write / write_all / flush calls followed by
   shutdown(), EVERY worker count, pool size and EVERY complete schedule of the deflate pipeline
   (tasks finishing in any order), the bytes the inner writer has received are exactly the file
   the sync writer produces for the same calls followed by finish(), at the same compression
   level (premise H_l0: stored blocks add at most 15 bytes -- the documented DEFLATE bound that
   makes deflate.rs's unreachable!() unreachable, also the premise of C01's theorems). *)
Theorem c16_async_writer_equals_sync :
  forall (deflate : N -> list N -> list N) (lvl : N),
    (forall x, (lenN x <= MAX_BUF_SIZE)%N -> (lenN (deflate 0%N x) <= MAX_COMPRESSED_SIZE)%N) ->
    forall (W P : nat) (ops : list aop) (sched : list act),
      w_final (w_run (fr deflate lvl) W P (a_blocks ops) sched) = true ->
      a_sink (fr deflate lvl) W P ops sched
      = o_sink (run_script deflate lvl (map sync_op ops) EFinish).
Proof. exact async_writer_equals_sync. Qed.
Print Assumptions c16_async_writer_equals_sync.

(* the block sequence: the sync writer's file is the frames of exactly the blocks the async
   writer cuts (although the async writer flushes a full staging buffer lazily, at the next
   write, and the sync writer eagerly), then the EOF marker; the values returned by the calls
   (bytes accepted by each write) agree and no call fails *)
Theorem c16_async_writer_equals_sync_blocks :
  forall (deflate : N -> list N -> list N) (lvl : N),
    (forall x, (lenN x <= MAX_BUF_SIZE)%N -> (lenN (deflate 0%N x) <= MAX_COMPRESSED_SIZE)%N) ->
    forall ops,
      let o := run_script deflate lvl (map sync_op ops) EFinish in
      o_sink o = bytes deflate lvl (a_blocks ops) ++ eof_block /\
      map fst (o_results o) = a_results ops /\ o_end o = Ok tt.
Proof. exact sync_writer_blocks. Qed.
Print Assumptions c16_async_writer_equals_sync_blocks.

(* and the pipeline writes the frames in submission order whatever the completion order *)
Theorem c16_async_writer_pipeline_in_order :
  forall (deflate : N -> list N -> list N) (lvl : N) W P blocks sched,
    w_final (w_run (fr deflate lvl) W P blocks sched) = true ->
    cs (w_run (fr deflate lvl) W P blocks sched) = bytes deflate lvl blocks.
Proof. exact pipeline_in_order. Qed.
Print Assumptions c16_async_writer_pipeline_in_order.

(* non-vacuity: a complete schedule with out-of-order completion exists (2 workers, 2 threads,
   three blocks; tasks 1 then 0 complete before anything is written) and the blocks are cut where
   expected *)
Example c16_writer_example :
  let ops := [AWriteAll [1; 2; 3]; AFlush; AFlush; AWrite [4]; AWriteAll [5; 6]; AFlush; AWriteAll [7]]%N in
  a_blocks ops = [[1; 2; 3]; [4; 5; 6]; [7]]%N /\
  a_results ops = [Ok None; Ok None; Ok None; Ok (Some 1%N); Ok None; Ok None; Ok None] /\
  let sched := [Submit; Submit; Start; Start; Complete 1; Complete 0; Take; Emit; Submit; Start;
                Take; Emit; Complete 2; Take; Emit] in
  forall fr, w_final (w_run fr 2 2 (a_blocks ops) sched) = true /\
             cs (w_run fr 2 2 (a_blocks ops) sched) = fr [1; 2; 3]%N ++ fr [4; 5; 6]%N ++ fr [7]%N.
Proof.
  cbn zeta.
  assert (Hb : a_blocks [AWriteAll [1; 2; 3]; AFlush; AFlush; AWrite [4]; AWriteAll [5; 6]; AFlush; AWriteAll [7]]%N
               = [[1; 2; 3]; [4; 5; 6]; [7]]%N) by (vm_compute; reflexivity).
  split; [exact Hb|]. split; [vm_compute; reflexivity|].
  intros fr. rewrite Hb. split; [reflexivity|].
  transitivity ((([] ++ fr [1; 2; 3]) ++ fr [4; 5; 6]) ++ fr [7])%N; [reflexivity|].
  rewrite app_nil_l, <- app_assoc. reflexivity.
Qed.
End WR.

(* ============================================================================================
   Format-level async record framing: awaited reads over ANY poll script are a reader in the
   sense of property C12 (NV.Io.ReadExactProofs.simulates), so the read_exact family returns over
   an async source what it returns over a sync one (model: NV.Async.ReadExact).
   ============================================================================================ *)
Module RX.
Import NV.Io.Source NV.Io.ReadExact NV.Io.ReadExactProofs NV.Io.Run NV.Io.RunProofs.
Import NV.Async.ReadExact NV.Async.ReadExactProofs.

(* the generic lemma: `reader.read(buf).await` over every poll script (Pending polls, partial
   transfers of any sizes) behaves like some delivery of the data *)
Theorem c16_awaited_read_is_a_delivery : simulates aread rep_a.
Proof. exact aread_simulates. Qed.
Print Assumptions c16_awaited_read_is_a_delivery.

(* tokio's read_exact over any poll script = std's read_exact over any sync delivery script (incl.
   Interrupted results): same bytes stored, same outcome (Ok / UnexpectedEof), same data left *)
Theorem c16_async_read_exact_equals_sync :
  forall polls (t : source) n,
    let a := mkASource (s_data t) polls in
    let '(ab, ax, a') := read_exact aread (a_fuel a n) a n in
    let '(sb, sx, t') := read_exact src_read (src_fuel t n) t n in
    ab = sb /\ ax = sx /\ a_data a' = s_data t'.
Proof. exact async_read_exact_equals_sync. Qed.
Print Assumptions c16_async_read_exact_equals_sync.

(* the async BAM record framing (noodles-bam async/io/reader/record.rs: read_exact_or_eof on the
   4 size bytes, then take(block_size).read_to_end with reads of ANY sizes [req], then the length
   validation) over any poll script yields, record after record, what the sync framing of C12's
   model (io/reader/record.rs) yields over any sync delivery script: sizes, the clean end (0), and
   UnexpectedEof for a partial size field / short body / inconsistent lengths *)
Theorem c16_async_bam_framing_equals_sync :
  forall polls req (t : source) k,
    fst (a_bam_read_records aread req a_fuel k (mkASource (s_data t) polls))
    = fst (bam_read_records k t).
Proof. exact async_bam_records_equal_sync. Qed.
Print Assumptions c16_async_bam_framing_equals_sync.

(* non-vacuity: a 33-byte record, then a size field cut after 2 bytes; 1-byte transfers with a
   Pending before each for the first 9 polls *)
Example c16_bam_framing_example :
  let body := (repeat 0 8 ++ [1] ++ repeat 0 23 ++ [65])%N in
  let data := ([33; 0; 0; 0] ++ body ++ [7; 0])%N in
  let polls := [PPending; PReady 1; PPending; PReady 1; PPending; PReady 1; PPending; PReady 1; PPending; PReady 3] in
  fst (a_bam_read_records aread (fun _ => 7) a_fuel 4 (mkASource data polls)) = [RecOk 33; RecUnexpectedEof]
  /\ fst (bam_read_records 4 (mkSource data [Interrupted; Deliver 2])) = [RecOk 33; RecUnexpectedEof].
Proof. vm_compute. split; reflexivity. Qed.
End RX.

(* ============================================================================================
   The async line-based readers (gff read_line, fastq read_record, fasta read_sequence) over tokio's
   BufReader (any capacity >= 1) over ANY poll script: models NV.Async.Lines (the awaited source is
   C12's reader [aread]; tokio BufReader / read_until / read_u8 are C12's BufReader model on it).
   Sync side: C12's runners NV.Io.Run over any delivery script and any capacity.
   ============================================================================================ *)
Module LN.
Import NV.Io.Source NV.Io.BufReader NV.Io.FastaScan NV.Io.Run.
Import NV.Async.ReadExact NV.Async.Lines NV.Async.LinesProofs.

(* gff::async::io::Reader::read_line until 0 (read_until(LF), LF / CR LF stripped, blank lines
   skipped): for every data, every poll script [codes] and capacities, the (byte count, line)
   sequence is the one the sync reader yields under every delivery script [sc] (incl. Interrupted) *)
Theorem c16_async_gff_lines_equal_sync :
  forall cap cap' codes sc data, 1 <= cap -> 1 <= cap' ->
    fst (async_gff_case cap codes data) = fst (gff_lines cap' 64 ([], mkSource data sc)).
Proof. exact async_gff_lines_equal_sync. Qed.
Print Assumptions c16_async_gff_lines_equal_sync.

(* fastq async read_record (read_u8 + whole-line read_line + memchr2 split; read_u8 + read_line for
   the plus line) until Ok(0) / the first error: records and ending equal C11's whole-buffer
   read_qfile of the data, hence those of the sync reader (memchr3 window scanner + consume_line)
   under every delivery -- for every data (malformed included), poll script and capacity *)
Theorem c16_async_fastq_records_closed :
  forall cap codes data, 1 <= cap ->
    fst (async_fastq_case cap codes data) = NV.Fasta.Fastq.read_qfile data.
Proof. exact async_fastq_closed. Qed.
Print Assumptions c16_async_fastq_records_closed.

Theorem c16_async_fastq_records_equal_sync :
  forall cap cap' codes sc data, 1 <= cap -> 1 <= cap' ->
    fst (async_fastq_case cap codes data) = fst (run_fastq cap' (mkSource data sc)).
Proof. exact async_fastq_equals_sync. Qed.
Print Assumptions c16_async_fastq_records_equal_sync.

(* the name line alone: whole line + split at the first SP / HT = the sync window scanner *)
Theorem c16_async_fastq_name_line_is_sync :
  forall t, NV.Fasta.Fastq.read_definition (NV.Fasta.Fastq.AT :: t) = inr (Some (a_def_closed t)).
Proof. exact a_def_closed_is_sync. Qed.
Print Assumptions c16_async_fastq_name_line_is_sync.

(* fasta async read_sequence (one loop with has_pending_cr / is_bol carried across fills): for
   every data, poll script and capacity the sequence is the closed form aseq_out on the flat data --
   in particular independent of the poll script and of where the fills fall *)
Theorem c16_async_fasta_sequence_closed :
  forall fx cap codes data, 1 <= cap ->
    exists n st', a_read_sequence aread cap ab_fuel fx (ab_start data codes)
                  = (SOk, aseq_out fx BOL data, n, st').
Proof. exact async_fasta_sequence_closed. Qed.
Print Assumptions c16_async_fasta_sequence_closed.

(* the loop of /repo (fx = false) equals the sync read_sequence whenever no sequence line starts
   with a CR followed by a byte other than LF ... *)
Theorem c16_async_fasta_sequence_equals_sync :
  forall cap cap' codes sc data, 1 <= cap -> 1 <= cap' -> no_bol_cr BOL data = true ->
    snd (fst (fst (a_read_sequence aread cap ab_fuel false (ab_start data codes))))
    = snd (fst (run_read_sequence cap' (mkSource data sc))).
Proof. exact async_fasta_sequence_equals_sync. Qed.
Print Assumptions c16_async_fasta_sequence_equals_sync.

(* ... and differs on "\rA\n" (sync: "A", async: "\rA"): finding async-fasta-bol-cr-kept *)
Theorem c16_async_fasta_bol_cr_refuted :
  exists data,
    snd (fst (fst (a_read_sequence aread 8 ab_fuel false (ab_start data []))))
    <> snd (fst (run_read_sequence 8 (mkSource data []))).
Proof. exact async_fasta_bol_cr_refuted. Qed.
Print Assumptions c16_async_fasta_bol_cr_refuted.

(* with the one-line repair (skip a CR at the beginning of a line, fx = true) the async sequence is
   the sync sequence for ALL data *)
Theorem c16_async_fasta_sequence_fixed_equals_sync :
  forall cap cap' codes sc data, 1 <= cap -> 1 <= cap' ->
    snd (fst (fst (a_read_sequence aread cap ab_fuel true (ab_start data codes))))
    = snd (fst (run_read_sequence cap' (mkSource data sc))).
Proof. exact async_fasta_sequence_fixed_equals_sync. Qed.
Print Assumptions c16_async_fasta_sequence_fixed_equals_sync.

(* the read_line helper of the async sam / vcf / fasta / fastq / gff readers (read_until(LF), pop LF,
   pop CR; fasta read_definition and sam / vcf read_record_buf are this + the sync parser): byte
   count + stripped line = the sync helper's, the source is left right after the line *)
Theorem c16_async_read_line_closed :
  forall cap codes data, 1 <= cap ->
    exists st', read_line aread cap (ab_fuel (ab_start data codes)) (ab_start data codes)
                = (length (take_line LF data), strip_eol (take_line LF data), UOk, st')
      /\ ab_left st' = length data - length (take_line LF data).
Proof. exact async_read_line_closed. Qed.
Print Assumptions c16_async_read_line_closed.

Theorem c16_async_read_line_equals_sync :
  forall cap cap' codes sc data, 1 <= cap -> 1 <= cap' ->
    fst (read_line aread cap (ab_fuel (ab_start data codes)) (ab_start data codes))
    = fst (read_line src_read cap' (sb_fuel ([], mkSource data sc)) ([], mkSource data sc)).
Proof. exact async_read_line_equals_sync. Qed.
Print Assumptions c16_async_read_line_equals_sync.

(* sam / vcf async header::Reader (the '@' / '#' adapter under header_reader() and read_header's
   read_line loop): for every prefix, data, poll script and capacity the raw header lines are those of
   the sync adapter under every delivery, and the reader stops at the same byte: the start of the
   first line that does not begin with the prefix *)
Theorem c16_async_header_lines_closed :
  forall prefix cap codes data, 1 <= cap ->
    async_header_case prefix cap codes data
    = (fst (NV.Io.HeaderRead.hdr_closed (Datatypes.S (length data)) prefix data), UOk,
       length data - length (snd (NV.Io.HeaderRead.hdr_closed (Datatypes.S (length data)) prefix data))).
Proof. exact async_header_lines_closed. Qed.
Print Assumptions c16_async_header_lines_closed.

Theorem c16_async_header_lines_equal_sync :
  forall prefix cap cap' codes sc data, 1 <= cap -> 1 <= cap' ->
    fst (fst (async_header_case prefix cap codes data))
    = fst (fst (fst (fst (run_header prefix cap' (mkSource data sc))))).
Proof. exact async_header_lines_equal_sync. Qed.
Print Assumptions c16_async_header_lines_equal_sync.

(* non-vacuity: CR LF split over fills, a CR in mid-line, '>' in mid-line, a final CR; capacity 2,
   1-byte transfers with Pending polls *)
Example c16_async_lines_example :
  let data := [65; 67; 13; 10; 71; 13; 84; 62; 10; 13; 10; 65; 13]%N in
  let codes := [0; 2; 0; 2; 2; 0; 0; 2] in
  snd (fst (fst (a_read_sequence aread 2 ab_fuel false (ab_start data codes)))) = [65; 67; 71; 13; 84; 62; 65]%N
  /\ no_bol_cr BOL data = true
  /\ fst (async_gff_case 3 codes [10; 35; 97; 13; 10; 9; 10; 98]%N) = [(4, [35; 97]%N); (1, [98]%N)].
Proof. vm_compute. repeat split; reflexivity. Qed.
End LN.

(* ============================================================================================
   The write loops between the async writers and their sink (model NV.Async.WriteAll): tokio's
   write_all (every async text writer) and tokio-util's FramedWrite (the async BGZF writer), over a
   sink that accepts any number >= 1 of the offered bytes per Ready poll and returns Pending at will.
   ============================================================================================ *)
Module WL.
Import NV.Async.WriteAll NV.Async.WriteAllProofs.

(* one write_all: never fails, the sink receives exactly the buffer, after what it held; every
   Ready poll accepted between 1 and the offered number of bytes *)
Theorem c16_write_all_any_partial_write_script :
  forall fuel s buf, length buf < fuel ->
    exists p lg, write_all_loop fuel s buf = (WOk, mkASink (k_bytes s ++ buf) p (k_log s ++ lg))
      /\ fold_right (fun x acc => snd x + acc) 0 lg = length buf
      /\ Forall (fun x => 0 < snd x <= fst x) lg.
Proof. exact write_all_loop_spec. Qed.
Print Assumptions c16_write_all_any_partial_write_script.

(* a whole writer run = any sequence of write_all calls: the sink holds the concatenation of the
   buffers -- the bytes the sync writer (same encoder calls, io::Write::write_all) hands its sink *)
Theorem c16_async_text_writer_sink_equals_encoded_bytes :
  forall bufs s, exists p lg,
    write_calls s bufs = (WOk, mkASink (k_bytes s ++ concat bufs) p (k_log s ++ lg)).
Proof. exact write_calls_spec. Qed.
Print Assumptions c16_async_text_writer_sink_equals_encoded_bytes.

(* FramedWrite: for every backpressure boundary, every interleaving of start_send / flush and every
   partial-write script, close leaves the buffer empty and the sink holding the frames in order *)
Theorem c16_framed_write_any_partial_write_script :
  forall boundary ops st, exists st',
    fw_close boundary st ops = (WOk, st') /\ fw_buf st' = []
    /\ k_bytes (fw_sink st') = k_bytes (fw_sink st) ++ fw_buf st ++ frames_of ops.
Proof. exact fw_close_spec. Qed.
Print Assumptions c16_framed_write_any_partial_write_script.

Example c16_write_all_example :
  async_write_case [0; 2; 0; 0; 3; 1] [1; 3; 2] [62; 115; 113; 48; 10; 65]%N
  = (WOk, [62; 115; 113; 48; 10; 65]%N, [(1, 1); (3, 2); (1, 1); (2, 2)]).
Proof. vm_compute. reflexivity. Qed.
End WL.

(* ============================================================================================
   Async BCF record framing (noodles-bcf async/io/reader/record.rs: read_exact_or_eof on l_shared,
   read_u32_le on l_indiv, take(len).read_to_end for the site and the sample bytes, Fields::index in
   between) over ANY poll script = C13's model of the sync framing (NV.Trunc.Stream.bcf_read_record,
   source ending cleanly) on the data: model NV.Async.BcfFraming.
   ============================================================================================ *)
Module BF.
Import NV.Io.Source NV.Async.ReadExact NV.Async.BcfFraming NV.Async.BcfFramingProofs.

(* one record: same outcome (record bytes / clean end / UnexpectedEof / the indexer's error), and
   after a record the reader stands where the sync reader stands *)
Theorem c16_async_bcf_record_equals_sync :
  forall polls req site_ok d,
    exists s', a_bcf_read_record aread req site_ok a_fuel (mkASource d polls)
               = (bres_of (NV.Trunc.Stream.bcf_read_record site_ok NV.Trunc.Stream.Eof d), s')
      /\ match NV.Trunc.Stream.bcf_read_record site_ok NV.Trunc.Stream.Eof d with
         | NV.Trunc.Stream.Item _ rest => a_data s' = rest
         | NV.Trunc.Stream.Stop _ => True
         end.
Proof.
  intros polls req site_ok d.
  destruct (a_bcf_read_record_spec aread NV.Async.ReadExactProofs.rep_a NV.Async.ReadExactProofs.aread_simulates
              req site_ok a_fuel NV.Async.ReadExactProofs.rep_a_fuel (mkASource d polls) d 0
              (NV.Async.ReadExactProofs.rep_a_mk d polls)) as [s' [E H]].
  exists s'. split; [exact E|].
  destruct (NV.Trunc.Stream.bcf_read_record site_ok NV.Trunc.Stream.Eof d) as [x rest|st]; [|exact I].
  destruct H as [m' [[Hd _] _]]. exact Hd.
Qed.
Print Assumptions c16_async_bcf_record_equals_sync.

(* the whole stream: for every poll script, every read_to_end request size [req] and every site
   indexer, the records and the ending are those of the sync framing *)
Theorem c16_async_bcf_framing_equals_sync :
  forall polls req site_ok data,
    fst (a_bcf_read_records aread req site_ok a_fuel (Datatypes.S (length data)) (mkASource data polls))
    = NV.Trunc.Stream.read_stream (NV.Trunc.Stream.bcf_read_record site_ok NV.Trunc.Stream.Eof) data.
Proof. exact async_bcf_records_equal_sync. Qed.
Print Assumptions c16_async_bcf_framing_equals_sync.

(* non-vacuity: l_shared = 3, l_indiv = 2, then a second record cut inside its sample bytes *)
Example c16_async_bcf_framing_example :
  let data := [3; 0; 0; 0; 2; 0; 0; 0; 9; 9; 9; 8; 8; 1; 0; 0; 0; 4; 0; 0; 0; 7; 6]%N in
  async_bcf_case [0; 2; 0; 3; 2; 2; 0; 0; 6] 3 data = (1, 1)%N /\ sync_bcf_case data = (1, 1)%N.
Proof. vm_compute. split; reflexivity. Qed.
End BF.

(* ============================================================================================
   The async lazy SAM / VCF record readers (read the whole line with read_until / read_line, then
   run the SYNC field scanner over the line as a slice): model NV.Async.Tab.  The sync scanner never
   looks past the first LF (w_sam_local / w_vcf_local), so line-then-scan = scan-on-the-source.
   ============================================================================================ *)
Module TB.
Import NV.Io.Source NV.Io.BufReader NV.Io.TabRead NV.Io.Run.
Import NV.Async.ReadExact NV.Async.Lines NV.Async.Tab NV.Async.TabProofs.

(* C12's closed form of the sync lazy SAM reader depends on the first line only and leaves the
   reader right after it -- for every input *)
Theorem c16_sam_scanner_stays_in_line :
  forall d,
    w_sam_read_record d
    = (fst (fst (fst (w_sam_read_record (take_line LF d)))), snd (fst (fst (w_sam_read_record (take_line LF d)))),
       snd (fst (w_sam_read_record (take_line LF d))), skipn (length (take_line LF d)) d).
Proof. exact w_sam_local. Qed.
Print Assumptions c16_sam_scanner_stays_in_line.

(* sam::async::io::Reader::read_record until Ok(0) / the first error: for EVERY data (short lines,
   blank lines, CRs anywhere), poll script and capacities, every call returns the io result, record
   buffer and field bounds the sync reader returns under every delivery script (the record left
   behind by the final Ok(0) call is not compared: sync clears it, async does not touch it) *)
Theorem c16_async_sam_lazy_records_equal_sync :
  forall cap cap' codes sc data, 1 <= cap -> 1 <= cap' ->
    map tab_norm (fst (a_run_sam_records cap (ab_start data codes)))
    = map tab_norm (fst (run_sam_records cap' (mkSource data sc))).
Proof. exact async_sam_records_equal_sync. Qed.
Print Assumptions c16_async_sam_lazy_records_equal_sync.

(* the same for vcf::async::io::Reader::read_record on ASCII data (with multi-byte characters the
   SYNC reader itself depends on the delivery: C12's class vcf-record-field-utf8-split-capacity-
   dependent, c12_vcf_read_record_refuted) *)
Theorem c16_async_vcf_lazy_records_equal_sync :
  forall cap cap' codes sc data, 1 <= cap -> 1 <= cap' -> ascii data = true ->
    map tab_norm (fst (a_run_vcf_records cap (ab_start data codes)))
    = map tab_norm (fst (run_vcf_records cap' (mkSource data sc))).
Proof. exact async_vcf_records_equal_sync. Qed.
Print Assumptions c16_async_vcf_lazy_records_equal_sync.

(* non-vacuity: a full 11-field SAM line with CR LF, then a short line; 1-byte transfers, capacity 2 *)
Example c16_async_sam_lazy_example :
  let line := [113; 9; 52; 9; 42; 9; 48; 9; 48; 9; 42; 9; 42; 9; 48; 9; 48; 9; 65; 9; 73; 13; 10]%N in
  let data := (line ++ [120; 9; 121; 10])%N in
  map (fun x => fst (fst x)) (fst (a_run_sam_records 2 (ab_start data [2; 0; 2; 2; 0; 0; 2])))
  = [NV.Text.TextBase.Ok 23; NV.Text.TextBase.Err NV.Text.TextBase.InvalidData].
Proof. vm_compute. reflexivity. Qed.
End TB.

(* ============================================================================================
   The async CRAM container framing (noodles-cram async/io/reader/num/{itf8,ltf8}.rs with their i32 /
   i64 bit arithmetic and byte-by-byte awaited reads, reader/container/header.rs, reader/container.rs
   and the CrcReader) against the sync framing (grouped reads, masks on a big-endian integer:
   NV.Cram.Itf8 / NV.Cram.Ltf8; C19's read program of the sync reader).  Model: NV.Async.CramFraming.
   ============================================================================================ *)
Module CF.
Import NV.Io.Source NV.Io.ReadExact NV.Io.Run NV.Async.ReadExact.
Import NV.Cram.Itf8 NV.Cram.Ltf8 NV.Trunc.Stream NV.Trunc.Cram NV.CramIdx.AsyncQuery NV.CramIdx.AsyncQueryProofs.
Import NV.Async.CramFraming NV.Async.CramFramingProofs.

(* async read_itf8: whichever arm its bit tests select, the i32 its shifts and ors compute from
   the bytes it read is the value the sync read_itf8 returns on those bytes (and on any longer
   input that starts with them) *)
Theorem c16_async_itf8_value_is_sync :
  forall b0 t ext, (b0 < 256)%N -> bytes t -> length t = a_itf8_class b0 ->
    read_itf8 ((b0 :: t) ++ ext) = Some (i32_of_u32 (a_itf8_u32 b0 t), ext).
Proof. exact a_itf8_is_read_itf8. Qed.
Print Assumptions c16_async_itf8_value_is_sync.

Theorem c16_async_ltf8_value_is_sync :
  forall b0 t ext, (b0 < 256)%N -> bytes t -> length t = a_ltf8_class b0 ->
    read_ltf8 ((b0 :: t) ++ ext) = Some (i64_of_u64 (a_ltf8_u64 b0 t), ext).
Proof. exact a_ltf8_is_read_ltf8. Qed.
Print Assumptions c16_async_ltf8_value_is_sync.

(* one async read_container call (header fields, CRC check, EOF-container test, body through
   take + read_to_end) over ANY poll script and any read_to_end request sizes: the result -- header,
   body, EOF flag or the error kind -- and the data left behind are those of the sync reader's
   program on the bytes *)
Theorem c16_async_cram_read_container_closed :
  forall crc polls req data, bytes data ->
    exists s',
      run_rd aread req a_fuel (ap_read_container crc) (mkASource data polls)
      = (rr_of (run_pure (p_read_container crc false) data), s')
      /\ (forall a r, run_pure (p_read_container crc false) data = POk a r -> a_data s' = r).
Proof. exact async_cram_read_container_closed. Qed.
Print Assumptions c16_async_cram_read_container_closed.

(* the container stream (read_container until the EOF container or the first error): async over
   every poll script = sync over every delivery script (chunking, Interrupted results): the same
   containers -- every header field and the body bytes -- and the same ending *)
Theorem c16_async_cram_containers_equal_sync :
  forall crc polls req req' (t : source) fuel, bytes (s_data t) ->
    fst (containers_rd aread req a_fuel (ap_read_container crc) fuel (mkASource (s_data t) polls))
    = fst (containers_rd src_read req' src_fuel (p_read_container crc false) fuel t).
Proof. exact async_cram_containers_equal_sync. Qed.
Print Assumptions c16_async_cram_containers_equal_sync.

(* non-vacuity: the 5-byte ITF8 form of -1 with a dirty high nibble, a 9-byte LTF8, and the EOF
   container read with 1-byte transfers *)
Example c16_async_cram_framing_example :
  i32_of_u32 (a_itf8_u32 255 [255; 255; 255; 175]%N) = Zneg 1%positive
  /\ i64_of_u64 (a_ltf8_u64 255 [255; 255; 255; 255; 255; 255; 255; 254]%N) = Zneg 2%positive
  /\ async_cram_case [0; 2; 0; 2; 2; 2]%nat 7%nat
       [15; 0; 0; 0; 255; 255; 255; 255; 15; 224; 69; 79; 70; 0; 0; 0; 0; 1; 0; 5; 189; 217; 79; 0; 1; 0; 6; 6;
        1; 0; 1; 0; 1; 0; 238; 99; 1; 75]%N = ([], 0%N).
Proof. vm_compute. repeat split; reflexivity. Qed.
End CF.

(* ---- C16: the async index writers hand the sink exactly the bytes of the sync index writers ----
   Append to coq/props/C16.v (the Require line is legal at top level between modules).
   NV.Async.IndexWrite models each async index writer of noodles (gzi, BAI, CSI, tabix) as the list
   of buffers it passes to tokio's write_all / write_u32_le / write_i32_le / write_u64_le / write_u8,
   in order, and the way it ends (Ok / InvalidInput / panic), over C17's index values; C17's
   NV.Index.Layout / NV.Index.CsiLayout give the SYNC writers' bytes (w_gzi, w_bai, w_csi_bytes,
   w_tbi_bytes) and results (csi_status, tbi_status).  For CSI / tabix the sink of these calls is
   the async BGZF writer (module WR): the bytes are the uncompressed payload handed to it. *)
From NV Require Index.Layout Index.CsiLayout Async.IndexWrite Async.IndexWriteProofs.

Module IW.
Import NV.Index.Layout NV.Index.CsiLayout.
Import NV.Async.WriteAll NV.Async.WriteAllProofs NV.Async.IndexWrite NV.Async.IndexWriteProofs.

(* gzi: the writer cannot fail; for every partial-write / Pending script of the sink the write
   loops succeed and leave exactly C17's gzi layout in the sink *)
Theorem c16_async_gzi_writer_sink_equals_sync_bytes :
  forall idx script, exists p lg,
    write_calls (mkASink [] script []) (aw_calls (async_gzi idx))
      = (NV.Async.WriteAll.WOk, mkASink (w_gzi idx) p lg)
    /\ aw_end (async_gzi idx) = SOk.
Proof. exact async_gzi_writer_sink_equals_sync_bytes. Qed.
Print Assumptions c16_async_gzi_writer_sink_equals_sync_bytes.

(* BAI: for every script the write loops never fail; the sink holds exactly w_bai i when the
   writer ends Ok, and a prefix of it (the calls made before the failing conversion) otherwise;
   the writer ends like the sync one (InvalidInput at the first bin id that is not a u32) for
   every index whose element counts fit their u32 count fields *)
Theorem c16_async_bai_writer_sink_equals_sync_bytes :
  forall i script, exists sink p lg,
    write_calls (mkASink [] script []) (aw_calls (async_bai i))
      = (NV.Async.WriteAll.WOk, mkASink sink p lg)
    /\ (aw_end (async_bai i) = SOk -> sink = w_bai i)
    /\ (exists rest, w_bai i = sink ++ rest)
    /\ (bai_fits i = true -> aw_end (async_bai i) = bai_status i).
Proof. exact async_bai_writer_sink_equals_sync_bytes. Qed.
Print Assumptions c16_async_bai_writer_sink_equals_sync_bytes.

(* CSI (the repaired writer: n_ref is written, the per-bin loffset is the ancestor-chain minimum
   stored_loffset): the same, against C17's w_csi_bytes / csi_status (header errors and panics,
   bin ids that are not u32, Bin::metadata_id(depth > 10) panicking) *)
Theorem c16_async_csi_writer_sink_equals_sync_bytes :
  forall i script, exists sink p lg,
    write_calls (mkASink [] script []) (aw_calls (async_csi i))
      = (NV.Async.WriteAll.WOk, mkASink sink p lg)
    /\ (aw_end (async_csi i) = SOk -> sink = w_csi_bytes i)
    /\ (exists rest, w_csi_bytes i = sink ++ rest)
    /\ (csi_fits i = true -> aw_end (async_csi i) = csi_status i).
Proof. exact async_csi_writer_sink_equals_sync_bytes. Qed.
Print Assumptions c16_async_csi_writer_sink_equals_sync_bytes.

(* tabix (the async writer has its own field-by-field copy of the header writer) *)
Theorem c16_async_tbi_writer_sink_equals_sync_bytes :
  forall i script, exists sink p lg,
    write_calls (mkASink [] script []) (aw_calls (async_tbi i))
      = (NV.Async.WriteAll.WOk, mkASink sink p lg)
    /\ (aw_end (async_tbi i) = SOk -> sink = w_tbi_bytes i)
    /\ (exists rest, w_tbi_bytes i = sink ++ rest)
    /\ (tbi_fits i = true -> aw_end (async_tbi i) = tbi_status i).
Proof. exact async_tbi_writer_sink_equals_sync_bytes. Qed.
Print Assumptions c16_async_tbi_writer_sink_equals_sync_bytes.

(* in C17's own terms: whenever C17's sync writer result is `WOk bs`, the sink ends up holding bs *)
Theorem c16_async_csi_writer_sink_holds_c17_result :
  forall i script bs, csi_fits i = true -> w_csi i = NV.Index.CsiLayout.WOk bs ->
    exists p lg, write_calls (mkASink [] script []) (aw_calls (async_csi i))
                 = (NV.Async.WriteAll.WOk, mkASink bs p lg).
Proof. exact async_csi_writer_ok_sink. Qed.
Print Assumptions c16_async_csi_writer_sink_holds_c17_result.

Theorem c16_async_tbi_writer_sink_holds_c17_result :
  forall i script bs, tbi_fits i = true -> w_tbi i = NV.Index.CsiLayout.WOk bs ->
    exists p lg, write_calls (mkASink [] script []) (aw_calls (async_tbi i))
                 = (NV.Async.WriteAll.WOk, mkASink bs p lg).
Proof. exact async_tbi_writer_ok_sink. Qed.
Print Assumptions c16_async_tbi_writer_sink_holds_c17_result.

(* non-vacuity: a BAI index with a bin, the metadata pseudo-bin, an interval and n_no_coor: 16
   write calls, Ok, C17's layout *)
Example c16_index_writer_example :
  let i := mkbai [mkbref [(4681, [(1, 2)])]%N (Some (mkmeta 3 4 5 6)) [7%N]] (Some 9%N) in
  bai_fits i = true /\ aw_end (async_bai i) = SOk
  /\ aw_lens (async_bai i) = [4; 4; 4; 4; 4; 8; 8; 4; 4; 8; 8; 8; 8; 4; 8; 8]%nat
  /\ aw_bytes (async_bai i) = w_bai i.
Proof. vm_compute. repeat split; reflexivity. Qed.

(* ... and the failing side: the second bin id is not a u32 -- InvalidInput like the sync writer,
   after magic, n_ref, n_bin and the whole first bin were handed over *)
Example c16_index_writer_error_example :
  let i := mkbai [mkbref [(1, []); (4294967296, [])]%N None []] None in
  bai_fits i = true /\ aw_end (async_bai i) = SErr /\ bai_status i = SErr
  /\ aw_lens (async_bai i) = [4; 4; 4; 4; 4]%nat
  /\ w_bai i = aw_bytes (async_bai i) ++ [0; 0; 0; 0; 0; 0; 0; 0; 0; 0; 0; 0]%N.
Proof. vm_compute. repeat split; reflexivity. Qed.

(* CSI: a header-less index of depth 11 with a metadata pseudo-bin panics in both writers, after
   the bins of that reference sequence *)
Example c16_csi_writer_panic_example :
  let i := mkcsi 14%N 11%nat None [mkcref [(0, [(1, 2)])]%N [(0, 5)]%N (Some (mkmeta 3 4 5 6))] None in
  csi_fits i = true /\ aw_end (async_csi i) = SPanic /\ csi_status i = SPanic.
Proof. vm_compute. repeat split; reflexivity. Qed.
End IW.

From NV Require Index.Layout Async.IndexRead Async.IndexReadProofs.

(* ============================================================================================
   The binary index readers (GZI, BAI), sync and async, as read programs (NV.Async.IndexRead):
   every read program over every poll script = over every sync delivery script = on the bytes;
   the real readers written field by field and tied to C17's whole-buffer parsers; the two
   places where the async reader does NOT behave like the sync one are stated exactly and refuted
   as equalities (GZI: Vec::with_capacity(count) panics for count >= 2^59; BAI: the end of the data
   inside a bin / a chunk count >= 2^31 is InvalidData in the sync reader, UnexpectedEof in the
   async one).
   ============================================================================================ *)
Module IX.
Import NV.Io.Source NV.Io.ReadExact NV.Io.ReadExactProofs NV.Io.Run NV.Io.RunProofs.
Import NV.Async.ReadExact NV.Async.ReadExactProofs.
Import NV.Trunc.Stream NV.Trunc.Cram NV.CramIdx.AsyncQuery NV.CramIdx.AsyncQueryProofs.
Import NV.Async.IndexRead NV.Async.IndexReadProofs.

(* ANY read program (read_exact / take + read_to_end steps with arbitrary continuations), ANY poll
   script, ANY read_to_end request sizes on either side, ANY sync delivery script (incl.
   Interrupted): both runs return the value / error kind the program has on the bytes, and leave
   the same bytes unread *)
Theorem c16_async_prog_equals_sync :
  forall (A : Type) (p : prog A) polls req req' script d,
  exists a' t',
    run_rd aread req a_fuel p (mkASource d polls) = (rr_of (run_pure p d), a')
    /\ run_rd src_read req' src_fuel p (mkSource d script) = (rr_of (run_pure p d), t')
    /\ (forall v rest, run_pure p d = POk v rest -> a_data a' = rest /\ s_data t' = rest).
Proof. exact async_prog_equals_sync. Qed.
Print Assumptions c16_async_prog_equals_sync.

(* the loops over a count of the file are iterated on the binary count in the model; that is
   `for _ in 0..n` *)
Theorem c16_index_loop_is_the_unary_loop :
  forall (St : Type) (body : St -> prog St) n s,
    peq (ix_iter body n s) (ix_iter_nat body (N.to_nat n) s).
Proof. exact ix_iter_nat_eq. Qed.
Print Assumptions c16_index_loop_is_the_unary_loop.

(* a read_exact whose UnexpectedEof is caught by the caller, written as take + length test in the
   model, is a plain read_exact when the error is handed on *)
Theorem c16_index_caught_read_exact :
  forall (A : Type) n (k : N -> prog A), peq (ix_le_as UnexpectedEof n k) (ix_le n k).
Proof. exact ix_le_as_eof. Qed.
Print Assumptions c16_index_caught_read_exact.

(* GZI.  The reader program (one for both sides since /repo f641783) against C17's whole-buffer
   parser: it returns an index exactly when read_gzi accepts (nothing left unread), the same one *)
Theorem c16_gzi_program_is_read_gzi :
  forall d,
    match run_pure (p_gzi false) d with
    | POk (GIndex l) r => NV.Index.Layout.read_gzi d = Some l /\ r = []
    | PErr _ => NV.Index.Layout.read_gzi d = None
    end.
Proof. exact gzi_link. Qed.
Print Assumptions c16_gzi_program_is_read_gzi.

(* for EVERY byte string (every count field), the async GZI reader under every poll script
   returns what the sync reader returns under every delivery script: the same index or the same
   error kind *)
Theorem c16_async_gzi_reader_equals_sync :
  forall polls req req' script d,
    fst (run_rd aread req a_fuel (p_gzi true) (mkASource d polls))
    = fst (run_rd src_read req' src_fuel (p_gzi false) (mkSource d script)).
Proof. exact async_gzi_reader_equals_sync. Qed.
Print Assumptions c16_async_gzi_reader_equals_sync.

(* ... and it returns an index exactly when C17's read_gzi does, the same one *)
Theorem c16_async_gzi_reader_is_read_gzi :
  forall polls req d l,
    (fst (run_rd aread req a_fuel (p_gzi true) (mkASource d polls)) = RVal (GIndex l)
     <-> NV.Index.Layout.read_gzi d = Some l).
Proof. exact async_gzi_reader_link. Qed.
Print Assumptions c16_async_gzi_reader_is_read_gzi.

(* the former counter-example (finding async-gzi-reader-count-capacity-overflow-panic, repaired
   by f641783): 8 bytes holding the count 2^59 are UnexpectedEof on both sides *)
Theorem c16_async_gzi_reader_huge_count_now_equal :
  forall polls req req' script,
    fst (run_rd aread req a_fuel (p_gzi true) (mkASource [0; 0; 0; 0; 0; 0; 0; 8]%N polls)) = RErr UnexpectedEof
    /\ fst (run_rd src_read req' src_fuel (p_gzi false) (mkSource [0; 0; 0; 0; 0; 0; 0; 8]%N script))
       = RErr UnexpectedEof.
Proof. exact async_gzi_reader_huge_count_now_equal. Qed.
Print Assumptions c16_async_gzi_reader_huge_count_now_equal.

(* BAI.  The reader program returns an index exactly when C17's read_bai accepts, the same *)
Theorem c16_bai_program_is_read_bai :
  forall d,
    NV.Index.Layout.read_bai d
    = match run_pure (p_bai true) d with POk i _ => Some i | PErr _ => None end.
Proof. exact bai_link. Qed.
Print Assumptions c16_bai_program_is_read_bai.

(* for EVERY byte string, under every poll script and every delivery script, the two BAI readers
   return the same index or the same error kind (repaired by d76b74b: the sync reader keeps the
   kind of an I/O error inside a bin, the async reader reads n_chunk as an i32) *)
Theorem c16_async_bai_reader_equals_sync :
  forall polls req req' script d,
    fst (run_rd aread req a_fuel (p_bai false) (mkASource d polls))
    = fst (run_rd src_read req' src_fuel (p_bai true) (mkSource d script)).
Proof. exact async_bai_reader_equals_sync. Qed.
Print Assumptions c16_async_bai_reader_equals_sync.

(* the async reader returns an index exactly when C17's read_bai accepts the file, the same one *)
Theorem c16_async_bai_reader_is_read_bai :
  forall polls req d i,
    (fst (run_rd aread req a_fuel (p_bai false) (mkASource d polls)) = RVal i
     <-> NV.Index.Layout.read_bai d = Some i).
Proof. exact async_bai_reader_link. Qed.
Print Assumptions c16_async_bai_reader_is_read_bai.

(* the former counter-examples (findings async-bai-reader-error-kind-differs and
   async-bai-reader-negative-chunk-count-error-kind-differs): a file cut inside the chunk count of
   a bin is UnexpectedEof, a chunk count of 0x80000000 is InvalidData, on both sides *)
Theorem c16_async_bai_reader_former_differences_now_equal :
  forall polls req req' script,
    fst (run_rd aread req a_fuel (p_bai false) (mkASource bai_cut_in_bin polls)) = RErr UnexpectedEof
    /\ fst (run_rd src_read req' src_fuel (p_bai true) (mkSource bai_cut_in_bin script)) = RErr UnexpectedEof
    /\ fst (run_rd aread req a_fuel (p_bai false) (mkASource bai_negative_n_chunk polls)) = RErr InvalidData
    /\ fst (run_rd src_read req' src_fuel (p_bai true) (mkSource bai_negative_n_chunk script)) = RErr InvalidData.
Proof. exact async_bai_reader_former_differences_now_equal. Qed.
Print Assumptions c16_async_bai_reader_former_differences_now_equal.

(* non-vacuity: one reference with bin 5 (one chunk), the metadata pseudo-bin, two intervals and
   n_no_coor = 9; 1-byte transfers with a Pending before each for the first polls, then 3-byte ones *)
Example c16_index_reader_example :
  let le4 := NV.Base.LE.le32 in
  let le8 := NV.Base.LE.le64 in
  let data := ([66; 65; 73; 1] ++ le4 1 ++ le4 2
               ++ le4 5 ++ le4 1 ++ le8 100 ++ le8 200
               ++ le4 37450 ++ le4 2 ++ le8 100 ++ le8 200 ++ le8 7 ++ le8 0
               ++ le4 2 ++ le8 100 ++ le8 150 ++ le8 9)%N in
  let idx := NV.Index.Layout.mkbai
               [NV.Index.Layout.mkbref [(5, [(100, 200)])] (Some (NV.Index.Layout.mkmeta 100 200 7 0)) [100; 150]]
               (Some 9)%N in
  let polls := [PPending; PReady 1; PPending; PReady 1; PPending; PReady 1; PReady 3; PReady 3; PPending; PReady 3] in
  async_bai_run [0; 2; 0; 2; 4; 4; 0; 4]%nat 8%nat data = RVal idx
  /\ async_bai_case [0; 2; 0; 2; 4; 4; 0; 4]%nat 8%nat data = IxVal (bai_flatten idx)
  /\ fst (run_rd aread (fun _ => 5%nat) a_fuel (p_bai false) (mkASource data polls)) = RVal idx
  /\ sync_bai_run data = RVal idx
  /\ NV.Index.Layout.read_bai data = Some idx
  /\ NV.Index.Layout.w_bai idx = data
  /\ async_gzi_run [0; 2; 3]%nat 8%nat (le8 1 ++ le8 4668 ++ le8 21294)%N = RVal (GIndex [(4668, 21294)%N])
  /\ sync_gzi_case (le8 1 ++ le8 4668 ++ le8 21294)%N = IxVal [(4668, 21294)%N].
Proof. vm_compute. repeat split; reflexivity. Qed.
End IX.

(* ============================================================================================
   The async FASTA reader as a record stream (read_definition + read_sequence alternately over
   tokio's BufReader): C12 has no closed form for where read_sequence leaves the reader; seq_rest is
   it, and with it the whole stream has a closed form on the flat data (NV.Async.FastaRecords).
   ============================================================================================ *)
From NV Require Async.FastaRecords Async.FastaRecordsProofs Async.FastaRecordsSync Async.FastaRecordsSyncProofs Fasta.Reader.
Module FR.
Import NV.Io.Source NV.Io.BufReader NV.Io.BufReaderProofs NV.Io.FastaScan.
Import NV.Async.ReadExact NV.Async.ReadExactProofs NV.Async.Lines NV.Async.FastaRecords NV.Async.FastaRecordsProofs.
Import NV.Async.FastaRecordsSync NV.Async.FastaRecordsSyncProofs.

(* one async read_sequence call, for every capacity >= 1 and every poll script: it returns the
   sync sequence (C12's seq_out) AND leaves the reader exactly at seq_rest: the first '>' that
   stands at the beginning of a line (CRs before it consumed), or the end of the data *)
Theorem c16_async_fasta_sequence_leaves_reader_at_next_definition :
  forall cap codes data, 1 <= cap ->
    exists n st', a_read_sequence aread cap ab_fuel true (ab_start data codes) = (SOk, seq_out BOL data, n, st')
                  /\ rep_buf rep_a st' (seq_rest BOL data) 0.
Proof. exact async_fasta_sequence_rest. Qed.
Print Assumptions c16_async_fasta_sequence_leaves_reader_at_next_definition.

(* the whole record stream (names, descriptions, sequences, the final InvalidData or clean end)
   is the closed form on the flat data: independent of the BufReader capacity and the poll script *)
Theorem c16_async_fasta_records_closed :
  forall cap codes data, 1 <= cap ->
    fst (async_fasta_records_case cap codes data) = closed_fasta_records_case data.
Proof. exact async_fasta_records_closed. Qed.
Print Assumptions c16_async_fasta_records_closed.

(* the closed form never runs out of fuel *)
Theorem c16_fasta_records_closed_total :
  forall data, snd (closed_fasta_records_case data) <> FNoFuel.
Proof. intros data. apply fasta_records_closed_fuel. apply Nat.lt_succ_diag_r. Qed.
Print Assumptions c16_fasta_records_closed_total.

(* the SYNC record stream -- Records::next: C12's read_line + parse_definition, then C12's model of
   the sync sequence::Reader read to its end (NV.Io.FastaScan.read_sequence) -- under EVERY delivery
   script (chunking, Interrupted) and capacity: the same closed form; the sync read_sequence also
   leaves the reader at seq_rest (read_sequence_rest) *)
Theorem c16_sync_fasta_records_closed :
  forall cap sc data, 1 <= cap ->
    sync_fasta_records_run cap (mkSource data sc) = closed_fasta_records_case data.
Proof. exact sync_fasta_records_closed. Qed.
Print Assumptions c16_sync_fasta_records_closed.

(* async = sync: the same names, descriptions, sequences and ending *)
Theorem c16_async_fasta_records_equal_sync :
  forall cap cap' codes sc data, 1 <= cap -> 1 <= cap' ->
    fst (async_fasta_records_case cap codes data) = sync_fasta_records_run cap' (mkSource data sc).
Proof. exact async_fasta_records_equal_sync. Qed.
Print Assumptions c16_async_fasta_records_equal_sync.

(* NOT proved (compared on every generated case by kind afar): the closed form is also what C11's
   LINE-driven model of the sync reader returns (NV.Fasta.Reader.read_file) *)
Definition c16_fasta_records_closed_is_c11_read_file_full_statement : Prop :=
  forall data,
    fst (closed_fasta_records_case data) = fst (NV.Fasta.Reader.read_file data)
    /\ (snd (closed_fasta_records_case data) = FInvalidData
        <-> snd (NV.Fasta.Reader.read_file data) = Some NV.Fasta.Reader.RInvalidData).

(* non-vacuity: two records, CR LF line ends, a CR before the second '>', 1-byte transfers *)
Example c16_async_fasta_records_example :
  let data := [62; 97; 32; 120; 13; 10; 65; 67; 13; 10; 13; 62; 98; 10; 71]%N in
  fst (async_fasta_records_case 2 [0; 2; 0; 2; 2; 2; 2] data)
  = ([NV.Fasta.Reader.mkfrec [97]%N (Some [120]%N) [65; 67]%N; NV.Fasta.Reader.mkfrec [98]%N None [71]%N], FEnd)
  /\ fst (NV.Fasta.Reader.read_file data)
     = [NV.Fasta.Reader.mkfrec [97]%N (Some [120]%N) [65; 67]%N; NV.Fasta.Reader.mkfrec [98]%N None [71]%N].
Proof. vm_compute. split; reflexivity. Qed.
End FR.

(* ============================================================================================
   The async CSI and tabix index readers as read programs over C12's NV.Io.Prog (model:
   NV.Async.CsiRead), against C17's whole-buffer models of the sync readers (NV.Index.CsiLayout).
   ============================================================================================ *)
From NV Require Io.Prog Io.ProgProofs Async.CsiRead Async.CsiReadProofs Index.CsiLayout.
Module IC.
Import NV.Io.Source NV.Io.ReadExact NV.Io.Run NV.Io.Prog NV.Async.ReadExact.
Import NV.Async.CsiRead NV.Async.CsiReadProofs.

(* the generic lemma for C12's program language: a read program without read_until (read_exact loops
   and take + read_to_end with arbitrary request sizes), run over the awaited source under ANY poll
   script and over the scripted sync source under any delivery script, returns what it returns on
   the bytes *)
Theorem c16_async_io_prog_equals_sync :
  forall (A : Type) (p : prog A), until_free p ->
  forall polls req req' script d,
    fst (run_raw aread req a_fuel p (mkASource d polls)) = fst (run_pure p d)
    /\ fst (run_raw src_read req' src_fuel p (mkSource d script)) = fst (run_pure p d).
Proof. exact async_ioprog_equals_sync. Qed.
Print Assumptions c16_async_io_prog_equals_sync.

(* the async CSI / tabix readers: what they return does not depend on the poll script *)
Theorem c16_async_csi_reader_poll_indep :
  forall codes chunk payload, async_csi_case codes chunk payload = opt_rr (fst (run_pure a_csi payload)).
Proof. exact async_csi_case_closed. Qed.
Print Assumptions c16_async_csi_reader_poll_indep.

Theorem c16_async_tbi_reader_poll_indep :
  forall codes chunk payload, async_tbi_case codes chunk payload = opt_rr (fst (run_pure a_tbi payload)).
Proof. exact async_tbi_case_closed. Qed.
Print Assumptions c16_async_tbi_reader_poll_indep.

(* the async CSI reader (every ordinary bin's loffset stored, also a loffset of 0; metadata pseudo-bin
   by depth; optional n_no_coor) returns an index exactly when C17's model of the SYNC reader does,
   the same index field by field, for every poll script -- on every payload whose aux block is
   complete and fully consumed by the header in it *)
Theorem c16_async_csi_reader_equals_sync :
  forall codes chunk payload, csi_aux_ok payload ->
    async_csi_case codes chunk payload = sync_csi_case payload.
Proof. exact async_csi_reader_equals_sync. Qed.
Print Assumptions c16_async_csi_reader_equals_sync.

(* without that hypothesis the statement is false: an aux block longer than its header
   (finding async-csi-aux-trailing-bytes-differs: the sync reader leaves the rest of the block in
   the stream) *)
Theorem c16_async_csi_reader_equals_sync_refuted :
  exists payload, forall codes chunk, async_csi_case codes chunk payload <> sync_csi_case payload.
Proof. exists csi_padded_aux. exact a_csi_padded_aux_differs. Qed.
Print Assumptions c16_async_csi_reader_equals_sync_refuted.

Definition c16_async_csi_reader_equals_sync_full_statement : Prop :=
  forall codes chunk payload, async_csi_case codes chunk payload = sync_csi_case payload.

(* NOT proved (compared on every atbi case): the async tabix program against C17's read_tbi *)
Definition c16_async_tbi_reader_equals_sync_full_statement : Prop :=
  forall codes chunk payload, async_tbi_case codes chunk payload = sync_tbi_case payload.

(* non-vacuity: a CSI index (min_shift 14, depth 5, no aux) with one reference holding bin 0 whose
   loffset is 0 and one chunk 0..7, read with 1-byte transfers *)
Example c16_async_csi_reader_example :
  let le4 := NV.Base.LE.le32 in
  let le8 := NV.Base.LE.le64 in
  let payload := ([67; 83; 73; 1] ++ le4 14 ++ le4 5 ++ le4 0 ++ le4 1
                  ++ le4 1 ++ le4 0 ++ le8 0 ++ le4 1 ++ le8 0 ++ le8 7)%N in
  async_csi_case [0; 2; 0; 2; 2; 2]%nat 8%nat payload
  = Some (NV.Index.CsiLayout.mkcsi 14%N 5 None
            [NV.Index.CsiLayout.mkcref [(0, [(0, 7)])]%N [(0, 0)]%N None] None)
  /\ sync_csi_case payload = async_csi_case [] 1%nat payload.
Proof. vm_compute. split; reflexivity. Qed.
End IC.

(* ---- the sam / vcf async header adapter read through AsyncRead (header_reader().read(&mut buf[..n]),
   read_buf, copy with a bounded buffer; kind ahrd): poll_read copies min(n, window) bytes of the
   window poll_fill_buf handed out.  For every prefix, data, poll script, capacity and list of caller
   buffer sizes the calls deliver the header text of the sync adapter (C12's hdr_text, from a line
   start) in order and without loss: each call returns a prefix of what is left, at most its buffer,
   and a non-empty one unless its buffer is empty or the header text is exhausted -- a partial copy
   of a line never ends the header.  (Where the source stands afterwards is compared at L2 only.) *)
Module HR.
Import NV.Io.Source NV.Io.HeaderAdapter NV.Async.HeaderReads.
Theorem c16_async_header_reads_deliver : forall prefix cap codes sizes data, (1 <= cap)%nat ->
  reads_deliver (hdr_text (Datatypes.S (length data)) prefix true data) sizes
    (fst (async_header_reads_case prefix cap codes sizes data)).
Proof. exact NV.Async.HeaderReadsProofs.async_header_reads_deliver. Qed.
Print Assumptions c16_async_header_reads_deliver.

(* non-vacuity: "@A\n@B\nr\n" through 1-byte transfers, capacity 4, seven 1-byte reads *)
Example c16_async_header_reads_example :
  async_header_reads_case 64%N 4%nat [2; 2; 2; 2; 2; 2; 2; 2]%nat [1; 1; 1; 1; 1; 1; 1]%nat
    [64; 65; 10; 64; 66; 10; 114; 10]%N
  = ([ROk [64%N]; ROk [65%N]; ROk [10%N]; ROk [64%N]; ROk [66%N]; ROk [10%N]; ROk []], 6%nat).
Proof. vm_compute. reflexivity. Qed.
End HR.

(* ---- the CRAM HEADER container's header reader (header_reader().container_reader() followed by
   discard_to_end(); kind ahc): a code path of its own (io/reader/header/container/header.rs and its
   async twin: no reference-context validation, plain read_itf8 landmarks), reached by every
   read_header call and by the hostile header containers of kind `rd cram`.  Model:
   NV.Async.CramHeaderContainer. *)
From NV Require Async.CramHeaderContainer.
Module HC.
Import NV.Io.Source NV.Io.ReadExact NV.Io.Run NV.Async.ReadExact.
Import NV.Cram.Itf8 NV.Cram.Ltf8 NV.Trunc.Stream NV.Trunc.Cram NV.CramIdx.AsyncQuery NV.CramIdx.AsyncQueryProofs.
Import NV.Async.CramFraming NV.Async.CramFramingProofs NV.Async.CramHeaderContainer.

(* one async container_reader() + discard_to_end() over ANY poll script and any request sizes of
   the drain: the result -- declared length and bytes discarded, or the error kind (negative length,
   negative landmark count, CRC mismatch: InvalidData; short input: UnexpectedEof) -- and the data
   left behind are those of the sync reader's program on the bytes *)
Theorem c16_async_cram_header_container_open_closed :
  forall crc polls req data, bytes data ->
    exists s',
      run_rd aread req a_fuel (ap_hc_open_discard crc) (mkASource data polls)
      = (rr_of (run_pure (p_hc_open_discard crc false) data), s')
      /\ (forall a r, run_pure (p_hc_open_discard crc false) data = POk a r -> a_data s' = r).
Proof. exact async_hc_open_discard_closed. Qed.
Print Assumptions c16_async_cram_header_container_open_closed.

(* async over every poll script = sync over every delivery script (chunking, Interrupted results) *)
Theorem c16_async_cram_header_container_open_equals_sync :
  forall crc polls req req' (t : source), bytes (s_data t) ->
    fst (run_rd aread req a_fuel (ap_hc_open_discard crc) (mkASource (s_data t) polls))
    = fst (run_rd src_read req' src_fuel (p_hc_open_discard crc false) t).
Proof.
  intros crc polls req req' t Hd.
  destruct (async_hc_open_discard_closed crc polls req (s_data t) Hd) as [s1 [E1 _]].
  destruct (sync_hc_open_discard_closed crc req' t) as [s2 E2].
  rewrite E1, E2. reflexivity.
Qed.
Print Assumptions c16_async_cram_header_container_open_equals_sync.

(* non-vacuity: a header container header of length 5 (no landmarks) with the right CRC read with
   1-byte transfers over 9 bytes of data: 5 discarded, 4 left; with a wrong CRC: InvalidData *)
Example c16_async_cram_header_container_example :
  let h := [5; 0; 0; 0; 0; 0; 0; 0; 0; 0; 1; 0]%N in
  let c := NV.Base.LE.le_bytes 4 (NV.Bgzf.Crc32.crc32 h) in
  async_hc_case [0; 2; 0; 2; 2; 2]%nat 3%nat (h ++ c ++ [1; 2; 3; 4; 5; 6; 7; 8; 9]%N) = (0, 5, 5, 4)%N
  /\ sync_hc_case (h ++ c ++ [1; 2; 3]%N) = (0, 5, 3, 0)%N
  /\ async_hc_case [2; 2]%nat 3%nat (h ++ [0; 0; 0; 0; 9]%N) = (2, 0, 0, 0)%N.
Proof. vm_compute. repeat split; reflexivity. Qed.
End HC.
