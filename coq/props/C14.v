(* C14 — Writers never hide a sink failure and tolerate short writes.

   Property theorems only; each is closed by [exact] of a lemma proved in theories/Sinks and
   followed by Print Assumptions.  Model: NV.Sinks.Sink (a sink = accepted bytes + a fault
   script with one event per inner write()/flush() call; std's write_all; a generic layered
   writer = `?`-chains of write_all/flush calls grouped into operations, the caller stopping at
   the first Err; noodles-bgzf's io::Writer with frames as opaque byte lists).  All theorems
   quantify over ALL fault scripts, buffers and operation sequences. *)
From Coq Require Import List NArith Arith.
From NV Require Import Sinks.Sink Sinks.SinkProofs Sinks.LayerProofs Sinks.BgzfProofs.
Import ListNotations.

(* ----------------------------------------------------------------------------------------- *)
(* std::io::Write::write_all over a faulty sink *)

(* short writes and Interrupted, in any pattern, change nothing: exactly the buffer is appended *)
Theorem c14_write_all_short_invariant :
  forall buf s, no_fail (sscript s) ->
    exists s', write_all buf s = (Ok, s') /\ sbytes s' = sbytes s ++ buf.
Proof. exact write_all_short_invariant. Qed.
Print Assumptions c14_write_all_short_invariant.

(* if the call consumed a Fail e event (c = the script events it consumed), it returns Err e,
   and what it appended is a prefix of the buffer *)
Theorem c14_write_all_failure_reported :
  forall buf s r s' c e,
    write_all buf s = (r, s') -> sscript s = c ++ sscript s' -> In (Fail e) c -> e <> e_interrupted ->
    r = Err e /\ exists p, sbytes s' = sbytes s ++ p /\ prefix p buf.
Proof. exact write_all_failure_reported. Qed.
Print Assumptions c14_write_all_failure_reported.

(* conversely every Err comes from the script (never WriteZero of its own, never Interrupted) *)
Theorem c14_write_all_err_from_script :
  forall buf s e s', write_all buf s = (Err e, s') ->
    e <> e_interrupted /\ exists c, sscript s = c ++ Fail e :: sscript s' /\ benign c.
Proof. exact write_all_err_from_script. Qed.
Print Assumptions c14_write_all_err_from_script.

(* ----------------------------------------------------------------------------------------- *)
(* generic layered writer: operations = `?`-chains of write_all / flush on the sink *)

Theorem c14_all_ok_complete :
  forall ops s rs s',
    lw_run ops s = (rs, s') -> Forall (fun r => r = Ok) rs ->
    length rs = length ops /\ sbytes s' = sbytes s ++ lw_out ops.
Proof. exact lw_all_ok_complete. Qed.
Print Assumptions c14_all_ok_complete.

Theorem c14_failure_reported :
  forall ops s rs s' c e,
    lw_run ops s = (rs, s') -> sscript s = c ++ sscript s' -> In (Fail e) c -> e <> e_interrupted ->
    In (Err e) rs.
Proof. exact lw_failure_reported. Qed.
Print Assumptions c14_failure_reported.

Theorem c14_short_write_invariant :
  forall ops s rs s',
    lw_run ops s = (rs, s') -> no_fail (sscript s) ->
    rs = repeat Ok (length ops) /\ sbytes s' = sbytes s ++ lw_out ops.
Proof. exact lw_short_write_invariant. Qed.
Print Assumptions c14_short_write_invariant.

(* whatever the script, the sink holds a prefix of the fault-free output (nothing else is ever
   written, nothing is written twice) *)
Theorem c14_sink_is_prefix :
  forall ops s rs s',
    lw_run ops s = (rs, s') -> exists p, sbytes s' = sbytes s ++ p /\ prefix p (lw_out ops).
Proof. exact lw_prefix. Qed.
Print Assumptions c14_sink_is_prefix.

(* ----------------------------------------------------------------------------------------- *)
(* bgzf::io::Writer (maxbuf = MAX_BUF_SIZE > 0; frames = whatever the compressor produces) *)

(* [bw_ideal_out] / [bw_ideal_state] are the output and state of the same operations on the sink
   that never fails *)
Theorem c14_bgzf_ideal :
  forall maxbuf frames, 0 < maxbuf -> forall ops,
    let '(rs, st', s') := bw_run_ops maxbuf frames ops ideal_sink in
    rs = repeat Ok (length ops) /\ st' = bw_ideal_state maxbuf frames ops /\
    sbytes s' = bw_ideal_out maxbuf frames ops.
Proof. exact bw_ideal. Qed.
Print Assumptions c14_bgzf_ideal.

Theorem c14_bgzf_all_ok_complete :
  forall maxbuf frames, 0 < maxbuf -> forall ops s rs st' s',
    bw_run_ops maxbuf frames ops s = (rs, st', s') -> Forall (fun r => r = Ok) rs ->
    length rs = length ops /\ st' = bw_ideal_state maxbuf frames ops /\
    sbytes s' = sbytes s ++ bw_ideal_out maxbuf frames ops.
Proof. exact bw_all_ok_complete. Qed.
Print Assumptions c14_bgzf_all_ok_complete.

Theorem c14_bgzf_failure_reported :
  forall maxbuf frames, 0 < maxbuf -> forall ops s rs st' s' c e,
    bw_run_ops maxbuf frames ops s = (rs, st', s') ->
    sscript s = c ++ sscript s' -> In (Fail e) c -> e <> e_interrupted ->
    In (Err e) rs /\ exists j, rs = repeat Ok j ++ [Err e].
Proof. exact bw_failure_reported. Qed.
Print Assumptions c14_bgzf_failure_reported.

Theorem c14_bgzf_short_write_invariant :
  forall maxbuf frames, 0 < maxbuf -> forall ops s rs st' s',
    bw_run_ops maxbuf frames ops s = (rs, st', s') -> no_fail (sscript s) ->
    rs = repeat Ok (length ops) /\ st' = bw_ideal_state maxbuf frames ops /\
    sbytes s' = sbytes s ++ bw_ideal_out maxbuf frames ops.
Proof. exact bw_short_write_invariant. Qed.
Print Assumptions c14_bgzf_short_write_invariant.

Theorem c14_bgzf_sink_is_prefix :
  forall maxbuf frames, 0 < maxbuf -> forall ops s rs st' s',
    bw_run_ops maxbuf frames ops s = (rs, st', s') ->
    exists p, sbytes s' = sbytes s ++ p /\ prefix p (bw_ideal_out maxbuf frames ops).
Proof. exact bw_prefix. Qed.
Print Assumptions c14_bgzf_sink_is_prefix.

(* dropping a writer that still owns its sink appends the staged block (if any) and the EOF
   block, whatever short-write / Interrupted pattern the sink follows *)
Theorem c14_drop_emits :
  forall frames st s, no_fail (sscript s) ->
    let (st', s') := bw_drop frames st s in
    sbytes s' = sbytes s ++ drop_out frames st /\ no_fail (sscript s').
Proof. exact bw_drop_emits. Qed.
Print Assumptions c14_drop_emits.

(* the whole life (operations, then Drop) is byte-identical to the life on the ideal sink *)
Theorem c14_bgzf_life_short_write_invariant :
  forall maxbuf frames, 0 < maxbuf -> forall ops s rs s',
    bw_run maxbuf frames ops s = (rs, s') -> no_fail (sscript s) ->
    rs = repeat Ok (length ops) /\
    sbytes s' = sbytes s ++ sbytes (snd (bw_run maxbuf frames ops ideal_sink)).
Proof. exact bw_life_short_write_invariant. Qed.
Print Assumptions c14_bgzf_life_short_write_invariant.

(* "whenever all calls including finish return Ok the destination holds the complete file", for
   the whole life including Drop, whichever of try_finish() / finish(self) ends it.  (Before the
   repair of bgzf-second-eof-in-drop this was refuted for `try_finish(); drop`: Drop wrote a
   second EOF block whose failure nobody could observe.) *)
Theorem c14_bgzf_finished_life_complete :
  forall maxbuf frames, 0 < maxbuf -> forall ops o s rs s',
    o = BTryFinish \/ o = BFinish ->
    bw_run maxbuf frames (ops ++ [o]) s = (rs, s') -> Forall (fun r => r = Ok) rs ->
    sbytes s' = sbytes s ++ bw_ideal_out maxbuf frames (ops ++ [o]).
Proof. exact bw_finished_life_complete. Qed.
Print Assumptions c14_bgzf_finished_life_complete.

Definition wit_frame : list byte := map N.of_nat (seq 1 30).

(* the former counterexample: one 3-byte write, try_finish, drop; the sink accepts the frame and
   the EOF block and would then fail -- Drop no longer touches it *)
Example c14_example_try_finish_then_drop :
  bw_run 100 [wit_frame] [BWriteAll 3; BTryFinish]
         (mkSink [] (repeat Full 15 ++ [Short 5; Fail 2%N]) 0)
  = ([Ok; Ok], mkSink (wit_frame ++ BGZF_EOF) [Short 5; Fail 2%N] 15).
Proof. vm_compute. reflexivity. Qed.

(* ----------------------------------------------------------------------------------------- *)
(* non-vacuity *)

(* a script whose failure is reached: one short write, one Interrupted, then Fail *)
Example c14_example_failure :
  write_all [1; 2; 3]%N (mkSink [] [Short 1; Interrupted; Fail 5%N] 0)
  = (Err 5%N, mkSink [1]%N [] 3).
Proof. vm_compute. reflexivity. Qed.

(* the same buffer through short writes and Interrupted only *)
Example c14_example_short :
  write_all [1; 2; 3]%N (mkSink [] [Short 1; Interrupted; Short 1; Interrupted] 0)
  = (Ok, mkSink [1; 2; 3]%N [] 5).
Proof. vm_compute. reflexivity. Qed.

(* a failure in the 7th write_all of a frame is reported by the flush that emits it, and by
   nothing before; dropping an unfinished writer on a healthy sink emits frame + EOF *)
Example c14_example_bgzf :
  fst (bw_run 100 [wit_frame] [BWriteAll 3; BFlush] (mkSink [] (repeat Full 6 ++ [Fail 3%N]) 0))
    = [Ok; Err 3%N]
  /\ sbytes (snd (bw_run 100 [wit_frame] [BWriteAll 3] ideal_sink)) = wit_frame ++ BGZF_EOF.
Proof. vm_compute. split; reflexivity. Qed.
