(* C14 — Writers never hide a sink failure and tolerate short writes.

   Property theorems only; each is closed by [exact] of a lemma proved in theories/Sinks and
   followed by Print Assumptions.  Model: NV.Sinks.Sink (a sink = accepted bytes + a fault
   script with one event per inner write()/flush() call; std's write_all; a generic layered
   writer = `?`-chains of write_all/flush calls grouped into operations, the caller stopping at
   the first Err; noodles-bgzf's io::Writer with frames as opaque byte lists).  All theorems
   quantify over ALL fault scripts, buffers and operation sequences. *)
From Coq Require Import List NArith Arith.
From NV Require Import Sinks.Sink Sinks.SinkProofs Sinks.LayerProofs Sinks.BgzfProofs.
From NV Require Import Io.Sched Sinks.Mt Sinks.MtProofs Sinks.Format Sinks.FormatProofs.
From NV Require Import Sinks.MtApp Sinks.MtAppProofs.
From NV Require Import Base.LE Index.Layout Index.LayoutProofs Sinks.IndexCalls Sinks.IndexCallsProofs.
From NV Require Import Sinks.AsyncSink Sinks.AsyncSinkProofs.
From NV Require Import Index.CsiLayout Index.CsiLayoutProofs Sinks.IndexBgzf Sinks.IndexBgzfProofs Sinks.DropProofs.
From NV Require Import Sinks.CramCalls Sinks.CramCallsProofs.
Close Scope N_scope.
Import ListNotations.

(* ----------------------------------------------------------------------------------------- *)
(* std::io::Write::write_all over a faulty sink *)

(* short writes and Interrupted, in any pattern, change nothing: exactly the buffer is appended *)
Theorem c14_write_all_short_invariant :
  forall buf s, no_fail (sscript s) ->
    exists s', write_all buf s = (Ok, s') /\ sbytes s' = sbytes s ++ buf.
Proof. exact write_all_short_invariant. Qed.
Print Assumptions c14_write_all_short_invariant.

(* if the call consumed a Fail e event (c = the script events it consumed), it returns Err e,
   and what it appended is a prefix of the buffer *)
Theorem c14_write_all_failure_reported :
  forall buf s r s' c e,
    write_all buf s = (r, s') -> sscript s = c ++ sscript s' -> In (Fail e) c -> e <> e_interrupted ->
    r = Err e /\ exists p, sbytes s' = sbytes s ++ p /\ prefix p buf.
Proof. exact write_all_failure_reported. Qed.
Print Assumptions c14_write_all_failure_reported.

(* conversely every Err comes from the script (never WriteZero of its own, never Interrupted) *)
Theorem c14_write_all_err_from_script :
  forall buf s e s', write_all buf s = (Err e, s') ->
    e <> e_interrupted /\ exists c, sscript s = c ++ Fail e :: sscript s' /\ benign c.
Proof. exact write_all_err_from_script. Qed.
Print Assumptions c14_write_all_err_from_script.

(* ----------------------------------------------------------------------------------------- *)
(* generic layered writer: operations = `?`-chains of write_all / flush on the sink *)

Theorem c14_all_ok_complete :
  forall ops s rs s',
    lw_run ops s = (rs, s') -> Forall (fun r => r = Ok) rs ->
    length rs = length ops /\ sbytes s' = sbytes s ++ lw_out ops.
Proof. exact lw_all_ok_complete. Qed.
Print Assumptions c14_all_ok_complete.

Theorem c14_failure_reported :
  forall ops s rs s' c e,
    lw_run ops s = (rs, s') -> sscript s = c ++ sscript s' -> In (Fail e) c -> e <> e_interrupted ->
    In (Err e) rs.
Proof. exact lw_failure_reported. Qed.
Print Assumptions c14_failure_reported.

Theorem c14_short_write_invariant :
  forall ops s rs s',
    lw_run ops s = (rs, s') -> no_fail (sscript s) ->
    rs = repeat Ok (length ops) /\ sbytes s' = sbytes s ++ lw_out ops.
Proof. exact lw_short_write_invariant. Qed.
Print Assumptions c14_short_write_invariant.

(* whatever the script, the sink holds a prefix of the fault-free output (nothing else is ever
   written, nothing is written twice) *)
Theorem c14_sink_is_prefix :
  forall ops s rs s',
    lw_run ops s = (rs, s') -> exists p, sbytes s' = sbytes s ++ p /\ prefix p (lw_out ops).
Proof. exact lw_prefix. Qed.
Print Assumptions c14_sink_is_prefix.

(* ----------------------------------------------------------------------------------------- *)
(* bgzf::io::Writer (maxbuf = MAX_BUF_SIZE > 0; frames = whatever the compressor produces) *)

(* [bw_ideal_out] / [bw_ideal_state] are the output and state of the same operations on the sink
   that never fails *)
Theorem c14_bgzf_ideal :
  forall maxbuf frames, 0 < maxbuf -> forall ops,
    let '(rs, st', s') := bw_run_ops maxbuf frames ops ideal_sink in
    rs = repeat Ok (length ops) /\ st' = bw_ideal_state maxbuf frames ops /\
    sbytes s' = bw_ideal_out maxbuf frames ops.
Proof. exact bw_ideal. Qed.
Print Assumptions c14_bgzf_ideal.

Theorem c14_bgzf_all_ok_complete :
  forall maxbuf frames, 0 < maxbuf -> forall ops s rs st' s',
    bw_run_ops maxbuf frames ops s = (rs, st', s') -> Forall (fun r => r = Ok) rs ->
    length rs = length ops /\ st' = bw_ideal_state maxbuf frames ops /\
    sbytes s' = sbytes s ++ bw_ideal_out maxbuf frames ops.
Proof. exact bw_all_ok_complete. Qed.
Print Assumptions c14_bgzf_all_ok_complete.

Theorem c14_bgzf_failure_reported :
  forall maxbuf frames, 0 < maxbuf -> forall ops s rs st' s' c e,
    bw_run_ops maxbuf frames ops s = (rs, st', s') ->
    sscript s = c ++ sscript s' -> In (Fail e) c -> e <> e_interrupted ->
    In (Err e) rs /\ exists j, rs = repeat Ok j ++ [Err e].
Proof. exact bw_failure_reported. Qed.
Print Assumptions c14_bgzf_failure_reported.

Theorem c14_bgzf_short_write_invariant :
  forall maxbuf frames, 0 < maxbuf -> forall ops s rs st' s',
    bw_run_ops maxbuf frames ops s = (rs, st', s') -> no_fail (sscript s) ->
    rs = repeat Ok (length ops) /\ st' = bw_ideal_state maxbuf frames ops /\
    sbytes s' = sbytes s ++ bw_ideal_out maxbuf frames ops.
Proof. exact bw_short_write_invariant. Qed.
Print Assumptions c14_bgzf_short_write_invariant.

Theorem c14_bgzf_sink_is_prefix :
  forall maxbuf frames, 0 < maxbuf -> forall ops s rs st' s',
    bw_run_ops maxbuf frames ops s = (rs, st', s') ->
    exists p, sbytes s' = sbytes s ++ p /\ prefix p (bw_ideal_out maxbuf frames ops).
Proof. exact bw_prefix. Qed.
Print Assumptions c14_bgzf_sink_is_prefix.

(* dropping a writer that still owns its sink appends the staged block (if any) and the EOF
   block, whatever short-write / Interrupted pattern the sink follows *)
Theorem c14_drop_emits :
  forall frames st s, no_fail (sscript s) ->
    let (st', s') := bw_drop frames st s in
    sbytes s' = sbytes s ++ drop_out frames st /\ no_fail (sscript s').
Proof. exact bw_drop_emits. Qed.
Print Assumptions c14_drop_emits.

(* the whole life (operations, then Drop) is byte-identical to the life on the ideal sink *)
Theorem c14_bgzf_life_short_write_invariant :
  forall maxbuf frames, 0 < maxbuf -> forall ops s rs s',
    bw_run maxbuf frames ops s = (rs, s') -> no_fail (sscript s) ->
    rs = repeat Ok (length ops) /\
    sbytes s' = sbytes s ++ sbytes (snd (bw_run maxbuf frames ops ideal_sink)).
Proof. exact bw_life_short_write_invariant. Qed.
Print Assumptions c14_bgzf_life_short_write_invariant.

(* "whenever all calls including finish return Ok the destination holds the complete file", for
   the whole life including Drop, whichever of try_finish() / finish(self) ends it.  (Before the
   repair of bgzf-second-eof-in-drop this was refuted for `try_finish(); drop`: Drop wrote a
   second EOF block whose failure nobody could observe.) *)
Theorem c14_bgzf_finished_life_complete :
  forall maxbuf frames, 0 < maxbuf -> forall ops o s rs s',
    o = BTryFinish \/ o = BFinish ->
    bw_run maxbuf frames (ops ++ [o]) s = (rs, s') -> Forall (fun r => r = Ok) rs ->
    sbytes s' = sbytes s ++ bw_ideal_out maxbuf frames (ops ++ [o]).
Proof. exact bw_finished_life_complete. Qed.
Print Assumptions c14_bgzf_finished_life_complete.

(* ----------------------------------------------------------------------------------------- *)
(* bgzf::io::MultithreadedWriter: NV.Sinks.Mt instantiates the ticket pipeline NV.Io.Sched (C03's)
   with this property's sink in the writer thread.  [sched] is ANY list of scheduler actions
   (submit / start / complete task t / take / emit): completion order of the compress tasks,
   window occupancy and thread interleaving are all universally quantified; [mt_final] says the
   life is over (channel drained, or the writer thread has exited with an error). *)

(* under every schedule the result and the sink are those of the sequential `?`-chain
   "14 write_all calls per frame, frames in submission order, then the EOF block" *)
Theorem c14_mt_equals_sequential :
  forall P maxbuf frames ops sched s,
    mt_final (mt_state P maxbuf frames ops sched s) = true ->
    mt_life P maxbuf frames ops sched s = run_calls (mt_calls maxbuf frames ops) s.
Proof. exact mt_equals_sequential. Qed.
Print Assumptions c14_mt_equals_sequential.

Theorem c14_mt_all_ok_complete :
  forall P maxbuf frames ops sched s s',
    mt_final (mt_state P maxbuf frames ops sched s) = true ->
    mt_life P maxbuf frames ops sched s = (Ok, s') ->
    sbytes s' = sbytes s ++ mt_out maxbuf frames ops.
Proof. exact mt_all_ok_complete. Qed.
Print Assumptions c14_mt_all_ok_complete.

(* ... and that complete file is the single-threaded writer's for the same operations + finish *)
Theorem c14_mt_out_is_st_out :
  forall maxbuf frames, 0 < maxbuf -> forall ops,
    mt_out maxbuf frames ops = bw_ideal_out maxbuf frames (map mop_bop ops ++ [BFinish]).
Proof. exact mt_out_is_st_out. Qed.
Print Assumptions c14_mt_out_is_st_out.

Theorem c14_mt_failure_reported :
  forall P maxbuf frames ops sched s r s' c e,
    mt_final (mt_state P maxbuf frames ops sched s) = true ->
    mt_life P maxbuf frames ops sched s = (r, s') ->
    sscript s = c ++ sscript s' -> In (Fail e) c -> e <> e_interrupted ->
    r = Err e /\ exists p, sbytes s' = sbytes s ++ p /\ prefix p (mt_out maxbuf frames ops).
Proof. exact mt_failure_reported. Qed.
Print Assumptions c14_mt_failure_reported.

Theorem c14_mt_short_write_invariant :
  forall P maxbuf frames ops sched s,
    mt_final (mt_state P maxbuf frames ops sched s) = true -> no_fail (sscript s) ->
    exists s', mt_life P maxbuf frames ops sched s = (Ok, s') /\
               sbytes s' = sbytes s ++ mt_out maxbuf frames ops.
Proof. exact mt_short_write_invariant. Qed.
Print Assumptions c14_mt_short_write_invariant.

(* the two strategies run by the correspondence check are schedules (so the theorems above apply
   to what is compared with the implementation), and the FIFO one always reaches a final state *)
Theorem c14_mt_model_sequential :
  forall P maxbuf frames lifo ops s r,
    mt_model P maxbuf frames lifo ops s = Some r -> r = run_calls (mt_calls maxbuf frames ops) s.
Proof. exact mt_model_sequential. Qed.
Print Assumptions c14_mt_model_sequential.

Theorem c14_mt_model_fifo_total :
  forall P maxbuf frames, 0 < P -> forall ops s, mt_model P maxbuf frames false ops s <> None.
Proof. exact mt_model_fifo_total. Qed.
Print Assumptions c14_mt_model_fifo_total.

(* ----------------------------------------------------------------------------------------- *)
(* WHICH call of the multithreaded writer reports the failure.  NV.Sinks.MtApp adds the application
   thread: its program is the list of its synchronisation events (send() calls inside write_all /
   flush / finish, the return of each call, the join of finish()), a joint schedule [sched] is ANY
   interleaving of its steps (JApp) with the pipeline's internal steps (JPipe Start / Complete t /
   Take / Emit); a send() blocks while the bounded channel is full and fails -- returning the writer
   thread's io::Result -- iff the writer thread has exited; the caller stops at the first Err.
   [m_rs] = the results of the API calls in call order, [m_done] = finish() has returned or a call
   has returned Err. *)

(* the send() calls of the application thread are the blocks of NV.Sinks.Mt, and the pipeline
   component of every joint run is a run of that model: all c14_mt_* theorems apply to it *)
Theorem c14_mt_app_sends_are_blocks :
  forall maxbuf, 0 < maxbuf -> forall ops,
    count_send (mta_prog maxbuf ops bw_init) = mt_nblocks maxbuf ops.
Proof. exact mta_prog_sends. Qed.
Print Assumptions c14_mt_app_sends_are_blocks.

Theorem c14_mt_app_pipeline_is_schedule :
  forall P maxbuf frames ops sched s,
    exists sched', m_pipe (mta_run P maxbuf frames ops sched s) = mt_state P maxbuf frames ops sched' s.
Proof. exact mta_pipe_is_mt_state. Qed.
Print Assumptions c14_mt_app_pipeline_is_schedule.

(* under EVERY joint schedule, when the application thread is done: every call but the last
   returned Ok, the last one returned the writer thread's result r, (r, sink) are those of the
   sequential `?`-chain, and r = Ok only for finish() itself (j = number of ops) *)
Theorem c14_mt_app_attribution :
  forall P maxbuf frames ops sched s,
    let x := mta_run P maxbuf frames ops sched s in
    m_done x = true ->
    exists j r s',
      run_calls (mt_calls maxbuf frames ops) s = (r, s') /\
      mt_result (m_pipe x) = (r, s') /\
      m_rs x = repeat Ok j ++ [r] /\ j <= length ops /\ (r = Ok -> j = length ops).
Proof. exact mta_attribution. Qed.
Print Assumptions c14_mt_app_attribution.

(* never lost: a consumed Fail e is the result of exactly one API call -- the last one made -- and
   the sink holds a prefix of the fault-free file *)
Theorem c14_mt_app_failure_reported :
  forall P maxbuf frames ops sched s c e,
    let x := mta_run P maxbuf frames ops sched s in
    m_done x = true ->
    sscript s = c ++ sscript (snd (mt_result (m_pipe x))) -> In (Fail e) c -> e <> e_interrupted ->
    (exists j, j <= length ops /\ m_rs x = repeat Ok j ++ [Err e]) /\
    exists p, sbytes (snd (mt_result (m_pipe x))) = sbytes s ++ p /\ prefix p (mt_out maxbuf frames ops).
Proof. exact mta_failure_reported. Qed.
Print Assumptions c14_mt_app_failure_reported.

(* no call returns Ok with bytes dropped: if every call made returned Ok then all of them were
   made (finish() included) and the sink holds the complete file *)
Theorem c14_mt_app_all_ok_complete :
  forall P maxbuf frames ops sched s,
    let x := mta_run P maxbuf frames ops sched s in
    m_done x = true -> Forall (fun r => r = Ok) (m_rs x) ->
    m_rs x = repeat Ok (S (length ops)) /\
    sbytes (snd (mt_result (m_pipe x))) = sbytes s ++ mt_out maxbuf frames ops.
Proof. exact mta_all_ok_complete. Qed.
Print Assumptions c14_mt_app_all_ok_complete.

Theorem c14_mt_app_short_write_invariant :
  forall P maxbuf frames ops sched s,
    let x := mta_run P maxbuf frames ops sched s in
    m_done x = true -> no_fail (sscript s) ->
    m_rs x = repeat Ok (S (length ops)) /\
    sbytes (snd (mt_result (m_pipe x))) = sbytes s ++ mt_out maxbuf frames ops.
Proof. exact mta_short_write_invariant. Qed.
Print Assumptions c14_mt_app_short_write_invariant.

(* the reporting call is the FIRST one that observes the writer thread's result: once the thread
   has stopped, a returning call returns Ok without touching the pipeline, and the next send() or
   join is not blocked and returns the thread's error *)
Theorem c14_mt_app_first_observer :
  forall P frames x ev t,
    m_done x = false -> m_prog x = ev :: t -> mtc_stopped (cs (m_pipe x)) = true ->
    let x' := mta_step P frames x JApp in
    match ev with
    | ARet => m_pipe x' = m_pipe x /\ m_rs x' = m_rs x ++ [Ok] /\ m_done x' = false
    | _ => m_done x' = true /\ m_pipe x' = m_pipe x /\
           exists e, mt_res (cs (m_pipe x)) = e /\ e <> Ok /\ m_rs x' = m_rs x ++ [e]
    end.
Proof. exact mta_first_observer. Qed.
Print Assumptions c14_mt_app_first_observer.

(* the strategies executed by the correspondence check (one synchronisation plan per case) are
   joint schedules, and for every plan the life ends: no deadlock between application thread,
   bounded channel, pool and writer thread *)
Theorem c14_mt_app_model_is_run :
  forall P maxbuf frames pol ops s rs s',
    mta_model P maxbuf frames pol ops s = Some (rs, s') ->
    exists sched, let x := mta_run P maxbuf frames ops sched s in
      m_done x = true /\ rs = m_rs x /\ s' = snd (mt_result (m_pipe x)).
Proof. exact mta_model_is_run. Qed.
Print Assumptions c14_mt_app_model_is_run.

Theorem c14_mt_app_model_total :
  forall P maxbuf frames, 0 < P -> 0 < maxbuf -> forall pol ops s,
    mta_model P maxbuf frames pol ops s <> None.
Proof. exact mta_model_total. Qed.
Print Assumptions c14_mt_app_model_total.

(* no reachable deadlock: after ANY joint schedule prefix the life can still be brought to its end
   (a blocked send() is released by the writer thread taking a ticket or by its exit; the join
   becomes enabled once the channel is drained or the thread has stopped) *)
Theorem c14_mt_app_no_deadlock :
  forall P maxbuf frames, 0 < P -> 0 < maxbuf -> forall ops sched s,
    exists sched2, m_done (mta_run P maxbuf frames ops (sched ++ sched2) s) = true.
Proof. exact mta_no_deadlock. Qed.
Print Assumptions c14_mt_app_no_deadlock.

(* ----------------------------------------------------------------------------------------- *)
(* format writers over a BGZF writer (BAM, BCF, CSI, tabix, bgzipped SAM / VCF at the level of
   their byte stream): [ops] = for each explicit operation of the format layer, the calls it
   makes on the BGZF writer, joined by `?` -- ANY calls, ANY grouping *)
Theorem c14_format_over_bgzf :
  forall maxbuf frames, 0 < maxbuf -> forall ops s rs st' s',
    fob_run_ops maxbuf frames ops s = (rs, st', s') ->
    (Forall (fun r => r = Ok) rs ->
       length rs = length ops /\ st' = fob_state maxbuf frames ops /\
       sbytes s' = sbytes s ++ fob_out maxbuf frames ops) /\
    (forall c e, sscript s = c ++ sscript s' -> In (Fail e) c -> e <> e_interrupted ->
       In (Err e) rs /\ exists j, rs = repeat Ok j ++ [Err e]) /\
    (no_fail (sscript s) ->
       rs = repeat Ok (length ops) /\ st' = fob_state maxbuf frames ops /\
       sbytes s' = sbytes s ++ fob_out maxbuf frames ops) /\
    (exists p, sbytes s' = sbytes s ++ p /\ prefix p (fob_out maxbuf frames ops)).
Proof. exact format_over_bgzf. Qed.
Print Assumptions c14_format_over_bgzf.

(* write_all calls with buffers of lengths ns, then try_finish / finish: the fault-free stream is
   BGZF of the concatenation ([bgzf_of_len]: ceil(total / maxbuf) frames, then the EOF block) *)
Theorem c14_bgzf_stream_of_concatenation :
  forall maxbuf frames, 0 < maxbuf -> forall ns o, o = BTryFinish \/ o = BFinish ->
    bw_ideal_out maxbuf frames (map BWriteAll ns ++ [o]) = bgzf_of_len maxbuf frames (list_sum ns).
Proof. exact writes_then_finish_out. Qed.
Print Assumptions c14_bgzf_stream_of_concatenation.

(* the staging-buffer case (CSI / tabix, small SAM.gz / VCF.gz / BAM / BCF): everything fits the
   staging buffer, the writes return Ok without touching the sink, and a destination failure --
   which can only happen inside the finishing call -- is returned by that call *)
Theorem c14_small_file_error_at_finish :
  forall maxbuf frames, 0 < maxbuf -> forall ns o s rs st' s',
    o = BTryFinish \/ o = BFinish -> list_sum ns < maxbuf ->
    bw_run_ops maxbuf frames (map BWriteAll ns ++ [o]) s = (rs, st', s') ->
    exists r, rs = repeat Ok (length ns) ++ [r] /\
      (r = Ok -> sbytes s' = sbytes s ++ bgzf_of_len maxbuf frames (list_sum ns)) /\
      (forall c e, sscript s = c ++ sscript s' -> In (Fail e) c -> e <> e_interrupted -> r = Err e) /\
      (no_fail (sscript s) -> r = Ok).
Proof. exact small_file_error_at_finish. Qed.
Print Assumptions c14_small_file_error_at_finish.

(* ----------------------------------------------------------------------------------------- *)
(* BAI and GZI index writers, FULL statement.  NV.Sinks.IndexCalls gives write_index as the actual
   sequence of write_all calls (one per little-endian integer, one for the magic number; lengths
   and bin ids pass through u32::try_from first), the BYTES being C17's layout models
   NV.Index.Layout.w_bai / w_gzi (read-only), whose readers C17 proved to round-trip. *)

(* the call boundaries add up to C17's byte layout, and a well-formed index has no encoder error *)
Theorem c14_bai_calls_are_layout :
  forall i, bai_ok i -> ix_out (c_bai i) = w_bai i /\ ix_clean (c_bai i) = true.
Proof. exact c_bai_out. Qed.
Print Assumptions c14_bai_calls_are_layout.

(* one write_index call on any sink: Ok => the destination holds exactly the file, which the BAI
   reader decodes to the index written; a consumed Fail e => the call returns Err e; short writes /
   Interrupted only => Ok (hence byte-identical); always a prefix of the file *)
Theorem c14_bai_write_index :
  forall i, bai_ok i -> forall s r s',
    bai_write_index i s = (r, s') ->
    (r = Ok -> sbytes s' = sbytes s ++ w_bai i /\ (sbytes s = [] -> read_bai (sbytes s') = Some i)) /\
    (forall c e, sscript s = c ++ sscript s' -> In (Fail e) c -> e <> e_interrupted -> r = Err e) /\
    (no_fail (sscript s) -> r = Ok) /\
    (exists p, sbytes s' = sbytes s ++ p /\ prefix p (w_bai i)).
Proof. exact bai_write_index_property. Qed.
Print Assumptions c14_bai_write_index.

(* for EVERY index k of the destination's write calls failing: the call returns that error after
   exactly k + 1 inner calls and the destination holds exactly the first k buffers *)
Theorem c14_bai_fail_at_every_call :
  forall i, bai_ok i -> forall k, k < length (c_bai i) ->
  forall e rest, e <> e_interrupted ->
  exists p, bai_write_index i (mkSink [] (repeat Full k ++ Fail e :: rest) 0) = (Err e, mkSink p rest (k + 1))
            /\ p = concat (firstn k (map ic_out (c_bai i))) /\ prefix p (w_bai i).
Proof. exact bai_fail_at_call. Qed.
Print Assumptions c14_bai_fail_at_every_call.

Theorem c14_gzi_write_index :
  forall idx, (N.of_nat (length idx) < 18446744073709551616)%N -> Forall chunk_ok idx -> forall s r s',
    gzi_write_index idx s = (r, s') ->
    (r = Ok -> sbytes s' = sbytes s ++ w_gzi idx /\ (sbytes s = [] -> read_gzi (sbytes s') = Some idx)) /\
    (forall c e, sscript s = c ++ sscript s' -> In (Fail e) c -> e <> e_interrupted -> r = Err e) /\
    (no_fail (sscript s) -> r = Ok) /\
    (exists p, sbytes s' = sbytes s ++ p /\ prefix p (w_gzi idx)).
Proof. exact gzi_write_index_property. Qed.
Print Assumptions c14_gzi_write_index.

Theorem c14_gzi_fail_at_every_call :
  forall idx k, k < length (c_gzi idx) ->
  forall e rest, e <> e_interrupted ->
  exists p, gzi_write_index idx (mkSink [] (repeat Full k ++ Fail e :: rest) 0) = (Err e, mkSink p rest (k + 1))
            /\ p = concat (firstn k (map ic_out (c_gzi idx))) /\ prefix p (w_gzi idx).
Proof. exact gzi_fail_at_call. Qed.
Print Assumptions c14_gzi_fail_at_every_call.

(* an error of the encoder itself (a bin id >= 2^32: InvalidInput) is returned by the same call; the
   destination keeps what the steps before it wrote *)
Theorem c14_index_encoder_error_reported :
  forall pre e post s, ix_clean pre = true -> no_fail (sscript s) ->
    exists s', ix_run (pre ++ IE e :: post) s = (Err e, s') /\ sbytes s' = sbytes s ++ ix_out pre.
Proof. exact ix_encoder_error. Qed.
Print Assumptions c14_index_encoder_error_reported.

(* a one-reference BAI index: 13 calls; the sink fails at the 6th *)
Example c14_example_bai :
  let i := mkbai [mkbref [(4681, [(10, 20)])]%N None [7]%N] (Some 3%N) in
  length (c_bai i) = 10 /\
  fst (bai_write_index i (mkSink [] (repeat Full 5 ++ [Fail 5%N]) 0)) = Err 5%N /\
  length (sbytes (snd (bai_write_index i (mkSink [] (repeat Full 5 ++ [Fail 5%N]) 0)))) = 4 + 4 + 4 + 4 + 4 /\
  fst (bai_write_index (mkbai [mkbref [(4294967296, [])]%N None []] None) ideal_sink) = Err e_invalid_input.
Proof. vm_compute. repeat split; reflexivity. Qed.

(* ----------------------------------------------------------------------------------------- *)
(* CSI and tabix index writers, FULL statement.  NV.Sinks.IndexBgzf gives write_index as the actual
   sequence of write_all calls it makes ON THE BGZF WRITER it owns (one per integer / magic / name;
   the CSI aux section is serialised to a Vec first and handed over as two calls), including where
   the encoder itself returns InvalidInput or panics; the BYTES are C17's layout models
   NV.Index.CsiLayout.w_csi_bytes / w_tbi_bytes (read-only), whose readers C17 proved to round-trip.
   The life is write_index; try_finish() | finish(self); Drop, on the BGZF state machine above. *)

(* the call boundaries add up to C17's layout; a well-formed index has no encoder error / panic *)
Theorem c14_csi_calls_are_layout :
  forall i, csi_ok i -> x_first_bad (c_csi i) = None /\ x_out (c_csi i) = w_csi_bytes i.
Proof. exact c_csi_good. Qed.
Print Assumptions c14_csi_calls_are_layout.

Theorem c14_tbi_calls_are_layout :
  forall i, tbi_ok i -> x_first_bad (c_tbi i) = None /\ x_out (c_tbi i) = w_tbi_bytes i.
Proof. exact c_tbi_good. Qed.
Print Assumptions c14_tbi_calls_are_layout.

(* the whole property for the life  write_index(&i); <finishing call>  on any destination: both Ok
   => the destination holds BGZF(payload) -- ceil(|payload| / maxbuf) frames then the EOF marker --
   of C17's payload, which the CSI reader decodes to the index written (up to the normalisations
   C17 states: reread_csi); a consumed Fail e => the call that was running returns Err e and is
   the last one made; short writes / Interrupted only => Ok, Ok and the same bytes; always a prefix *)
Theorem c14_csi_write_index :
  forall maxbuf frames, 0 < maxbuf -> forall i o, csi_ok i -> o = BTryFinish \/ o = BFinish ->
  forall s rs st' s', ixb_run maxbuf frames (c_csi i) o s = (rs, st', s') ->
    (Forall (fun r => r = XDone Ok) rs ->
       rs = [XDone Ok; XDone Ok] /\
       sbytes s' = sbytes s ++ bgzf_of_len maxbuf frames (length (w_csi_bytes i)) /\
       read_csi (w_csi_bytes i) = Some (reread_csi i)) /\
    (forall c e, sscript s = c ++ sscript s' -> In (Fail e) c -> e <> e_interrupted ->
       rs = [XDone (Err e)] \/ rs = [XDone Ok; XDone (Err e)]) /\
    (no_fail (sscript s) ->
       rs = [XDone Ok; XDone Ok] /\ sbytes s' = sbytes s ++ bgzf_of_len maxbuf frames (length (w_csi_bytes i))) /\
    (exists p, sbytes s' = sbytes s ++ p /\ prefix p (bgzf_of_len maxbuf frames (length (w_csi_bytes i)))).
Proof. exact csi_write_index_property. Qed.
Print Assumptions c14_csi_write_index.

Theorem c14_tbi_write_index :
  forall maxbuf frames, 0 < maxbuf -> forall i o, tbi_ok i -> o = BTryFinish \/ o = BFinish ->
  forall s rs st' s', ixb_run maxbuf frames (c_tbi i) o s = (rs, st', s') ->
    (Forall (fun r => r = XDone Ok) rs ->
       rs = [XDone Ok; XDone Ok] /\
       sbytes s' = sbytes s ++ bgzf_of_len maxbuf frames (length (w_tbi_bytes i)) /\
       read_tbi (w_tbi_bytes i) = Some (reread_tbi i)) /\
    (forall c e, sscript s = c ++ sscript s' -> In (Fail e) c -> e <> e_interrupted ->
       rs = [XDone (Err e)] \/ rs = [XDone Ok; XDone (Err e)]) /\
    (no_fail (sscript s) ->
       rs = [XDone Ok; XDone Ok] /\ sbytes s' = sbytes s ++ bgzf_of_len maxbuf frames (length (w_tbi_bytes i))) /\
    (exists p, sbytes s' = sbytes s ++ p /\ prefix p (bgzf_of_len maxbuf frames (length (w_tbi_bytes i)))).
Proof. exact tbi_write_index_property. Qed.
Print Assumptions c14_tbi_write_index.

(* an index below the staging buffer (the usual case): write_index returns Ok without touching the
   destination whatever its script; the finishing call alone decides and reports *)
Theorem c14_index_small_error_at_finish :
  forall maxbuf frames, 0 < maxbuf -> forall cs payload o,
    (x_first_bad cs = None /\ x_out cs = payload) -> o = BTryFinish \/ o = BFinish -> length payload < maxbuf ->
  forall s rs st' s', ixb_run maxbuf frames cs o s = (rs, st', s') ->
    exists r, rs = [XDone Ok; XDone r] /\
      (r = Ok -> sbytes s' = sbytes s ++ bgzf_of_len maxbuf frames (length payload)) /\
      (forall c e, sscript s = c ++ sscript s' -> In (Fail e) c -> e <> e_interrupted -> r = Err e) /\
      (no_fail (sscript s) -> r = Ok).
Proof. exact ixb_small_index. Qed.
Print Assumptions c14_index_small_error_at_finish.

(* the encoder's own failure [c] (InvalidInput or a panic) after the clean steps [pre]: write_index
   returns it, no finishing call is made, and Drop -- also when unwinding -- still leaves a complete
   BGZF stream of the bytes accepted before (destination without Fail events) *)
Theorem c14_index_over_bgzf_encoder_failure :
  forall maxbuf frames, 0 < maxbuf -> forall pre c post o s,
    x_first_bad pre = None -> (forall b, c <> XW b) -> no_fail (sscript s) ->
    exists s2, ixb_life maxbuf frames (pre ++ c :: post) o s = ([xres_of c], s2) /\
      sbytes s2 = sbytes s ++ bgzf_of_len maxbuf frames (length (x_out pre)).
Proof. exact ixb_encoder_failure. Qed.
Print Assumptions c14_index_over_bgzf_encoder_failure.

(* a CSI index with one reference, aux header with one name: 25 calls on the BGZF writer, none on the
   destination before the finishing call; the destination fails in the 3rd call of try_finish.  A
   NUL in the second sequence name of a tabix header: InvalidInput after 11 calls *)
Example c14_example_csi :
  let h := mkhdr FVcf 0%N 1%N None 35%N 0%N [[99]%N] in
  let i := mkcsi 14%N 5 (Some h) [mkcref [(4681, [(10, 20)])]%N [(4681, 7)]%N None] (Some 3%N) in
  length (c_csi i) = 13 /\
  fst (csi_life 100 [drop_wit_frame] i BTryFinish (mkSink [] [Full; Full; Fail 5%N] 0)) = [XDone Ok; XDone (Err 5%N)] /\
  fst (csi_life 100 [drop_wit_frame] i BFinish ideal_sink) = [XDone Ok; XDone Ok] /\
  fst (tbi_life 100 [drop_wit_frame] (mktbi (Some (mkhdr FVcf 0%N 1%N None 35%N 0%N [[99]; [98; 0]]%N)) [] None)
         BFinish ideal_sink) = [XDone (Err e_invalid_input)].
Proof. vm_compute. repeat split; reflexivity. Qed.

(* ----------------------------------------------------------------------------------------- *)
(* The residual class "the BGZF EOF marker is written by Drop" (known findings
   bam-trait-finish-eof-in-drop and builder-bgzf-eof-in-drop) characterised exactly: a life made of
   write_all / flush calls only whose last explicit call is a flush (all the trait `finish` of a
   bam writer, and the Write trait object returned by the sam / vcf Builder, can do), then Drop.
   Failures during the explicit calls are reported (c14_bgzf_failure_reported, any ops).  When every
   explicit call returned Ok: all data frames are already on the destination, nothing is staged, and
   Drop makes exactly ONE write_all -- of the 28-byte marker.  So the only destination calls whose
   failure is lost are the inner write calls of that write_all; the destination then holds all the
   data and a prefix of the marker, and the complete file iff that write_all succeeded. *)
Theorem c14_eof_in_drop_characterisation :
  forall maxbuf frames, 0 < maxbuf -> forall ops s rs st1 s1,
    Forall no_finish ops ->
    bw_run_ops maxbuf frames (ops ++ [BFlush]) s = (rs, st1, s1) ->
    Forall (fun r => r = Ok) rs ->
    sbytes s1 = sbytes s ++ bw_ideal_out maxbuf frames (ops ++ [BFlush]) /\ staged st1 = 0 /\
    snd (bw_drop frames st1 s1) = snd (write_all BGZF_EOF s1) /\
    forall r s2, write_all BGZF_EOF s1 = (r, s2) ->
      (exists p, sbytes s2 = sbytes s ++ bw_ideal_out maxbuf frames (ops ++ [BFlush]) ++ p /\ prefix p BGZF_EOF) /\
      (r = Ok -> sbytes s2 = sbytes s ++ bw_ideal_out maxbuf frames (ops ++ [BFlush]) ++ BGZF_EOF) /\
      (no_fail (sscript s1) -> r = Ok) /\
      (forall c e, sscript s1 = c ++ sscript s2 -> In (Fail e) c -> e <> e_interrupted -> r = Err e).
Proof. exact flush_only_life. Qed.
Print Assumptions c14_eof_in_drop_characterisation.

(* the class is inhabited: write, flush, drop; the destination fails in the marker: every call
   returned Ok, the destination holds the data frame and 5 bytes of the marker *)
Theorem c14_eof_in_drop_refuted :
  bw_run 100 [drop_wit_frame] [BWriteAll 3; BFlush] (mkSink [] (repeat Full 14 ++ [Short 5; Fail 2%N]) 0)
  = ([Ok; Ok], mkSink (drop_wit_frame ++ firstn 5 BGZF_EOF) [] 16).
Proof. exact eof_in_drop_refuted. Qed.
Print Assumptions c14_eof_in_drop_refuted.

(* ----------------------------------------------------------------------------------------- *)
(* async writers over a faulty tokio AsyncWrite destination (NV.Sinks.AsyncSink): every poll of
   poll_write consumes one event -- Pending, accept part of the buffer, or an error.  tokio's
   write_all returns EVERY error of a poll (ErrorKind::Interrupted included). *)

(* one write_all(..).await: Ok => exactly the buffer was appended; a consumed error => it is the
   result; no error event => Ok whatever the Pending / partial-write pattern; always a prefix *)
Theorem c14_async_write_all :
  forall buf s r s',
    as_write_all buf s = (r, s') ->
    (r = Ok -> as_bytes s' = as_bytes s ++ buf) /\
    (forall c e, as_script s = c ++ as_script s' -> In (AErr e) c -> r = Err e) /\
    (a_noerr (as_script s) -> r = Ok) /\
    (exists p, as_bytes s' = as_bytes s ++ p /\ prefix p buf).
Proof. exact as_write_all_property. Qed.
Print Assumptions c14_async_write_all.

(* a life of operations, each a `?`-chain of write_all(..).await calls, the caller stopping at the
   first Err: all Ok => complete; an injected error is returned by the awaiting operation -- all
   before it returned Ok, nothing is called after it --; partial writes / Pending only =>
   byte-identical; the destination always holds a prefix *)
Theorem c14_async_chain_property :
  forall ops s rs s',
    as_run ops s = (rs, s') ->
    (Forall (fun r => r = Ok) rs -> length rs = length ops /\ as_bytes s' = as_bytes s ++ as_out ops) /\
    (forall c e, as_script s = c ++ as_script s' -> In (AErr e) c ->
       exists j, j < length ops /\ rs = repeat Ok j ++ [Err e]) /\
    (a_noerr (as_script s) -> rs = repeat Ok (length ops) /\ as_bytes s' = as_bytes s ++ as_out ops) /\
    (exists p, as_bytes s' = as_bytes s ++ p /\ prefix p (as_out ops)).
Proof. exact as_run_property. Qed.
Print Assumptions c14_async_chain_property.

(* the async FASTQ writer (its write_record is the chain fq_calls): the complete file is the
   concatenation of the records' text *)
Theorem c14_async_fastq_out :
  forall recs, as_out (map fq_calls recs) = concat (map fq_text recs).
Proof. exact afq_out. Qed.
Print Assumptions c14_async_fastq_out.

(* on error-free scripts this model agrees with C16's NV.Async.WriteAll (read-only) *)
Theorem c14_async_agrees_with_c16 :
  forall bufs s, a_noerr (as_script s) ->
  exists s' p lg,
    as_chain bufs s = (Ok, s') /\
    NV.Async.WriteAll.write_calls
      (NV.Async.WriteAll.mkASink (as_bytes s) (map a_to_w (as_script s)) []) bufs
    = (NV.Async.WriteAll.WOk, NV.Async.WriteAll.mkASink (as_bytes s') p lg).
Proof. exact as_chain_agrees_with_c16. Qed.
Print Assumptions c14_async_agrees_with_c16.

(* a FASTQ record through Pending and 1-byte polls, then an Interrupted error in the 2nd record *)
Example c14_example_async :
  let r := mkFq [114; 48]%N [] [65; 67]%N [33; 33]%N in
  fst (afq_run [r; r] (mkAs [] ([APending; AAccept 1] ++ repeat (AAccept 9) 8 ++ [AAccept 1; AErr 0%N]) 0))
    = [Ok; Err 0%N]
  /\ as_bytes (snd (afq_run [r] (mkAs [] [APending; AAccept 1; APending] 0))) = fq_text r.
Proof. vm_compute. split; reflexivity. Qed.

(* ----------------------------------------------------------------------------------------- *)
(* CRAM writer at the level of its sink usage (each operation = a `?`-chain of write_all calls of
   the given lengths; content opaque).  Partial: the container encoder is not modelled, so
   "decodes to what was written" is not part of the statement. *)
Theorem c14_cram_failure_reported_partial :
  forall ops s rs s',
    cram_run ops s = (rs, s') ->
    (Forall (fun r => r = Ok) rs ->
       length rs = length ops /\ length (sbytes s') = length (sbytes s) + cram_total ops) /\
    (forall c e, sscript s = c ++ sscript s' -> In (Fail e) c -> e <> e_interrupted -> In (Err e) rs) /\
    (no_fail (sscript s) ->
       rs = repeat Ok (length ops) /\ length (sbytes s') = length (sbytes s) + cram_total ops).
Proof. exact cram_failure_reported_partial. Qed.
Print Assumptions c14_cram_failure_reported_partial.

(* the full statement for CRAM, relative to its container codec (encode = the `?`-chains of
   buffers the writer produces for the records, decode = the reader): proved for every codec that
   round-trips on a healthy destination; that the real writer is [lw_run (encode r)] is what the
   correspondence check samples (`cram` cases), and the round trip is the codec properties' *)
Definition c14_cram_full_statement (R : Type) (encode : R -> list (list call))
    (decode : list byte -> option R) : Prop :=
  (forall r, decode (lw_out (encode r)) = Some r) ->
  forall r s rs s', sbytes s = [] -> lw_run (encode r) s = (rs, s') ->
    Forall (fun x => x = Ok) rs -> decode (sbytes s') = Some r.

Theorem c14_layered_all_ok_decodes :
  forall R encode decode, c14_cram_full_statement R encode decode.
Proof. exact layered_all_ok_decodes. Qed.
Print Assumptions c14_layered_all_ok_decodes.

(* ----------------------------------------------------------------------------------------- *)
(* The CRAM data-container encoder's CALL STRUCTURE (NV.Sinks.CramCalls): write_container = header
   (4-byte length, 3 + 5 variable-length integers, the landmarks, CRC) then per block (method, type,
   id, two sizes, the data -- no inner call when empty --, CRC), each one write_all on the sink.  The
   lengths are an oracle of the run (not reproducible); count, order and shape are derived. *)

(* how many calls a container makes *)
Theorem c14_cram_container_call_count :
  forall c, cc_wf c = true ->
    length (cc_lens c) + cc_empties c = 10 + length (cc_landmarks c) + 7 * length (cc_blocks c).
Proof. exact cc_lens_count. Qed.
Print Assumptions c14_cram_container_call_count.

(* one write_container on any destination: Ok => all its bytes were appended; a consumed Fail e =>
   Err e; short writes / Interrupted only => Ok; always a prefix (content opaque: lengths) *)
Theorem c14_cram_container_write :
  forall c s r s', cramc_write_container c s = (r, s') ->
    (r = Ok -> sbytes s' = sbytes s ++ repeat 0%N (list_sum (cc_lens c))) /\
    (forall sc e, sscript s = sc ++ sscript s' -> In (Fail e) sc -> e <> e_interrupted -> r = Err e) /\
    (no_fail (sscript s) -> r = Ok) /\
    (exists n, n <= list_sum (cc_lens c) /\ sbytes s' = sbytes s ++ repeat 0%N n).
Proof. exact cramc_container_property. Qed.
Print Assumptions c14_cram_container_write.

(* for EVERY index k of the container's calls failing: returned by write_container after exactly
   k + 1 inner calls, the destination holds exactly the first k buffers *)
Theorem c14_cram_container_fail_at_every_call :
  forall c, cc_wf c = true -> forall k, k < length (cc_lens c) ->
  forall e b0 rest c0, e <> e_interrupted ->
    cramc_write_container c (mkSink b0 (repeat Full k ++ Fail e :: rest) c0)
    = (Err e, mkSink (b0 ++ repeat 0%N (list_sum (firstn k (cc_lens c)))) rest (c0 + k + 1)).
Proof. exact cramc_fail_at_every_call. Qed.
Print Assumptions c14_cram_container_fail_at_every_call.

(* the whole life (write_header; one write_alignment_record per record, some of which write the
   container of the buffered records; try_finish = the last container then the EOF container) is an
   instance of cram_run: failure reported by the operation that was running, all Ok => everything
   was appended *)
Theorem c14_cram_life_with_containers :
  forall hdr recs fin s rs s',
    cramc_run hdr recs fin s = (rs, s') ->
    (forall c e, sscript s = c ++ sscript s' -> In (Fail e) c -> e <> e_interrupted -> In (Err e) rs) /\
    (no_fail (sscript s) -> rs = repeat Ok (2 + length recs)).
Proof. exact cramc_life. Qed.
Print Assumptions c14_cram_life_with_containers.

(* a container with one landmark and two blocks (the second without data): 11 + 7 + 6 calls; the
   destination fails in the data of the first block *)
Example c14_example_cram_container :
  let c := mkCcont [1; 1; 1] 1 1 1 1 1 [1] [mkCblock 1 1 1 20; mkCblock 1 1 1 0] in
  cc_wf c = true /\ length (cc_lens c) = 24 /\
  fst (cramc_write_container c (mkSink [] (repeat Full 16 ++ [Fail 5%N]) 0)) = Err 5%N /\
  length (sbytes (snd (cramc_write_container c (mkSink [] (repeat Full 16 ++ [Fail 5%N]) 0)))) = 4 + 9 + 4 + 5.
Proof. vm_compute. repeat split; reflexivity. Qed.

Definition wit_frame : list byte := map N.of_nat (seq 1 30).

(* the former counterexample: one 3-byte write, try_finish, drop; the sink accepts the frame and
   the EOF block and would then fail -- Drop no longer touches it *)
Example c14_example_try_finish_then_drop :
  bw_run 100 [wit_frame] [BWriteAll 3; BTryFinish]
         (mkSink [] (repeat Full 15 ++ [Short 5; Fail 2%N]) 0)
  = ([Ok; Ok], mkSink (wit_frame ++ BGZF_EOF) [Short 5; Fail 2%N] 15).
Proof. vm_compute. reflexivity. Qed.

(* ----------------------------------------------------------------------------------------- *)
(* non-vacuity *)

(* a script whose failure is reached: one short write, one Interrupted, then Fail *)
Example c14_example_failure :
  write_all [1; 2; 3]%N (mkSink [] [Short 1; Interrupted; Fail 5%N] 0)
  = (Err 5%N, mkSink [1]%N [] 3).
Proof. vm_compute. reflexivity. Qed.

(* the same buffer through short writes and Interrupted only *)
Example c14_example_short :
  write_all [1; 2; 3]%N (mkSink [] [Short 1; Interrupted; Short 1; Interrupted] 0)
  = (Ok, mkSink [1; 2; 3]%N [] 5).
Proof. vm_compute. reflexivity. Qed.

(* a failure in the 7th write_all of a frame is reported by the flush that emits it, and by
   nothing before; dropping an unfinished writer on a healthy sink emits frame + EOF *)
Example c14_example_bgzf :
  fst (bw_run 100 [wit_frame] [BWriteAll 3; BFlush] (mkSink [] (repeat Full 6 ++ [Fail 3%N]) 0))
    = [Ok; Err 3%N]
  /\ sbytes (snd (bw_run 100 [wit_frame] [BWriteAll 3] ideal_sink)) = wit_frame ++ BGZF_EOF.
Proof. vm_compute. split; reflexivity. Qed.

(* the multithreaded writer: 2 blocks (3 + 1 bytes staged with a flush in between), pool of 2;
   the sink writes short, then fails inside the second frame: reported whichever strategy runs *)
Example c14_example_mt :
  mt_nblocks 100 [MWriteAll 3; MFlush; MWriteAll 1] = 2
  /\ fst (match mt_model 2 100 [wit_frame; wit_frame] true [MWriteAll 3; MFlush; MWriteAll 1]
                 (mkSink [] (repeat (Short 7) 20 ++ [Fail 4%N]) 0) with Some x => x | None => (OutOfFuel, ideal_sink) end)
     = Err 4%N
  /\ mt_model 2 100 [wit_frame; wit_frame] false [MWriteAll 3; MFlush; MWriteAll 1] ideal_sink
     = Some (Ok, mkSink (wit_frame ++ wit_frame ++ BGZF_EOF) [] 29).
Proof. vm_compute. repeat split; reflexivity. Qed.

(* attribution depends on the schedule: 2 blocks, the sink fails in the first frame.  Gate closed
   until finish(): finish() reports; a synchronisation point after the first op: the flush that
   makes the next send() reports *)
Example c14_example_mt_app :
  option_map fst (mta_model 2 100 [wit_frame; wit_frame] (mta_pol [false; false; false])
                    [MWriteAll 3; MFlush; MWriteAll 1] (mkSink [] [Full; Fail 4%N] 0))
    = Some [Ok; Ok; Ok; Err 4%N]
  /\ option_map fst (mta_model 2 100 [wit_frame; wit_frame] (mta_pol [false; true; false])
                    [MWriteAll 3; MFlush; MWriteAll 1] (mkSink [] [Full; Fail 4%N] 0))
    = Some [Ok; Ok; Ok; Err 4%N]
  /\ option_map fst (mta_model 2 100 [wit_frame; wit_frame] (mta_pol [false; true; false])
                    [MWriteAll 3; MFlush; MWriteAll 1; MFlush] (mkSink [] [Full; Fail 4%N] 0))
    = Some [Ok; Ok; Ok; Err 4%N].
Proof. vm_compute. repeat split; reflexivity. Qed.

(* a CSI-like life: 3 small writes, try_finish; the sink fails in the 9th call made by try_finish *)
Example c14_example_small_file :
  fst (fob_run 100 [wit_frame] [[BWriteAll 3; BWriteAll 4]; [BWriteAll 1]; [BTryFinish]]
         (mkSink [] (repeat Full 8 ++ [Fail 6%N]) 0))
  = [Ok; Ok; Err 6%N].
Proof. vm_compute. reflexivity. Qed.

(* ----------------------------------------------------------------------------------------- *)
(* WAVE 10 -- the FASTA index (fai) writer, FULL statement.  NV.Sinks.FaiCalls gives
   fai::io::Writer::write_index as the actual sequence of write_all calls: per record
   write_all(name), then the nine write_all calls io::Write::write_fmt makes for
   writeln!("\t{}\t{}\t{}\t{}") (four TABs, four decimal integers, the LF); the BYTES are C17's
   NV.Index.TextIndex.w_fai (read-only), whose reader C17 proved to round-trip (fai_roundtrip). *)
From NV Require Import Base.Decimal Index.TextIndex Index.TextIndexProofs Sinks.FaiCalls Sinks.FaiCallsProofs.
Close Scope N_scope.

(* the call boundaries add up to C17's text layout; the encoder has no error of its own *)
Theorem c14_fai_calls_are_layout :
  forall l, ix_out (c_fai l) = w_fai l /\ ix_clean (c_fai l) = true.
Proof. exact c_fai_out. Qed.
Print Assumptions c14_fai_calls_are_layout.

(* one write_index call on any sink, every fault script: Ok => the destination holds exactly the
   file, which the fai reader decodes to the records written; a consumed Fail e => Err e; short
   writes / Interrupted only => Ok (hence byte-identical); always a prefix of the file *)
Theorem c14_fai_write_index :
  forall l, Forall fai_ok l -> forall s r s',
    fai_write_index l s = (r, s') ->
    (r = Ok -> sbytes s' = sbytes s ++ w_fai l /\ (sbytes s = [] -> read_fai (sbytes s') = Some l)) /\
    (forall c e, sscript s = c ++ sscript s' -> In (Fail e) c -> e <> e_interrupted -> r = Err e) /\
    (no_fail (sscript s) -> r = Ok) /\
    (exists p, sbytes s' = sbytes s ++ p /\ SinkProofs.prefix p (w_fai l)).
Proof. exact fai_write_index_property. Qed.
Print Assumptions c14_fai_write_index.

(* the converse, for ANY records (no well-formedness premise): the model never runs out of fuel;
   an Err e is the last event the call consumed, a Fail e of the script, everything consumed before
   it being Full / Short / Interrupted events -- with the clause above: Err e <=> the destination
   refused with e; always a prefix *)
Theorem c14_fai_error_comes_from_sink :
  forall l s r s', fai_write_index l s = (r, s') ->
    r <> OutOfFuel /\
    (forall e, r = Err e -> exists c, sscript s = c ++ Fail e :: sscript s' /\ benign c) /\
    (r = Ok -> exists c, sscript s = c ++ sscript s' /\ benign c) /\
    (exists p, sbytes s' = sbytes s ++ p /\ SinkProofs.prefix p (w_fai l)).
Proof. exact fai_write_index_err_from_sink. Qed.
Print Assumptions c14_fai_error_comes_from_sink.

(* for EVERY index k of the destination's write calls failing (ix_live = the calls that carry at
   least one byte: a write_all of an empty name makes none): Err e after exactly k + 1 inner calls,
   the destination holds exactly the first k buffers *)
Theorem c14_fai_fail_at_every_call :
  forall l k, k < length (ix_live (c_fai l)) ->
  forall e rest, e <> e_interrupted ->
  exists p, fai_write_index l (mkSink [] (repeat Full k ++ Fail e :: rest) 0) = (Err e, mkSink p rest (k + 1))
            /\ p = concat (firstn k (map ic_out (ix_live (c_fai l)))) /\ SinkProofs.prefix p (w_fai l).
Proof. exact fai_fail_at_call. Qed.
Print Assumptions c14_fai_fail_at_every_call.

(* ten destination calls per record when every name is non-empty (nine for a record with an
   empty name: c_fai_rec_live_len) *)
Theorem c14_fai_ten_calls_per_record :
  forall l, Forall (fun r => f_name r <> []) l ->
    ix_live (c_fai l) = c_fai l /\ length (c_fai l) = 10 * length l.
Proof. exact c_fai_live_named. Qed.
Print Assumptions c14_fai_ten_calls_per_record.
