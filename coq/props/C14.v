(* C14 — Writers never hide a sink failure and tolerate short writes.

   Property theorems only; each is closed by [exact] of a lemma proved in theories/Sinks and
   followed by Print Assumptions.  Model: NV.Sinks.Sink (a sink = accepted bytes + a fault
   script with one event per inner write()/flush() call; std's write_all; a generic layered
   writer = `?`-chains of write_all/flush calls grouped into operations, the caller stopping at
   the first Err; noodles-bgzf's io::Writer with frames as opaque byte lists).  All theorems
   quantify over ALL fault scripts, buffers and operation sequences. *)
From Coq Require Import List NArith Arith.
From NV Require Import Sinks.Sink Sinks.SinkProofs Sinks.LayerProofs Sinks.BgzfProofs.
From NV Require Import Io.Sched Sinks.Mt Sinks.MtProofs Sinks.Format Sinks.FormatProofs.
Import ListNotations.

(* ----------------------------------------------------------------------------------------- *)
(* std::io::Write::write_all over a faulty sink *)

(* short writes and Interrupted, in any pattern, change nothing: exactly the buffer is appended *)
Theorem c14_write_all_short_invariant :
  forall buf s, no_fail (sscript s) ->
    exists s', write_all buf s = (Ok, s') /\ sbytes s' = sbytes s ++ buf.
Proof. exact write_all_short_invariant. Qed.
Print Assumptions c14_write_all_short_invariant.

(* if the call consumed a Fail e event (c = the script events it consumed), it returns Err e,
   and what it appended is a prefix of the buffer *)
Theorem c14_write_all_failure_reported :
  forall buf s r s' c e,
    write_all buf s = (r, s') -> sscript s = c ++ sscript s' -> In (Fail e) c -> e <> e_interrupted ->
    r = Err e /\ exists p, sbytes s' = sbytes s ++ p /\ prefix p buf.
Proof. exact write_all_failure_reported. Qed.
Print Assumptions c14_write_all_failure_reported.

(* conversely every Err comes from the script (never WriteZero of its own, never Interrupted) *)
Theorem c14_write_all_err_from_script :
  forall buf s e s', write_all buf s = (Err e, s') ->
    e <> e_interrupted /\ exists c, sscript s = c ++ Fail e :: sscript s' /\ benign c.
Proof. exact write_all_err_from_script. Qed.
Print Assumptions c14_write_all_err_from_script.

(* ----------------------------------------------------------------------------------------- *)
(* generic layered writer: operations = `?`-chains of write_all / flush on the sink *)

Theorem c14_all_ok_complete :
  forall ops s rs s',
    lw_run ops s = (rs, s') -> Forall (fun r => r = Ok) rs ->
    length rs = length ops /\ sbytes s' = sbytes s ++ lw_out ops.
Proof. exact lw_all_ok_complete. Qed.
Print Assumptions c14_all_ok_complete.

Theorem c14_failure_reported :
  forall ops s rs s' c e,
    lw_run ops s = (rs, s') -> sscript s = c ++ sscript s' -> In (Fail e) c -> e <> e_interrupted ->
    In (Err e) rs.
Proof. exact lw_failure_reported. Qed.
Print Assumptions c14_failure_reported.

Theorem c14_short_write_invariant :
  forall ops s rs s',
    lw_run ops s = (rs, s') -> no_fail (sscript s) ->
    rs = repeat Ok (length ops) /\ sbytes s' = sbytes s ++ lw_out ops.
Proof. exact lw_short_write_invariant. Qed.
Print Assumptions c14_short_write_invariant.

(* whatever the script, the sink holds a prefix of the fault-free output (nothing else is ever
   written, nothing is written twice) *)
Theorem c14_sink_is_prefix :
  forall ops s rs s',
    lw_run ops s = (rs, s') -> exists p, sbytes s' = sbytes s ++ p /\ prefix p (lw_out ops).
Proof. exact lw_prefix. Qed.
Print Assumptions c14_sink_is_prefix.

(* ----------------------------------------------------------------------------------------- *)
(* bgzf::io::Writer (maxbuf = MAX_BUF_SIZE > 0; frames = whatever the compressor produces) *)

(* [bw_ideal_out] / [bw_ideal_state] are the output and state of the same operations on the sink
   that never fails *)
Theorem c14_bgzf_ideal :
  forall maxbuf frames, 0 < maxbuf -> forall ops,
    let '(rs, st', s') := bw_run_ops maxbuf frames ops ideal_sink in
    rs = repeat Ok (length ops) /\ st' = bw_ideal_state maxbuf frames ops /\
    sbytes s' = bw_ideal_out maxbuf frames ops.
Proof. exact bw_ideal. Qed.
Print Assumptions c14_bgzf_ideal.

Theorem c14_bgzf_all_ok_complete :
  forall maxbuf frames, 0 < maxbuf -> forall ops s rs st' s',
    bw_run_ops maxbuf frames ops s = (rs, st', s') -> Forall (fun r => r = Ok) rs ->
    length rs = length ops /\ st' = bw_ideal_state maxbuf frames ops /\
    sbytes s' = sbytes s ++ bw_ideal_out maxbuf frames ops.
Proof. exact bw_all_ok_complete. Qed.
Print Assumptions c14_bgzf_all_ok_complete.

Theorem c14_bgzf_failure_reported :
  forall maxbuf frames, 0 < maxbuf -> forall ops s rs st' s' c e,
    bw_run_ops maxbuf frames ops s = (rs, st', s') ->
    sscript s = c ++ sscript s' -> In (Fail e) c -> e <> e_interrupted ->
    In (Err e) rs /\ exists j, rs = repeat Ok j ++ [Err e].
Proof. exact bw_failure_reported. Qed.
Print Assumptions c14_bgzf_failure_reported.

Theorem c14_bgzf_short_write_invariant :
  forall maxbuf frames, 0 < maxbuf -> forall ops s rs st' s',
    bw_run_ops maxbuf frames ops s = (rs, st', s') -> no_fail (sscript s) ->
    rs = repeat Ok (length ops) /\ st' = bw_ideal_state maxbuf frames ops /\
    sbytes s' = sbytes s ++ bw_ideal_out maxbuf frames ops.
Proof. exact bw_short_write_invariant. Qed.
Print Assumptions c14_bgzf_short_write_invariant.

Theorem c14_bgzf_sink_is_prefix :
  forall maxbuf frames, 0 < maxbuf -> forall ops s rs st' s',
    bw_run_ops maxbuf frames ops s = (rs, st', s') ->
    exists p, sbytes s' = sbytes s ++ p /\ prefix p (bw_ideal_out maxbuf frames ops).
Proof. exact bw_prefix. Qed.
Print Assumptions c14_bgzf_sink_is_prefix.

(* dropping a writer that still owns its sink appends the staged block (if any) and the EOF
   block, whatever short-write / Interrupted pattern the sink follows *)
Theorem c14_drop_emits :
  forall frames st s, no_fail (sscript s) ->
    let (st', s') := bw_drop frames st s in
    sbytes s' = sbytes s ++ drop_out frames st /\ no_fail (sscript s').
Proof. exact bw_drop_emits. Qed.
Print Assumptions c14_drop_emits.

(* the whole life (operations, then Drop) is byte-identical to the life on the ideal sink *)
Theorem c14_bgzf_life_short_write_invariant :
  forall maxbuf frames, 0 < maxbuf -> forall ops s rs s',
    bw_run maxbuf frames ops s = (rs, s') -> no_fail (sscript s) ->
    rs = repeat Ok (length ops) /\
    sbytes s' = sbytes s ++ sbytes (snd (bw_run maxbuf frames ops ideal_sink)).
Proof. exact bw_life_short_write_invariant. Qed.
Print Assumptions c14_bgzf_life_short_write_invariant.

(* "whenever all calls including finish return Ok the destination holds the complete file", for
   the whole life including Drop, whichever of try_finish() / finish(self) ends it.  (Before the
   repair of bgzf-second-eof-in-drop this was refuted for `try_finish(); drop`: Drop wrote a
   second EOF block whose failure nobody could observe.) *)
Theorem c14_bgzf_finished_life_complete :
  forall maxbuf frames, 0 < maxbuf -> forall ops o s rs s',
    o = BTryFinish \/ o = BFinish ->
    bw_run maxbuf frames (ops ++ [o]) s = (rs, s') -> Forall (fun r => r = Ok) rs ->
    sbytes s' = sbytes s ++ bw_ideal_out maxbuf frames (ops ++ [o]).
Proof. exact bw_finished_life_complete. Qed.
Print Assumptions c14_bgzf_finished_life_complete.

(* ----------------------------------------------------------------------------------------- *)
(* bgzf::io::MultithreadedWriter: NV.Sinks.Mt instantiates the ticket pipeline NV.Io.Sched (C03's)
   with this property's sink in the writer thread.  [sched] is ANY list of scheduler actions
   (submit / start / complete task t / take / emit): completion order of the compress tasks,
   window occupancy and thread interleaving are all universally quantified; [mt_final] says the
   life is over (channel drained, or the writer thread has exited with an error). *)

(* under every schedule the result and the sink are those of the sequential `?`-chain
   "14 write_all calls per frame, frames in submission order, then the EOF block" *)
Theorem c14_mt_equals_sequential :
  forall P maxbuf frames ops sched s,
    mt_final (mt_state P maxbuf frames ops sched s) = true ->
    mt_life P maxbuf frames ops sched s = run_calls (mt_calls maxbuf frames ops) s.
Proof. exact mt_equals_sequential. Qed.
Print Assumptions c14_mt_equals_sequential.

Theorem c14_mt_all_ok_complete :
  forall P maxbuf frames ops sched s s',
    mt_final (mt_state P maxbuf frames ops sched s) = true ->
    mt_life P maxbuf frames ops sched s = (Ok, s') ->
    sbytes s' = sbytes s ++ mt_out maxbuf frames ops.
Proof. exact mt_all_ok_complete. Qed.
Print Assumptions c14_mt_all_ok_complete.

(* ... and that complete file is the single-threaded writer's for the same operations + finish *)
Theorem c14_mt_out_is_st_out :
  forall maxbuf frames, 0 < maxbuf -> forall ops,
    mt_out maxbuf frames ops = bw_ideal_out maxbuf frames (map mop_bop ops ++ [BFinish]).
Proof. exact mt_out_is_st_out. Qed.
Print Assumptions c14_mt_out_is_st_out.

Theorem c14_mt_failure_reported :
  forall P maxbuf frames ops sched s r s' c e,
    mt_final (mt_state P maxbuf frames ops sched s) = true ->
    mt_life P maxbuf frames ops sched s = (r, s') ->
    sscript s = c ++ sscript s' -> In (Fail e) c -> e <> e_interrupted ->
    r = Err e /\ exists p, sbytes s' = sbytes s ++ p /\ prefix p (mt_out maxbuf frames ops).
Proof. exact mt_failure_reported. Qed.
Print Assumptions c14_mt_failure_reported.

Theorem c14_mt_short_write_invariant :
  forall P maxbuf frames ops sched s,
    mt_final (mt_state P maxbuf frames ops sched s) = true -> no_fail (sscript s) ->
    exists s', mt_life P maxbuf frames ops sched s = (Ok, s') /\
               sbytes s' = sbytes s ++ mt_out maxbuf frames ops.
Proof. exact mt_short_write_invariant. Qed.
Print Assumptions c14_mt_short_write_invariant.

(* the two strategies run by the correspondence check are schedules (so the theorems above apply
   to what is compared with the implementation), and the FIFO one always reaches a final state *)
Theorem c14_mt_model_sequential :
  forall P maxbuf frames lifo ops s r,
    mt_model P maxbuf frames lifo ops s = Some r -> r = run_calls (mt_calls maxbuf frames ops) s.
Proof. exact mt_model_sequential. Qed.
Print Assumptions c14_mt_model_sequential.

Theorem c14_mt_model_fifo_total :
  forall P maxbuf frames, 0 < P -> forall ops s, mt_model P maxbuf frames false ops s <> None.
Proof. exact mt_model_fifo_total. Qed.
Print Assumptions c14_mt_model_fifo_total.

(* ----------------------------------------------------------------------------------------- *)
(* format writers over a BGZF writer (BAM, BCF, CSI, tabix, bgzipped SAM / VCF at the level of
   their byte stream): [ops] = for each explicit operation of the format layer, the calls it
   makes on the BGZF writer, joined by `?` -- ANY calls, ANY grouping *)
Theorem c14_format_over_bgzf :
  forall maxbuf frames, 0 < maxbuf -> forall ops s rs st' s',
    fob_run_ops maxbuf frames ops s = (rs, st', s') ->
    (Forall (fun r => r = Ok) rs ->
       length rs = length ops /\ st' = fob_state maxbuf frames ops /\
       sbytes s' = sbytes s ++ fob_out maxbuf frames ops) /\
    (forall c e, sscript s = c ++ sscript s' -> In (Fail e) c -> e <> e_interrupted ->
       In (Err e) rs /\ exists j, rs = repeat Ok j ++ [Err e]) /\
    (no_fail (sscript s) ->
       rs = repeat Ok (length ops) /\ st' = fob_state maxbuf frames ops /\
       sbytes s' = sbytes s ++ fob_out maxbuf frames ops) /\
    (exists p, sbytes s' = sbytes s ++ p /\ prefix p (fob_out maxbuf frames ops)).
Proof. exact format_over_bgzf. Qed.
Print Assumptions c14_format_over_bgzf.

(* write_all calls with buffers of lengths ns, then try_finish / finish: the fault-free stream is
   BGZF of the concatenation ([bgzf_of_len]: ceil(total / maxbuf) frames, then the EOF block) *)
Theorem c14_bgzf_stream_of_concatenation :
  forall maxbuf frames, 0 < maxbuf -> forall ns o, o = BTryFinish \/ o = BFinish ->
    bw_ideal_out maxbuf frames (map BWriteAll ns ++ [o]) = bgzf_of_len maxbuf frames (list_sum ns).
Proof. exact writes_then_finish_out. Qed.
Print Assumptions c14_bgzf_stream_of_concatenation.

(* the staging-buffer case (CSI / tabix, small SAM.gz / VCF.gz / BAM / BCF): everything fits the
   staging buffer, the writes return Ok without touching the sink, and a destination failure --
   which can only happen inside the finishing call -- is returned by that call *)
Theorem c14_small_file_error_at_finish :
  forall maxbuf frames, 0 < maxbuf -> forall ns o s rs st' s',
    o = BTryFinish \/ o = BFinish -> list_sum ns < maxbuf ->
    bw_run_ops maxbuf frames (map BWriteAll ns ++ [o]) s = (rs, st', s') ->
    exists r, rs = repeat Ok (length ns) ++ [r] /\
      (r = Ok -> sbytes s' = sbytes s ++ bgzf_of_len maxbuf frames (list_sum ns)) /\
      (forall c e, sscript s = c ++ sscript s' -> In (Fail e) c -> e <> e_interrupted -> r = Err e) /\
      (no_fail (sscript s) -> r = Ok).
Proof. exact small_file_error_at_finish. Qed.
Print Assumptions c14_small_file_error_at_finish.

(* ----------------------------------------------------------------------------------------- *)
(* CRAM writer at the level of its sink usage (each operation = a `?`-chain of write_all calls of
   the given lengths; content opaque).  Partial: the container encoder is not modelled, so
   "decodes to what was written" is not part of the statement. *)
Theorem c14_cram_failure_reported_partial :
  forall ops s rs s',
    cram_run ops s = (rs, s') ->
    (Forall (fun r => r = Ok) rs ->
       length rs = length ops /\ length (sbytes s') = length (sbytes s) + cram_total ops) /\
    (forall c e, sscript s = c ++ sscript s' -> In (Fail e) c -> e <> e_interrupted -> In (Err e) rs) /\
    (no_fail (sscript s) ->
       rs = repeat Ok (length ops) /\ length (sbytes s') = length (sbytes s) + cram_total ops).
Proof. exact cram_failure_reported_partial. Qed.
Print Assumptions c14_cram_failure_reported_partial.

(* the full statement for CRAM, relative to its container codec (encode = the `?`-chains of
   buffers the writer produces for the records, decode = the reader): proved for every codec that
   round-trips on a healthy destination; that the real writer is [lw_run (encode r)] is what the
   correspondence check samples (`cram` cases), and the round trip is the codec properties' *)
Definition c14_cram_full_statement (R : Type) (encode : R -> list (list call))
    (decode : list byte -> option R) : Prop :=
  (forall r, decode (lw_out (encode r)) = Some r) ->
  forall r s rs s', sbytes s = [] -> lw_run (encode r) s = (rs, s') ->
    Forall (fun x => x = Ok) rs -> decode (sbytes s') = Some r.

Theorem c14_layered_all_ok_decodes :
  forall R encode decode, c14_cram_full_statement R encode decode.
Proof. exact layered_all_ok_decodes. Qed.
Print Assumptions c14_layered_all_ok_decodes.

Definition wit_frame : list byte := map N.of_nat (seq 1 30).

(* the former counterexample: one 3-byte write, try_finish, drop; the sink accepts the frame and
   the EOF block and would then fail -- Drop no longer touches it *)
Example c14_example_try_finish_then_drop :
  bw_run 100 [wit_frame] [BWriteAll 3; BTryFinish]
         (mkSink [] (repeat Full 15 ++ [Short 5; Fail 2%N]) 0)
  = ([Ok; Ok], mkSink (wit_frame ++ BGZF_EOF) [Short 5; Fail 2%N] 15).
Proof. vm_compute. reflexivity. Qed.

(* ----------------------------------------------------------------------------------------- *)
(* non-vacuity *)

(* a script whose failure is reached: one short write, one Interrupted, then Fail *)
Example c14_example_failure :
  write_all [1; 2; 3]%N (mkSink [] [Short 1; Interrupted; Fail 5%N] 0)
  = (Err 5%N, mkSink [1]%N [] 3).
Proof. vm_compute. reflexivity. Qed.

(* the same buffer through short writes and Interrupted only *)
Example c14_example_short :
  write_all [1; 2; 3]%N (mkSink [] [Short 1; Interrupted; Short 1; Interrupted] 0)
  = (Ok, mkSink [1; 2; 3]%N [] 5).
Proof. vm_compute. reflexivity. Qed.

(* a failure in the 7th write_all of a frame is reported by the flush that emits it, and by
   nothing before; dropping an unfinished writer on a healthy sink emits frame + EOF *)
Example c14_example_bgzf :
  fst (bw_run 100 [wit_frame] [BWriteAll 3; BFlush] (mkSink [] (repeat Full 6 ++ [Fail 3%N]) 0))
    = [Ok; Err 3%N]
  /\ sbytes (snd (bw_run 100 [wit_frame] [BWriteAll 3] ideal_sink)) = wit_frame ++ BGZF_EOF.
Proof. vm_compute. split; reflexivity. Qed.

(* the multithreaded writer: 2 blocks (3 + 1 bytes staged with a flush in between), pool of 2;
   the sink writes short, then fails inside the second frame: reported whichever strategy runs *)
Example c14_example_mt :
  mt_nblocks 100 [MWriteAll 3; MFlush; MWriteAll 1] = 2
  /\ fst (match mt_model 2 100 [wit_frame; wit_frame] true [MWriteAll 3; MFlush; MWriteAll 1]
                 (mkSink [] (repeat (Short 7) 20 ++ [Fail 4%N]) 0) with Some x => x | None => (OutOfFuel, ideal_sink) end)
     = Err 4%N
  /\ mt_model 2 100 [wit_frame; wit_frame] false [MWriteAll 3; MFlush; MWriteAll 1] ideal_sink
     = Some (Ok, mkSink (wit_frame ++ wit_frame ++ BGZF_EOF) [] 29).
Proof. vm_compute. repeat split; reflexivity. Qed.

(* a CSI-like life: 3 small writes, try_finish; the sink fails in the 9th call made by try_finish *)
Example c14_example_small_file :
  fst (fob_run 100 [wit_frame] [[BWriteAll 3; BWriteAll 4]; [BWriteAll 1]; [BTryFinish]]
         (mkSink [] (repeat Full 8 ++ [Fail 6%N]) 0))
  = [Ok; Ok; Err 6%N].
Proof. vm_compute. reflexivity. Qed.
