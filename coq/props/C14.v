(* C14 — Writers never hide a sink failure and tolerate short writes (skeleton). *)
From Coq Require Import List NArith.
From NV Require Import Sinks.Sink Sinks.SinkProofs.
Import ListNotations.

Theorem c14_write_all_good : forall buf, good buf (write_all buf).
Proof. exact write_all_good. Qed.
Print Assumptions c14_write_all_good.
