(* C17 — Binning scheme is sound; merging/pruning chunk lists never uncovers a retained range.
   Property theorems only: each is closed by [exact] of a lemma proved in theories/, and is
   followed by Print Assumptions.  The models are NV.Index.Bins (reg2bin/reg2bins of
   noodles-csi .../reference_sequence.rs) and NV.Index.Chunks (Bin::add_chunk, optimize_chunks). *)
From Coq Require Import List NArith.
From NV Require Import Index.Bins Index.BinsProofs Index.Chunks Index.ChunksProofs.
Import ListNotations.
Open Scope N_scope.

(* For EVERY geometry (min_shift ms, depth d) and every feature [fs,fe] / region [rs,re]
   (1-based, inclusive) that intersect, with the feature inside the geometry's coordinate
   range: the feature's bin is among the region's bins. *)
Theorem c17_reg2bin_in_reg2bins :
  forall ms d fs fe rs re,
    1 <= fs -> fs <= fe -> 1 <= rs -> rs <= re -> fs <= re -> rs <= fe ->
    fe <= max_position ms d ->
    In (reg2bin ms d fs fe) (reg2bins ms d rs re).
Proof. exact reg2bin_in_reg2bins. Qed.
Print Assumptions c17_reg2bin_in_reg2bins.

(* reg2bin names a bin at some level l <= d whose interval contains both ends of the feature *)
Theorem c17_reg2bin_contains :
  forall ms d b e, b <= e -> N.shiftr e (ms + 3 * N.of_nat d) = 0 ->
    exists l, (l <= d)%nat /\ reg2bin0 ms d b e = toff l + N.shiftr b (sh ms d l) /\
              N.shiftr b (sh ms d l) = N.shiftr e (sh ms d l).
Proof. exact reg2bin_contains. Qed.
Print Assumptions c17_reg2bin_contains.

(* ids stay below Bin::max_id(depth): the bit vector indexed in ReferenceSequence::query is large enough *)
Theorem c17_reg2bin_lt_max_id :
  forall ms d b e, b <= e -> N.shiftr e (ms + 3 * N.of_nat d) = 0 -> reg2bin0 ms d b e < max_id d.
Proof. exact reg2bin_lt_max_id. Qed.
Print Assumptions c17_reg2bin_lt_max_id.

(* optimize_chunks: exactly the points covered by a retained chunk (one ending after
   min_offset) stay covered -- nothing is uncovered, nothing is added *)
Theorem c17_optimize_chunks_covered :
  forall cs m v, covered (optimize_chunks cs m) v <-> exists c, In c cs /\ m < cend c /\ covers c v.
Proof. exact optimize_chunks_covered. Qed.
Print Assumptions c17_optimize_chunks_covered.

Theorem c17_optimize_chunks_covers :
  forall cs m c v, In c cs -> m < cend c -> covers c v -> covered (optimize_chunks cs m) v.
Proof. exact optimize_chunks_covers. Qed.
Print Assumptions c17_optimize_chunks_covers.

(* output chunks are sorted and strictly separated (hence no record is read twice) *)
Theorem c17_optimize_chunks_separated : forall cs m, separated (optimize_chunks cs m).
Proof. exact optimize_chunks_separated. Qed.
Print Assumptions c17_optimize_chunks_separated.

(* Bin::add_chunk with chunks arriving in file order preserves coverage exactly *)
Theorem c17_add_chunk_covered :
  forall cs c v,
    (forall l, last cs c = l -> cs <> [] -> cstart l <= cstart c /\ cend l <= cend c) ->
    (covered (add_chunk cs c) v <-> covered cs v \/ covers c v).
Proof. exact add_chunk_covered. Qed.
Print Assumptions c17_add_chunk_covered.

(* non-vacuity: a concrete instance at the BAM geometry crossing a 16 kb edge *)
Example c17_example :
  In (reg2bin 14 5 16380 16390) (reg2bins 14 5 16385 16385) /\ reg2bin 14 5 16380 16390 = 585.
Proof. vm_compute. split; [|reflexivity]. tauto. Qed.

(* ---- index files: write then read gives back the same index (BAI, gzi) ---- *)
From NV Require Import Base.LE Index.Layout Index.LayoutProofs.

(* BAI: any structurally valid index (bins with distinct ids other than the metadata pseudo-bin
   37450, any chunk lists, optional metadata pseudo-bin, any linear offsets, optional unplaced
   count; all values within their field widths) reads back equal, including the metadata
   pseudo-bin and the unplaced count. *)
Theorem c17_bai_roundtrip : forall i, bai_ok i -> read_bai (w_bai i) = Some i.
Proof. exact bai_roundtrip. Qed.
Print Assumptions c17_bai_roundtrip.

Theorem c17_gzi_roundtrip :
  forall idx, N.of_nat (length idx) < 18446744073709551616 -> Forall chunk_ok idx ->
    read_gzi (w_gzi idx) = Some idx.
Proof. exact gzi_roundtrip. Qed.
Print Assumptions c17_gzi_roundtrip.

Theorem c17_gzi_trailing_rejected :
  forall idx b rest, N.of_nat (length idx) < 18446744073709551616 -> Forall chunk_ok idx ->
    read_gzi (w_gzi idx ++ b :: rest) = None.
Proof. exact gzi_trailing_rejected. Qed.
Print Assumptions c17_gzi_trailing_rejected.

Example c17_bai_example :
  let i := mkbai [mkbref [(4681, [(10, 20)]); (0, [])] (Some (mkmeta 10 20 1 0)) [10; 10]] (Some 3) in
  read_bai (w_bai i) = Some i.
Proof. vm_compute. reflexivity. Qed.

(* ---- CSI: writing stores, for each bin, the minimum loffset over the bin and the chain of its
   present ancestors, so the index that is read back is NOT equal to the one written; but every
   query is answered with the same chunks (the "or at least answers every query with the same
   chunks" clause), for every index the Indexer builds, at every geometry below 2^64. ---- *)
From NV Require Import Index.Indexer Index.CsiLoffset Index.CsiLoffsetProofs.

Theorem c17_csi_roundtrip_queries :
  forall ms d k file qs qe,
    ms + 3 * N.of_nat d < 64 -> spans_ok ms d file ->
    let ix := build_ref ms d k file in
    query Binned ms d (mkref (bins ix) (lin ix) (reread_loffs (bins ix) (loffs ix))) qs qe
    = query Binned ms d ix qs qe.
Proof. exact csi_roundtrip_queries. Qed.
Print Assumptions c17_csi_roundtrip_queries.

(* the same for any loffset map, not only Indexer-built ones: distinct in-scheme bin ids, the
   same ids in the bin map *)
Theorem c17_csi_reread_min_offset :
  forall ms d bm lm s,
    ms + 3 * N.of_nat d < 64 -> NoDup (map fst lm) ->
    (forall id, In id (map fst bm) <-> In id (map fst lm)) ->
    (forall id, In id (map fst lm) -> in_scheme d id) ->
    binned_min_offset ms d (reread_loffs bm lm) s = binned_min_offset ms d lm s.
Proof. exact csi_reread_min_offset. Qed.
Print Assumptions c17_csi_reread_min_offset.

(* ---- CSI byte layout (the uncompressed payload inside BGZF): magic, min_shift, depth, aux
   (tabix header), per reference the bins (id, stored loffset, chunks) and the metadata
   pseudo-bin, optional n_no_coor.  Writing a structurally valid index succeeds, and reading the
   bytes back gives the same geometry, bins, chunks, metadata pseudo-bins and unplaced count, the
   header normalised, and the per-bin loffsets replaced by the stored ancestor-chain minima. ---- *)
From NV Require Import Index.CsiLayout Index.CsiLayoutProofs.

Theorem c17_csi_layout_roundtrip :
  forall i, csi_ok i ->
    w_csi i = WOk (w_csi_bytes i) /\ read_csi (w_csi_bytes i) = Some (reread_csi i).
Proof. exact csi_layout_roundtrip. Qed.
Print Assumptions c17_csi_layout_roundtrip.

(* end to end: the CSI index the Indexer builds for a file, written to its byte layout and read
   back, has the same bins and metadata and answers every region query on every reference with
   the same chunks as the index in memory *)
Theorem c17_csi_file_roundtrip_queries :
  forall ms d file hdr meta nref unplaced,
    let i := built_csi ms d file hdr meta nref unplaced in
    csi_ok i -> spans_ok ms d file ->
    exists i',
      w_csi i = WOk (w_csi_bytes i) /\ read_csi (w_csi_bytes i) = Some i' /\
      ci_ms i' = ms /\ ci_depth i' = d /\ ci_header i' = option_map norm_header hdr /\
      ci_unplaced i' = unplaced /\ length (ci_refs i') = nref /\
      forall k, (k < nref)%nat ->
        let ix := build_ref ms d (N.of_nat k) file in
        let r' := nth k (ci_refs i') empty_cref in
        cr_bins r' = bins ix /\ cr_meta r' = meta k /\
        forall qs qe, query Binned ms d (cref_refidx r') qs qe = query Binned ms d ix qs qe.
Proof. exact csi_file_roundtrip_queries. Qed.
Print Assumptions c17_csi_file_roundtrip_queries.

(* the same for any structurally valid CSI index whose loffset keys are its bin ids, inside the scheme *)
Theorem c17_csi_file_roundtrip_queries_any :
  forall i, csi_ok i ->
    (forall r, In r (ci_refs i) ->
       NoDup (map fst (cr_loffs r)) /\
       (forall id, In id (map fst (cr_bins r)) <-> In id (map fst (cr_loffs r))) /\
       (forall id, In id (map fst (cr_loffs r)) -> in_scheme (ci_depth i) id)) ->
    exists i',
      w_csi i = WOk (w_csi_bytes i) /\ read_csi (w_csi_bytes i) = Some i' /\
      ci_ms i' = ci_ms i /\ ci_depth i' = ci_depth i /\
      ci_header i' = option_map norm_header (ci_header i) /\
      ci_unplaced i' = ci_unplaced i /\ length (ci_refs i') = length (ci_refs i) /\
      forall k, (k < length (ci_refs i))%nat ->
        let r := nth k (ci_refs i) empty_cref in
        let r' := nth k (ci_refs i') empty_cref in
        cr_bins r' = cr_bins r /\ cr_meta r' = cr_meta r /\
        forall qs qe,
          query Binned (ci_ms i) (ci_depth i) (cref_refidx r') qs qe
          = query Binned (ci_ms i) (ci_depth i) (cref_refidx r) qs qe.
Proof. exact csi_file_roundtrip_queries_any. Qed.
Print Assumptions c17_csi_file_roundtrip_queries_any.

(* ---- tabix: magic, n_ref, header (format, columns, meta, skip, NUL-terminated names), BAI-style
   bins with the metadata pseudo-bin 37450, intervals, optional n_no_coor.  The index reads back
   equal except that a header whose end column is Some(start column) reads back with None (for
   generic formats the file stores end.unwrap_or(start)+1 and the reader maps end = start to
   None; SAM/VCF store 0): the two are the same header on disk (c17_header_end_equiv). ---- *)
Theorem c17_tabix_roundtrip :
  forall i, tbi_ok i ->
    w_tbi i = WOk (w_tbi_bytes i) /\ read_tbi (w_tbi_bytes i) = Some (reread_tbi i).
Proof. exact tabix_roundtrip. Qed.
Print Assumptions c17_tabix_roundtrip.

Theorem c17_tabix_roundtrip_eq :
  forall i, tbi_ok i ->
    (forall h, ti_header i = Some h -> h_end h <> Some (h_beg h)) ->
    read_tbi (w_tbi_bytes i) = Some i.
Proof. exact tabix_roundtrip_eq. Qed.
Print Assumptions c17_tabix_roundtrip_eq.

Theorem c17_header_roundtrip :
  forall h rest, header_ok h -> p_header (w_header h ++ rest) = Some (norm_header h, rest).
Proof. exact p_header_w. Qed.
Print Assumptions c17_header_roundtrip.

Theorem c17_header_end_equiv :
  forall h, w_header (norm_header h) = w_header h /\
            (h_end h <> Some (h_beg h) -> norm_header h = h) /\
            norm_header (norm_header h) = norm_header h.
Proof. intros h. split; [apply w_header_norm|]. split; [apply norm_header_id|apply norm_header_idem]. Qed.
Print Assumptions c17_header_end_equiv.

(* ---- fai and crai TEXT layouts: tab-separated decimal fields, LF-terminated lines.  The crai
   reader reads each line into a UTF-8 String, the fai reader (since the `fix:` commit 24986d3) as
   bytes; both drop the LF (and a CR before it), split on tabs and parse the fields.  fai: any list
   of records whose names are byte strings without TAB and LF -- valid UTF-8 or not -- reads back
   equal (fai_ok unfolds to: no TAB, no LF in the name; fields within u64; line_bases, line_width
   >= 1); the numeric fields are still text (c17_fai_non_utf8_numeric_rejected).  crai (the text
   inside the gzip member; gzip itself is not modelled): any list of records with reference ids up
   to i32::MAX and positions >= 1 reads back equal. ---- *)
From NV Require Import Index.TextIndex Index.TextIndexProofs.

Theorem c17_fai_roundtrip : forall l, Forall fai_ok l -> read_fai (w_fai l) = Some l.
Proof. exact fai_roundtrip. Qed.
Print Assumptions c17_fai_roundtrip.

(* the former known finding fai-non-utf8-name, now positive *)
Theorem c17_fai_non_utf8_name_roundtrip :
  forall r rest, utf8_valid (f_name r) = false -> Forall fai_ok (r :: rest) ->
    read_fai (w_fai (r :: rest)) = Some (r :: rest).
Proof. exact fai_non_utf8_name_roundtrip. Qed.
Print Assumptions c17_fai_non_utf8_name_roundtrip.

Theorem c17_fai_non_utf8_numeric_rejected :
  forall name f rest, ~ In TAB name -> ~ In TAB f -> utf8_valid f = false ->
    parse_fai_rec (name ++ TAB :: f ++ TAB :: rest) = None.
Proof. exact fai_non_utf8_numeric_rejected. Qed.
Print Assumptions c17_fai_non_utf8_numeric_rejected.

(* the from_utf8 step of the fai reader's numeric fields never decides alone *)
Theorem c17_fai_numeric_field_utf8_implied :
  forall s, parse_u64_bytes s = parse_u64 s /\ parse_nz_u64_bytes s = parse_nz_u64 s.
Proof. intros s. split; [apply parse_u64_bytes_eq|apply parse_nz_u64_bytes_eq]. Qed.
Print Assumptions c17_fai_numeric_field_utf8_implied.

Theorem c17_crai_roundtrip : forall l, Forall crai_ok l -> read_crai (w_crai l) = Some l.
Proof. exact crai_roundtrip. Qed.
Print Assumptions c17_crai_roundtrip.

Example c17_fai_example :
  let l := [mkfai [99; 104; 114; 195; 169; 13] 1000 6 60 61; mkfai [] 0 18446744073709551615 1 1] in
  read_fai (w_fai l) = Some l /\
  (* the witness of the former finding: a name that is not UTF-8 *)
  utf8_valid [255] = false /\ read_fai (w_fai [mkfai [255] 1 1 1 1]) = Some [mkfai [255] 1 1 1 1] /\
  (* a non-UTF-8 byte in a numeric field is still rejected; so is a non-UTF-8 crai line *)
  read_fai [115; 9; 49; 255; 9; 49; 9; 49; 9; 49; 10] = None /\
  read_crai [255; 9; 49; 9; 49; 9; 49; 9; 49; 9; 49; 10] = None.
Proof. cbv zeta. repeat split; vm_compute; reflexivity. Qed.

Example c17_crai_example :
  let l := [mkcrai None None 0 10 20 30; mkcrai (Some 2147483647) (Some 1) 5 18446744073709551615 0 1] in
  read_crai (w_crai l) = Some l.
Proof. vm_compute. reflexivity. Qed.

(* non-vacuity: a CSI index with an aux header, an ancestor chain (bins 585 -> 73 -> 9), a
   metadata pseudo-bin and an unplaced count; a tabix index with a generic header whose end
   column equals its start column and a name with non-ASCII bytes *)
From Coq Require Import Lia.
Example c17_csi_layout_example :
  let h := mkhdr FVcf 0 1 None 35 0 [[99; 104; 114; 49]; [200; 255]] in
  let i := mkcsi 14 5 (Some h)
             [mkcref [(585, [(100, 200)]); (73, [(50, 300)]); (9, [])] [(585, 100); (73, 50); (9, 70)]
                     (Some (mkmeta 50 300 2 0)); mkcref [] [] None] (Some 7) in
  csi_ok i /\ read_csi (w_csi_bytes i) = Some (reread_csi i) /\
  cr_loffs (nth 0 (ci_refs (reread_csi i)) empty_cref) = [(585, 50); (73, 50); (9, 70)].
Proof.
  cbv zeta. split; [|split; vm_compute; reflexivity].
  unfold csi_ok. cbn [ci_ms ci_depth ci_header ci_refs ci_unplaced].
  split; [lia|]. split; [lia|]. split; [lia|]. split.
  { split; [|vm_compute; reflexivity]. unfold header_ok. split; [vm_compute; reflexivity|].
    split; [vm_compute; reflexivity|]. repeat constructor; cbn [In]; intuition discriminate. }
  split; [vm_compute; reflexivity|]. split; [|vm_compute; reflexivity].
  assert (Hmid : metadata_id 5 = 37450) by (vm_compute; reflexivity).
  constructor; [|constructor; [|constructor]].
  - unfold cref_ok. cbn [cr_bins cr_loffs cr_meta]. rewrite Hmid.
    split.
    { repeat constructor; cbn [fst snd length]; unfold u32, u64; try lia. }
    split.
    { cbn [map fst]. repeat constructor; cbn [In]; intuition discriminate. }
    split; [cbn [length]; lia|]. split.
    { cbn [map snd]. repeat constructor; unfold u64; lia. }
    unfold meta_ok, u64. cbn [m_beg m_end m_mapped m_unmapped]. lia.
  - unfold cref_ok. cbn [cr_bins cr_loffs cr_meta map length].
    split; [constructor|]. split; [constructor|]. split; [lia|]. split; [constructor|exact I].
Qed.

Example c17_tabix_example :
  let h := mkhdr (FGeneric true) 0 1 (Some 1) 35 0 [[200; 255]; []] in
  let i := mktbi (Some h) [mkbref [(4681, [(10, 20)])] (Some (mkmeta 10 20 1 0)) [10]] None in
  read_tbi (w_tbi_bytes i) = Some (reread_tbi i) /\ reread_tbi i <> i.
Proof. cbv zeta. split; [vm_compute; reflexivity|]. intros E. discriminate E. Qed.

(* ---- the same round trips THROUGH THE READERS' I/O: the readers as read programs (C12's NV.Io.Prog
   / IndexProg / CsiProg, C16's NV.Async.IndexRead / CsiRead; imported read-only) run over a source
   that delivers the written bytes in ANY way -- short reads and Interrupted events of any script,
   raw or through a BufReader of any capacity (sync), Pending/short polls of any script (async).
   Each corollary composes a layout round trip above with the bridge "program on the bytes =
   C17's whole-buffer reader" proved by the owner of the program.  Formats whose bridge is proved:
   gzi, BAI (sync + async), fai (sync), CSI (async), the CSI-aux/tabix header (sync).  Not bridged
   (oracle only): the async tabix, fai and crai readers, the sync CSI/tabix/crai programs. ---- *)
From NV Require Index.DeliveryProofs Index.AsyncRtProofs.
From NV Require Io.Source Io.Run Io.ProgRun Async.ReadExact Async.CsiRead Async.IndexRead CramIdx.AsyncQuery.

Theorem c17_gzi_roundtrip_any_delivery :
  forall idx sc cap, N.of_nat (length idx) < 18446744073709551616 -> Forall chunk_ok idx ->
    fst (ProgRun.run_gzi cap (Source.mkSource (w_gzi idx) sc)) = Run.COk idx.
Proof. exact DeliveryProofs.gzi_roundtrip_any_delivery. Qed.
Print Assumptions c17_gzi_roundtrip_any_delivery.

Theorem c17_bai_roundtrip_any_delivery :
  forall i sc cap, bai_ok i -> fst (ProgRun.run_bai cap (Source.mkSource (w_bai i) sc)) = Run.COk i.
Proof. exact DeliveryProofs.bai_roundtrip_any_delivery. Qed.
Print Assumptions c17_bai_roundtrip_any_delivery.

(* the fai reader needs a BufRead: capacity >= 1 *)
Theorem c17_fai_roundtrip_any_delivery :
  forall l sc cap, (1 <= cap)%nat -> Forall fai_ok l ->
    fst (ProgRun.run_fai cap (Source.mkSource (w_fai l) sc)) = Run.COk l.
Proof. exact DeliveryProofs.fai_roundtrip_any_delivery. Qed.
Print Assumptions c17_fai_roundtrip_any_delivery.

(* the header parser program (CSI aux block / tabix header) consumes exactly the written header *)
Theorem c17_header_roundtrip_any_delivery :
  forall h rest sc cap chunk, header_ok h ->
    ProgRun.run_csi_header cap chunk (Source.mkSource (w_header h ++ rest) sc)
    = (Run.COk (norm_header h), length rest).
Proof. exact DeliveryProofs.header_roundtrip_any_delivery. Qed.
Print Assumptions c17_header_roundtrip_any_delivery.

(* async readers (any poll script; read_to_end asking for any number of bytes) *)
Theorem c17_gzi_roundtrip_async :
  forall idx polls req, N.of_nat (length idx) < 18446744073709551616 -> Forall chunk_ok idx ->
    fst (AsyncQuery.run_rd Async.ReadExact.aread req Async.ReadExact.a_fuel (IndexRead.p_gzi true)
           (Async.ReadExact.mkASource (w_gzi idx) polls))
    = AsyncQuery.RVal (IndexRead.GIndex idx).
Proof. exact AsyncRtProofs.gzi_roundtrip_async. Qed.
Print Assumptions c17_gzi_roundtrip_async.

Theorem c17_bai_roundtrip_async :
  forall i polls req, bai_ok i ->
    fst (AsyncQuery.run_rd Async.ReadExact.aread req Async.ReadExact.a_fuel (IndexRead.p_bai false)
           (Async.ReadExact.mkASource (w_bai i) polls))
    = AsyncQuery.RVal i.
Proof. exact AsyncRtProofs.bai_roundtrip_async. Qed.
Print Assumptions c17_bai_roundtrip_async.

(* the written CSI payload has a complete aux block that its header fills exactly -- the domain on
   which C16 proved the async CSI reader equal to C17's model of the sync one; hence the async
   reader returns the same re-read index as the sync one, for every poll script *)
Theorem c17_csi_written_aux_tight : forall i, csi_ok i -> CsiRead.csi_aux_ok (w_csi_bytes i).
Proof. exact DeliveryProofs.csi_written_aux_ok. Qed.
Print Assumptions c17_csi_written_aux_tight.

Theorem c17_csi_roundtrip_async :
  forall i codes chunk, csi_ok i ->
    CsiRead.async_csi_case codes chunk (w_csi_bytes i) = Some (reread_csi i).
Proof. exact DeliveryProofs.csi_roundtrip_async. Qed.
Print Assumptions c17_csi_roundtrip_async.

Example c17_async_example :
  CsiRead.async_csi_case [1; 0; 2]%nat 3 (w_csi_bytes (mkcsi 14 5 None [mkcref [(585, [(100, 200)])] [(585, 100)] None] None))
  = Some (mkcsi 14 5 None [mkcref [(585, [(100, 200)])] [(585, 100)] None] None).
Proof. vm_compute. reflexivity. Qed.

(* ---- optimize_chunks on ARBITRARY chunk lists (hostile but well-formed indexes: duplicate, nested
   and overlapping chunks, empty chunks start = end, inverted chunks end < start), and for ANY
   order in which `sort_unstable_by_key(start)` leaves chunks with equal starts: [s] is any
   permutation of the retained chunks that is sorted by start, [merge_sorted s] the merge loop on
   it.  The result covers exactly the union of the retained input chunks, is sorted and strictly
   separated (merged), takes every start and every end from a retained input chunk and is never
   longer than the retained list. ---- *)
From Coq Require Import Sorted Permutation.
From NV Require Import Index.ChunksAny Index.ChunksAnyProofs.

Theorem c17_optimize_chunks_any :
  forall cs m s,
    Permutation s (retained m cs) -> StronglySorted le_start s ->
    let out := merge_sorted s in
    (forall v, covered out v <-> exists c, In c cs /\ m < cend c /\ covers c v) /\
    separated out /\
    (forall o, In o out ->
       (exists c, In c cs /\ m < cend c /\ cstart o = cstart c) /\
       (exists c, In c cs /\ m < cend c /\ cend o = cend c)) /\
    (length out <= length (retained m cs))%nat.
Proof. exact optimize_chunks_any. Qed.
Print Assumptions c17_optimize_chunks_any.

(* the model's optimize_chunks (stable insertion sort) is one such order *)
Theorem c17_optimize_chunks_model_any :
  forall cs m,
    optimize_chunks cs m = merge_sorted (sort_by_start (retained m cs)) /\
    Permutation (sort_by_start (retained m cs)) (retained m cs) /\
    StronglySorted le_start (sort_by_start (retained m cs)).
Proof.
  intros cs m. split; [apply optimize_chunks_is_merge_sorted|]. split; [apply sort_perm|apply sort_sorted].
Qed.
Print Assumptions c17_optimize_chunks_model_any.

(* when the retained chunks are proper (start < end) the tie order is immaterial: every sorted
   permutation gives the list the model computes *)
Theorem c17_optimize_chunks_sort_independent :
  forall cs m s,
    (forall c, In c cs -> m < cend c -> proper c) ->
    Permutation s (retained m cs) -> StronglySorted le_start s ->
    merge_sorted s = optimize_chunks cs m.
Proof. exact optimize_chunks_sort_independent. Qed.
Print Assumptions c17_optimize_chunks_sort_independent.

(* canonical form: a separated list of proper chunks is determined by the set it covers, hence
   optimize_chunks is a function of the covered set only (and idempotent on its output) *)
Theorem c17_separated_proper_unique :
  forall l1 l2, separated l1 -> separated l2 -> Forall proper l1 -> Forall proper l2 ->
    (forall v, covered l1 v <-> covered l2 v) -> l1 = l2.
Proof. exact separated_proper_unique. Qed.
Print Assumptions c17_separated_proper_unique.

Theorem c17_optimize_chunks_canonical :
  forall cs1 cs2 m1 m2,
    (forall c, In c cs1 -> m1 < cend c -> proper c) ->
    (forall c, In c cs2 -> m2 < cend c -> proper c) ->
    (forall v, (exists c, In c cs1 /\ m1 < cend c /\ covers c v) <->
               (exists c, In c cs2 /\ m2 < cend c /\ covers c v)) ->
    optimize_chunks cs1 m1 = optimize_chunks cs2 m2.
Proof. exact optimize_chunks_canonical. Qed.
Print Assumptions c17_optimize_chunks_canonical.

(* non-vacuity: nested + duplicate + empty + inverted chunks; with an inverted chunk the tie order
   shows in the output (both outputs satisfy c17_optimize_chunks_any) *)
Example c17_optimize_any_example :
  optimize_chunks [(10, 90); (20, 30); (20, 30); (40, 40); (95, 93); (5, 12); (91, 92)] 11
  = [(5, 90); (91, 92); (95, 93)] /\
  merge_sorted [(5, 3); (5, 8)] = [(5, 3); (5, 8)] /\ merge_sorted [(5, 8); (5, 3)] = [(5, 8)].
Proof. vm_compute. repeat split; reflexivity. Qed.

(* ---- the CSI loffset re-read on ARBITRARY (hostile but well-formed) references: ANY min_shift and
   depth (depth 0 included; no bound on min_shift + 3*depth), ANY bin ids -- inside or outside the
   geometry --, any chunk lists.  The re-read min_offset is never above the original one, so the
   answer of every query on the re-read index covers the original answer: nothing is lost by
   write + read.  (Equality needs the ids inside the scheme: c17_csi_reread_min_offset above, which
   already holds for every depth >= 0 and min_shift with min_shift + 3*depth < 64.) ---- *)
From NV Require Import Index.CsiLoffsetAnyProofs.

Theorem c17_csi_reread_min_offset_any_le :
  forall ms d bm lm s,
    NoDup (map fst lm) ->
    (forall id, In id (map fst bm) <-> In id (map fst lm)) ->
    binned_min_offset ms d (reread_loffs bm lm) s <= binned_min_offset ms d lm s.
Proof. exact csi_reread_min_offset_any_le. Qed.
Print Assumptions c17_csi_reread_min_offset_any_le.

Theorem c17_csi_reread_query_covers_any :
  forall ms d bm ln lm qs qe cs,
    NoDup (map fst lm) ->
    (forall id, In id (map fst bm) <-> In id (map fst lm)) ->
    query Binned ms d (mkref bm ln lm) qs qe = Some cs ->
    exists cs', query Binned ms d (mkref bm ln (reread_loffs bm lm)) qs qe = Some cs' /\
                forall v, covered cs v -> covered cs' v.
Proof. exact csi_reread_query_covers_any. Qed.
Print Assumptions c17_csi_reread_query_covers_any.

(* depth 0 (one bin, id 0): the re-read is the identity on the in-scheme key *)
Theorem c17_csi_reread_depth0 :
  forall ms bm lm s,
    ms < 64 -> NoDup (map fst lm) ->
    (forall id, In id (map fst bm) <-> In id (map fst lm)) ->
    (forall id, In id (map fst lm) -> id = 0) ->
    binned_min_offset ms 0 (reread_loffs bm lm) s = binned_min_offset ms 0 lm s.
Proof.
  intros ms bm lm s Hms Hnd Hk H0. apply csi_reread_min_offset; [cbn; lia|exact Hnd|exact Hk|].
  intros id Hid. rewrite (H0 id Hid). exists O, 0. split; [lia|]. split; reflexivity.
Qed.
Print Assumptions c17_csi_reread_depth0.

(* the full statement "the same chunks for every query" is REFUTED for a bin id outside the
   geometry (known finding csi-bin-outside-geometry-reread-query-grows): the positive theorems are
   c17_csi_reread_min_offset (ids in the scheme) and c17_csi_reread_query_covers_any (any ids) *)
Definition c17_csi_reread_query_same_any_full_statement : Prop :=
  forall ms d bm ln lm qs qe,
    NoDup (map fst lm) -> (forall id, In id (map fst bm) <-> In id (map fst lm)) ->
    query Binned ms d (mkref bm ln (reread_loffs bm lm)) qs qe = query Binned ms d (mkref bm ln lm) qs qe.

Theorem c17_csi_reread_out_of_scheme_refuted : ~ c17_csi_reread_query_same_any_full_statement.
Proof.
  intros H. destruct csi_reread_out_of_scheme_differs as [Hnd [Hk [Hb Ha]]].
  specialize (H 14 1%nat hostile_bins [] hostile_loffs 40000 40001 Hnd Hk).
  rewrite Hb, Ha in H. discriminate H.
Qed.
Print Assumptions c17_csi_reread_out_of_scheme_refuted.

(* ---- two more bridges, proved here: (a) the ASYNC tabix reader program (C16's a_tbi: the header is
   read as a 24 + 4 + l_nm byte slice and parsed off line) returns an index exactly when C17's model
   of the sync reader does, the same one, on EVERY payload -- the header parser reads its 28 fixed
   bytes and the l_nm bytes they announce and hands on what follows untouched (c17_header_local);
   hence the tabix round trip through the async reader under any poll script; (b) the crai line loop
   (C12's p_crai_text: read_line into a String, the line WITH its LF must be UTF-8) is C17's
   read_crai on every text -- appending an ASCII byte does not change UTF-8 validity --; hence the
   crai text round trip under any delivery through a BufReader (gzip stays opaque). ---- *)
From NV Require Index.TabixAsyncProofs Index.CraiDeliveryProofs.
From NV Require Io.IndexProg Io.IndexProgProofs Io.Prog.

Theorem c17_header_local :
  forall x y, (28 <= length x)%nat ->
    (forall l, TabixAsyncProofs.fv_i32 (le_dec (firstn 4 (skipn 24 x))) = Some l ->
               (N.to_nat l <= length (skipn 28 x))%nat) ->
    p_header (x ++ y) = match p_header x with Some (h, r) => Some (h, r ++ y) | None => None end.
Proof. exact TabixAsyncProofs.p_header_app. Qed.
Print Assumptions c17_header_local.

Theorem c17_async_tabix_reader_is_read_tbi :
  forall codes chunk payload, CsiRead.async_tbi_case codes chunk payload = read_tbi payload.
Proof. exact TabixAsyncProofs.async_tbi_reader_equals_sync. Qed.
Print Assumptions c17_async_tabix_reader_is_read_tbi.

Theorem c17_tabix_roundtrip_async :
  forall i codes chunk, tbi_ok i ->
    CsiRead.async_tbi_case codes chunk (w_tbi_bytes i) = Some (reread_tbi i).
Proof. exact TabixAsyncProofs.tabix_roundtrip_async. Qed.
Print Assumptions c17_tabix_roundtrip_async.

Theorem c17_crai_program_is_read_crai :
  forall d, IndexProgProofs.opt_of (Prog.run_pure (IndexProg.p_crai_text (S (length d))) d) = read_crai d.
Proof. exact CraiDeliveryProofs.p_crai_text_is_read_crai. Qed.
Print Assumptions c17_crai_program_is_read_crai.

Theorem c17_crai_roundtrip_any_delivery :
  forall l sc cap, (1 <= cap)%nat -> Forall crai_ok l ->
    fst (ProgRun.run_crai_text cap (Source.mkSource (w_crai l) sc)) = Run.COk l.
Proof. exact CraiDeliveryProofs.crai_roundtrip_any_delivery. Qed.
Print Assumptions c17_crai_roundtrip_any_delivery.

Example c17_async_tabix_example :
  let h := mkhdr (FGeneric true) 0 1 (Some 1) 35 0 [[200; 255]; []] in
  let i := mktbi (Some h) [mkbref [(4681, [(10, 20)])] (Some (mkmeta 10 20 1 0)) [10]] None in
  CsiRead.async_tbi_case [2; 0; 1]%nat 5 (w_tbi_bytes i) = Some (reread_tbi i).
Proof. vm_compute. reflexivity. Qed.

(* ---- hostile indexes, bins OUTSIDE the geometry: reg2bins only marks bins of the scheme, so
   ReferenceSequence::query never selects an out-of-geometry bin and its chunks enter no answer
   (they influence a CSI query only through min_offset: c17_csi_reread_out_of_scheme_refuted) ---- *)
From NV Require Import Index.HostileBinsProofs.

Theorem c17_reg2bins_lt_max_id :
  forall ms d qs qe x, 1 <= qe -> qe <= max_position ms d -> In x (reg2bins ms d qs qe) -> x < max_id d.
Proof. exact reg2bins_lt_max_id. Qed.
Print Assumptions c17_reg2bins_lt_max_id.

Theorem c17_query_chunks_ignores_outside :
  forall ms d bm ln lm qs qe, 1 <= qe -> qe <= max_position ms d ->
    query_chunks ms d (mkref (filter (in_geometry d) bm) ln lm) qs qe
    = query_chunks ms d (mkref bm ln lm) qs qe.
Proof. exact query_chunks_ignores_outside. Qed.
Print Assumptions c17_query_chunks_ignores_outside.

(* ---- tie order, chunk lists without inverted chunks (start <= end; EMPTY chunks allowed): every
   sorted permutation of the retained chunks merges to the same list, so `sort_unstable` cannot show
   in the answer of optimize_chunks unless an inverted chunk shares its start with another chunk ---- *)
From NV Require Import Index.ChunksTieProofs.

Theorem c17_merge_sorted_tie_independent_noninv :
  forall s1 s2, Permutation s1 s2 -> StronglySorted le_start s1 -> StronglySorted le_start s2 ->
    Forall noninv s1 -> merge_sorted s1 = merge_sorted s2.
Proof. exact merge_sorted_tie_independent_noninv. Qed.
Print Assumptions c17_merge_sorted_tie_independent_noninv.

Theorem c17_optimize_chunks_sort_independent_noninv :
  forall cs m s,
    (forall c, In c cs -> m < cend c -> noninv c) ->
    Permutation s (retained m cs) -> StronglySorted le_start s ->
    merge_sorted s = optimize_chunks cs m.
Proof. exact optimize_chunks_sort_independent_noninv. Qed.
Print Assumptions c17_optimize_chunks_sort_independent_noninv.

(* ---- wave 10: the gzi reader with its error KINDS, as a total function on ARBITRARY bytes
   (GziKinds.read_gzi_k mirrors noodles-bgzf gzi/io/reader/index.rs and the async reader of the
   same shape: binary loop counter, no allocation from the declared count).  It refines the
   option-valued read_gzi of the round-trip theorems, and on EVERY input its result is a closed
   form of the input length and the declared count: UnexpectedEof iff the input is shorter than
   8 + 16*count bytes, InvalidData ("unexpected trailing data") iff it is longer, Ok iff equal. ---- *)
From NV Require Import Index.Layout Index.LayoutProofs Index.GziKinds Index.GziKindsProofs.

Theorem c17_read_gzi_k_refines :
  forall bs, read_gzi bs = match read_gzi_k bs with GOk l => Some l | _ => None end.
Proof. exact read_gzi_k_refines. Qed.
Print Assumptions c17_read_gzi_k_refines.

Theorem c17_read_gzi_k_total :
  forall bs,
    match read_gzi_k bs with
    | GEof => N.of_nat (length bs) < 8 \/ N.of_nat (length bs) < 8 + 16 * gzi_declared bs
    | GOk l => N.of_nat (length bs) = 8 + 16 * gzi_declared bs /\ N.of_nat (length l) = gzi_declared bs
    | GInvalidData => 8 + 16 * gzi_declared bs < N.of_nat (length bs)
    end.
Proof. exact read_gzi_k_total. Qed.
Print Assumptions c17_read_gzi_k_total.

Theorem c17_read_gzi_k_eof_iff :
  forall bs, read_gzi_k bs = GEof <->
    N.of_nat (length bs) < 8 + 16 * gzi_declared bs \/ N.of_nat (length bs) < 8.
Proof. exact read_gzi_k_eof_iff. Qed.
Print Assumptions c17_read_gzi_k_eof_iff.

Theorem c17_read_gzi_k_invalid_iff :
  forall bs, read_gzi_k bs = GInvalidData <-> 8 + 16 * gzi_declared bs < N.of_nat (length bs).
Proof. exact read_gzi_k_invalid_iff. Qed.
Print Assumptions c17_read_gzi_k_invalid_iff.

Theorem c17_read_gzi_k_accepts_iff :
  forall bs, (exists l, read_gzi_k bs = GOk l) <-> N.of_nat (length bs) = 8 + 16 * gzi_declared bs.
Proof. exact read_gzi_k_accepts_iff. Qed.
Print Assumptions c17_read_gzi_k_accepts_iff.

(* a written index followed by anything is InvalidData; every strict prefix of it is UnexpectedEof *)
Theorem c17_gzi_trailing_invalid_data :
  forall idx b rest, N.of_nat (length idx) < 18446744073709551616 ->
    read_gzi_k (w_gzi idx ++ b :: rest) = GInvalidData.
Proof. exact gzi_trailing_invalid_data. Qed.
Print Assumptions c17_gzi_trailing_invalid_data.

Theorem c17_gzi_truncated_eof :
  forall idx k, N.of_nat (length idx) < 18446744073709551616 ->
    (k < length (w_gzi idx))%nat ->
    read_gzi_k (firstn k (w_gzi idx)) = GEof.
Proof. exact gzi_truncated_eof. Qed.
Print Assumptions c17_gzi_truncated_eof.
