(* C17 — Binning scheme is sound; merging/pruning chunk lists never uncovers a retained range.
   Property theorems only: each is closed by [exact] of a lemma proved in theories/, and is
   followed by Print Assumptions.  The models are NV.Index.Bins (reg2bin/reg2bins of
   noodles-csi .../reference_sequence.rs) and NV.Index.Chunks (Bin::add_chunk, optimize_chunks). *)
From Coq Require Import List NArith.
From NV Require Import Index.Bins Index.BinsProofs Index.Chunks Index.ChunksProofs.
Import ListNotations.
Open Scope N_scope.

(* For EVERY geometry (min_shift ms, depth d) and every feature [fs,fe] / region [rs,re]
   (1-based, inclusive) that intersect, with the feature inside the geometry's coordinate
   range: the feature's bin is among the region's bins. *)
Theorem c17_reg2bin_in_reg2bins :
  forall ms d fs fe rs re,
    1 <= fs -> fs <= fe -> 1 <= rs -> rs <= re -> fs <= re -> rs <= fe ->
    fe <= max_position ms d ->
    In (reg2bin ms d fs fe) (reg2bins ms d rs re).
Proof. exact reg2bin_in_reg2bins. Qed.
Print Assumptions c17_reg2bin_in_reg2bins.

(* reg2bin names a bin at some level l <= d whose interval contains both ends of the feature *)
Theorem c17_reg2bin_contains :
  forall ms d b e, b <= e -> N.shiftr e (ms + 3 * N.of_nat d) = 0 ->
    exists l, (l <= d)%nat /\ reg2bin0 ms d b e = toff l + N.shiftr b (sh ms d l) /\
              N.shiftr b (sh ms d l) = N.shiftr e (sh ms d l).
Proof. exact reg2bin_contains. Qed.
Print Assumptions c17_reg2bin_contains.

(* ids stay below Bin::max_id(depth): the bit vector indexed in ReferenceSequence::query is large enough *)
Theorem c17_reg2bin_lt_max_id :
  forall ms d b e, b <= e -> N.shiftr e (ms + 3 * N.of_nat d) = 0 -> reg2bin0 ms d b e < max_id d.
Proof. exact reg2bin_lt_max_id. Qed.
Print Assumptions c17_reg2bin_lt_max_id.

(* optimize_chunks: exactly the points covered by a retained chunk (one ending after
   min_offset) stay covered -- nothing is uncovered, nothing is added *)
Theorem c17_optimize_chunks_covered :
  forall cs m v, covered (optimize_chunks cs m) v <-> exists c, In c cs /\ m < cend c /\ covers c v.
Proof. exact optimize_chunks_covered. Qed.
Print Assumptions c17_optimize_chunks_covered.

Theorem c17_optimize_chunks_covers :
  forall cs m c v, In c cs -> m < cend c -> covers c v -> covered (optimize_chunks cs m) v.
Proof. exact optimize_chunks_covers. Qed.
Print Assumptions c17_optimize_chunks_covers.

(* output chunks are sorted and strictly separated (hence no record is read twice) *)
Theorem c17_optimize_chunks_separated : forall cs m, separated (optimize_chunks cs m).
Proof. exact optimize_chunks_separated. Qed.
Print Assumptions c17_optimize_chunks_separated.

(* Bin::add_chunk with chunks arriving in file order preserves coverage exactly *)
Theorem c17_add_chunk_covered :
  forall cs c v,
    (forall l, last cs c = l -> cs <> [] -> cstart l <= cstart c /\ cend l <= cend c) ->
    (covered (add_chunk cs c) v <-> covered cs v \/ covers c v).
Proof. exact add_chunk_covered. Qed.
Print Assumptions c17_add_chunk_covered.

(* non-vacuity: a concrete instance at the BAM geometry crossing a 16 kb edge *)
Example c17_example :
  In (reg2bin 14 5 16380 16390) (reg2bins 14 5 16385 16385) /\ reg2bin 14 5 16380 16390 = 585.
Proof. vm_compute. split; [|reflexivity]. tauto. Qed.

(* ---- index files: write then read gives back the same index (BAI, gzi) ---- *)
From NV Require Import Base.LE Index.Layout Index.LayoutProofs.

(* BAI: any structurally valid index (bins with distinct ids other than the metadata pseudo-bin
   37450, any chunk lists, optional metadata pseudo-bin, any linear offsets, optional unplaced
   count; all values within their field widths) reads back equal, including the metadata
   pseudo-bin and the unplaced count. *)
Theorem c17_bai_roundtrip : forall i, bai_ok i -> read_bai (w_bai i) = Some i.
Proof. exact bai_roundtrip. Qed.
Print Assumptions c17_bai_roundtrip.

Theorem c17_gzi_roundtrip :
  forall idx, N.of_nat (length idx) < 18446744073709551616 -> Forall chunk_ok idx ->
    read_gzi (w_gzi idx) = Some idx.
Proof. exact gzi_roundtrip. Qed.
Print Assumptions c17_gzi_roundtrip.

Theorem c17_gzi_trailing_rejected :
  forall idx b rest, N.of_nat (length idx) < 18446744073709551616 -> Forall chunk_ok idx ->
    read_gzi (w_gzi idx ++ b :: rest) = None.
Proof. exact gzi_trailing_rejected. Qed.
Print Assumptions c17_gzi_trailing_rejected.

Example c17_bai_example :
  let i := mkbai [mkbref [(4681, [(10, 20)]); (0, [])] (Some (mkmeta 10 20 1 0)) [10; 10]] (Some 3) in
  read_bai (w_bai i) = Some i.
Proof. vm_compute. reflexivity. Qed.

(* ---- CSI: writing stores, for each bin, the minimum loffset over the bin and the chain of its
   present ancestors, so the index that is read back is NOT equal to the one written; but every
   query is answered with the same chunks (the "or at least answers every query with the same
   chunks" clause), for every index the Indexer builds, at every geometry below 2^64. ---- *)
From NV Require Import Index.Indexer Index.CsiLoffset Index.CsiLoffsetProofs.

Theorem c17_csi_roundtrip_queries :
  forall ms d k file qs qe,
    ms + 3 * N.of_nat d < 64 -> spans_ok ms d file ->
    let ix := build_ref ms d k file in
    query Binned ms d (mkref (bins ix) (lin ix) (reread_loffs (bins ix) (loffs ix))) qs qe
    = query Binned ms d ix qs qe.
Proof. exact csi_roundtrip_queries. Qed.
Print Assumptions c17_csi_roundtrip_queries.

(* the same for any loffset map, not only Indexer-built ones: distinct in-scheme bin ids, the
   same ids in the bin map *)
Theorem c17_csi_reread_min_offset :
  forall ms d bm lm s,
    ms + 3 * N.of_nat d < 64 -> NoDup (map fst lm) ->
    (forall id, In id (map fst bm) <-> In id (map fst lm)) ->
    (forall id, In id (map fst lm) -> in_scheme d id) ->
    binned_min_offset ms d (reread_loffs bm lm) s = binned_min_offset ms d lm s.
Proof. exact csi_reread_min_offset. Qed.
Print Assumptions c17_csi_reread_min_offset.
