(* C17 — Binning scheme is sound; merging/pruning chunk lists never uncovers a retained range.
   Property theorems only: each is closed by [exact] of a lemma proved in theories/, and is
   followed by Print Assumptions.  The models are NV.Index.Bins (reg2bin/reg2bins of
   noodles-csi .../reference_sequence.rs) and NV.Index.Chunks (Bin::add_chunk, optimize_chunks). *)
From Coq Require Import List NArith.
From NV Require Import Index.Bins Index.BinsProofs Index.Chunks Index.ChunksProofs.
Import ListNotations.
Open Scope N_scope.

(* For EVERY geometry (min_shift ms, depth d) and every feature [fs,fe] / region [rs,re]
   (1-based, inclusive) that intersect, with the feature inside the geometry's coordinate
   range: the feature's bin is among the region's bins. *)
Theorem c17_reg2bin_in_reg2bins :
  forall ms d fs fe rs re,
    1 <= fs -> fs <= fe -> 1 <= rs -> rs <= re -> fs <= re -> rs <= fe ->
    fe <= max_position ms d ->
    In (reg2bin ms d fs fe) (reg2bins ms d rs re).
Proof. exact reg2bin_in_reg2bins. Qed.
Print Assumptions c17_reg2bin_in_reg2bins.

(* reg2bin names a bin at some level l <= d whose interval contains both ends of the feature *)
Theorem c17_reg2bin_contains :
  forall ms d b e, b <= e -> N.shiftr e (ms + 3 * N.of_nat d) = 0 ->
    exists l, (l <= d)%nat /\ reg2bin0 ms d b e = toff l + N.shiftr b (sh ms d l) /\
              N.shiftr b (sh ms d l) = N.shiftr e (sh ms d l).
Proof. exact reg2bin_contains. Qed.
Print Assumptions c17_reg2bin_contains.

(* ids stay below Bin::max_id(depth): the bit vector indexed in ReferenceSequence::query is large enough *)
Theorem c17_reg2bin_lt_max_id :
  forall ms d b e, b <= e -> N.shiftr e (ms + 3 * N.of_nat d) = 0 -> reg2bin0 ms d b e < max_id d.
Proof. exact reg2bin_lt_max_id. Qed.
Print Assumptions c17_reg2bin_lt_max_id.

(* optimize_chunks: exactly the points covered by a retained chunk (one ending after
   min_offset) stay covered -- nothing is uncovered, nothing is added *)
Theorem c17_optimize_chunks_covered :
  forall cs m v, covered (optimize_chunks cs m) v <-> exists c, In c cs /\ m < cend c /\ covers c v.
Proof. exact optimize_chunks_covered. Qed.
Print Assumptions c17_optimize_chunks_covered.

Theorem c17_optimize_chunks_covers :
  forall cs m c v, In c cs -> m < cend c -> covers c v -> covered (optimize_chunks cs m) v.
Proof. exact optimize_chunks_covers. Qed.
Print Assumptions c17_optimize_chunks_covers.

(* output chunks are sorted and strictly separated (hence no record is read twice) *)
Theorem c17_optimize_chunks_separated : forall cs m, separated (optimize_chunks cs m).
Proof. exact optimize_chunks_separated. Qed.
Print Assumptions c17_optimize_chunks_separated.

(* Bin::add_chunk with chunks arriving in file order preserves coverage exactly *)
Theorem c17_add_chunk_covered :
  forall cs c v,
    (forall l, last cs c = l -> cs <> [] -> cstart l <= cstart c /\ cend l <= cend c) ->
    (covered (add_chunk cs c) v <-> covered cs v \/ covers c v).
Proof. exact add_chunk_covered. Qed.
Print Assumptions c17_add_chunk_covered.

(* non-vacuity: a concrete instance at the BAM geometry crossing a 16 kb edge *)
Example c17_example :
  In (reg2bin 14 5 16380 16390) (reg2bins 14 5 16385 16385) /\ reg2bin 14 5 16380 16390 = 585.
Proof. vm_compute. split; [|reflexivity]. tauto. Qed.

(* ---- index files: write then read gives back the same index (BAI, gzi) ---- *)
From NV Require Import Base.LE Index.Layout Index.LayoutProofs.

(* BAI: any structurally valid index (bins with distinct ids other than the metadata pseudo-bin
   37450, any chunk lists, optional metadata pseudo-bin, any linear offsets, optional unplaced
   count; all values within their field widths) reads back equal, including the metadata
   pseudo-bin and the unplaced count. *)
Theorem c17_bai_roundtrip : forall i, bai_ok i -> read_bai (w_bai i) = Some i.
Proof. exact bai_roundtrip. Qed.
Print Assumptions c17_bai_roundtrip.

Theorem c17_gzi_roundtrip :
  forall idx, N.of_nat (length idx) < 18446744073709551616 -> Forall chunk_ok idx ->
    read_gzi (w_gzi idx) = Some idx.
Proof. exact gzi_roundtrip. Qed.
Print Assumptions c17_gzi_roundtrip.

Theorem c17_gzi_trailing_rejected :
  forall idx b rest, N.of_nat (length idx) < 18446744073709551616 -> Forall chunk_ok idx ->
    read_gzi (w_gzi idx ++ b :: rest) = None.
Proof. exact gzi_trailing_rejected. Qed.
Print Assumptions c17_gzi_trailing_rejected.

Example c17_bai_example :
  let i := mkbai [mkbref [(4681, [(10, 20)]); (0, [])] (Some (mkmeta 10 20 1 0)) [10; 10]] (Some 3) in
  read_bai (w_bai i) = Some i.
Proof. vm_compute. reflexivity. Qed.

(* ---- CSI: writing stores, for each bin, the minimum loffset over the bin and the chain of its
   present ancestors, so the index that is read back is NOT equal to the one written; but every
   query is answered with the same chunks (the "or at least answers every query with the same
   chunks" clause), for every index the Indexer builds, at every geometry below 2^64. ---- *)
From NV Require Import Index.Indexer Index.CsiLoffset Index.CsiLoffsetProofs.

Theorem c17_csi_roundtrip_queries :
  forall ms d k file qs qe,
    ms + 3 * N.of_nat d < 64 -> spans_ok ms d file ->
    let ix := build_ref ms d k file in
    query Binned ms d (mkref (bins ix) (lin ix) (reread_loffs (bins ix) (loffs ix))) qs qe
    = query Binned ms d ix qs qe.
Proof. exact csi_roundtrip_queries. Qed.
Print Assumptions c17_csi_roundtrip_queries.

(* the same for any loffset map, not only Indexer-built ones: distinct in-scheme bin ids, the
   same ids in the bin map *)
Theorem c17_csi_reread_min_offset :
  forall ms d bm lm s,
    ms + 3 * N.of_nat d < 64 -> NoDup (map fst lm) ->
    (forall id, In id (map fst bm) <-> In id (map fst lm)) ->
    (forall id, In id (map fst lm) -> in_scheme d id) ->
    binned_min_offset ms d (reread_loffs bm lm) s = binned_min_offset ms d lm s.
Proof. exact csi_reread_min_offset. Qed.
Print Assumptions c17_csi_reread_min_offset.

(* ---- CSI byte layout (the uncompressed payload inside BGZF): magic, min_shift, depth, aux
   (tabix header), per reference the bins (id, stored loffset, chunks) and the metadata
   pseudo-bin, optional n_no_coor.  Writing a structurally valid index succeeds, and reading the
   bytes back gives the same geometry, bins, chunks, metadata pseudo-bins and unplaced count, the
   header normalised, and the per-bin loffsets replaced by the stored ancestor-chain minima. ---- *)
From NV Require Import Index.CsiLayout Index.CsiLayoutProofs.

Theorem c17_csi_layout_roundtrip :
  forall i, csi_ok i ->
    w_csi i = WOk (w_csi_bytes i) /\ read_csi (w_csi_bytes i) = Some (reread_csi i).
Proof. exact csi_layout_roundtrip. Qed.
Print Assumptions c17_csi_layout_roundtrip.

(* end to end: the CSI index the Indexer builds for a file, written to its byte layout and read
   back, has the same bins and metadata and answers every region query on every reference with
   the same chunks as the index in memory *)
Theorem c17_csi_file_roundtrip_queries :
  forall ms d file hdr meta nref unplaced,
    let i := built_csi ms d file hdr meta nref unplaced in
    csi_ok i -> spans_ok ms d file ->
    exists i',
      w_csi i = WOk (w_csi_bytes i) /\ read_csi (w_csi_bytes i) = Some i' /\
      ci_ms i' = ms /\ ci_depth i' = d /\ ci_header i' = option_map norm_header hdr /\
      ci_unplaced i' = unplaced /\ length (ci_refs i') = nref /\
      forall k, (k < nref)%nat ->
        let ix := build_ref ms d (N.of_nat k) file in
        let r' := nth k (ci_refs i') empty_cref in
        cr_bins r' = bins ix /\ cr_meta r' = meta k /\
        forall qs qe, query Binned ms d (cref_refidx r') qs qe = query Binned ms d ix qs qe.
Proof. exact csi_file_roundtrip_queries. Qed.
Print Assumptions c17_csi_file_roundtrip_queries.

(* the same for any structurally valid CSI index whose loffset keys are its bin ids, inside the scheme *)
Theorem c17_csi_file_roundtrip_queries_any :
  forall i, csi_ok i ->
    (forall r, In r (ci_refs i) ->
       NoDup (map fst (cr_loffs r)) /\
       (forall id, In id (map fst (cr_bins r)) <-> In id (map fst (cr_loffs r))) /\
       (forall id, In id (map fst (cr_loffs r)) -> in_scheme (ci_depth i) id)) ->
    exists i',
      w_csi i = WOk (w_csi_bytes i) /\ read_csi (w_csi_bytes i) = Some i' /\
      ci_ms i' = ci_ms i /\ ci_depth i' = ci_depth i /\
      ci_header i' = option_map norm_header (ci_header i) /\
      ci_unplaced i' = ci_unplaced i /\ length (ci_refs i') = length (ci_refs i) /\
      forall k, (k < length (ci_refs i))%nat ->
        let r := nth k (ci_refs i) empty_cref in
        let r' := nth k (ci_refs i') empty_cref in
        cr_bins r' = cr_bins r /\ cr_meta r' = cr_meta r /\
        forall qs qe,
          query Binned (ci_ms i) (ci_depth i) (cref_refidx r') qs qe
          = query Binned (ci_ms i) (ci_depth i) (cref_refidx r) qs qe.
Proof. exact csi_file_roundtrip_queries_any. Qed.
Print Assumptions c17_csi_file_roundtrip_queries_any.

(* ---- tabix: magic, n_ref, header (format, columns, meta, skip, NUL-terminated names), BAI-style
   bins with the metadata pseudo-bin 37450, intervals, optional n_no_coor.  The index reads back
   equal except that a header whose end column is Some(start column) reads back with None (for
   generic formats the file stores end.unwrap_or(start)+1 and the reader maps end = start to
   None; SAM/VCF store 0): the two are the same header on disk (c17_header_end_equiv). ---- *)
Theorem c17_tabix_roundtrip :
  forall i, tbi_ok i ->
    w_tbi i = WOk (w_tbi_bytes i) /\ read_tbi (w_tbi_bytes i) = Some (reread_tbi i).
Proof. exact tabix_roundtrip. Qed.
Print Assumptions c17_tabix_roundtrip.

Theorem c17_tabix_roundtrip_eq :
  forall i, tbi_ok i ->
    (forall h, ti_header i = Some h -> h_end h <> Some (h_beg h)) ->
    read_tbi (w_tbi_bytes i) = Some i.
Proof. exact tabix_roundtrip_eq. Qed.
Print Assumptions c17_tabix_roundtrip_eq.

Theorem c17_header_roundtrip :
  forall h rest, header_ok h -> p_header (w_header h ++ rest) = Some (norm_header h, rest).
Proof. exact p_header_w. Qed.
Print Assumptions c17_header_roundtrip.

Theorem c17_header_end_equiv :
  forall h, w_header (norm_header h) = w_header h /\
            (h_end h <> Some (h_beg h) -> norm_header h = h) /\
            norm_header (norm_header h) = norm_header h.
Proof. intros h. split; [apply w_header_norm|]. split; [apply norm_header_id|apply norm_header_idem]. Qed.
Print Assumptions c17_header_end_equiv.

(* ---- fai and crai TEXT layouts: tab-separated decimal fields, LF-terminated lines.  The crai
   reader reads each line into a UTF-8 String, the fai reader (since the `fix:` commit 24986d3) as
   bytes; both drop the LF (and a CR before it), split on tabs and parse the fields.  fai: any list
   of records whose names are byte strings without TAB and LF -- valid UTF-8 or not -- reads back
   equal (fai_ok unfolds to: no TAB, no LF in the name; fields within u64; line_bases, line_width
   >= 1); the numeric fields are still text (c17_fai_non_utf8_numeric_rejected).  crai (the text
   inside the gzip member; gzip itself is not modelled): any list of records with reference ids up
   to i32::MAX and positions >= 1 reads back equal. ---- *)
From NV Require Import Index.TextIndex Index.TextIndexProofs.

Theorem c17_fai_roundtrip : forall l, Forall fai_ok l -> read_fai (w_fai l) = Some l.
Proof. exact fai_roundtrip. Qed.
Print Assumptions c17_fai_roundtrip.

(* the former known finding fai-non-utf8-name, now positive *)
Theorem c17_fai_non_utf8_name_roundtrip :
  forall r rest, utf8_valid (f_name r) = false -> Forall fai_ok (r :: rest) ->
    read_fai (w_fai (r :: rest)) = Some (r :: rest).
Proof. exact fai_non_utf8_name_roundtrip. Qed.
Print Assumptions c17_fai_non_utf8_name_roundtrip.

Theorem c17_fai_non_utf8_numeric_rejected :
  forall name f rest, ~ In TAB name -> ~ In TAB f -> utf8_valid f = false ->
    parse_fai_rec (name ++ TAB :: f ++ TAB :: rest) = None.
Proof. exact fai_non_utf8_numeric_rejected. Qed.
Print Assumptions c17_fai_non_utf8_numeric_rejected.

(* the from_utf8 step of the fai reader's numeric fields never decides alone *)
Theorem c17_fai_numeric_field_utf8_implied :
  forall s, parse_u64_bytes s = parse_u64 s /\ parse_nz_u64_bytes s = parse_nz_u64 s.
Proof. intros s. split; [apply parse_u64_bytes_eq|apply parse_nz_u64_bytes_eq]. Qed.
Print Assumptions c17_fai_numeric_field_utf8_implied.

Theorem c17_crai_roundtrip : forall l, Forall crai_ok l -> read_crai (w_crai l) = Some l.
Proof. exact crai_roundtrip. Qed.
Print Assumptions c17_crai_roundtrip.

Example c17_fai_example :
  let l := [mkfai [99; 104; 114; 195; 169; 13] 1000 6 60 61; mkfai [] 0 18446744073709551615 1 1] in
  read_fai (w_fai l) = Some l /\
  (* the witness of the former finding: a name that is not UTF-8 *)
  utf8_valid [255] = false /\ read_fai (w_fai [mkfai [255] 1 1 1 1]) = Some [mkfai [255] 1 1 1 1] /\
  (* a non-UTF-8 byte in a numeric field is still rejected; so is a non-UTF-8 crai line *)
  read_fai [115; 9; 49; 255; 9; 49; 9; 49; 9; 49; 10] = None /\
  read_crai [255; 9; 49; 9; 49; 9; 49; 9; 49; 9; 49; 10] = None.
Proof. cbv zeta. repeat split; vm_compute; reflexivity. Qed.

Example c17_crai_example :
  let l := [mkcrai None None 0 10 20 30; mkcrai (Some 2147483647) (Some 1) 5 18446744073709551615 0 1] in
  read_crai (w_crai l) = Some l.
Proof. vm_compute. reflexivity. Qed.

(* non-vacuity: a CSI index with an aux header, an ancestor chain (bins 585 -> 73 -> 9), a
   metadata pseudo-bin and an unplaced count; a tabix index with a generic header whose end
   column equals its start column and a name with non-ASCII bytes *)
From Coq Require Import Lia.
Example c17_csi_layout_example :
  let h := mkhdr FVcf 0 1 None 35 0 [[99; 104; 114; 49]; [200; 255]] in
  let i := mkcsi 14 5 (Some h)
             [mkcref [(585, [(100, 200)]); (73, [(50, 300)]); (9, [])] [(585, 100); (73, 50); (9, 70)]
                     (Some (mkmeta 50 300 2 0)); mkcref [] [] None] (Some 7) in
  csi_ok i /\ read_csi (w_csi_bytes i) = Some (reread_csi i) /\
  cr_loffs (nth 0 (ci_refs (reread_csi i)) empty_cref) = [(585, 50); (73, 50); (9, 70)].
Proof.
  cbv zeta. split; [|split; vm_compute; reflexivity].
  unfold csi_ok. cbn [ci_ms ci_depth ci_header ci_refs ci_unplaced].
  split; [lia|]. split; [lia|]. split; [lia|]. split.
  { split; [|vm_compute; reflexivity]. unfold header_ok. split; [vm_compute; reflexivity|].
    split; [vm_compute; reflexivity|]. repeat constructor; cbn [In]; intuition discriminate. }
  split; [vm_compute; reflexivity|]. split; [|vm_compute; reflexivity].
  assert (Hmid : metadata_id 5 = 37450) by (vm_compute; reflexivity).
  constructor; [|constructor; [|constructor]].
  - unfold cref_ok. cbn [cr_bins cr_loffs cr_meta]. rewrite Hmid.
    split.
    { repeat constructor; cbn [fst snd length]; unfold u32, u64; try lia. }
    split.
    { cbn [map fst]. repeat constructor; cbn [In]; intuition discriminate. }
    split; [cbn [length]; lia|]. split.
    { cbn [map snd]. repeat constructor; unfold u64; lia. }
    unfold meta_ok, u64. cbn [m_beg m_end m_mapped m_unmapped]. lia.
  - unfold cref_ok. cbn [cr_bins cr_loffs cr_meta map length].
    split; [constructor|]. split; [constructor|]. split; [lia|]. split; [constructor|exact I].
Qed.

Example c17_tabix_example :
  let h := mkhdr (FGeneric true) 0 1 (Some 1) 35 0 [[200; 255]; []] in
  let i := mktbi (Some h) [mkbref [(4681, [(10, 20)])] (Some (mkmeta 10 20 1 0)) [10]] None in
  read_tbi (w_tbi_bytes i) = Some (reread_tbi i) /\ reread_tbi i <> i.
Proof. cbv zeta. split; [vm_compute; reflexivity|]. intros E. discriminate E. Qed.
