(* C11 — FASTA/FASTQ indexing and random access return exactly the indexed bases.
   Property theorems only.  Models: NV.Fasta.Layout (raw lines, naive parse, writer),
   NV.Fasta.Indexer (io/indexer.rs), NV.Fasta.Query (fai/record.rs, fai/index.rs, io/reader.rs
   query, io/reader/sequence.rs), NV.Fasta.Reader (sequential reader, writer per file),
   NV.Fasta.Fastq (noodles-fastq writer, reader, indexer), NV.Fasta.Delivery (the query through a
   chunked source, over C12's NV.Io models).  A file is any list of bytes; [record_of f r B] says that fai
   record r was produced by the indexer at a definition line of f carrying r's name and that B is
   the naive parse (contents of the following lines up to the next '>' line or the end of the
   file) of that record. *)
From Coq Require Import List NArith.
From NV Require Import Fasta.Layout Fasta.LayoutProofs Fasta.Indexer Fasta.IndexerProofs
                       Fasta.Query Fasta.QueryProofs Fasta.Reader Fasta.WriterProofs
                       Fasta.Fastq Fasta.FastqProofs Fasta.Delivery Fasta.DeliveryProofs
                       Fasta.WholeFile.
From NV Require Import Fasta.Bgzip Fasta.BgzipProofs Fasta.ViaFile Fasta.ViaFileProofs
                       Fasta.AsyncQuery Fasta.AsyncQueryProofs Fasta.FastqGrammar Fasta.FastqGrammarProofs
                       Fasta.FastqGrammarDelivery.
From NV Require Import Fasta.BgzipGzi Fasta.BgzipGziProofs Fasta.BgzipBytes Fasta.BgzipBytesProofs
                       Fasta.BgzipFile Fasta.BgzipFileProofs Fasta.FastqIndexGrammar Fasta.FastqIndexGrammarProofs.
From NV Require Async.Lines.
From NV Require Bgzf.Vpos Bgzf.Gzi Bgzf.GziBs Bgzf.Frame Bgzf.Reader Bgzf.Inflate Bgzf.InflateSpec Bgzf.ReaderOps Bgzf.FlatRef
                Bgzf.ReaderOpsProofs Index.TextIndex Io.BgzfRead.
From NV Require Import Io.Source Io.FastaScan Io.Run.
Import ListNotations.
Open Scope N_scope.

(* raw lines lose nothing *)
Theorem c11_lines_concat : forall s, concat (lines s) = s.
Proof. exact lines_concat. Qed.
Print Assumptions c11_lines_concat.

(* For EVERY byte string f: each record the indexer returns (also the ones returned before a
   later record is rejected) has length = the number of naive bases, and for every base index i
   the file byte at offset position + i/line_bases*line_width + i%line_bases is base i of the
   naive parse.  No hypothesis on line terminators or on the bases. *)
Theorem c11_fai_offset_correct : forall f recs e r,
  index_file f = (recs, e) -> In r recs ->
  exists B, record_of f r B /\ f_len r = len B /\
    forall i dflt, i < len B ->
      exists pos, fai_query r i = Some pos /\ nth (N.to_nat pos) f dflt = nth (N.to_nat i) B dflt.
Proof. exact fai_offset_correct. Qed.
Print Assumptions c11_fai_offset_correct.

(* What the indexer accepts, exactly: a well-formed definition line, a first sequence line with
   >= 1 base, then lines of the same width and base count, an optional last line with at most
   that width / base count, then the end of the input or the next definition
   ([accepted_layout]); ragged records are rejected. *)
Theorem c11_indexer_rejects_ragged : forall d body off r off' rest,
  index_record (d :: body) off = inr (Some (r, off', rest)) ->
  parse_def_name (def_content d) = Some (f_name r) /\
  accepted_layout body rest (f_lw r) (f_lb r).
Proof.
  intros d body off r off' rest H.
  destruct (index_record_spec _ _ _ _ _ _ H) as [H1 [_ [_ [_ [_ [H2 _]]]]]]. now split.
Qed.
Print Assumptions c11_indexer_rejects_ragged.

(* ... and conversely every such layout is accepted, with that geometry *)
Theorem c11_indexer_accepts_regular : forall d body rest name lw lb off,
  parse_def_name (def_content d) = Some name ->
  accepted_layout body rest lw lb ->
  exists r off', index_record (d :: body) off = inr (Some (r, off', rest)) /\
                 f_name r = name /\ f_lw r = lw /\ f_lb r = lb.
Proof. exact index_record_accepts. Qed.
Print Assumptions c11_indexer_accepts_regular.

(* Region queries.  For every byte string f, every record r of the index, every region whose
   (defaulted) start st satisfies 1 <= st <= length and st <= end: the query returns exactly
   firstn (end-st+1) (skipn (st-1) B), hence clipped at the end of the sequence and containing
   nothing of a definition line or of another record.  Side conditions: the bases of this record
   contain no CR (a bare CR is property C12's finding) and no '>' (a '>' inside a sequence line
   stops the reader when the seek lands on it).  Holds for the pinned code (chk = false) and for
   the repaired Record::query (chk = true). *)
Theorem c11_query_exact : forall f recs err r chk s e,
  index_file f = (recs, err) -> In r recs ->
  exists B, record_of f r B /\
    (~ In CR B -> ~ In GT B ->
     let st := match s with Some p => p | None => 1 end in
     let en := match e with Some p => p | None => usize_max end in
     1 <= st -> st <= f_len r -> st <= en ->
     query_record chk f r s e
     = QOk (firstn (N.to_nat (en - st + 1)) (skipn (N.to_nat (st - 1)) B))).
Proof. exact query_exact. Qed.
Print Assumptions c11_query_exact.

(* The same with the weakest side conditions of the repaired reader (7f92eec, 2873940: a CR is
   skipped only at the start of a line, '>' ends the sequence only at the start of a line or at
   the seek position; every other CR / '>' is data): no non-blank sequence line of the record
   starts with a CR ([heads_ok], implied by "B has no CR": heads_ok_of_no_cr), and the base at
   the start of the region is neither CR nor '>'.  Bases may otherwise contain CR and '>'. *)
Theorem c11_query_exact_general : forall f recs err r chk s e,
  index_file f = (recs, err) -> In r recs ->
  exists body, record_lines f r body /\
    let B := naive_bases body in
    let st := match s with Some p => p | None => 1 end in
    let en := match e with Some p => p | None => usize_max end in
    heads_ok body ->
    nth (N.to_nat (st - 1)) B 0 <> CR -> nth (N.to_nat (st - 1)) B 0 <> GT ->
    1 <= st -> st <= f_len r -> st <= en ->
    query_record chk f r s e
    = QOk (firstn (N.to_nat (en - st + 1)) (skipn (N.to_nat (st - 1)) B)).
Proof. exact query_exact_gen. Qed.
Print Assumptions c11_query_exact_general.

Theorem c11_heads_ok_of_no_cr : forall ls, ~ In CR (naive_bases ls) -> heads_ok ls.
Proof. exact heads_ok_of_no_cr. Qed.
Print Assumptions c11_heads_ok_of_no_cr.

(* The statement cannot be extended to st > length for the pinned code: known finding
   fasta-query-start-beyond-length.  On ">a\nACGT\n>b\nTTTT\n" the query a:6-7 returns "bT". *)
Definition c11_query_clipped_full_statement : Prop :=
  forall f recs err r s e, index_file f = (recs, err) -> In r recs ->
    f_len r < s -> s <= e ->
    query_record false f r (Some s) (Some e) = QOk [] \/
    query_record false f r (Some s) (Some e) = QErrInvalidInput.

Theorem c11_query_start_beyond_refuted :
  exists f r s e,
    In r (fst (index_file f)) /\ snd (index_file f) = None /\ f_len r < s /\ s <= e /\
    query_record false f r (Some s) (Some e) = QOk [98; 84] /\
    naive_bases (tl (lines f)) = [65;67;71;84].
Proof. exact query_start_beyond_refuted. Qed.
Print Assumptions c11_query_start_beyond_refuted.

(* With the proposed one-line repair (fai_query_gen true) a start beyond the length is an error
   for every file, so together with c11_query_exact no query returns foreign bytes. *)
Theorem c11_query_repaired_start_beyond : forall f recs err r s e,
  index_file f = (recs, err) -> In r recs ->
  let st := match s with Some p => p | None => 1 end in
  f_len r < st -> query_record true f r s e = QErrInvalidInput.
Proof. exact query_checked_beyond. Qed.
Print Assumptions c11_query_repaired_start_beyond.

(* ---- the whole file ----
   [naive_file f] (NV.Fasta.Layout) is the naive whole-file parse: one (name, bases) pair per line
   that starts with '>'.  The fai records returned by the indexer are, in order, the records of
   the naive parse - all of them when the indexer succeeds, the first |recs| of them when it stops
   with an error - and each of them [rec_matches]: same name, length = number of bases, every base
   at the computed offset, and (bases without CR and '>') every region query with
   1 <= start <= length, start <= end exact.  So no record is skipped, duplicated or merged. *)
Theorem c11_whole_file : forall f recs e,
  index_file f = (recs, e) ->
  Forall2 (rec_matches f) recs (firstn (length recs) (naive_file f)) /\
  (e = None -> length recs = length (naive_file f)).
Proof. exact index_file_whole. Qed.
Print Assumptions c11_whole_file.

Theorem c11_whole_file_accepted : forall f recs,
  index_file f = (recs, None) -> Forall2 (rec_matches f) recs (naive_file f).
Proof. exact index_file_whole_ok. Qed.
Print Assumptions c11_whole_file_accepted.

(* ---- FASTA writer / reader round trip, at every line width, for whole files ----

   Models: NV.Fasta.Reader.write_file (io/writer.rs write_record per record, line width w) and
   read_file (io/reader/records.rs: read_definition + read_sequence per record).  [rec_ok w r] is
   the exact shape the code needs:
     name        non-empty, no ASCII whitespace (the reader ends the name at the first whitespace);
     description None, or Some d with d non-empty, LF-free and already trimmed (the reader trims
                 the rest of the definition line and maps an empty rest to None);
     sequence    every written line (chunk of w bytes) has no LF, does not start with '>' (a
                 definition) or CR (skipped at a line start), does not end with CR (taken as part
                 of the line terminator).  Any sequence without LF, CR and '>' satisfies this at
                 every width (c11_plain_seq_ok); an empty sequence is allowed. *)
Theorem c11_fasta_writer_reader : forall w recs,
  (1 <= w)%nat -> Forall (rec_ok w) recs ->
  read_file (write_file w recs) = (recs, None).
Proof. exact write_read_roundtrip. Qed.
Print Assumptions c11_fasta_writer_reader.

Theorem c11_plain_seq_ok : forall w s,
  (1 <= w)%nat -> ~ In LF s -> ~ In CR s -> ~ In GT s -> seq_ok w s.
Proof. exact plain_seq_ok. Qed.
Print Assumptions c11_plain_seq_ok.

(* The writer's output is accepted by the indexer, whole file: the index is exactly one fai record
   per written record with name, length = number of bases, position = bytes written before the
   first base, line_bases = min(w, length), line_width = line_bases + 1 ([fai_of]). *)
Theorem c11_fasta_writer_indexed : forall w recs,
  (1 <= w)%nat -> Forall (rec_ok w) recs -> Forall has_bases recs ->
  index_file (write_file w recs) = (expected_index w recs 0, None).
Proof. exact index_file_written. Qed.
Print Assumptions c11_fasta_writer_indexed.

Theorem c11_fasta_writer_geometry : forall w rec off,
  let r := fai_of w rec off in
  f_name r = r_name rec /\ f_len r = len (r_seq rec) /\
  f_pos r = off + len (write_definition (r_name rec) (r_desc rec)) + 1 /\
  f_lb r = N.min (N.of_nat w) (len (r_seq rec)) /\ f_lw r = f_lb r + 1.
Proof. exact fai_of_geometry. Qed.
Print Assumptions c11_fasta_writer_geometry.

(* ... and every region query on any record of the written file is exact (composition with
   c11_query_exact_general): for a file of several records pre ++ rec :: post, the fai record of
   rec is in the index, is what the name lookup returns when no earlier record has the same name,
   and a query with 1 <= start <= length, start <= end returns exactly
   firstn (end-start+1) (skipn (start-1) sequence) provided the base at the region start is
   neither CR nor '>' (always true for sequences without CR and '>'). *)
Theorem c11_fasta_writer_query_exact : forall w pre rec post,
  (1 <= w)%nat ->
  Forall (rec_ok w) (pre ++ rec :: post) -> Forall has_bases (pre ++ rec :: post) ->
  let f := write_file w (pre ++ rec :: post) in
  let r := fai_of w rec (len (write_file w pre)) in
  In r (fst (index_file f)) /\
  (~ In (r_name rec) (map r_name pre) -> find_record (fst (index_file f)) (r_name rec) = Some r) /\
  forall chk s e,
    let B := r_seq rec in
    let st := match s with Some p => p | None => 1 end in
    let en := match e with Some p => p | None => usize_max end in
    nth (N.to_nat (st - 1)) B 0 <> CR -> nth (N.to_nat (st - 1)) B 0 <> GT ->
    1 <= st -> st <= len B -> st <= en ->
    query_record chk f r s e = QOk (firstn (N.to_nat (en - st + 1)) (skipn (N.to_nat (st - 1)) B)).
Proof. exact written_record_query_exact. Qed.
Print Assumptions c11_fasta_writer_query_exact.

(* ---- FASTQ ----

   Models: NV.Fasta.Fastq.write_qfile (noodles-fastq io/writer/record.rs, definition separator
   sep), read_qfile (io/reader/record.rs + record/definition.rs with the repaired CRLF handling of
   e8298c4 + records.rs) and index_qfile (io/indexer.rs).  The reader is line driven: '@' and '+'
   inside or leading a quality string (or a sequence) are plain data.  [qrec_ok r]: the name has no
   SP / HT / LF and, if there is no description, does not end with CR; description, sequence and
   quality string have no LF and do not end with CR.  Names may be empty, sequence and quality
   string may be empty and of different lengths. *)
Theorem c11_fastq_roundtrip : forall sep recs,
  sep = SP \/ sep = HT -> Forall qrec_ok recs ->
  read_qfile (write_qfile sep recs) = (recs, None).
Proof. exact fastq_roundtrip. Qed.
Print Assumptions c11_fastq_roundtrip.

Theorem c11_plain_qrec_ok : forall r,
  Forall (fun b => delim b = false) (q_name r) -> ~ In CR (q_name r) ->
  ~ In LF (q_desc r) -> ~ In CR (q_desc r) ->
  ~ In LF (q_seq r) -> ~ In CR (q_seq r) ->
  ~ In LF (q_qual r) -> ~ In CR (q_qual r) -> qrec_ok r.
Proof. exact plain_qrec_ok. Qed.
Print Assumptions c11_plain_qrec_ok.

(* The FASTQ indexer on the writer's output (names valid UTF-8, sequences not ending with ASCII
   whitespace - the indexer right-trims the sequence line): one record per written record, and
   its two offsets point at the sequence and at the quality string of that record. *)
Theorem c11_fastq_writer_indexed : forall sep recs,
  sep = SP \/ sep = HT -> Forall qrec_ok recs -> Forall qidx_ok recs ->
  index_qfile (write_qfile sep recs) = (expected_qindex sep recs 0, None).
Proof. exact index_qfile_written. Qed.
Print Assumptions c11_fastq_writer_indexed.

Theorem c11_fastq_offsets_point : forall sep pre r post,
  let f := write_qfile sep (pre ++ r :: post) in
  let x := qfai_of sep r (len (write_qfile sep pre)) in
  firstn (N.to_nat (qf_len x)) (skipn (N.to_nat (qf_seq_off x)) f) = q_seq r /\
  firstn (length (q_qual r)) (skipn (N.to_nat (qf_qual_off x)) f) = q_qual r.
Proof. exact qoffsets_point. Qed.
Print Assumptions c11_fastq_offsets_point.

(* ---- chunk independence of the region query ----

   [query_delivered chk cap f sc r s e] (NV.Fasta.Delivery) is Reader::query run through
   BufReader::with_capacity(cap, source) where the source hands out the bytes after the seek
   position according to the script sc (any sequence of short reads and ErrorKind::Interrupted):
   read_sequence_limit written over C12's model of the sequence reader's fill_buf / consume
   (NV.Io.FastaScan).  For EVERY file, fai record, region, capacity >= 1 and script it never runs
   out of fuel and returns what the whole-buffer line model [query_record] returns - no side
   condition.  Proof: C12's step lemma for fill_buf + [rsl_lines (lines d) max = firstn max
   (seq_spec d)] relating the line-driven model to C12's closed form. *)
Theorem c11_query_any_delivery : forall chk cap f sc r s e,
  (1 <= cap)%nat ->
  query_delivered chk cap f sc r s e = (SOk, query_record chk f r s e).
Proof. exact query_any_delivery. Qed.
Print Assumptions c11_query_any_delivery.

Theorem c11_rsl_closed_form : forall d max,
  rsl_lines (lines d) max = firstn (N.to_nat max) (seq_spec d).
Proof. exact rsl_lines_seq_spec. Qed.
Print Assumptions c11_rsl_closed_form.

(* ... hence the exactness theorem holds through every chunked source *)
Theorem c11_query_exact_any_delivery : forall f recs err r chk s e cap sc,
  index_file f = (recs, err) -> In r recs -> (1 <= cap)%nat ->
  exists body, record_lines f r body /\
    let B := naive_bases body in
    let st := match s with Some p => p | None => 1 end in
    let en := match e with Some p => p | None => usize_max end in
    heads_ok body ->
    nth (N.to_nat (st - 1)) B 0 <> CR -> nth (N.to_nat (st - 1)) B 0 <> GT ->
    1 <= st -> st <= f_len r -> st <= en ->
    query_delivered chk cap f sc r s e
    = (SOk, QOk (firstn (N.to_nat (en - st + 1)) (skipn (N.to_nat (st - 1)) B))).
Proof. exact query_exact_any_delivery. Qed.
Print Assumptions c11_query_exact_any_delivery.

(* The sequential reader: C12's model of read_sequence (read_to_end over the sequence reader)
   over any scripted source behind a BufReader of any capacity returns the sequence of the
   line-driven reader model used in c11_fasta_writer_reader (composition with C12's
   c12_fasta_scanner_chunk_indep). *)
Theorem c11_fasta_read_sequence_any_delivery : forall data sc cap,
  (1 <= cap)%nat ->
  exists s', run_read_sequence cap (mkSource data sc)
             = (SOk, fst (read_seq_lines (lines data)), s').
Proof. exact read_sequence_any_delivery. Qed.
Print Assumptions c11_fasta_read_sequence_any_delivery.

(* ---- BGZF-compressed FASTA with a gzi index ----

   [query_bgzf chk F idx st0 r s e] (NV.Fasta.Bgzip) is IndexedReader::query on
   fasta::io::IndexedReader<bgzf::io::IndexedReader<_>>: Record::query, then
   Seek::seek(Start(pos)) = C02's [seek_by_uncompressed_position] (gzi query + Reader::seek) from
   the reader state st0, then read_sequence_limit over the sequence reader (C12's model) whose
   inner BufRead is the BGZF reader (C02's fill_buf / consume).  F is the parsed BGZF file (frames
   with their compressed size and data, C02's NV.Bgzf.ReaderOps.file), bz_text F its uncompressed
   text.  For EVERY well-formed F (any block layout: boundaries anywhere, empty blocks anywhere,
   with or without EOF block; wf = every block has >= 1 compressed and <= 65536 data bytes; file
   shorter than 2^48), every reader state satisfying C02's invariant, every fai record and region
   whose byte offset the gzi index of the file can express (seeku_ok: <= the text length, and not
   the very end of a file whose last block is a full 65536-byte one): the query on the compressed
   file = the query on the uncompressed text.  It never runs out of fuel, never fails in the
   seek, never panics where the plain query does not. *)
Theorem c11_bgzf_query_flat : forall F chk st0 s0 r s e,
  ReaderOpsProofs.wf F -> FlatRef.total_csize F <= Vpos.MAX_COMPRESSED_POSITION ->
  ReaderOpsProofs.Inv F st0 s0 ->
  (forall pos, fai_query_gen chk r (match s with Some p => p - 1 | None => 0 end) = Some pos ->
               ReaderOpsProofs.seeku_ok F pos) ->
  query_bgzf chk F (ReaderOps.gzi_of F) st0 r s e = ZOk (query_record chk (bz_text F) r s e).
Proof. intros F chk st0 s0 r s e Hwf Hmax. exact (query_bgzf_flat F Hwf Hmax chk st0 s0 r s e). Qed.
Print Assumptions c11_bgzf_query_flat.

(* ... hence exact for every record of the index built on the uncompressed text and every region
   with 1 <= start <= length, start <= end (the offset of an existing base is always expressible),
   after ANY valid history of calls on the BGZF reader (C02's op language) *)
Theorem c11_bgzf_query_exact : forall F ops recs err r chk s e,
  ReaderOpsProofs.wf F -> FlatRef.total_csize F <= Vpos.MAX_COMPRESSED_POSITION ->
  ReaderOpsProofs.ops_valid F ops ->
  index_file (bz_text F) = (recs, err) -> In r recs ->
  exists body, record_lines (bz_text F) r body /\
    let B := naive_bases body in
    let st := match s with Some p => p | None => 1 end in
    let en := match e with Some p => p | None => usize_max end in
    heads_ok body ->
    nth (N.to_nat (st - 1)) B 0 <> CR -> nth (N.to_nat (st - 1)) B 0 <> GT ->
    1 <= st -> st <= f_len r -> st <= en ->
    query_bgzf chk F (ReaderOps.gzi_of F)
      (ReaderOps.run_state true F (ReaderOps.gzi_of F) (ReaderOps.init F) ops) r s e
    = ZOk (QOk (firstn (N.to_nat (en - st + 1)) (skipn (N.to_nat (st - 1)) B))).
Proof. exact query_bgzf_exact_history. Qed.
Print Assumptions c11_bgzf_query_exact.

(* the same from any state satisfying C02's refinement invariant *)
Theorem c11_bgzf_query_exact_inv : forall F st0 s0 recs err r chk s e,
  ReaderOpsProofs.wf F -> FlatRef.total_csize F <= Vpos.MAX_COMPRESSED_POSITION ->
  ReaderOpsProofs.Inv F st0 s0 ->
  index_file (bz_text F) = (recs, err) -> In r recs ->
  exists body, record_lines (bz_text F) r body /\
    let B := naive_bases body in
    let st := match s with Some p => p | None => 1 end in
    let en := match e with Some p => p | None => usize_max end in
    heads_ok body ->
    nth (N.to_nat (st - 1)) B 0 <> CR -> nth (N.to_nat (st - 1)) B 0 <> GT ->
    1 <= st -> st <= f_len r -> st <= en ->
    query_bgzf chk F (ReaderOps.gzi_of F) st0 r s e
    = ZOk (QOk (firstn (N.to_nat (en - st + 1)) (skipn (N.to_nat (st - 1)) B))).
Proof. exact query_bgzf_exact. Qed.
Print Assumptions c11_bgzf_query_exact_inv.

(* Indexing the bgzipped file: [index_bgzf F] is C12's model of the whole indexer (index_record
   loop: read_line, consume_sequence_line, is_last_sequence_line over fill_buf / consume) reading
   through the BGZF reader from its initial state, so every fill_buf window ends at a block
   boundary.  For every block layout it returns the index of the uncompressed text - hence
   (c11_whole_file, c11_fai_offset_correct) the records of the naive parse. *)
Theorem c11_bgzf_index_flat : forall F,
  ReaderOpsProofs.wf F -> index_bgzf F = index_file (bz_text F).
Proof. exact index_bgzf_flat. Qed.
Print Assumptions c11_bgzf_index_flat.

(* The modelling step that puts C12's scanner on top of C02's reader: the scanner is written over
   "buffer + inner reader"; here the buffer is the BGZF block window.  After fill_buf returned the
   window w, consuming k < |w| bytes makes the next fill_buf return the rest of w without
   touching the stream, and consuming the rest afterwards is consuming all of w at once. *)
Theorem c11_bgzf_window_rest : forall F st s st1 w k,
  ReaderOpsProofs.wf F -> ReaderOpsProofs.Inv F st s ->
  ReaderOps.fill_buf st = (st1, Vpos.Ok w) -> k < ReaderOps.len w ->
  ReaderOps.fill_buf (ReaderOps.consume st1 k)
    = (ReaderOps.consume st1 k, Vpos.Ok (skipn (N.to_nat k) w)) /\
  ReaderOps.consume (ReaderOps.consume st1 k) (ReaderOps.len w - k)
    = ReaderOps.consume st1 (ReaderOps.len w).
Proof. intros F st s st1 w k Hwf. exact (bz_window_rest F Hwf st s st1 w k). Qed.
Print Assumptions c11_bgzf_window_rest.

Theorem c11_bgzf_read_total : forall F st s n,
  ReaderOpsProofs.wf F -> ReaderOpsProofs.Inv F st s ->
  exists w st1, ReaderOps.fill_buf st = (st1, Vpos.Ok w) /\
    bz_read st n = (ROk (firstn n w), ReaderOps.consume st1 (ReaderOps.len (firstn n w))).
Proof. intros F st s n Hwf. exact (bz_read_total F Hwf st s n). Qed.
Print Assumptions c11_bgzf_read_total.

(* ---- the index on disk ----

   [write_fai_file] / [read_fai_file] (NV.Fasta.ViaFile) are C17's text model of
   fai::io::Writer / Reader.  Every record the indexer returns lies inside the file and has a
   non-zero geometry and a name without whitespace ... *)
Theorem c11_fai_bounds : forall f recs e r, index_file f = (recs, e) -> In r recs ->
  f_pos r + f_len r <= len f /\ f_pos r + f_lw r <= len f /\
  1 <= f_lb r /\ f_lb r <= f_lw r /\
  f_name r <> [] /\ Forall (fun b => is_ws b = false) (f_name r).
Proof. exact fai_bounds. Qed.
Print Assumptions c11_fai_bounds.

(* ... so for files shorter than 2^64 bytes the index written as a .fai file reads back equal,
   whether or not the record names are valid UTF-8 (C17's finding fai-non-utf8-name is repaired:
   `fix:` commit 24986d3) ... *)
Theorem c11_index_via_file : forall f,
  len f < 2 ^ 64 ->
  index_via_file f = Some (fst (index_file f)).
Proof. exact index_via_file_same. Qed.
Print Assumptions c11_index_via_file.

(* ... and the index built by the indexer, written, read back, answers every region query (name
   lookup included) with exactly the bases of the naive parse *)
Theorem c11_via_file_query_exact : forall f recs err name r s e,
  index_file f = (recs, err) -> len f < 2 ^ 64 ->
  find_record recs name = Some r ->
  exists body, record_lines f r body /\
    let B := naive_bases body in
    let st := match s with Some p => p | None => 1 end in
    let en := match e with Some p => p | None => usize_max end in
    heads_ok body ->
    nth (N.to_nat (st - 1)) B 0 <> CR -> nth (N.to_nat (st - 1)) B 0 <> GT ->
    1 <= st -> st <= f_len r -> st <= en ->
    query_via_file f name s e
    = VOk (QOk (firstn (N.to_nat (en - st + 1)) (skipn (N.to_nat (st - 1)) B))).
Proof. exact via_file_query_exact. Qed.
Print Assumptions c11_via_file_query_exact.

(* ---- the async reader ----

   [async_query chk cap codes f r s] (NV.Fasta.AsyncQuery): Record::query, seek, then C16's model
   of the async read_sequence loop over tokio's BufReader of capacity cap over a source polled
   according to codes (Pending / Ready with at most k bytes, in any order).  For every capacity
   >= 1 and every poll script it returns C12's closed form of the bytes after the seek position. *)
Theorem c11_async_query_closed : forall chk cap codes f r s, (1 <= cap)%nat ->
  async_query chk cap codes f r s
  = match fai_query_gen chk r (match s with Some p => p - 1 | None => 0 end) with
    | None => (SOk, QErrInvalidInput)
    | Some pos => (SOk, QOk (seq_spec (seek f pos)))
    end.
Proof. exact async_query_closed. Qed.
Print Assumptions c11_async_query_closed.

(* the sync query with an open end is the async result cut at usize::MAX - start + 1 bases *)
Theorem c11_async_query_vs_sync : forall chk cap codes f r s, (1 <= cap)%nat ->
  query_record chk f r s None
  = match async_query chk cap codes f r s with
    | (_, QOk b) => QOk (firstn (N.to_nat (usize_max - (match s with Some p => p | None => 1 end) + 1)) b)
    | (_, x) => x
    end \/
  query_record chk f r s None = QPanic.
Proof. exact async_query_vs_sync. Qed.
Print Assumptions c11_async_query_vs_sync.

(* exact: the bases from the region start to the end of the record (files shorter than 2^63) *)
Theorem c11_async_query_exact : forall f recs err r chk s cap codes,
  index_file f = (recs, err) -> In r recs -> (1 <= cap)%nat -> len f < 2 ^ 63 ->
  exists body, record_lines f r body /\
    let B := naive_bases body in
    let st := match s with Some p => p | None => 1 end in
    heads_ok body ->
    nth (N.to_nat (st - 1)) B 0 <> CR -> nth (N.to_nat (st - 1)) B 0 <> GT ->
    1 <= st -> st <= f_len r ->
    async_query chk cap codes f r s = (SOk, QOk (skipn (N.to_nat (st - 1)) B)).
Proof. exact async_query_exact. Qed.
Print Assumptions c11_async_query_exact.

(* ---- the FASTQ dialect, as a grammar ----

   noodles-fastq reads four-line records only.  [fq_parses f recs] (NV.Fasta.FastqGrammar):
     file   ::= record*
     record ::= '@' defline LF seqline LF '+' plusline LF qualline LF
              | '@' defline LF seqline LF '+' plusline LF qualline      (last record)
              | '@' defline LF seqline LF '+' plusline                  (last record, empty qualities)
   with LF-free lines, and [fields_of] cutting name / description / sequence / qualities out of
   them.  The reader model returns (recs, no error) EXACTLY on the members of the grammar, with
   EXACTLY the records the grammar assigns. *)
Theorem c11_fastq_reader_accepts_grammar : forall f recs,
  read_qfile f = (recs, None) <-> fq_parses f recs.
Proof. exact reader_accepts_grammar. Qed.
Print Assumptions c11_fastq_reader_accepts_grammar.

(* the decidable membership test *)
Theorem c11_fastq_accepts_iff : forall f, fq_accepts f = true <-> snd (read_qfile f) = None.
Proof. exact accepts_iff. Qed.
Print Assumptions c11_fastq_accepts_iff.

Theorem c11_fastq_accepts_grammar : forall f, fq_accepts f = true <-> exists recs, fq_parses f recs.
Proof. exact accepts_grammar. Qed.
Print Assumptions c11_fastq_accepts_grammar.

(* the grammar is unambiguous *)
Theorem c11_fastq_parses_functional : forall f r1 r2, fq_parses f r1 -> fq_parses f r2 -> r1 = r2.
Proof. exact parses_functional. Qed.
Print Assumptions c11_fastq_parses_functional.

(* outside the grammar the reader reports InvalidData or UnexpectedEof (after the records read so
   far) - no panic, no other error *)
Theorem c11_fastq_rejects_with : forall f, fq_accepts f = false ->
  snd (read_qfile f) = Some QInvalidData \/ snd (read_qfile f) = Some QUnexpectedEof.
Proof. exact rejects_with. Qed.
Print Assumptions c11_fastq_rejects_with.

(* the same for the reader as it really runs - C12's model of the fill_buf-driven record reader
   behind a BufReader of any capacity over any script of short reads / Interrupted, and C16's model
   of the async reader over any poll script (their closed-form theorems, composed) *)
Theorem c11_fastq_grammar_any_delivery : forall data sc cap recs, (1 <= cap)%nat ->
  (fst (run_fastq cap (mkSource data sc)) = (recs, None) <-> fq_parses data recs).
Proof. exact grammar_any_delivery. Qed.
Print Assumptions c11_fastq_grammar_any_delivery.

Theorem c11_fastq_grammar_async : forall cap codes data recs, (1 <= cap)%nat ->
  (fst (Async.Lines.async_fastq_case cap codes data) = (recs, None) <-> fq_parses data recs).
Proof. exact grammar_async. Qed.
Print Assumptions c11_fastq_grammar_async.

(* a wrapped (multi-line) record is NOT in the dialect: "@r\nAC\nGT\n+\n!!\n!!\n" *)
Theorem c11_fastq_multiline_rejected :
  fq_accepts [64;114;10; 65;67;10; 71;84;10; 43;10; 33;33;10; 33;33;10] = false /\
  read_qfile [64;114;10; 65;67;10; 71;84;10; 43;10; 33;33;10; 33;33;10] = ([], Some QInvalidData).
Proof. exact multiline_rejected. Qed.
Print Assumptions c11_fastq_multiline_rejected.

(* ---- non-vacuity ---- *)

(* ">s d\r\nACGT\r\nACGT\r\nAC\r\n>t\nGG\n": CRLF, short last line, a second record *)
Definition ex_file : list N :=
  [62;115;32;100;13;10; 65;67;71;84;13;10; 65;67;71;84;13;10; 65;67;13;10; 62;116;10; 71;71;10].

Example c11_example_index :
  index_file ex_file = ([mkfai [115] 10 6 4 6; mkfai [116] 2 25 2 3], None).
Proof. vm_compute. reflexivity. Qed.

Example c11_example_query :   (* s:4-9 spans two line boundaries *)
  index_and_query ex_file [115] (Some 4) (Some 9) = QOk [84;65;67;71;84;65]
  /\ index_and_query ex_file [115] (Some 9) (Some 100) = QOk [65;67]
  /\ index_and_query ex_file [116] None None = QOk [71;71].
Proof. vm_compute. repeat split. Qed.

Example c11_example_ragged :   (* ">a\nACGT\nACG\nACGT\n" *)
  index_file [62;97;10; 65;67;71;84;10; 65;67;71;10; 65;67;71;84;10] = ([], Some (EInvalidLineBases 3 4)).
Proof. vm_compute. reflexivity. Qed.

(* ">a\nAC\rG>T\nAC\n": a CR and a '>' inside a sequence line are bases *)
Example c11_example_cr_gt_inside :
  index_and_query [62;97;10; 65;67;13;71;62;84;10; 65;67;10] [97] (Some 2) (Some 7)
  = QOk [67;13;71;62;84;65].
Proof. vm_compute. reflexivity. Qed.

(* the writer theorems are not vacuous: ">sq0 LN:8\nACG\nT>A\nCG\n>b\nAC\n" at width 3 *)
Definition ex_recs : list frec :=
  [mkfrec [115;113;48] (Some [76;78;58;56]) [65;67;71;84;62;65;67;71]; mkfrec [98] None [65;67]].

Example c11_example_rec_ok : Forall (rec_ok 3) ex_recs /\ Forall has_bases ex_recs.
Proof.
  split; [|repeat constructor; discriminate].
  repeat constructor; try discriminate; try reflexivity;
    try (intros H; vm_compute in H; intuition discriminate).
Qed.

Example c11_example_written :
  write_file 3 ex_recs
  = [62;115;113;48;32;76;78;58;56;10; 65;67;71;10; 84;62;65;10; 67;71;10; 62;98;10; 65;67;10]
  /\ index_file (write_file 3 ex_recs) = ([mkfai [115;113;48] 8 10 3 4; mkfai [98] 2 24 2 3], None)
  /\ index_and_query (write_file 3 ex_recs) [115;113;48] (Some 3) (Some 6) = QOk [71;84;62;65].
Proof. vm_compute. repeat split. Qed.

(* FASTQ: "@r0 d\nAC\n+\n@+\n@r1\n\n+\n\n" - '@' and '+' in the qualities, an empty record *)
Definition ex_qrecs : list qrec :=
  [mkqrec [114;48] [100] [65;67] [64;43]; mkqrec [114;49] [] [] []].

Example c11_example_qrec_ok : Forall qrec_ok ex_qrecs /\ Forall qidx_ok ex_qrecs.
Proof.
  split.
  - repeat constructor; try reflexivity; try (intros H; vm_compute in H; intuition discriminate).
  - repeat constructor.
Qed.

Example c11_example_fastq :
  write_qfile SP ex_qrecs = [64;114;48;32;100;10; 65;67;10; 43;10; 64;43;10; 64;114;49;10; 10; 43;10; 10]
  /\ read_qfile (write_qfile SP ex_qrecs) = (ex_qrecs, None)
  /\ index_qfile (write_qfile SP ex_qrecs) = ([mkqfai [114;48] 2 6 2 3 11; mkqfai [114;49] 0 18 0 1 21], None).
Proof. vm_compute. repeat split. Qed.

(* CRLF input, repaired name handling: "@r3\r\nNCG\r\n+\r\n%2O\r\n" *)
Example c11_example_fastq_crlf :
  read_qfile [64;114;51;13;10; 78;67;71;13;10; 43;13;10; 37;50;79;13;10]
  = ([mkqrec [114;51] [] [78;67;71] [37;50;79]], None).
Proof. vm_compute. reflexivity. Qed.

(* a query delivered one byte at a time with an Interrupted in between: s:4-9 of ex_file *)
Example c11_example_delivered :
  index_and_query_delivered 1 ex_file [Interrupted; Deliver 1; Interrupted; Deliver 2] [115] (Some 4) (Some 9)
  = (SOk, QOk [84;65;67;71;84;65]).
Proof. vm_compute. reflexivity. Qed.

Example c11_example_naive_file :
  naive_file ex_file = [([115], [65;67;71;84;65;67;71;84;65;67]); ([116], [71;71])].
Proof. vm_compute. reflexivity. Qed.

(* BGZF: ">s\nACGT\nAC\n>t\nGG\n" in three data blocks, an empty block in the middle, EOF block *)
Example c11_example_bgzf_wf :
  ReaderOpsProofs.wf ex_frames /\ FlatRef.total_csize ex_frames <= Vpos.MAX_COMPRESSED_POSITION.
Proof. exact ex_frames_wf. Qed.

Example c11_example_bgzf :
  bz_text ex_frames = [62;115;10; 65;67;71;84;10; 65;67;10; 62;116;10; 71;71;10]
  /\ index_and_query_bgzf ex_frames (ReaderOps.gzi_of ex_frames) [ReaderOps.SeekU 12; ReaderOps.Read 2]
       [([115], (Some 3, Some 6)); ([116], (None, None)); ([115], (Some 7, Some 7))]
     = [ZOk (QOk [71;84;65;67]); ZOk (QOk [71;71]); ZOk QErrInvalidInput].
Proof. vm_compute. split; reflexivity. Qed.

(* the index through its file: "s\t10\t6\t4\t6\nt\t2\t25\t2\t3\n" *)
Example c11_example_via_file :
  write_fai_file (fst (index_file ex_file))
  = [115;9;49;48;9;54;9;52;9;54;10; 116;9;50;9;50;53;9;50;9;51;10]
  /\ query_via_file ex_file [115] (Some 4) (Some 9) = VOk (QOk [84;65;67;71;84;65]).
Proof. vm_compute. split; reflexivity. Qed.

(* async: s:4- of ex_file through capacity 2, polls Pending, Ready(1), Pending, Ready(3) *)
Example c11_example_async :
  index_and_async_query 2 [0; 2; 0; 4]%nat ex_file [115] (Some 4) = (SOk, QOk [84;65;67;71;84;65;67]).
Proof. vm_compute. reflexivity. Qed.

(* FASTQ grammar: "@r0 d\r\nAC\r\n+x\n@+" - CRLF, a description, '@' and '+' as qualities, last
   quality line unterminated *)
Example c11_example_fastq_grammar :
  fq_parses [64;114;48;32;100;13;10; 65;67;13;10; 43;120;10; 64;43]
            [mkqrec [114;48] [100] [65;67] [64;43]].
Proof.
  exact (fq_last_open_qual [114;48;32;100;13] [65;67;13] [120] [64;43]
           ltac:(intros H; vm_compute in H; intuition discriminate)
           ltac:(intros H; vm_compute in H; intuition discriminate)
           ltac:(intros H; vm_compute in H; intuition discriminate)
           ltac:(intros H; vm_compute in H; intuition discriminate)).
Qed.

(* ================= seventh wave =================

   ---- ANY correct gzi index ----

   [query_bgzf_any] (NV.Fasta.BgzipGzi) is Reader::query on bgzf::io::IndexedReader with the gzi
   lookup modelled EXACTLY (C02's GziBs: the binary search of slice::partition_point, so the model is
   the implementation on unsorted / hostile indexes too) and keeps the reader state.
   [gzi_correct F idx]: for every byte p of the text, the entry the binary search selects names the
   block that holds p.  For every such index, every state of the reader satisfying C02's invariant,
   every fai record of the text and every region with 1 <= start <= length: exactly the bases of the
   naive parse. *)
Theorem c11_bgzf_any_gzi_query_exact : forall F idx st0 s0 recs err r chk s e,
  ReaderOpsProofs.wf F -> FlatRef.total_csize F <= Vpos.MAX_COMPRESSED_POSITION -> gzi_correct F idx ->
  ReaderOpsProofs.Inv F st0 s0 ->
  index_file (bz_text F) = (recs, err) -> In r recs ->
  exists body, record_lines (bz_text F) r body /\
    let B := naive_bases body in
    let st := match s with Some p => p | None => 1 end in
    let en := match e with Some p => p | None => usize_max end in
    heads_ok body ->
    nth (N.to_nat (st - 1)) B 0 <> CR -> nth (N.to_nat (st - 1)) B 0 <> GT ->
    1 <= st -> st <= f_len r -> st <= en ->
    fst (query_bgzf_any chk F idx st0 r s e)
    = ZOk (QOk (firstn (N.to_nat (en - st + 1)) (skipn (N.to_nat (st - 1)) B))).
Proof. exact query_bgzf_any_exact. Qed.
Print Assumptions c11_bgzf_any_gzi_query_exact.

(* which indexes are correct: the index of the file with the entries of ANY set of EMPTY blocks left
   out (keep says which are kept) - no hypothesis on the file; [] keeps all = the file's own index;
   htslib's index (no entry for the EOF block) is another instance *)
Theorem c11_gzi_sparse_correct : forall keep F, gzi_correct F (gzi_sparse_of keep F).
Proof. exact gzi_sparse_correct. Qed.
Print Assumptions c11_gzi_sparse_correct.

Theorem c11_gzi_sparse_all : forall F, gzi_sparse_of [] F = ReaderOps.gzi_of F.
Proof. exact gzi_sparse_all. Qed.
Print Assumptions c11_gzi_sparse_all.

(* the seek itself: when the selected entry names the block holding byte p, the reader ends up in a
   state refining "flat offset p" and reports Ok p *)
Theorem c11_bgzf_seek_lands : forall F idx st0 s0 p,
  ReaderOpsProofs.wf F -> FlatRef.total_csize F <= Vpos.MAX_COMPRESSED_POSITION ->
  ReaderOpsProofs.Inv F st0 s0 -> gzi_lands F idx p ->
  snd (GziBs.seek_by_uncompressed_position_bs true F idx st0 p) = Vpos.Ok p /\
  ReaderOpsProofs.Inv F (fst (GziBs.seek_by_uncompressed_position_bs true F idx st0 p))
                      (FlatRef.f_seek_flat (FlatRef.chunks F) p).
Proof. intros F idx st0 s0 p Hwf Hmax. exact (seek_lands F Hwf Hmax idx st0 s0 p). Qed.
Print Assumptions c11_bgzf_seek_lands.

(* every state reached by a valid history of calls made WITH THAT INDEX satisfies the invariant *)
Theorem c11_bgzf_any_gzi_history : forall F idx,
  ReaderOpsProofs.wf F -> FlatRef.total_csize F <= Vpos.MAX_COMPRESSED_POSITION -> gzi_correct F idx ->
  forall ops st s, ops_valid_any F ops -> ReaderOpsProofs.Inv F st s ->
  exists s', ReaderOpsProofs.Inv F (run_state_bs F idx st ops) s'.
Proof. exact reach_inv_any. Qed.
Print Assumptions c11_bgzf_any_gzi_history.

(* the boundary of the statement: an index that lacks the entry of a DATA block is not correct, and
   the query silently returns other bytes (ex_frames; the entry (109,11) of the block ">t\nGG\n" is
   missing: the seek lands at the end of the block before it, the reader sees '>' at a line start,
   and the whole record t = "GG" comes back empty) *)
Example c11_bgzf_gzi_missing_entry_wrong :
  fst (query_bgzf_any true ex_frames [(40, 6); (68, 6); (148, 17)] (ReaderOps.init ex_frames)
         (mkfai [116] 2 14 2 3) None None) = ZOk (QOk [])
  /\ fst (query_bgzf_any true ex_frames (ReaderOps.gzi_of ex_frames) (ReaderOps.init ex_frames)
            (mkfai [116] 2 14 2 3) None None) = ZOk (QOk [71; 71]).
Proof. split; vm_compute; reflexivity. Qed.

(* ---- the virtual position after a query ----
   after a query whose start lies in the record, virtual_position() of the BGZF reader is defined,
   names (C02's denote) a flat offset o of the file with pos <= o <= |text| (pos = the byte offset
   of the first base), and the reader state refines "flat offset o": every later call behaves as on
   the uncompressed text from o on (C02's refinement theorems apply) *)
Theorem c11_bgzf_query_vpos : forall F idx st0 s0 recs err r chk s e,
  ReaderOpsProofs.wf F -> FlatRef.total_csize F <= Vpos.MAX_COMPRESSED_POSITION -> gzi_correct F idx ->
  ReaderOpsProofs.Inv F st0 s0 ->
  index_file (bz_text F) = (recs, err) -> In r recs ->
  let st := match s with Some p => p | None => 1 end in
  1 <= st -> st <= f_len r ->
  exists pos v s',
    fai_query_gen chk r (st - 1) = Some pos /\
    ReaderOps.virtual_position (snd (query_bgzf_any chk F idx st0 r s e)) = Vpos.Ok v /\
    FlatRef.denote F v = Some (FlatRef.off s') /\ pos <= FlatRef.off s' /\
    FlatRef.off s' <= FlatRef.total_dlen F /\
    ReaderOpsProofs.Inv F (snd (query_bgzf_any chk F idx st0 r s e)) s'.
Proof. exact query_bgzf_any_exact_vpos. Qed.
Print Assumptions c11_bgzf_query_vpos.

(* ---- from the FILE BYTES, under any delivery ----
   [bz_frames_of_bytes cap src] (NV.Fasta.BgzipBytes): the frames bgzf::io::Reader parses from a
   scripted byte source (short reads, Interrupted; raw or behind BufReader::with_capacity(cap)):
   C12's delivered frame reader + C01's parse_block with the executable inflater.  They are the
   frames of the whole-buffer reader ... *)
Theorem c11_bgzf_frames_any_delivery : forall data sc cap,
  bz_frames_of_bytes cap (mkSource data sc) = BgzfRead.whole_frames Inflate.inflate (S (length data)) data.
Proof. exact frames_any_delivery. Qed.
Print Assumptions c11_bgzf_frames_any_delivery.

(* ... a file that is read to its end without an error yields a well-formed frame list below the
   48-bit limit (the two hypotheses of every BGZF theorem above are DISCHARGED) ... *)
Theorem c11_bgzf_frames_wellformed : forall data sc cap F,
  Forall InflateSpec.is_byte data -> Frame.lenN data <= Vpos.MAX_COMPRESSED_POSITION ->
  bz_frames_of_bytes cap (mkSource data sc) = (F, Frame.Ok tt) ->
  ReaderOpsProofs.wf F /\ FlatRef.total_csize F <= Vpos.MAX_COMPRESSED_POSITION.
Proof. exact frames_of_bytes_ok. Qed.
Print Assumptions c11_bgzf_frames_wellformed.

(* ... the text the FASTA layer sees is C01's read_to_end view of the bytes and the indexer reading
   through the BGZF reader returns the index of that text ... *)
Theorem c11_bgzf_index_from_bytes : forall data sc cap F,
  Forall InflateSpec.is_byte data -> bz_frames_of_bytes cap (mkSource data sc) = (F, Frame.Ok tt) ->
  index_bgzf F = index_file (bz_text F) /\
  bz_text F = fst (Reader.reader_read_to_end Inflate.inflate data).
Proof. exact index_bgzf_from_bytes. Qed.
Print Assumptions c11_bgzf_index_from_bytes.

(* ... THE SEEK TIE: the byte-level seek of the inner stream to a block boundary c followed by
   reading on (under its own arbitrary delivery) parses exactly the frames C02's drop_to denotes ... *)
Theorem c11_bgzf_seek_tie : forall data sc cap F c post sc' cap',
  bz_frames_of_bytes cap (mkSource data sc) = (F, Frame.Ok tt) ->
  ReaderOps.drop_to F 0 c = Some post ->
  bz_frames_of_bytes cap' (mkSource (skipn (N.to_nat c) data) sc') = (post, Frame.Ok tt).
Proof. exact frames_after_seek. Qed.
Print Assumptions c11_bgzf_seek_tie.

(* ... hence c11_bgzf_query_exact from the bytes (the file's own index, any valid history) ... *)
Theorem c11_bgzf_query_exact_from_bytes : forall data sc cap F ops recs err r chk s e,
  Forall InflateSpec.is_byte data -> Frame.lenN data <= Vpos.MAX_COMPRESSED_POSITION ->
  bz_frames_of_bytes cap (mkSource data sc) = (F, Frame.Ok tt) ->
  ReaderOpsProofs.ops_valid F ops ->
  index_file (bz_text F) = (recs, err) -> In r recs ->
  exists body, record_lines (bz_text F) r body /\
    let B := naive_bases body in
    let st := match s with Some p => p | None => 1 end in
    let en := match e with Some p => p | None => usize_max end in
    heads_ok body ->
    nth (N.to_nat (st - 1)) B 0 <> CR -> nth (N.to_nat (st - 1)) B 0 <> GT ->
    1 <= st -> st <= f_len r -> st <= en ->
    query_bgzf chk F (ReaderOps.gzi_of F)
      (ReaderOps.run_state true F (ReaderOps.gzi_of F) (ReaderOps.init F) ops) r s e
    = ZOk (QOk (firstn (N.to_nat (en - st + 1)) (skipn (N.to_nat (st - 1)) B))).
Proof. exact query_bgzf_exact_from_bytes. Qed.
Print Assumptions c11_bgzf_query_exact_from_bytes.

(* ... and the whole stack: file bytes, any delivery, ANY correct gzi index, any valid history of
   prior calls made with that index -> exactly the bases of the naive parse of the inflated text,
   and the virtual position afterwards *)
Theorem c11_bgzf_file_query_exact : forall data sc cap F idx ops recs err r chk s e,
  Forall InflateSpec.is_byte data -> Frame.lenN data <= Vpos.MAX_COMPRESSED_POSITION ->
  bz_frames_of_bytes cap (mkSource data sc) = (F, Frame.Ok tt) ->
  gzi_correct F idx -> ops_valid_any F ops ->
  index_file (bz_text F) = (recs, err) -> In r recs ->
  let st0 := run_state_bs F idx (ReaderOps.init F) ops in
  exists body, record_lines (bz_text F) r body /\
    let B := naive_bases body in
    let st := match s with Some p => p | None => 1 end in
    let en := match e with Some p => p | None => usize_max end in
    heads_ok body ->
    nth (N.to_nat (st - 1)) B 0 <> CR -> nth (N.to_nat (st - 1)) B 0 <> GT ->
    1 <= st -> st <= f_len r -> st <= en ->
    fst (query_bgzf_any chk F idx st0 r s e)
    = ZOk (QOk (firstn (N.to_nat (en - st + 1)) (skipn (N.to_nat (st - 1)) B))).
Proof. exact query_bgzf_file_exact. Qed.
Print Assumptions c11_bgzf_file_query_exact.

Theorem c11_bgzf_file_query_vpos : forall data sc cap F idx ops recs err r chk s e,
  Forall InflateSpec.is_byte data -> Frame.lenN data <= Vpos.MAX_COMPRESSED_POSITION ->
  bz_frames_of_bytes cap (mkSource data sc) = (F, Frame.Ok tt) ->
  gzi_correct F idx -> ops_valid_any F ops ->
  index_file (bz_text F) = (recs, err) -> In r recs ->
  let st0 := run_state_bs F idx (ReaderOps.init F) ops in
  let st := match s with Some p => p | None => 1 end in
  1 <= st -> st <= f_len r ->
  exists pos v s',
    fai_query_gen chk r (st - 1) = Some pos /\
    ReaderOps.virtual_position (snd (query_bgzf_any chk F idx st0 r s e)) = Vpos.Ok v /\
    FlatRef.denote F v = Some (FlatRef.off s') /\ pos <= FlatRef.off s' /\
    FlatRef.off s' <= FlatRef.total_dlen F /\
    ReaderOpsProofs.Inv F (snd (query_bgzf_any chk F idx st0 r s e)) s'.
Proof. exact query_bgzf_file_vpos. Qed.
Print Assumptions c11_bgzf_file_query_vpos.

(* the extracted entry point (kind qyb) does not depend on the delivery *)
Theorem c11_bgzf_file_any_delivery : forall data sc cap idx prior qs,
  index_and_query_bgzf_file cap (mkSource data sc) idx prior qs
  = match BgzfRead.whole_frames Inflate.inflate (S (length data)) data with
    | (F, Frame.Ok tt) => Some (F, index_bgzf F, index_and_query_bgzf_any F idx prior qs)
    | _ => None
    end.
Proof. exact index_and_query_bgzf_file_any_delivery. Qed.
Print Assumptions c11_bgzf_file_any_delivery.

(* non-vacuity: a real 101-byte BGZF file (a stored block ">s\nACGT\n", a fixed-Huffman block with
   an LZ77 match ">t\nGGGGGGGGGGGG\n", the EOF block) delivered 7, Interrupted, 1, 30, Interrupted
   behind a 3-byte BufReader *)
Example c11_example_bgzf_bytes :
  index_and_query_bgzf_file 3 (mkSource ex_bytes ex_script) [(39, 8)] [ReaderOps.SeekU 20; ReaderOps.Read 3]
    [([116], (Some 2, Some 5)); ([115], (None, None))]
  = Some ([ReaderOps.mkFrame 39 [62; 115; 10; 65; 67; 71; 84; 10];
           ReaderOps.mkFrame 34 [62; 116; 10; 71; 71; 71; 71; 71; 71; 71; 71; 71; 71; 71; 71; 10];
           ReaderOps.mkFrame 28 []],
          ([mkfai [115] 4 3 4 5; mkfai [116] 12 11 12 13], None),
          [(ZOk (QOk [71; 71; 71; 71]), Vpos.Ok (Vpos.pack 39 8)); (ZOk (QOk [65; 67; 71; 84]), Vpos.Ok (Vpos.pack 39 0))]).
Proof. vm_compute. reflexivity. Qed.

(* ---- the FASTQ INDEXER's acceptance grammar ----
   fastq::io::Indexer validates only the definition: [fqi_parses f off recs] (NV.Fasta.FastqIndexGrammar)
     file   ::= record*
     record ::= '@' L L L L     L = a line up to and including its LF, or the unterminated (possibly
                                    empty) rest of the input
   with the name cut out of the first line valid UTF-8; no '+' check, no length check, a record cut
   short by the end of the input is accepted.  Both directions, with exactly the index records the
   grammar assigns (name, length = bases of the second line without trailing whitespace, offsets). *)
Theorem c11_fastq_indexer_accepts_grammar : forall f recs,
  index_qfile f = (recs, None) <-> fqi_parses f 0 recs.
Proof. exact indexer_accepts_grammar. Qed.
Print Assumptions c11_fastq_indexer_accepts_grammar.

Theorem c11_fastq_indexer_accepts_iff : forall f, fqi_accepts f = true <-> snd (index_qfile f) = None.
Proof. exact fqi_accepts_iff. Qed.
Print Assumptions c11_fastq_indexer_accepts_iff.

Theorem c11_fastq_indexer_accepts_decides : forall f,
  fqi_accepts f = true <-> exists recs, fqi_parses f 0 recs.
Proof. exact fqi_accepts_grammar. Qed.
Print Assumptions c11_fastq_indexer_accepts_decides.

Theorem c11_fastq_indexer_parses_functional : forall f off r1 r2,
  fqi_parses f off r1 -> fqi_parses f off r2 -> r1 = r2.
Proof. exact fqi_parses_functional. Qed.
Print Assumptions c11_fastq_indexer_parses_functional.

(* the only error of the indexer: InvalidData (a record not starting with '@', a name not UTF-8) *)
Theorem c11_fastq_indexer_rejects_with : forall f,
  fqi_accepts f = false -> snd (index_qfile f) = Some QInvalidData.
Proof. exact fqi_rejects_with. Qed.
Print Assumptions c11_fastq_indexer_rejects_with.

(* reader grammar vs indexer grammar: every file the READER accepts whose names are UTF-8 is
   accepted by the indexer with the same names in the same order; a non-UTF-8 name makes the indexer
   fail; the converse inclusion fails (truncated record, third line without '+') *)
Theorem c11_fastq_reader_accepted_is_indexed : forall f recs,
  fq_parses f recs -> Forall (fun r => utf8_valid (q_name r) = true) recs ->
  exists irecs, fqi_parses f 0 irecs /\ map qf_name irecs = map q_name recs.
Proof. exact reader_accepted_is_indexed. Qed.
Print Assumptions c11_fastq_reader_accepted_is_indexed.

Theorem c11_fastq_non_utf8_name_rejected : forall f recs,
  fq_parses f recs -> Exists (fun r => utf8_valid (q_name r) = false) recs ->
  snd (index_qfile f) = Some QInvalidData.
Proof. exact non_utf8_name_rejected. Qed.
Print Assumptions c11_fastq_non_utf8_name_rejected.

Theorem c11_fastq_indexer_more_lenient :
  (snd (index_qfile [64;114;10;65;67;10]) = None /\ snd (read_qfile [64;114;10;65;67;10]) <> None) /\
  (snd (index_qfile [64;114;10;65;67;10;45;10;33;33;10]) = None /\
   snd (read_qfile [64;114;10;65;67;10;45;10;33;33;10]) <> None).
Proof. exact indexer_more_lenient. Qed.
Print Assumptions c11_fastq_indexer_more_lenient.

(* ---- FASTA writer, outside rec_ok ----
   desc_ok is necessary: a record whose description is Some "" is written as ">a \nA\n" and read back
   with description None (the reader trims the description and maps the empty one to None); the same
   for an untrimmed description.  Such records are not in the image of the reader - no file reads
   back to them - so this is a precondition of the round trip, not a defect of the writer. *)
Theorem c11_fasta_writer_empty_description_refuted :
  write_file 5 [mkfrec [97] (Some []) [65]] = [62; 97; 32; 10; 65; 10]
  /\ read_file (write_file 5 [mkfrec [97] (Some []) [65]]) = ([mkfrec [97] None [65]], None)
  /\ read_file (write_file 5 [mkfrec [97] (Some [32; 120]) [65]]) = ([mkfrec [97] (Some [120]) [65]], None).
Proof. vm_compute. repeat split. Qed.
Print Assumptions c11_fasta_writer_empty_description_refuted.

(* ---- wave 10: the EXACT stream position after a region query (uncompressed, any delivery) ----
   read_sequence_limit over ANY simulated reader stops with exactly [rest ...] unread (the refinement
   of C12's step lemma for a partial consume); for BufReader over any scripted source the position
   BufReader::stream_position() reports after Reader::query is the closed form query_pos_spec =
   |f| - |seq_rest BOL (seek f pos) k|, for every capacity >= 1 and every script. *)
From NV Require Fasta.QueryPos Fasta.QueryPosProofs Io.ReadExactProofs Io.BufReaderProofs Io.FastaScanProofs.

Theorem c11_read_sequence_limit_unread_exact :
  forall (S : Type) (rd : Source.reader S) (Rep : S -> list N -> nat -> Prop),
  ReadExactProofs.simulates rd Rep -> forall cap : nat, (1 <= cap)%nat ->
  forall fuel max ib p st d m acc,
    BufReaderProofs.rep_buf Rep st d m -> (p = true -> ib = false) -> (FastaScanProofs.mu m d p < fuel)%nat ->
    exists (bases : list N) (ib' p' : bool) (st' : BufReader.bstate S) (m' : nat),
      BgzipGzi.read_sequence_limit_st rd cap fuel max (ib, p, st) acc = (FastaScan.SOk, bases, (ib', p', st')) /\
      BufReaderProofs.rep_buf Rep st' (QueryPosProofs.rest ib p d (max - len acc)) m'.
Proof. intros S rd Rep. exact (@QueryPosProofs.read_sequence_limit_st_rest S rd Rep). Qed.
Print Assumptions c11_read_sequence_limit_unread_exact.

Theorem c11_query_position_exact : forall chk (cap : nat) f sc r s e pos, (1 <= cap)%nat ->
  let start0 := match s with Some p => (p - 1)%N | None => 0%N end in
  let st := match s with Some p => p | None => 1%N end in
  let en := match e with Some p => p | None => usize_max end in
  fai_query_gen chk r start0 = Some pos -> (st <= en)%N ->
  QueryPos.query_delivered_pos chk cap f sc r s e
  = (SOk, query_record chk f r s e, Some (QueryPos.query_pos_spec f pos (en - st + 1)%N)).
Proof. exact QueryPosProofs.query_delivered_pos_exact. Qed.
Print Assumptions c11_query_position_exact.

Theorem c11_query_position_observed_is_closed_form : forall (cap : nat) f sc name s e, (1 <= cap)%nat ->
  QueryPos.index_and_query_delivered_pos cap f sc name s e
  = (SOk, fst (QueryPos.index_and_query_pos_closed f name s e),
          snd (QueryPos.index_and_query_pos_closed f name s e)).
Proof. exact QueryPosProofs.index_and_query_delivered_pos_closed. Qed.
Print Assumptions c11_query_position_observed_is_closed_form.

Theorem c11_query_unread_is_suffix : forall d st k,
  exists n, QueryPos.seq_rest st d k = skipn n d.
Proof. exact QueryPosProofs.seq_rest_suffix. Qed.
Print Assumptions c11_query_unread_is_suffix.
