(* C11 — FASTA/FASTQ indexing and random access return exactly the indexed bases.
   Property theorems only.  Models: NV.Fasta.Layout (raw lines, naive parse, writer),
   NV.Fasta.Indexer (io/indexer.rs), NV.Fasta.Query (fai/record.rs, fai/index.rs, io/reader.rs
   query, io/reader/sequence.rs).  A file is any list of bytes; [record_of f r B] says that fai
   record r was produced by the indexer at a definition line of f carrying r's name and that B is
   the naive parse (contents of the following lines up to the next '>' line or the end of the
   file) of that record. *)
From Coq Require Import List NArith.
From NV Require Import Fasta.Layout Fasta.LayoutProofs Fasta.Indexer Fasta.IndexerProofs
                       Fasta.Query Fasta.QueryProofs.
Import ListNotations.
Open Scope N_scope.

(* raw lines lose nothing *)
Theorem c11_lines_concat : forall s, concat (lines s) = s.
Proof. exact lines_concat. Qed.
Print Assumptions c11_lines_concat.

(* For EVERY byte string f: each record the indexer returns (also the ones returned before a
   later record is rejected) has length = the number of naive bases, and for every base index i
   the file byte at offset position + i/line_bases*line_width + i%line_bases is base i of the
   naive parse.  No hypothesis on line terminators or on the bases. *)
Theorem c11_fai_offset_correct : forall f recs e r,
  index_file f = (recs, e) -> In r recs ->
  exists B, record_of f r B /\ f_len r = len B /\
    forall i dflt, i < len B ->
      exists pos, fai_query r i = Some pos /\ nth (N.to_nat pos) f dflt = nth (N.to_nat i) B dflt.
Proof. exact fai_offset_correct. Qed.
Print Assumptions c11_fai_offset_correct.

(* What the indexer accepts, exactly: a well-formed definition line, a first sequence line with
   >= 1 base, then lines of the same width and base count, an optional last line with at most
   that width / base count, then the end of the input or the next definition
   ([accepted_layout]); ragged records are rejected. *)
Theorem c11_indexer_rejects_ragged : forall d body off r off' rest,
  index_record (d :: body) off = inr (Some (r, off', rest)) ->
  parse_def_name (def_content d) = Some (f_name r) /\
  accepted_layout body rest (f_lw r) (f_lb r).
Proof.
  intros d body off r off' rest H.
  destruct (index_record_spec _ _ _ _ _ _ H) as [H1 [_ [_ [_ [_ [H2 _]]]]]]. now split.
Qed.
Print Assumptions c11_indexer_rejects_ragged.

(* ... and conversely every such layout is accepted, with that geometry *)
Theorem c11_indexer_accepts_regular : forall d body rest name lw lb off,
  parse_def_name (def_content d) = Some name ->
  accepted_layout body rest lw lb ->
  exists r off', index_record (d :: body) off = inr (Some (r, off', rest)) /\
                 f_name r = name /\ f_lw r = lw /\ f_lb r = lb.
Proof. exact index_record_accepts. Qed.
Print Assumptions c11_indexer_accepts_regular.

(* Region queries.  For every byte string f, every record r of the index, every region whose
   (defaulted) start st satisfies 1 <= st <= length and st <= end: the query returns exactly
   firstn (end-st+1) (skipn (st-1) B), hence clipped at the end of the sequence and containing
   nothing of a definition line or of another record.  Side conditions: the bases of this record
   contain no CR (a bare CR is property C12's finding) and no '>' (a '>' inside a sequence line
   stops the reader when the seek lands on it).  Holds for the pinned code (chk = false) and for
   the repaired Record::query (chk = true). *)
Theorem c11_query_exact : forall f recs err r chk s e,
  index_file f = (recs, err) -> In r recs ->
  exists B, record_of f r B /\
    (~ In CR B -> ~ In GT B ->
     let st := match s with Some p => p | None => 1 end in
     let en := match e with Some p => p | None => usize_max end in
     1 <= st -> st <= f_len r -> st <= en ->
     query_record chk f r s e
     = QOk (firstn (N.to_nat (en - st + 1)) (skipn (N.to_nat (st - 1)) B))).
Proof. exact query_exact. Qed.
Print Assumptions c11_query_exact.

(* The same with the weakest side conditions of the repaired reader (7f92eec, 2873940: a CR is
   skipped only at the start of a line, '>' ends the sequence only at the start of a line or at
   the seek position; every other CR / '>' is data): no non-blank sequence line of the record
   starts with a CR ([heads_ok], implied by "B has no CR": heads_ok_of_no_cr), and the base at
   the start of the region is neither CR nor '>'.  Bases may otherwise contain CR and '>'. *)
Theorem c11_query_exact_general : forall f recs err r chk s e,
  index_file f = (recs, err) -> In r recs ->
  exists body, record_lines f r body /\
    let B := naive_bases body in
    let st := match s with Some p => p | None => 1 end in
    let en := match e with Some p => p | None => usize_max end in
    heads_ok body ->
    nth (N.to_nat (st - 1)) B 0 <> CR -> nth (N.to_nat (st - 1)) B 0 <> GT ->
    1 <= st -> st <= f_len r -> st <= en ->
    query_record chk f r s e
    = QOk (firstn (N.to_nat (en - st + 1)) (skipn (N.to_nat (st - 1)) B)).
Proof. exact query_exact_gen. Qed.
Print Assumptions c11_query_exact_general.

Theorem c11_heads_ok_of_no_cr : forall ls, ~ In CR (naive_bases ls) -> heads_ok ls.
Proof. exact heads_ok_of_no_cr. Qed.
Print Assumptions c11_heads_ok_of_no_cr.

(* The statement cannot be extended to st > length for the pinned code: known finding
   fasta-query-start-beyond-length.  On ">a\nACGT\n>b\nTTTT\n" the query a:6-7 returns "bT". *)
Definition c11_query_clipped_full_statement : Prop :=
  forall f recs err r s e, index_file f = (recs, err) -> In r recs ->
    f_len r < s -> s <= e ->
    query_record false f r (Some s) (Some e) = QOk [] \/
    query_record false f r (Some s) (Some e) = QErrInvalidInput.

Theorem c11_query_start_beyond_refuted :
  exists f r s e,
    In r (fst (index_file f)) /\ snd (index_file f) = None /\ f_len r < s /\ s <= e /\
    query_record false f r (Some s) (Some e) = QOk [98; 84] /\
    naive_bases (tl (lines f)) = [65;67;71;84].
Proof. exact query_start_beyond_refuted. Qed.
Print Assumptions c11_query_start_beyond_refuted.

(* With the proposed one-line repair (fai_query_gen true) a start beyond the length is an error
   for every file, so together with c11_query_exact no query returns foreign bytes. *)
Theorem c11_query_repaired_start_beyond : forall f recs err r s e,
  index_file f = (recs, err) -> In r recs ->
  let st := match s with Some p => p | None => 1 end in
  f_len r < st -> query_record true f r s e = QErrInvalidInput.
Proof. exact query_checked_beyond. Qed.
Print Assumptions c11_query_repaired_start_beyond.

(* Not proved in this revision (tested by the harness only): c11_fasta_writer_reader (the model
   writer NV.Fasta.Layout.write_record is compared byte for byte with noodles' writer, its output
   is re-read and re-indexed on the implementation) and c11_fastq_roundtrip. *)

(* ---- non-vacuity ---- *)

(* ">s d\r\nACGT\r\nACGT\r\nAC\r\n>t\nGG\n": CRLF, short last line, a second record *)
Definition ex_file : list N :=
  [62;115;32;100;13;10; 65;67;71;84;13;10; 65;67;71;84;13;10; 65;67;13;10; 62;116;10; 71;71;10].

Example c11_example_index :
  index_file ex_file = ([mkfai [115] 10 6 4 6; mkfai [116] 2 25 2 3], None).
Proof. vm_compute. reflexivity. Qed.

Example c11_example_query :   (* s:4-9 spans two line boundaries *)
  index_and_query ex_file [115] (Some 4) (Some 9) = QOk [84;65;67;71;84;65]
  /\ index_and_query ex_file [115] (Some 9) (Some 100) = QOk [65;67]
  /\ index_and_query ex_file [116] None None = QOk [71;71].
Proof. vm_compute. repeat split. Qed.

Example c11_example_ragged :   (* ">a\nACGT\nACG\nACGT\n" *)
  index_file [62;97;10; 65;67;71;84;10; 65;67;71;10; 65;67;71;84;10] = ([], Some (EInvalidLineBases 3 4)).
Proof. vm_compute. reflexivity. Qed.

(* ">a\nAC\rG>T\nAC\n": a CR and a '>' inside a sequence line are bases *)
Example c11_example_cr_gt_inside :
  index_and_query [62;97;10; 65;67;13;71;62;84;10; 65;67;10] [97] (Some 2) (Some 7)
  = QOk [67;13;71;62;84;65].
Proof. vm_compute. reflexivity. Qed.
