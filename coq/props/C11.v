(* C11 — FASTA/FASTQ indexing and random access return exactly the indexed bases. *)
From Coq Require Import List NArith.
From NV Require Import Fasta.Layout Fasta.Indexer Fasta.Query Fasta.LayoutProofs.
Import ListNotations.
Open Scope N_scope.

Theorem c11_lines_concat : forall s, concat (lines s) = s.
Proof. exact lines_concat. Qed.
Print Assumptions c11_lines_concat.
