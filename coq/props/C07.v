(* C07 — CRAM files round-trip their records and are structurally conformant containers.
   (partial by design, see checks/C07.json)

   Property theorems only.  Models:
     NV.CramRec.Features   cigar_to_features (io/writer/record/convert.rs), SubstitutionMatrix::find,
                           the sequence and CIGAR reconstruction iterators (record/sequence/iter.rs,
                           record/cigar/iter.rs, TrySimplify)
     NV.CramRec.Container  build_container bookkeeping (io/writer/container.rs), Block::size and
                           write_block (io/writer/container/block.rs), record counters (io/writer.rs) *)
From Coq Require Import List NArith.
From NV Require Import CramRec.Features CramRec.FeaturesProofs CramRec.FeaturesTotal CramRec.Container CramRec.ContainerProofs.
Import ListNotations.
Open Scope N_scope.

(* ------------------------------------------------------------------------------------------ *)
(* The full file-level statement, kept visible; it is NOT proved (the end-to-end claim is      *)
(* exercised on the implementation by the `rt` oracle of harness/src/bin/c07.rs).              *)
Definition c07_file_roundtrip_full_statement
  (Options Header Record File Line : Type)
  (write : Options -> Header -> list Record -> option File)   (* None: not accepted *)
  (read : Header -> File -> option (list Record))
  (render : Header -> Record -> Line)
  (same_rendering : Line -> Line -> Prop)    (* names/CIGAR/bases equivalences of checks/C07.json *)
  (conformant : list Record -> File -> Prop) (* lengths, landmarks, counters, block counts, raw
                                                sizes, CRC32s, reference MD5, EOF container *)
  : Prop :=
  forall o h rs f, write o h rs = Some f ->
    conformant rs f /\
    exists rs', read h f = Some rs' /\ Forall2 (fun r r' => same_rendering (render h r) (render h r')) rs rs'.

(* ------------------------------------------------------------------------------------------ *)
(* Record features: what is proved is the per-record core of the file statement.              *)

(* For EVERY substitution matrix the writer can build (each row lists the four other bases),
   every reference, read, CIGAR over all nine op kinds with positive lengths whose read length
   is |seq| and which lies inside the reference: if the writer's cigar_to_features does not
   panic, the stored features decode, the rebuilt bases equal the read up to ASCII case, and the
   rebuilt CIGAR is the input CIGAR with =/X written as M and adjacent equal kinds merged. *)
Theorem c07_features_roundtrip_partial :
  forall sm refseq seq quals ops start wfs,
    valid_sm sm ->
    Forall (fun o => 0 < snd o) ops ->
    read_len ops = len seq ->
    1 <= start -> start + ref_len ops <= len refseq + 1 ->
    cigar_to_features true refseq seq quals ops start = Some wfs ->
    exists fs s,
      encode_features sm wfs = Some fs /\
      rebuild_seq refseq sm fs start 1 (len seq) = Some s /\
      eq_nocase_list s seq = true /\
      simplify (rebuild_cigar fs 1 (len seq)) = simplify (norm_ops ops).
Proof. exact features_roundtrip. Qed.
Print Assumptions c07_features_roundtrip_partial.

(* the composed function that the correspondence check runs against the real writer+reader *)
Theorem c07_record_roundtrip_partial :
  forall sm refseq seq quals ops start,
    valid_sm sm -> Forall (fun o => 0 < snd o) ops -> read_len ops = len seq ->
    1 <= start -> start + ref_len ops <= len refseq + 1 ->
    cigar_to_features true refseq seq (writer_quals seq quals) ops start <> None ->
    exists s, roundtrip sm refseq seq quals ops start = ROk (simplify (norm_ops ops)) s
              /\ eq_nocase_list s seq = true.
Proof. exact roundtrip_ok. Qed.
Print Assumptions c07_record_roundtrip_partial.

(* The writer's answer for a malformed record is an error, not a panic (repaired defects
   cram-mapped-read-missing-qualities-panic, cram-mapped-read-missing-bases-panic; /repo 9757af4):
   in the model the composed writer+reader function answers RInvalidInput exactly when
   cigar_to_features has no result, ... *)
Theorem c07_roundtrip_invalid_input_iff :
  forall sm refseq seq quals ops start,
    roundtrip sm refseq seq quals ops start = RInvalidInput <->
    cigar_to_features true refseq seq (writer_quals seq quals) ops start = None.
Proof. exact roundtrip_invalid_input. Qed.
Print Assumptions c07_roundtrip_invalid_input_iff.

(* ... which never happens for a well-formed record (CIGAR read length = |SEQ|, qualities
   missing-and-filled or of the same length, alignment inside the reference): every such record
   is accepted, for all nine op kinds including zero-length ops ... *)
Theorem c07_cigar_to_features_total :
  forall qa refseq seq quals ops start,
    1 <= start -> read_len ops = len seq -> start + ref_len ops <= len refseq + 1 ->
    len quals = len seq ->
    cigar_to_features qa refseq seq quals ops start <> None.
Proof. exact cigar_to_features_total. Qed.
Print Assumptions c07_cigar_to_features_total.

(* ... and always happens (an error where the code used to panic) when a read-consuming op
   reaches past the end of the sequence (in particular SEQ `*` with a read-consuming CIGAR: the
   repaired class cram-mapped-read-missing-bases-panic), or a match reaches past the reference end *)
Theorem c07_short_sequence_is_error :
  forall qa refseq seq quals k n rest rp dp,
    consumes_read k = true -> len seq + 1 < dp + n ->
    c2f qa refseq seq quals ((k, n) :: rest) rp dp = None.
Proof. exact c2f_short_sequence_is_error. Qed.
Print Assumptions c07_short_sequence_is_error.

Theorem c07_match_past_reference_is_error :
  forall qa refseq seq quals k n rest rp dp,
    consumes_read k = true -> consumes_reference k = true -> len refseq + 1 < rp + n ->
    c2f qa refseq seq quals ((k, n) :: rest) rp dp = None.
Proof. exact c2f_short_reference_is_error. Qed.
Print Assumptions c07_match_past_reference_is_error.

(* ... and when a one-base match meets an empty quality vector (what the writer
   was handed for QUAL `*` before it filled 0xff per base: then a panic, now an error). *)
Theorem c07_cigar_to_features_empty_qualities_is_error :
  forall qa refseq seq k rest rp dp, (k = KM \/ k = KEq \/ k = KX) ->
    c2f qa refseq seq [] ((k, 1) :: rest) rp dp = None.
Proof. exact missing_qualities_panic. Qed.
Print Assumptions c07_cigar_to_features_empty_qualities_is_error.

(* non-vacuity: the default matrix is valid; a read with a mismatch, a non-ACGTN base, an
   insertion, a deletion, clips and a pad round-trips through the model *)
Example c07_valid_sm_default : valid_sm default_sm.
Proof. exact valid_sm_default. Qed.

Example c07_features_nonvacuous :
  (* reference ACGTACGTNNacgtACGT, read at 3: 2S 3M 1I 2M 2D 1P 2X 1= 3H *)
  let refseq := [65;67;71;84;65;67;71;84;78;78;97;99;103;116;65;67;71;84] in
  let seq := [84;84; 71;65;65; 67; 67;82; 67;71; 99] in
  let quals := [30;30;30;30;30;30;30;30;30;30;30] in
  let ops := [(KS,2);(KM,3);(KI,1);(KM,2);(KD,2);(KP,1);(KX,2);(KEq,1);(KH,3)] in
  read_len ops = len seq /\
  match roundtrip default_sm refseq seq quals ops 3 with
  | ROk c s => c = [(KS,2);(KM,3);(KI,1);(KM,2);(KD,2);(KP,1);(KM,3);(KH,3)] /\ eq_nocase_list s seq = true
  | _ => False
  end.
Proof. vm_compute. repeat split; reflexivity. Qed.

Example c07_missing_qualities_now_roundtrip :
  roundtrip default_sm [65;67;71;84] [65;67] [] [(KM, 1); (KI, 1)] 1 = ROk [(KM, 1); (KI, 1)] [65;67].
Proof. vm_compute. reflexivity. Qed.

(* a CIGAR longer than the sequence, and a read running past the reference end: InvalidInput *)
Example c07_invalid_input_witnesses :
  roundtrip default_sm [65;67;71;84] [65] [30] [(KM, 2)] 1 = RInvalidInput /\
  roundtrip default_sm [65;67;71;84] [84;84] [30;30] [(KM, 2)] 4 = RInvalidInput.
Proof. vm_compute. split; reflexivity. Qed.

Example c07_missing_qualities_witness :
  cigar_to_features true [65;67;71;84] [65;67] [] [(KM, 1); (KI, 1)] 1 = None /\
  exists w, cigar_to_features true [65;67;71;84] [65;67] [30;30] [(KM, 1); (KI, 1)] 1 = Some w.
Proof. exact missing_qualities_witness. Qed.

(* ------------------------------------------------------------------------------------------ *)
(* Container bookkeeping (over an abstract list of blocks; CRC-32 is any function).           *)

(* Block::size is exactly the number of bytes write_block emits (header with ITF8 fields,
   payload, CRC-32) *)
Theorem c07_block_size_is_serialised_length : forall crc b sz,
  block_size b = Some sz -> N.of_nat (length (write_block crc b)) = sz.
Proof. exact write_block_length. Qed.
Print Assumptions c07_block_size_is_serialised_length.

Theorem c07_container_invariants :
  forall ch slices rls counter h blocks,
    slices <> [] ->
    build_container ch slices rls counter = Some (h, blocks) ->
    blocks = ch :: flat_map slice_blocks slices /\
    sum_sizes blocks = Some (h_length h) /\
    h_blocks h = N.of_nat (length blocks) /\
    length blocks = (1 + fold_right (fun s a => 2 + length (s_ext s) + a) 0 slices)%nat /\
    length (h_landmarks h) = length slices /\
    (forall i, (i < length slices)%nat ->
        prefix_size blocks (header_index slices i) = Some (nth i (h_landmarks h) 0) /\
        nth_error blocks (header_index slices i) = Some (s_header (nth i slices (mkslice ch ch [])))) /\
    block_size ch = Some (nth 0 (h_landmarks h) 0) /\
    h_records h = N.of_nat (length rls) /\ h_counter h = counter /\
    h_bases h = fold_right N.add 0 rls.
Proof. exact container_invariants. Qed.
Print Assumptions c07_container_invariants.

(* the declared container length is the byte length of the serialised blocks *)
Theorem c07_container_length_is_bytes :
  forall crc ch slices rls counter h blocks,
    slices <> [] ->
    build_container ch slices rls counter = Some (h, blocks) ->
    N.of_nat (length (flat_map (write_block crc) blocks)) = h_length h.
Proof. exact container_length_is_bytes. Qed.
Print Assumptions c07_container_length_is_bytes.

(* records.chunks_mut(records_per_slice) and the cumulative record counters *)
Theorem c07_chunk_lens : forall fuel rps n, 0 < rps -> (N.to_nat n <= fuel)%nat ->
  fold_right N.add 0 (chunk_lens fuel rps n) = n /\
  Forall (fun l => 0 < l /\ l <= rps) (chunk_lens fuel rps n) /\
  (forall i, (S i < length (chunk_lens fuel rps n))%nat -> nth i (chunk_lens fuel rps n) 0 = rps).
Proof. exact chunk_lens_spec. Qed.
Print Assumptions c07_chunk_lens.

Theorem c07_slice_counters_cumulative : forall lens c i, (i < length lens)%nat ->
  nth i (slice_counters c lens) 0 = c + fold_right N.add 0 (firstn i lens).
Proof. exact slice_counters_spec. Qed.
Print Assumptions c07_slice_counters_cumulative.

Example c07_container_nonvacuous :
  let ch := mk_desc_block 1 0 3 3 in
  let s0 := mkslice (mk_desc_block 2 0 40 40) (mk_desc_block 5 0 0 0)
                    [mk_desc_block 4 1 10 10; mk_desc_block 4 28 200 300] in
  let s1 := mkslice (mk_desc_block 2 0 38 38) (mk_desc_block 5 0 0 0) [] in
  match build_container ch [s0; s1] [100; 101; 150] 7 with
  | Some (h, blocks) => length (h_landmarks h) = 2%nat /\ h_blocks h = 7 /\ h_bases h = 351 /\ h_counter h = 7
  | None => False
  end.
Proof. vm_compute. repeat split; reflexivity. Qed.
