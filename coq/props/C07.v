(* C07 — CRAM files round-trip their records and are structurally conformant containers.
   (partial by design, see checks/C07.json)

   Property theorems only.  Models:
     NV.CramRec.Features   cigar_to_features (io/writer/record/convert.rs), SubstitutionMatrix::find,
                           the sequence and CIGAR reconstruction iterators (record/sequence/iter.rs,
                           record/cigar/iter.rs, TrySimplify)
     NV.CramRec.Mates      set_mates / write_mate (io/writer/container/slice.rs, slice/records.rs) and
                           read_mate / resolve_mates / calculate_template_length (io/reader/container/slice.rs)
     NV.CramRec.Container  build_container bookkeeping (io/writer/container.rs), Block::size and
                           write_block (io/writer/container/block.rs), record counters (io/writer.rs) *)
From Coq Require Import List NArith ZArith.
From NV Require Import CramRec.Features CramRec.FeaturesProofs CramRec.FeaturesTotal CramRec.Container CramRec.ContainerProofs CramRec.Mates CramRec.MatesProofs.
Import ListNotations.
Open Scope N_scope.

(* ------------------------------------------------------------------------------------------ *)
(* The full file-level statement, kept visible; it is NOT proved (the end-to-end claim is      *)
(* exercised on the implementation by the `rt` oracle of harness/src/bin/c07.rs).              *)
Definition c07_file_roundtrip_full_statement
  (Options Header Record File Line : Type)
  (write : Options -> Header -> list Record -> option File)   (* None: not accepted *)
  (read : Header -> File -> option (list Record))
  (render : Header -> Record -> Line)
  (same_rendering : Line -> Line -> Prop)    (* names/CIGAR/bases equivalences of checks/C07.json *)
  (conformant : list Record -> File -> Prop) (* lengths, landmarks, counters, block counts, raw
                                                sizes, CRC32s, reference MD5, EOF container *)
  : Prop :=
  forall o h rs f, write o h rs = Some f ->
    conformant rs f /\
    exists rs', read h f = Some rs' /\ Forall2 (fun r r' => same_rendering (render h r) (render h r')) rs rs'.

(* ------------------------------------------------------------------------------------------ *)
(* Record features: what is proved is the per-record core of the file statement.              *)

(* For EVERY substitution matrix the writer can build (each row lists the four other bases),
   every reference, read, CIGAR over all nine op kinds with positive lengths whose read length
   is |seq| and which lies inside the reference: if the writer's cigar_to_features does not
   panic, the stored features decode, the rebuilt bases equal the read up to ASCII case, and the
   rebuilt CIGAR is the input CIGAR with =/X written as M and adjacent equal kinds merged. *)
Theorem c07_features_roundtrip_partial :
  forall sm refseq seq quals ops start wfs,
    valid_sm sm ->
    Forall (fun o => 0 < snd o) ops ->
    read_len ops = len seq ->
    1 <= start -> start + ref_len ops <= len refseq + 1 ->
    cigar_to_features true refseq seq quals ops start = Some wfs ->
    exists fs s,
      encode_features sm wfs = Some fs /\
      rebuild_seq refseq sm fs start 1 (len seq) = Some s /\
      eq_nocase_list s seq = true /\
      simplify (rebuild_cigar fs 1 (len seq)) = simplify (norm_ops ops).
Proof. exact features_roundtrip. Qed.
Print Assumptions c07_features_roundtrip_partial.

(* the composed function that the correspondence check runs against the real writer+reader *)
Theorem c07_record_roundtrip_partial :
  forall sm refseq seq quals ops start,
    valid_sm sm -> Forall (fun o => 0 < snd o) ops -> read_len ops = len seq ->
    1 <= start -> start + ref_len ops <= len refseq + 1 ->
    cigar_to_features true refseq seq (writer_quals seq quals) ops start <> None ->
    exists s, roundtrip sm refseq seq quals ops start = ROk (simplify (norm_ops ops)) s
              /\ eq_nocase_list s seq = true.
Proof. exact roundtrip_ok. Qed.
Print Assumptions c07_record_roundtrip_partial.

(* The writer's answer for a malformed record is an error, not a panic (repaired defects
   cram-mapped-read-missing-qualities-panic, cram-mapped-read-missing-bases-panic; /repo 9757af4):
   in the model the composed writer+reader function answers RInvalidInput exactly when
   cigar_to_features has no result, ... *)
Theorem c07_roundtrip_invalid_input_iff :
  forall sm refseq seq quals ops start,
    roundtrip sm refseq seq quals ops start = RInvalidInput <->
    cigar_to_features true refseq seq (writer_quals seq quals) ops start = None.
Proof. exact roundtrip_invalid_input. Qed.
Print Assumptions c07_roundtrip_invalid_input_iff.

(* ... which never happens for a well-formed record (CIGAR read length = |SEQ|, qualities
   missing-and-filled or of the same length, alignment inside the reference): every such record
   is accepted, for all nine op kinds including zero-length ops ... *)
Theorem c07_cigar_to_features_total :
  forall qa refseq seq quals ops start,
    1 <= start -> read_len ops = len seq -> start + ref_len ops <= len refseq + 1 ->
    len quals = len seq ->
    cigar_to_features qa refseq seq quals ops start <> None.
Proof. exact cigar_to_features_total. Qed.
Print Assumptions c07_cigar_to_features_total.

(* ... and always happens (an error where the code used to panic) when a read-consuming op
   reaches past the end of the sequence (in particular SEQ `*` with a read-consuming CIGAR: the
   repaired class cram-mapped-read-missing-bases-panic), or a match reaches past the reference end *)
Theorem c07_short_sequence_is_error :
  forall qa refseq seq quals k n rest rp dp,
    consumes_read k = true -> len seq + 1 < dp + n ->
    c2f qa refseq seq quals ((k, n) :: rest) rp dp = None.
Proof. exact c2f_short_sequence_is_error. Qed.
Print Assumptions c07_short_sequence_is_error.

Theorem c07_match_past_reference_is_error :
  forall qa refseq seq quals k n rest rp dp,
    consumes_read k = true -> consumes_reference k = true -> len refseq + 1 < rp + n ->
    c2f qa refseq seq quals ((k, n) :: rest) rp dp = None.
Proof. exact c2f_short_reference_is_error. Qed.
Print Assumptions c07_match_past_reference_is_error.

(* ... and when a one-base match meets an empty quality vector (what the writer
   was handed for QUAL `*` before it filled 0xff per base: then a panic, now an error). *)
Theorem c07_cigar_to_features_empty_qualities_is_error :
  forall qa refseq seq k rest rp dp, (k = KM \/ k = KEq \/ k = KX) ->
    c2f qa refseq seq [] ((k, 1) :: rest) rp dp = None.
Proof. exact missing_qualities_panic. Qed.
Print Assumptions c07_cigar_to_features_empty_qualities_is_error.

(* non-vacuity: the default matrix is valid; a read with a mismatch, a non-ACGTN base, an
   insertion, a deletion, clips and a pad round-trips through the model *)
Example c07_valid_sm_default : valid_sm default_sm.
Proof. exact valid_sm_default. Qed.

Example c07_features_nonvacuous :
  (* reference ACGTACGTNNacgtACGT, read at 3: 2S 3M 1I 2M 2D 1P 2X 1= 3H *)
  let refseq := [65;67;71;84;65;67;71;84;78;78;97;99;103;116;65;67;71;84] in
  let seq := [84;84; 71;65;65; 67; 67;82; 67;71; 99] in
  let quals := [30;30;30;30;30;30;30;30;30;30;30] in
  let ops := [(KS,2);(KM,3);(KI,1);(KM,2);(KD,2);(KP,1);(KX,2);(KEq,1);(KH,3)] in
  read_len ops = len seq /\
  match roundtrip default_sm refseq seq quals ops 3 with
  | ROk c s => c = [(KS,2);(KM,3);(KI,1);(KM,2);(KD,2);(KP,1);(KM,3);(KH,3)] /\ eq_nocase_list s seq = true
  | _ => False
  end.
Proof. vm_compute. repeat split; reflexivity. Qed.

Example c07_missing_qualities_now_roundtrip :
  roundtrip default_sm [65;67;71;84] [65;67] [] [(KM, 1); (KI, 1)] 1 = ROk [(KM, 1); (KI, 1)] [65;67].
Proof. vm_compute. reflexivity. Qed.

(* a CIGAR longer than the sequence, and a read running past the reference end: InvalidInput *)
Example c07_invalid_input_witnesses :
  roundtrip default_sm [65;67;71;84] [65] [30] [(KM, 2)] 1 = RInvalidInput /\
  roundtrip default_sm [65;67;71;84] [84;84] [30;30] [(KM, 2)] 4 = RInvalidInput.
Proof. vm_compute. split; reflexivity. Qed.

Example c07_missing_qualities_witness :
  cigar_to_features true [65;67;71;84] [65;67] [] [(KM, 1); (KI, 1)] 1 = None /\
  exists w, cigar_to_features true [65;67;71;84] [65;67] [30;30] [(KM, 1); (KI, 1)] 1 = Some w.
Proof. exact missing_qualities_witness. Qed.

(* ------------------------------------------------------------------------------------------ *)
(* Container bookkeeping (over an abstract list of blocks; CRC-32 is any function).           *)

(* Block::size is exactly the number of bytes write_block emits (header with ITF8 fields,
   payload, CRC-32) *)
Theorem c07_block_size_is_serialised_length : forall crc b sz,
  block_size b = Some sz -> N.of_nat (length (write_block crc b)) = sz.
Proof. exact write_block_length. Qed.
Print Assumptions c07_block_size_is_serialised_length.

Theorem c07_container_invariants :
  forall ch slices rls counter h blocks,
    slices <> [] ->
    build_container ch slices rls counter = Some (h, blocks) ->
    blocks = ch :: flat_map slice_blocks slices /\
    sum_sizes blocks = Some (h_length h) /\
    h_blocks h = N.of_nat (length blocks) /\
    length blocks = (1 + fold_right (fun s a => 2 + length (s_ext s) + a) 0 slices)%nat /\
    length (h_landmarks h) = length slices /\
    (forall i, (i < length slices)%nat ->
        prefix_size blocks (header_index slices i) = Some (nth i (h_landmarks h) 0) /\
        nth_error blocks (header_index slices i) = Some (s_header (nth i slices (mkslice ch ch [])))) /\
    block_size ch = Some (nth 0 (h_landmarks h) 0) /\
    h_records h = N.of_nat (length rls) /\ h_counter h = counter /\
    h_bases h = fold_right N.add 0 rls.
Proof. exact container_invariants. Qed.
Print Assumptions c07_container_invariants.

(* the declared container length is the byte length of the serialised blocks *)
Theorem c07_container_length_is_bytes :
  forall crc ch slices rls counter h blocks,
    slices <> [] ->
    build_container ch slices rls counter = Some (h, blocks) ->
    N.of_nat (length (flat_map (write_block crc) blocks)) = h_length h.
Proof. exact container_length_is_bytes. Qed.
Print Assumptions c07_container_length_is_bytes.

(* records.chunks_mut(records_per_slice) and the cumulative record counters *)
Theorem c07_chunk_lens : forall fuel rps n, 0 < rps -> (N.to_nat n <= fuel)%nat ->
  fold_right N.add 0 (chunk_lens fuel rps n) = n /\
  Forall (fun l => 0 < l /\ l <= rps) (chunk_lens fuel rps n) /\
  (forall i, (S i < length (chunk_lens fuel rps n))%nat -> nth i (chunk_lens fuel rps n) 0 = rps).
Proof. exact chunk_lens_spec. Qed.
Print Assumptions c07_chunk_lens.

Theorem c07_slice_counters_cumulative : forall lens c i, (i < length lens)%nat ->
  nth i (slice_counters c lens) 0 = c + fold_right N.add 0 (firstn i lens).
Proof. exact slice_counters_spec. Qed.
Print Assumptions c07_slice_counters_cumulative.

Example c07_container_nonvacuous :
  let ch := mk_desc_block 1 0 3 3 in
  let s0 := mkslice (mk_desc_block 2 0 40 40) (mk_desc_block 5 0 0 0)
                    [mk_desc_block 4 1 10 10; mk_desc_block 4 28 200 300] in
  let s1 := mkslice (mk_desc_block 2 0 38 38) (mk_desc_block 5 0 0 0) [] in
  match build_container ch [s0; s1] [100; 101; 150] 7 with
  | Some (h, blocks) => length (h_landmarks h) = 2%nat /\ h_blocks h = 7 /\ h_bases h = 351 /\ h_counter h = 7
  | None => False
  end.
Proof. vm_compute. repeat split; reflexivity. Qed.

(* ------------------------------------------------------------------------------------------ *)
(* Mate resolution (NV.CramRec.Mates): writer set_mates + write_mate, reader read_mate +        *)
(* resolve_mates.  [slice_roundtrip_gen repaired] is one slice through both; repaired = false  *)
(* is the code of /repo ([Mates.mates_repaired]).                                               *)

(* the full statement for the mate columns, NOT proved for slices of more than two records:
   outside the known class (some chain of the slice is longer than two, or a linked pair is not
   [pair_consistent]) every record keeps FLAG / RNEXT / PNEXT / TLEN, and a linked pair that is not
   consistent does not.  [chain_of rs i] = indices of the segmented non-secondary records of the
   slice that share record i's name. *)
Definition c07_mates_roundtrip_full_statement : Prop :=
  forall rs out, Forall fresh rs -> slice_roundtrip rs = MOk out ->
    let linked i j := (i < j)%nat /\ m_dist (rget (set_mates rs) i) = Some (N.of_nat (j - i - 1)) in
    (forall i j k, linked i j -> ~ linked j k) ->
    ((forall i j, linked i j -> pair_consistent (rget rs i) (rget rs j) = true) <->
     map mate_view out = map mate_view rs).

(* every record that set_mates leaves detached - in any slice, next to any chains - is read back
   as stored: FLAG, RNEXT, PNEXT and TLEN are the written ones (both writers) *)
Theorem c07_mates_detached_record_preserved_partial : forall rep rs out x,
  Forall fresh rs ->
  slice_roundtrip_gen rep rs = MOk out ->
  (x < length rs)%nat ->
  m_detached (rget (set_mates_gen rep rs) x) = true ->
  rget out x = rget (set_mates_gen rep rs) x /\
  mate_view (rget out x) = mate_view (rget rs x).
Proof. exact detached_record_preserved. Qed.
Print Assumptions c07_mates_detached_record_preserved_partial.

(* what set_mates establishes in every slice: same length; a detached record has no mate distance;
   a mate distance comes with MATE_IS_DOWNSTREAM on an attached record and points at an attached
   record inside the slice (so the reader's "invalid mate distance" check never fires on written
   files); FLAG / names / positions / mate fields / TLEN are not modified *)
Theorem c07_set_mates_wellformed : forall rep rs, Forall fresh rs ->
  length (set_mates_gen rep rs) = length rs /\ linked_wf (set_mates_gen rep rs) /\
  forall x, mate_view (rget (set_mates_gen rep rs) x) = mate_view (rget rs x).
Proof.
  intros rep rs H. destruct (set_mates_gen_wf rep rs H) as [A B].
  split; [exact A|]. split; [exact B|]. intro x. apply set_mates_gen_view.
Qed.
Print Assumptions c07_set_mates_wellformed.

(* the reader's check "the downstream mate must be inside the slice" (/repo 21bfe86: InvalidData
   "invalid mate distance") never fires on a slice written by set_mates + write_mate *)
Theorem c07_written_slice_resolves : forall rep rs,
  Forall fresh rs -> slice_roundtrip_gen rep rs <> MReadErr.
Proof. exact written_slice_resolves. Qed.
Print Assumptions c07_written_slice_resolves.

(* a slice of two records that share a name (both segmented, not secondary): the reader returns
   exactly the recomputed columns, and they are the written ones iff the pair is pair_consistent -
   the decidable description of the class cram-intra-slice-mate-fields-recomputed for a pair *)
Theorem c07_mates_linked_pair_roundtrip_partial : forall a b,
  fresh a -> fresh b -> eligible a = true -> eligible b = true ->
  oname_eqb (m_name a) (m_name b) = true ->
  exists a' b', slice_roundtrip_gen false [a; b] = MOk [a'; b'] /\
    mate_view a' = (m_flags (set_mate a b), m_ref b, m_start b, tlen_calc b a) /\
    mate_view b' = (m_flags (set_mate b a), m_ref a, m_start a, (- tlen_calc b a)%Z) /\
    ((mate_view a' = mate_view a /\ mate_view b' = mate_view b) <-> pair_consistent a b = true).
Proof. exact linked_pair_roundtrip. Qed.
Print Assumptions c07_mates_linked_pair_roundtrip_partial.

(* with the repaired set_mates every two-record slice keeps its mate columns *)
Theorem c07_mates_repaired_pair_roundtrip_partial : forall a b out,
  fresh a -> fresh b ->
  slice_roundtrip_gen true [a; b] = MOk out ->
  map mate_view out = [mate_view a; mate_view b].
Proof. exact repaired_pair_roundtrip. Qed.
Print Assumptions c07_mates_repaired_pair_roundtrip_partial.

(* the recomputed template length is symmetric, never negative and saturates at i32::MAX
   (/repo 8fd0898) *)
Theorem c07_template_length_range : forall r m,
  (0 <= tlen_calc r m <= 2147483647)%Z /\ tlen_calc r m = tlen_calc m r.
Proof. intros r m. split; [apply tlen_calc_range|apply tlen_calc_sym]. Qed.
Print Assumptions c07_template_length_range.

(* the current writer violates the round trip on a pair whose TLEN is not the recomputed one *)
Theorem c07_mates_refuted : exists a b out,
  fresh a /\ fresh b /\ slice_roundtrip_gen false [a; b] = MOk out /\
  map mate_view out <> [mate_view a; mate_view b].
Proof.
  exists (mk_mrec 65 (Some [113]) (Some 0) (Some 10) 5 [] (Some 0) (Some 30) 0%Z false false None),
         (mk_mrec 129 (Some [113]) (Some 0) (Some 30) 5 [] (Some 0) (Some 10) 0%Z false false None).
  eexists. split; [repeat split|]. split; [repeat split|]. split; [vm_compute; reflexivity|].
  vm_compute. discriminate.
Qed.
Print Assumptions c07_mates_refuted.

(* non-vacuity: a consistent pair next to a detached single record reads back unchanged *)
Example c07_mates_nonvacuous :
  let a := mk_mrec 97 (Some [113]) (Some 0) (Some 10) 5 [] (Some 0) (Some 30) 25%Z false false None in
  let b := mk_mrec 145 (Some [113]) (Some 0) (Some 30) 5 [] (Some 0) (Some 10) (-25)%Z false false None in
  let c := mk_mrec 0 (Some [114]) (Some 0) (Some 12) 7 [] None None 0%Z false false None in
  pair_consistent a b = true /\
  match slice_roundtrip [a; c; b] with
  | MOk out => map mate_view out = map mate_view [a; c; b]
  | _ => False
  end.
Proof. vm_compute. split; reflexivity. Qed.
