(* C07 — CRAM files round-trip their records and are structurally conformant containers.
   (partial by design, see checks/C07.json)

   Property theorems only.  Models:
     NV.CramRec.Features   cigar_to_features (io/writer/record/convert.rs), SubstitutionMatrix::find,
                           the sequence and CIGAR reconstruction iterators (record/sequence/iter.rs,
                           record/cigar/iter.rs, TrySimplify)
     NV.CramRec.Mates      set_mates / write_mate (io/writer/container/slice.rs, slice/records.rs) and
                           read_mate / resolve_mates / calculate_template_length (io/reader/container/slice.rs)
                           (MatesChain: chain decomposition of the reader's loop; MatesWriter: set_mates of
                           /repo de003b4 and the round trip for any slice; MatesLoop: the two loops of
                           set_mates; MatesBytes: the MF/NS/NP/TS/NF series as ITF8 bytes)
     NV.CramRec.SliceHeader reference context / counters / MD5 interval of slice and container headers
                           (io/writer/container/slice.rs, container/reference_sequence_context.rs,
                           io/writer/container.rs, io/writer.rs)
     NV.CramRec.File       the file: records -> chunks of records_per_slice -> slices -> reader, slice after
                           slice (io/writer.rs, io/writer/container.rs, io/reader/container/slice.rs);
                           mate_indices with the bound test in binary; read_mate on hostile CF / NF
     NV.CramRec.Container  build_container bookkeeping (io/writer/container.rs), Block::size and
                           write_block (io/writer/container/block.rs), record counters (io/writer.rs) *)
From Coq Require Import List NArith ZArith.
From NV Require Import CramRec.Features CramRec.FeaturesProofs CramRec.FeaturesTotal CramRec.FeaturesMissing CramRec.Container CramRec.ContainerProofs CramRec.ContainerItf8 CramRec.Mates CramRec.MatesProofs CramRec.MatesChain CramRec.MatesWriter CramRec.MatesLoop CramRec.MatesBytes CramRec.MatesBytesProofs CramRec.SliceHeader CramRec.SliceHeaderProofs CramRec.File CramRec.FileProofs CramRec.FileRender CramRec.FileNames CramRec.FileNamesProofs CramRec.FeaturesStop CramRec.FeaturesStopProofs CramRec.SliceBlocks.
Import ListNotations.
Open Scope N_scope.

(* ------------------------------------------------------------------------------------------ *)
(* The full file-level statement over bytes, kept visible; it is NOT proved in this generality *)
(* (the end-to-end claim is exercised on the implementation by the `rt` oracle of              *)
(* harness/src/bin/c07.rs).  What IS proved of it: c07_file_roundtrip and                      *)
(* c07_file_record_rendering at the end of this file (NV.CramRec.File).                        *)
Definition c07_file_roundtrip_full_statement
  (Options Header Record File Line : Type)
  (write : Options -> Header -> list Record -> option File)   (* None: not accepted *)
  (read : Header -> File -> option (list Record))
  (render : Header -> Record -> Line)
  (same_rendering : Line -> Line -> Prop)    (* names/CIGAR/bases equivalences of checks/C07.json *)
  (conformant : list Record -> File -> Prop) (* lengths, landmarks, counters, block counts, raw
                                                sizes, CRC32s, reference MD5, EOF container *)
  : Prop :=
  forall o h rs f, write o h rs = Some f ->
    conformant rs f /\
    exists rs', read h f = Some rs' /\ Forall2 (fun r r' => same_rendering (render h r) (render h r')) rs rs'.

(* ------------------------------------------------------------------------------------------ *)
(* Record features: what is proved is the per-record core of the file statement.              *)

(* For EVERY substitution matrix the writer can build (each row lists the four other bases),
   every reference, read, CIGAR over all nine op kinds with positive lengths whose read length
   is |seq| and which lies inside the reference: if the writer's cigar_to_features does not
   panic, the stored features decode, the rebuilt bases equal the read up to ASCII case, and the
   rebuilt CIGAR is the input CIGAR with =/X written as M and adjacent equal kinds merged. *)
Theorem c07_features_roundtrip_partial :
  forall sm refseq seq quals ops start wfs,
    valid_sm sm ->
    Forall (fun o => 0 < snd o) ops ->
    read_len ops = len seq ->
    1 <= start -> start + ref_len ops <= len refseq + 1 ->
    cigar_to_features true refseq seq quals ops start = Some wfs ->
    exists fs s,
      encode_features sm wfs = Some fs /\
      rebuild_seq refseq sm fs start 1 (len seq) = Some s /\
      eq_nocase_list s seq = true /\
      simplify (rebuild_cigar fs 1 (len seq)) = simplify (norm_ops ops).
Proof. exact features_roundtrip. Qed.
Print Assumptions c07_features_roundtrip_partial.

(* the composed function that the correspondence check runs against the real writer+reader
   ([roundtrip]: Record::try_from_alignment_record of /repo 405565a for a record that is not
   flagged unmapped and has a reference id and a start, then the reader): a record with bases
   and a CIGAR that fits them, inside the reference, with quality scores missing or as long as
   the read *)
Theorem c07_record_roundtrip_partial :
  forall sm refseq seq quals ops start,
    valid_sm sm -> Forall (fun o => 0 < snd o) ops -> read_len ops = len seq ->
    seq <> [] -> (quals = [] \/ len quals = len seq) ->
    1 <= start -> start <= len refseq -> start + ref_len ops <= len refseq + 1 ->
    cigar_to_features true refseq seq (writer_quals seq quals) ops start <> None ->
    exists s, roundtrip sm refseq seq quals ops start = ROk (simplify (norm_ops ops)) s
              /\ eq_nocase_list s seq = true.
Proof. exact roundtrip_ok. Qed.
Print Assumptions c07_record_roundtrip_partial.

(* SEQ `*` with a CIGAR (/repo 0049c20; before: InvalidInput, before 9757af4 a panic): accepted
   whenever the start lies inside the reference (nothing else is looked up: a match may even run
   past the reference end - the slice span is clamped), stored with CF
   SEQUENCE_IS_MISSING, the read length of the CIGAR and features made from the CIGAR alone, and
   read back with SEQ `*` and exactly the input CIGAR (=/X as M, adjacent equal kinds merged) *)
Theorem c07_missing_sequence_roundtrip : forall sm refseq quals ops start,
  ops <> [] -> Forall (fun o => 0 < snd o) ops -> (quals = [] \/ len quals = read_len ops) ->
  start <= len refseq ->
  roundtrip sm refseq [] quals ops start = ROk (simplify (norm_ops ops)) [].
Proof. exact missing_sequence_roundtrip. Qed.
Print Assumptions c07_missing_sequence_roundtrip.

(* THE RESIDUAL CLASS cram-missing-cigar-with-bases-reads-back-as-soft-clip (/repo fe42e80): a
   record that is not flagged unmapped, has bases and CIGAR `*` stores the whole read as one soft
   clip; it reads back with exactly its bases (case included; before fe42e80 they were replaced
   by reference bases) and the CIGAR <len>S instead of `*` - nothing else of the pair
   (CIGAR, bases) changes *)
Theorem c07_missing_cigar_reads_back_as_soft_clip : forall sm refseq seq quals start,
  seq <> [] -> (quals = [] \/ len quals = len seq) -> 1 <= start -> start <= len refseq ->
  roundtrip sm refseq seq quals [] start = ROk [(KS, len seq)] seq.
Proof. exact missing_cigar_reads_back_as_soft_clip. Qed.
Print Assumptions c07_missing_cigar_reads_back_as_soft_clip.

(* quality scores that are present but not as long as the read are refused (/repo 8d67724): for
   the composed function, and for every kind of record (any flags / placement) in convert_core *)
Theorem c07_quality_length_mismatch_is_error : forall sm refseq seq quals ops start,
  quals <> [] -> len quals <> record_read_length seq ops ->
  roundtrip sm refseq seq quals ops start = RInvalidInput.
Proof. exact quality_length_mismatch_is_error. Qed.
Print Assumptions c07_quality_length_mismatch_is_error.

Theorem c07_convert_quality_length_mismatch_is_error : forall u placed seq quals ops,
  quals <> [] -> len quals <> core_read_length u placed seq ops ->
  convert_core u placed seq quals ops = None.
Proof. exact convert_core_quality_mismatch. Qed.
Print Assumptions c07_convert_quality_length_mismatch_is_error.

(* read length, SEQUENCE_IS_MISSING and stored quality scores of every accepted record: the read
   length is |SEQ|, or the CIGAR's read length when SEQ is `*` and the record is aligned (not
   flagged unmapped, reference id, start, CIGAR); missing quality scores become that many 0xff *)
Theorem c07_convert_shape : forall u placed seq quals ops rl ms q ws,
  convert_core u placed seq quals ops = Some (rl, ms, q, ws) ->
  rl = core_read_length u placed seq ops /\
  ms = (match seq with [] => true | _ => false end) /\
  q = record_quals rl quals /\ len q = rl.
Proof. exact convert_core_shape. Qed.
Print Assumptions c07_convert_shape.

(* The writer's answer for a malformed record is an error, not a panic (repaired defects
   cram-mapped-read-missing-qualities-panic, cram-mapped-read-missing-bases-panic; /repo 9757af4):
   the composed function answers RInvalidInput exactly when the quality scores are present but
   not as long as the read, or the start lies beyond the reference end (the slice's reference MD5
   cannot be computed), or the record has both a CIGAR and bases and cigar_to_features rejects
   them - otherwise never for SEQ `*`, never for CIGAR `*` ... *)
Theorem c07_roundtrip_invalid_input_iff :
  forall sm refseq seq quals ops start,
    let rl := record_read_length seq ops in
    roundtrip sm refseq seq quals ops start = RInvalidInput <->
    ((quals <> [] /\ len quals <> rl) \/ len refseq < start \/
     (ops <> [] /\ seq <> [] /\
      cigar_to_features true refseq seq (record_quals rl quals) ops start = None)).
Proof. exact roundtrip_invalid_input. Qed.
Print Assumptions c07_roundtrip_invalid_input_iff.

(* ... which never happens for a well-formed record (CIGAR read length = |SEQ|, qualities
   missing-and-filled or of the same length, alignment inside the reference): every such record
   is accepted, for all nine op kinds including zero-length ops ... *)
Theorem c07_cigar_to_features_total :
  forall qa refseq seq quals ops start,
    1 <= start -> read_len ops = len seq -> start + ref_len ops <= len refseq + 1 ->
    len quals = len seq ->
    cigar_to_features qa refseq seq quals ops start <> None.
Proof. exact cigar_to_features_total. Qed.
Print Assumptions c07_cigar_to_features_total.

(* ... and always happens (an error where the code used to panic) when a read-consuming op
   reaches past the end of a sequence that is present (cigar_to_features with bases; SEQ `*` no
   longer comes here: c07_missing_sequence_roundtrip), or a match reaches past the reference end *)
Theorem c07_short_sequence_is_error :
  forall qa refseq seq quals k n rest rp dp,
    consumes_read k = true -> len seq + 1 < dp + n ->
    c2f qa refseq seq quals ((k, n) :: rest) rp dp = None.
Proof. exact c2f_short_sequence_is_error. Qed.
Print Assumptions c07_short_sequence_is_error.

Theorem c07_match_past_reference_is_error :
  forall qa refseq seq quals k n rest rp dp,
    consumes_read k = true -> consumes_reference k = true -> len refseq + 1 < rp + n ->
    c2f qa refseq seq quals ((k, n) :: rest) rp dp = None.
Proof. exact c2f_short_reference_is_error. Qed.
Print Assumptions c07_match_past_reference_is_error.

(* ... and when a one-base match meets an empty quality vector (what the writer
   was handed for QUAL `*` before it filled 0xff per base: then a panic, now an error). *)
Theorem c07_cigar_to_features_empty_qualities_is_error :
  forall qa refseq seq k rest rp dp, (k = KM \/ k = KEq \/ k = KX) ->
    c2f qa refseq seq [] ((k, 1) :: rest) rp dp = None.
Proof. exact missing_qualities_panic. Qed.
Print Assumptions c07_cigar_to_features_empty_qualities_is_error.

(* non-vacuity: the default matrix is valid; a read with a mismatch, a non-ACGTN base, an
   insertion, a deletion, clips and a pad round-trips through the model *)
Example c07_valid_sm_default : valid_sm default_sm.
Proof. exact valid_sm_default. Qed.

Example c07_features_nonvacuous :
  (* reference ACGTACGTNNacgtACGT, read at 3: 2S 3M 1I 2M 2D 1P 2X 1= 3H *)
  let refseq := [65;67;71;84;65;67;71;84;78;78;97;99;103;116;65;67;71;84] in
  let seq := [84;84; 71;65;65; 67; 67;82; 67;71; 99] in
  let quals := [30;30;30;30;30;30;30;30;30;30;30] in
  let ops := [(KS,2);(KM,3);(KI,1);(KM,2);(KD,2);(KP,1);(KX,2);(KEq,1);(KH,3)] in
  read_len ops = len seq /\
  match roundtrip default_sm refseq seq quals ops 3 with
  | ROk c s => c = [(KS,2);(KM,3);(KI,1);(KM,2);(KD,2);(KP,1);(KM,3);(KH,3)] /\ eq_nocase_list s seq = true
  | _ => False
  end.
Proof. vm_compute. repeat split; reflexivity. Qed.

Example c07_missing_qualities_now_roundtrip :
  roundtrip default_sm [65;67;71;84] [65;67] [] [(KM, 1); (KI, 1)] 1 = ROk [(KM, 1); (KI, 1)] [65;67].
Proof. vm_compute. reflexivity. Qed.

(* SEQ `*` with a CIGAR round-trips; bases with CIGAR `*` come back as one soft clip; quality
   scores of the wrong length are refused *)
Example c07_missing_sequence_and_cigar_witnesses :
  roundtrip default_sm [65;67;71;84;65;67] [] [] [(KS, 2); (KEq, 2); (KI, 1); (KX, 1); (KD, 1)] 2
    = ROk [(KS, 2); (KM, 2); (KI, 1); (KM, 1); (KD, 1)] [] /\
  roundtrip default_sm [65;67;71;84] [103;71;110] [] [] 4 = ROk [(KS, 3)] [103;71;110] /\
  roundtrip default_sm [65;67;71;84] [65;67] [30] [(KM, 2)] 1 = RInvalidInput /\
  roundtrip default_sm [65;67;71;84] [] [30;30;30] [(KM, 2)] 1 = RInvalidInput /\
  roundtrip default_sm [65;67;71;84] [] [] [(KM, 2)] 5 = RInvalidInput.
Proof. vm_compute. repeat split; reflexivity. Qed.

(* a CIGAR longer than the sequence, and a read running past the reference end: InvalidInput *)
Example c07_invalid_input_witnesses :
  roundtrip default_sm [65;67;71;84] [65] [30] [(KM, 2)] 1 = RInvalidInput /\
  roundtrip default_sm [65;67;71;84] [84;84] [30;30] [(KM, 2)] 4 = RInvalidInput.
Proof. vm_compute. split; reflexivity. Qed.

Example c07_missing_qualities_witness :
  cigar_to_features true [65;67;71;84] [65;67] [] [(KM, 1); (KI, 1)] 1 = None /\
  exists w, cigar_to_features true [65;67;71;84] [65;67] [30;30] [(KM, 1); (KI, 1)] 1 = Some w.
Proof. exact missing_qualities_witness. Qed.

(* ------------------------------------------------------------------------------------------ *)
(* Container bookkeeping (over an abstract list of blocks; CRC-32 is any function).           *)

(* Block::size is exactly the number of bytes write_block emits (header with ITF8 fields,
   payload, CRC-32) *)
Theorem c07_block_size_is_serialised_length : forall crc b sz,
  block_size b = Some sz -> N.of_nat (length (write_block crc b)) = sz.
Proof. exact write_block_length. Qed.
Print Assumptions c07_block_size_is_serialised_length.

(* Block::size counts each ITF8 size field with itf8_size_of; write_block writes it with write_itf8
   (NV.Cram.Itf8, the bit-exact model of io/writer/num/itf8.rs): for EVERY i32 the counted width is
   the number of bytes written - in particular at the width boundaries 127/128, 16383/16384,
   2097151/2097152, 2^28-1/2^28 and for negative numbers (5 bytes).  The Container model's own
   itf8_bytes is the same function as Itf8.itf8_enc.  (A writer counting a size in 16384..32767
   as two bytes declares a container length and landmarks one byte short per such field.) *)
Theorem c07_itf8_size_of_is_written_length : forall n : Z,
  N.of_nat (length (NV.Cram.Itf8.write_itf8 n)) =
  NV.CramRec.Container.itf8_size_of (NV.Cram.Itf8.u32_of_i32 n).
Proof. exact itf8_size_of_is_written_length. Qed.
Print Assumptions c07_itf8_size_of_is_written_length.

Theorem c07_container_itf8_is_cram_itf8 : forall u, u < 4294967296 ->
  NV.CramRec.Container.itf8_bytes u = NV.Cram.Itf8.itf8_enc u.
Proof. exact itf8_bytes_is_enc. Qed.
Print Assumptions c07_container_itf8_is_cram_itf8.

Example c07_itf8_width_boundaries :
  map (fun n => length (NV.Cram.Itf8.write_itf8 n))
      [127; 128; 16383; 16384; 32767; 2097151; 2097152; 268435455; 268435456; -1]%Z
  = [1; 2; 2; 3; 3; 3; 4; 4; 5; 5]%nat.
Proof. exact itf8_width_boundaries. Qed.

Theorem c07_container_invariants :
  forall ch slices rls counter h blocks,
    slices <> [] ->
    build_container ch slices rls counter = Some (h, blocks) ->
    blocks = ch :: flat_map slice_blocks slices /\
    sum_sizes blocks = Some (h_length h) /\
    h_blocks h = N.of_nat (length blocks) /\
    length blocks = (1 + fold_right (fun s a => 2 + length (s_ext s) + a) 0 slices)%nat /\
    length (h_landmarks h) = length slices /\
    (forall i, (i < length slices)%nat ->
        prefix_size blocks (header_index slices i) = Some (nth i (h_landmarks h) 0) /\
        nth_error blocks (header_index slices i) = Some (s_header (nth i slices (mkslice ch ch [])))) /\
    block_size ch = Some (nth 0 (h_landmarks h) 0) /\
    h_records h = N.of_nat (length rls) /\ h_counter h = counter /\
    h_bases h = fold_right N.add 0 rls.
Proof. exact container_invariants. Qed.
Print Assumptions c07_container_invariants.

(* the declared container length is the byte length of the serialised blocks *)
Theorem c07_container_length_is_bytes :
  forall crc ch slices rls counter h blocks,
    slices <> [] ->
    build_container ch slices rls counter = Some (h, blocks) ->
    N.of_nat (length (flat_map (write_block crc) blocks)) = h_length h.
Proof. exact container_length_is_bytes. Qed.
Print Assumptions c07_container_length_is_bytes.

(* records.chunks_mut(records_per_slice) and the cumulative record counters *)
Theorem c07_chunk_lens : forall fuel rps n, 0 < rps -> (N.to_nat n <= fuel)%nat ->
  fold_right N.add 0 (chunk_lens fuel rps n) = n /\
  Forall (fun l => 0 < l /\ l <= rps) (chunk_lens fuel rps n) /\
  (forall i, (S i < length (chunk_lens fuel rps n))%nat -> nth i (chunk_lens fuel rps n) 0 = rps).
Proof. exact chunk_lens_spec. Qed.
Print Assumptions c07_chunk_lens.

Theorem c07_slice_counters_cumulative : forall lens c i, (i < length lens)%nat ->
  nth i (slice_counters c lens) 0 = c + fold_right N.add 0 (firstn i lens).
Proof. exact slice_counters_spec. Qed.
Print Assumptions c07_slice_counters_cumulative.

Example c07_container_nonvacuous :
  let ch := mk_desc_block 1 0 3 3 in
  let s0 := mkslice (mk_desc_block 2 0 40 40) (mk_desc_block 5 0 0 0)
                    [mk_desc_block 4 1 10 10; mk_desc_block 4 28 200 300] in
  let s1 := mkslice (mk_desc_block 2 0 38 38) (mk_desc_block 5 0 0 0) [] in
  match build_container ch [s0; s1] [100; 101; 150] 7 with
  | Some (h, blocks) => length (h_landmarks h) = 2%nat /\ h_blocks h = 7 /\ h_bases h = 351 /\ h_counter h = 7
  | None => False
  end.
Proof. vm_compute. repeat split; reflexivity. Qed.

(* ------------------------------------------------------------------------------------------ *)
(* Mate resolution (NV.CramRec.Mates): writer set_mates + write_mate, reader read_mate +        *)
(* resolve_mates.  [slice_roundtrip_gen repaired] is one slice through both; repaired = false  *)
(* is the code of /repo ([Mates.mates_repaired]).                                               *)

(* THE MATE COLUMNS ROUND-TRIP, any slice.  [slice_rt] = set_mates of /repo de003b4
   ([Mates.set_mates_w]: a template - the segmented, non-secondary, non-supplementary records of
   one name - is linked only if mates_are_resolvable), write_mate, read_mate, resolve_mates.
   Whatever the slice holds - any number of records, templates of any length, duplicate or missing
   names, secondary / supplementary / unpaired records, mates on other references, unmapped mates,
   any TLEN convention - if the writer accepts it the records come back with the FLAG, RNEXT,
   PNEXT and TLEN they were written with.  (Replaces the former
   c07_mates_roundtrip_full_statement, which was proved for two-record slices only.) *)
Theorem c07_mates_roundtrip : forall rs out,
  Forall fresh rs -> slice_rt rs = MOk out -> map mate_view out = map mate_view rs.
Proof. exact mates_roundtrip_general. Qed.
Print Assumptions c07_mates_roundtrip.

(* the same from the SAM records (Record::try_from_alignment_record included), and the reader
   never fails on what the writer stored *)
Theorem c07_mates_columns_from_sam : forall refs ss,
  mates_rt refs ss <> MReadErr /\
  forall out, mates_rt refs ss = MOk out ->
    map mate_view out = map (fun s => (s_flags s, s_mref s, s_mstart s, s_tlen s)) ss.
Proof. exact mates_rt_columns. Qed.
Print Assumptions c07_mates_columns_from_sam.

(* what set_mates (de003b4) does to a slice: nothing but CRAM flags and mate distances change; a
   record is attached iff its template is linked ([lk]: segmented primary record whose template
   has >= 2 members and is resolvable), and then carries the distance to the next member of its
   template ([nx]), which lies inside the slice and is attached as well *)
Theorem c07_set_mates_links : forall rs, Forall fresh rs ->
  length (set_mates_w rs) = length rs /\
  forall x, (x < length rs)%nat ->
    core (rget (set_mates_w rs) x) = core (rget rs x) /\
    m_detached (rget (set_mates_w rs) x) = negb (lk rs x) /\
    m_dist (rget (set_mates_w rs) x) =
      match nx rs x with Some y => Some (N.of_nat (y - x - 1)) | None => None end /\
    (forall y, nx rs x = Some y ->
       (x < y < length rs)%nat /\ m_down (rget (set_mates_w rs) x) = true /\
       m_detached (rget (set_mates_w rs) y) = false).
Proof. exact set_mates_w_wf. Qed.
Print Assumptions c07_set_mates_links.

(* the chain decomposition of the reader's loop, about resolve_mates alone: [nxt] is the mate
   index table of the stored slice [st] (strictly increasing inside the slice by construction of
   mate_indices; assumed injective), [tg] carries the expected columns.  If every record's stored
   FLAG already contains the mate bits of its successor (W1/W2: set_mate is a no-op on the flags),
   RNEXT/PNEXT of [tg] are the successor's reference and start - the head's for the last record
   of a chain - and TLEN of [tg] is +t for the head of a chain and -t for all others, t computed
   from the last and the first record, then resolve_mates leaves every record that is on a chain
   with exactly the columns of [tg], for chains of any length *)
Theorem c07_resolve_mates_chains :
  forall (n : nat) (nxt : nat -> option nat),
    (forall x y, nxt x = Some y -> (x < y < n)%nat) ->
    (forall x y z, nxt x = Some z -> nxt y = Some z -> x = y) ->
    forall st tg : list mrec,
    (forall x, m_flags (rget st x) = m_flags (rget tg x)) ->
    (forall x y, nxt x = Some y ->
       m_flags (set_mate (rget st x) (rget st y)) = m_flags (rget st x) /\
       m_mref (rget tg x) = m_ref (rget st y) /\ m_mstart (rget tg x) = m_start (rget st y)) ->
    (forall h e, head nxt h -> reach nxt h e -> nxt e = None ->
       m_flags (set_mate (rget st e) (rget st h)) = m_flags (rget st e) /\
       m_mref (rget tg e) = m_ref (rget st h) /\ m_mstart (rget tg e) = m_start (rget st h) /\
       m_tlen (rget tg h) = tlen_calc (rget st e) (rget st h) /\
       forall x, reach nxt h x -> x <> h ->
         m_tlen (rget tg x) = (- tlen_calc (rget st e) (rget st h))%Z) ->
    forall mi, (forall x, mi_get mi x = nxt x) -> length mi = n -> length st = n ->
    forall x, (nxt x <> None \/ exists p, nxt p = Some x) ->
      mate_view (rget (fst (fold_left resolve_step (seq 0 n) (st, mi))) x) = mate_view (rget tg x).
Proof. exact resolve_chains. Qed.
Print Assumptions c07_resolve_mates_chains.

(* the reader's "invalid mate distance" check never fires on a slice written by set_mates
   (de003b4) + write_mate *)
Theorem c07_written_slice_resolves_w : forall rs, Forall fresh rs -> ~ (slice_rt rs = MReadErr).
Proof. exact written_slice_resolves_w. Qed.
Print Assumptions c07_written_slice_resolves_w.

(* non-vacuity: a template of three records is linked as a chain 0 -> 1 -> 2 (CF bits / NF as the
   file shows them) next to a supplementary record of the same name, which stays detached, and
   everything reads back unchanged; the same template with the TLEN sign on the other end is not
   linked and reads back unchanged as well *)
Example c07_mates_chain_nonvacuous :
  let a := mk_mrec 65 (Some [113]) (Some 0) (Some 10) 5 [] (Some 0) (Some 20) 25%Z false false None in
  let b := mk_mrec 1 (Some [113]) (Some 0) (Some 20) 5 [] (Some 0) (Some 30) (-25)%Z false false None in
  let s := mk_mrec 2049 (Some [113]) (Some 0) (Some 50) 5 [] (Some 0) (Some 20) 0%Z false false None in
  let c := mk_mrec 129 (Some [113]) (Some 0) (Some 30) 5 [] (Some 0) (Some 10) (-25)%Z false false None in
  let c' := mk_mrec 129 (Some [113]) (Some 0) (Some 30) 5 [] (Some 0) (Some 10) 25%Z false false None in
  map link_view (set_mates_w [a; b; s; c]) = [(4, Some 0); (4, Some 1); (2, None); (0, None)] /\
  set_mates_loop [a; b; s; c] = set_mates_w [a; b; s; c] /\
  map link_view (set_mates_w [a; b; s; c']) = [(2, None); (2, None); (2, None); (2, None)] /\
  match slice_rt [a; b; s; c], slice_rt [a; b; s; c'] with
  | MOk out, MOk out' => map mate_view out = map mate_view [a; b; s; c] /\
                         map mate_view out' = map mate_view [a; b; s; c']
  | _, _ => False
  end.
Proof. vm_compute. repeat split; reflexivity. Qed.

(* the two loops of set_mates as the Rust writes them ([set_mates_loop]: mark everything detached
   and collect templates with entry(name).or_default().push(i); then, per template with more than
   one record that is resolvable, set_downstream_mate over indices.windows(2)) compute exactly the
   record-by-record description [set_mates_w] the theorems above are about - for every slice *)
Theorem c07_set_mates_loop_is_set_mates_w : forall rs, set_mates_loop rs = set_mates_w rs.
Proof. exact set_mates_loop_eq. Qed.
Print Assumptions c07_set_mates_loop_is_set_mates_w.

(* the mate data series at the byte level (NV.CramRec.MatesBytes): the compression header declares
   Integer::External (one ITF8 per value) for MF / NS / NP / TS / NF.  For the records set_mates
   produces, write_mate refuses (InvalidInput: a mate reference id / position / distance that is
   not an i32) exactly when the value-level [store_all] does, and otherwise read_mate decodes the
   five blocks, record after record and to the last byte, into exactly the records [store_all]
   describes (decode o encode = store; the round-trip theorem above composes store with
   resolve_mates) *)
Theorem c07_mate_series_decode_encode : forall rs, Forall fresh rs ->
  Forall (fun r => m_mstart r <> Some 0 /\ (-2147483648 <= m_tlen r < 2147483648)%Z) rs ->
  (write_all_b (set_mates_w rs) mser0 = None <-> store_all (set_mates_w rs) = None) /\
  (forall ser, write_all_b (set_mates_w rs) mser0 = Some ser ->
     exists st, store_all (set_mates_w rs) = Some st /\
       read_all_b (map skeleton (set_mates_w rs)) ser = Some (st, mser0)).
Proof. exact mate_series_of_slice. Qed.
Print Assumptions c07_mate_series_decode_encode.

(* the same for any list of records satisfying the invariants [okrec] (what set_mates guarantees,
   mate positions >= 1, TLEN an i32), starting from any series state *)
Theorem c07_mate_series_roundtrip : forall rs, Forall okrec rs -> forall s,
  (write_all_b rs s = None <-> store_all rs = None) /\
  (forall ser, write_all_b rs s = Some ser ->
     exists st c, ser = app_ser s c /\ store_all rs = Some st /\
       forall rest, read_all_b (map skeleton rs) (app_ser c rest) = Some (st, rest)).
Proof. exact mate_series_roundtrip. Qed.
Print Assumptions c07_mate_series_roundtrip.

Example c07_mate_series_nonvacuous :
  let a := mk_mrec 65 (Some [113]) (Some 0) (Some 10) 5 [] (Some 0) (Some 20) 15%Z false false None in
  let b := mk_mrec 129 (Some [113]) (Some 0) (Some 20) 5 [] (Some 0) (Some 10) (-15)%Z false false None in
  let c := mk_mrec 0 (Some [114]) (Some 0) (Some 300) 7 [] None (Some 70000) (-3)%Z false false None in
  write_all_b (set_mates_w [a; b; c]) mser0 =
    Some (mk_mser [0] [255;255;255;255;15] [193;17;112] [255;255;255;255;13] [0]).
Proof. vm_compute. reflexivity. Qed.

(* ---- the writer before /repo de003b4 ([set_mates_gen false]) and the pair-wise repair that was
   proposed for it ([set_mates_gen true]); kept as the record of the defect
   cram-intra-slice-mate-fields-recomputed: these models are no longer compared with an
   implementation ---- *)

(* every record that set_mates leaves detached - in any slice, next to any chains - is read back
   as stored: FLAG, RNEXT, PNEXT and TLEN are the written ones (both writers) *)
Theorem c07_mates_detached_record_preserved_partial : forall rep rs out x,
  Forall fresh rs ->
  slice_roundtrip_gen rep rs = MOk out ->
  (x < length rs)%nat ->
  m_detached (rget (set_mates_gen rep rs) x) = true ->
  rget out x = rget (set_mates_gen rep rs) x /\
  mate_view (rget out x) = mate_view (rget rs x).
Proof. exact detached_record_preserved. Qed.
Print Assumptions c07_mates_detached_record_preserved_partial.

(* what set_mates establishes in every slice: same length; a detached record has no mate distance;
   a mate distance comes with MATE_IS_DOWNSTREAM on an attached record and points at an attached
   record inside the slice (so the reader's "invalid mate distance" check never fires on written
   files); FLAG / names / positions / mate fields / TLEN are not modified *)
Theorem c07_set_mates_wellformed : forall rep rs, Forall fresh rs ->
  length (set_mates_gen rep rs) = length rs /\ linked_wf (set_mates_gen rep rs) /\
  forall x, mate_view (rget (set_mates_gen rep rs) x) = mate_view (rget rs x).
Proof.
  intros rep rs H. destruct (set_mates_gen_wf rep rs H) as [A B].
  split; [exact A|]. split; [exact B|]. intro x. apply set_mates_gen_view.
Qed.
Print Assumptions c07_set_mates_wellformed.

(* the reader's check "the downstream mate must be inside the slice" (/repo 21bfe86: InvalidData
   "invalid mate distance") never fires on a slice written by set_mates + write_mate *)
Theorem c07_written_slice_resolves : forall rep rs,
  Forall fresh rs -> slice_roundtrip_gen rep rs <> MReadErr.
Proof. exact written_slice_resolves. Qed.
Print Assumptions c07_written_slice_resolves.

(* a slice of two records that share a name (both segmented, not secondary): the reader returns
   exactly the recomputed columns, and they are the written ones iff the pair is pair_consistent -
   the decidable description of the class cram-intra-slice-mate-fields-recomputed for a pair *)
Theorem c07_mates_linked_pair_roundtrip_partial : forall a b,
  fresh a -> fresh b -> eligible a = true -> eligible b = true ->
  oname_eqb (m_name a) (m_name b) = true ->
  exists a' b', slice_roundtrip_gen false [a; b] = MOk [a'; b'] /\
    mate_view a' = (m_flags (set_mate a b), m_ref b, m_start b, tlen_calc b a) /\
    mate_view b' = (m_flags (set_mate b a), m_ref a, m_start a, (- tlen_calc b a)%Z) /\
    ((mate_view a' = mate_view a /\ mate_view b' = mate_view b) <-> pair_consistent a b = true).
Proof. exact linked_pair_roundtrip. Qed.
Print Assumptions c07_mates_linked_pair_roundtrip_partial.

(* with the repaired set_mates every two-record slice keeps its mate columns *)
Theorem c07_mates_repaired_pair_roundtrip_partial : forall a b out,
  fresh a -> fresh b ->
  slice_roundtrip_gen true [a; b] = MOk out ->
  map mate_view out = [mate_view a; mate_view b].
Proof. exact repaired_pair_roundtrip. Qed.
Print Assumptions c07_mates_repaired_pair_roundtrip_partial.

(* the recomputed template length is symmetric, never negative and saturates at i32::MAX
   (/repo 8fd0898) *)
Theorem c07_template_length_range : forall r m,
  (0 <= tlen_calc r m <= 2147483647)%Z /\ tlen_calc r m = tlen_calc m r.
Proof. intros r m. split; [apply tlen_calc_range|apply tlen_calc_sym]. Qed.
Print Assumptions c07_template_length_range.

(* the current writer violates the round trip on a pair whose TLEN is not the recomputed one *)
Theorem c07_mates_refuted : exists a b out,
  fresh a /\ fresh b /\ slice_roundtrip_gen false [a; b] = MOk out /\
  map mate_view out <> [mate_view a; mate_view b].
Proof.
  exists (mk_mrec 65 (Some [113]) (Some 0) (Some 10) 5 [] (Some 0) (Some 30) 0%Z false false None),
         (mk_mrec 129 (Some [113]) (Some 0) (Some 30) 5 [] (Some 0) (Some 10) 0%Z false false None).
  eexists. split; [repeat split|]. split; [repeat split|]. split; [vm_compute; reflexivity|].
  vm_compute. discriminate.
Qed.
Print Assumptions c07_mates_refuted.

(* non-vacuity: a consistent pair next to a detached single record reads back unchanged *)
Example c07_mates_nonvacuous :
  let a := mk_mrec 97 (Some [113]) (Some 0) (Some 10) 5 [] (Some 0) (Some 30) 25%Z false false None in
  let b := mk_mrec 145 (Some [113]) (Some 0) (Some 30) 5 [] (Some 0) (Some 10) (-25)%Z false false None in
  let c := mk_mrec 0 (Some [114]) (Some 0) (Some 12) 7 [] None None 0%Z false false None in
  pair_consistent a b = true /\
  match slice_roundtrip [a; c; b] with
  | MOk out => map mate_view out = map mate_view [a; c; b]
  | _ => False
  end.
Proof. vm_compute. split; reflexivity. Qed.

(* ------------------------------------------------------------------------------------------ *)
(* ---- slice / container header: reference context, counters, reference MD5 interval
        (NV.CramRec.SliceHeader) ---- *)

(* (a) RSome contexts are well formed: start >= 1 and start <= end, i.e. span >= 1 *)
Theorem c07_shdr_context_wellformed :
  forall rs, Forall hrec_wf rs -> ctx_wf (get_ctx rs).
Proof. exact get_ctx_wf. Qed.
Print Assumptions c07_shdr_context_wellformed.

Theorem c07_shdr_clamp_wellformed :
  forall sq c, ctx_wf c -> ctx_wf (clamp_ctx sq c).
Proof. exact clamp_ctx_wf. Qed.
Print Assumptions c07_shdr_clamp_wellformed.

Theorem c07_shdr_triple :
  forall id s e, ctx_wf (RSome id s e) ->
  exists span, ctx_triple (RSome id s e) = (Z.of_N id, Z.of_N s, Z.of_N span)
               /\ 1 <= s /\ 1 <= span /\ s + span - 1 = e.
Proof. exact ctx_triple_some. Qed.
Print Assumptions c07_shdr_triple.

(* (a) the declared span of a slice lies inside the reference (@SQ LN = length of the reference
   sequence) whenever its start does, and calculate_reference_sequence_md5 then succeeds on exactly
   the bases start..=end *)
Theorem c07_shdr_span_inside_reference :
  forall refsq rs id s e ln bases,
  Forall hrec_wf rs ->
  clamp_ctx (map fst refsq) (get_ctx rs) = RSome id s e ->
  nth_error refsq (N.to_nat id) = Some (ln, bases) -> lenN bases = ln -> s <= ln ->
  1 <= s /\ 1 <= ctx_span s e /\ s + ctx_span s e - 1 <= ln
  /\ exists bs, calc_md5 refsq (RSome id s e) = SOk (MdOver (normalize_bases bs))
                /\ seq_get_incl bases s e = Some bs /\ lenN bs = ctx_span s e.
Proof. exact slice_span_inside_reference. Qed.
Print Assumptions c07_shdr_span_inside_reference.

(* the exact failure condition of calculate_reference_sequence_md5, and the input class that
   reaches it: a slice whose start lies beyond the reference end is refused (InvalidInput) *)
Theorem c07_shdr_md5_error_iff :
  forall refsq id s e x, ctx_wf (RSome id s e) ->
  (calc_md5 refsq (RSome id s e) = SErr x
   <-> ((nth_error refsq (N.to_nat id) = None /\ x = EInvalidRefId)
        \/ (exists ln bases, nth_error refsq (N.to_nat id) = Some (ln, bases)
                             /\ lenN bases < e /\ x = ESpanOutside))).
Proof. exact calc_md5_err_iff. Qed.
Print Assumptions c07_shdr_md5_error_iff.

Theorem c07_shdr_start_past_reference_rejected :
  forall refsq c id s e ln bases,
  ctx_wf c -> clamp_ctx (map fst refsq) c = RSome id s e ->
  nth_error refsq (N.to_nat id) = Some (ln, bases) -> lenN bases = ln -> ln < s ->
  calc_md5 refsq (RSome id s e) = SErr ESpanOutside.
Proof. exact slice_start_past_reference_rejected. Qed.
Print Assumptions c07_shdr_start_past_reference_rejected.

Theorem c07_shdr_md5_zero_iff_not_single_reference :
  forall refsq c rs h, build_slice_hdr refsq c rs = SOk h ->
  (sl_md5 h = MdNone <-> (sl_ctx h = RNone \/ sl_ctx h = RMany)).
Proof. exact slice_md5_none_iff. Qed.
Print Assumptions c07_shdr_md5_zero_iff_not_single_reference.

(* (b) a single-reference context covers every record of the slice; its start is the least
   start and its end the greatest alignment end *)
Theorem c07_shdr_context_covers_records :
  forall rs id s e, get_ctx rs = RSome id s e ->
  Forall (fun r => exists rs' re', placed_on id r rs' re' /\ s <= rs' /\ re' <= e) rs
  /\ Exists (fun r => exists re', placed_on id r s re') rs
  /\ Exists (fun r => exists rs', placed_on id r rs' e) rs.
Proof. exact get_ctx_some_covers. Qed.
Print Assumptions c07_shdr_context_covers_records.

(* (b) which of Some / None / Many the writer declares, exactly *)
Theorem c07_shdr_context_some_iff :
  forall rs id, rs <> [] ->
  ((exists s e, get_ctx rs = RSome id s e)
   <-> Forall (fun r => exists rs' re', placed_on id r rs' re') rs).
Proof. exact get_ctx_some_iff. Qed.
Print Assumptions c07_shdr_context_some_iff.

Theorem c07_shdr_context_none_iff :
  forall r tl,
  get_ctx (r :: tl) = RNone <-> Forall (fun r' => hr_ref r' = None) (r :: tl).
Proof. exact get_ctx_none_iff. Qed.
Print Assumptions c07_shdr_context_none_iff.

(* /repo 21fc9d0 (cram-first-record-reference-without-position-loses-rname): a slice declared
   unmapped - the only kind whose records' reference ids are not stored - holds no record with a
   reference id, wherever in the slice it stands *)
Theorem c07_shdr_unmapped_slice_has_no_reference :
  forall rs r, get_ctx rs = RNone -> In r rs -> hr_ref r = None.
Proof. exact get_ctx_none_no_reference. Qed.
Print Assumptions c07_shdr_unmapped_slice_has_no_reference.

Theorem c07_shdr_context_many_iff :
  forall r tl,
  get_ctx (r :: tl) = RMany
  <-> ((forall id, ~ Forall (fun x => exists rs' re', placed_on id x rs' re') (r :: tl))
       /\ ~ Forall (fun r' => hr_ref r' = None) (r :: tl)).
Proof. exact get_ctx_many_iff. Qed.
Print Assumptions c07_shdr_context_many_iff.

(* "placed" for a record whose start is a Position = has a reference id and a start *)
Theorem c07_shdr_placed_iff :
  forall id r, hrec_wf r ->
  ((exists rs re, placed_on id r rs re) <-> (hr_ref r = Some id /\ hr_start r <> None)).
Proof. exact placed_on_iff_wf. Qed.
Print Assumptions c07_shdr_placed_iff.

(* the clamp only ever shortens the end, and leaves a context inside the reference alone *)
Theorem c07_shdr_clamp_shape :
  forall sq id s e, exists e', clamp_ctx sq (RSome id s e) = RSome id s e' /\ e' <= e.
Proof. exact clamp_ctx_shape. Qed.
Print Assumptions c07_shdr_clamp_shape.

Theorem c07_shdr_clamp_identity_inside :
  forall sq id s e ln,
  nth_error sq (N.to_nat id) = Some ln -> e <= ln -> clamp_ctx sq (RSome id s e) = RSome id s e.
Proof. exact clamp_ctx_id_inside. Qed.
Print Assumptions c07_shdr_clamp_identity_inside.

(* (c)+(d) one container: its slices are the chunks of rps records, each with 1..rps records,
   record counts sum to the container's, slice i carries counter + (records of the earlier
   slices), the container context contains every slice context *)
Theorem c07_shdr_container_consistent :
  forall refsq rps c rs h,
  (1 <= rps)%nat -> rs <> [] -> build_container_hdr refsq rps c rs = SOk h ->
  ct_nrec h = lenN rs /\ ct_counter h = c /\ ct_bases h = base_count rs
  /\ ct_slices h <> []
  /\ Forall2 (fun ch s => build_slice_hdr refsq (sl_counter s) ch = SOk s)
             (chunks rps rs) (ct_slices h)
  /\ sumN (map sl_nrec (ct_slices h)) = ct_nrec h
  /\ Forall (fun s => 1 <= sl_nrec s <= N.of_nat rps) (ct_slices h)
  /\ (forall i s, nth_error (ct_slices h) i = Some s ->
                  sl_counter s = ct_counter h + sumN (map sl_nrec (firstn i (ct_slices h))))
  /\ cont_ctx (map sl_ctx (ct_slices h)) = SOk (ct_ctx h)
  /\ Forall (fun s => ctx_le (sl_ctx s) (ct_ctx h)) (ct_slices h)
  /\ cont_fits h = true.
Proof. exact build_container_hdr_spec. Qed.
Print Assumptions c07_shdr_container_consistent.

Theorem c07_shdr_slice_fields :
  forall refsq c rs h, build_slice_hdr refsq c rs = SOk h ->
  sl_ctx h = clamp_ctx (map fst refsq) (get_ctx rs) /\ sl_nrec h = lenN rs /\ sl_counter h = c
  /\ sl_embedded h = (-1)%Z /\ calc_md5 refsq (sl_ctx h) = SOk (sl_md5 h).
Proof. exact build_slice_hdr_spec. Qed.
Print Assumptions c07_shdr_slice_fields.

Theorem c07_shdr_chunks_partition :
  forall (k : nat) (l : list hrec), (1 <= k)%nat ->
  concat (chunks k l) = l /\ Forall (fun c => (1 <= length c <= k)%nat) (chunks k l).
Proof. intros k l Hk. split; [exact (chunks_concat k l Hk) | exact (chunks_bounds k l Hk)]. Qed.
Print Assumptions c07_shdr_chunks_partition.

(* (d) a one-slice container (the only kind the writer emits) declares what its slice declares *)
Theorem c07_shdr_one_slice_container :
  forall refsq rps c rs h,
  rs <> [] -> (length rs <= rps)%nat -> build_container_hdr refsq rps c rs = SOk h ->
  exists s, ct_slices h = [s] /\ ct_ctx h = sl_ctx s /\ ct_nrec h = sl_nrec s
            /\ ct_counter h = sl_counter s
            /\ sl_ctx s = clamp_ctx (map fst refsq) (get_ctx rs).
Proof. exact build_container_hdr_one_slice. Qed.
Print Assumptions c07_shdr_one_slice_container.

(* (c) the stream: containers partition the records, container i carries the number of records
   before it *)
Theorem c07_shdr_stream_counters :
  forall refsq rps spc rs hs,
  (1 <= rps)%nat -> (1 <= spc)%nat -> write_stream refsq rps spc rs = SOk hs ->
  Forall2 (fun ct h => build_container_hdr refsq rps (ct_counter h) ct = SOk h /\ ct <> []
                       /\ ct_nrec h = lenN ct)
          (chunks (spc * rps) rs) hs
  /\ sumN (map ct_nrec hs) = lenN rs
  /\ (forall i h, nth_error hs i = Some h ->
                  ct_counter h = sumN (map ct_nrec (firstn i hs)))
  /\ Forall (fun h => 1 <= ct_nrec h <= N.of_nat (spc * rps)) hs.
Proof. exact write_stream_spec. Qed.
Print Assumptions c07_shdr_stream_counters.

Theorem c07_shdr_stream_one_slice_per_container :
  forall refsq rps rs hs,
  (1 <= rps)%nat -> write_stream refsq rps 1 rs = SOk hs ->
  Forall (fun h => exists s, ct_slices h = [s] /\ ct_ctx h = sl_ctx s /\ ct_nrec h = sl_nrec s
                             /\ ct_counter h = sl_counter s) hs.
Proof. exact write_stream_one_slice_per_container. Qed.
Print Assumptions c07_shdr_stream_one_slice_per_container.

(* records made by Record::try_from_alignment_record satisfy the Position invariant *)
Theorem c07_shdr_converted_records_wf :
  forall refsq s r,
  (forall st, sr_start s = Some st -> 1 <= st) -> sh_convert refsq s = SOk r ->
  hrec_wf r /\ hr_ref r = sr_ref s /\ hr_start r = sr_start s /\
  (sr_seq s <> [] -> hr_rl r = len (sr_seq s) /\ hr_missing r = false) /\
  (sr_seq s = [] -> hr_missing r = true).
Proof. exact sh_convert_wf. Qed.
Print Assumptions c07_shdr_converted_records_wf.

(* calculate_alignment_span on converted records: the usize subtractions never underflow (the
   equation holds in N without truncation), and for a CIGAR whose read length is |SEQ| the span is
   the CIGAR's reference length *)
Theorem c07_shdr_converted_span :
  forall refseq seq quals ops start ws,
  cigar_to_features true refseq seq quals ops start = Some ws ->
  w_alignment_span (len seq) ws + is_len ops = len seq + dn_len ops.
Proof. exact converted_span. Qed.
Print Assumptions c07_shdr_converted_span.

Theorem c07_shdr_converted_span_is_reference_length :
  forall refseq seq quals ops start ws,
  cigar_to_features true refseq seq quals ops start = Some ws -> read_len ops = len seq ->
  w_alignment_span (len seq) ws = ref_len ops.
Proof. exact converted_span_ref_len. Qed.
Print Assumptions c07_shdr_converted_span_is_reference_length.

(* non-vacuity.  Reference 0 = ACGTACGTAC (LN 10), reference 1 = GGGG (LN 4). *)
Definition shdr_ex_refsq : list (N * list N) :=
  [(10, [65;67;71;84;65;67;71;84;65;67]); (4, [71;71;71;71])].
(* 3M2D1M at 2 (span 6: 2..7) and an unmapped read of 5 bases placed at 8 (8..12, clamped to 10) *)
Definition shdr_ex_a : srec := srec_of false (Some 0) (Some 2) [(KM, 3); (KD, 2); (KM, 1)] [67;71;84;71] [30;30;30;30].
Definition shdr_ex_b : srec := srec_of true (Some 0) (Some 8) [] [65;65;65;65;65] [30;30;30;30;30].
Definition shdr_ex_u : srec := srec_of true None None [] [65;67] [30;30].
Definition shdr_ex_nostart : srec := srec_of true (Some 0) None [] [65;67] [30;30].

Example c07_shdr_ex_stream :
  shdr_rows shdr_ex_refsq 2 [shdr_ex_a; shdr_ex_b; shdr_ex_u] =
  SOk [mk_row true 0 2 9 2 0 0 false; mk_row false 0 2 9 2 0 (-1) true;
       mk_row true (-1) 0 0 1 2 0 false; mk_row false (-1) 0 0 1 2 (-1) false].
Proof. vm_compute. reflexivity. Qed.

(* one container of two slices (not reachable through the public API): the container context is
   the hull *)
Example c07_shdr_ex_two_slices :
  match sh_convert_all shdr_ex_refsq [shdr_ex_a; shdr_ex_b] with
  | SOk rs => match build_container_hdr shdr_ex_refsq 1 7 rs with
              | SOk h => ct_ctx h = RSome 0 2 10 /\ map sl_ctx (ct_slices h) = [RSome 0 2 7; RSome 0 8 10]
                         /\ map sl_counter (ct_slices h) = [7; 8]
              | SErr _ => False
              end
  | SErr _ => False
  end.
Proof. vm_compute. auto. Qed.

(* a mixed slice is Many; a placed read starting beyond the reference end is refused *)
Example c07_shdr_ex_many :
  shdr_rows shdr_ex_refsq 3 [shdr_ex_a; shdr_ex_u] =
  SOk [mk_row true (-2) 0 0 2 0 0 false; mk_row false (-2) 0 0 2 0 (-1) false].
Proof. vm_compute. reflexivity. Qed.

Example c07_shdr_ex_rejected :
  shdr_rows shdr_ex_refsq 3 [srec_of true (Some 1) (Some 5) [] [65] [30]] = SErr ESpanOutside.
Proof. vm_compute. reflexivity. Qed.

(* a record with a reference id but no start makes the slice multi-reference wherever it stands
   (/repo 21fc9d0; before, as the first record it left the slice unmapped and lost its RNAME) *)
Example c07_shdr_ex_ref_without_start :
  shdr_rows shdr_ex_refsq 3 [shdr_ex_nostart; shdr_ex_u] =
    SOk [mk_row true (-2) 0 0 2 0 0 false; mk_row false (-2) 0 0 2 0 (-1) false]
  /\ shdr_rows shdr_ex_refsq 3 [shdr_ex_u; shdr_ex_nostart] =
    SOk [mk_row true (-2) 0 0 2 0 0 false; mk_row false (-2) 0 0 2 0 (-1) false].
Proof. split; vm_compute; reflexivity. Qed.

(* ------------------------------------------------------------------------------------------ *)
(* The FILE level (NV.CramRec.File): records -> slices of records_per_slice -> file -> records. *)

(* THE FILE-LEVEL ROUND TRIP, with the one premise that is still opaque spelled out: [ser] / [de]
   are the serialisation of a slice's records into its core / external blocks and back (every data
   series other than the five mate series, the block codecs, the compression header), and the
   premise says that a slice's stored records are read back as written.  Then, for every reference
   list, every records_per_slice >= 1 and every stream of SAM records - any number of slices,
   templates inside a slice and across slices, any mix of mapped / unmapped / secondary records:
   the reader never fails on a file the writer produced; the writer fails only if it refuses a
   record (InvalidInput); and the records come back in order, as many as were written, each with the
   FLAG / RNEXT / PNEXT / TLEN of the input and with the name, reference id, alignment start, read
   length and features that Record::try_from_alignment_record made of it (the features of a record
   flagged unmapped are not written); the file has one slice per chunk of records_per_slice
   records. *)
Theorem c07_file_roundtrip :
  forall (B : Type) (ser : list mrec -> B) (de : B -> option (list mrec)),
  (forall st, de (ser st) = Some st) ->
  forall refs rps ss, (1 <= rps)%nat ->
    file_rt_gen B ser de refs rps ss <> MReadErr /\
    (file_rt_gen B ser de refs rps ss = MWriteErr <-> file_write_gen B ser refs rps ss = None) /\
    forall out, file_rt_gen B ser de refs rps ss = MOk out ->
      exists rs f, convert_all refs ss = Some rs /\ file_write_gen B ser refs rps ss = Some f /\
        length f = length (chunks rps rs) /\
        length out = length ss /\
        map mate_view out = map (fun s => (s_flags s, s_mref s, s_mstart s, s_tlen s)) ss /\
        map stat_view out = map stat_view (map drop_unmapped_feats rs).
Proof. exact file_roundtrip_gen. Qed.
Print Assumptions c07_file_roundtrip.

(* ... down to CIGAR and bases: the x-th record of the stream, if it is a well-formed mapped record
   ([mapped_wf]: not flagged unmapped, on a reference of the repository, bases and a CIGAR of
   positive ops that fits them and lies inside the reference), is the x-th record read back from
   the executable file model, with the input CIGAR (=/X as M, adjacent ops merged), the input bases
   up to case, and the input FLAG, name, RNAME id, POS, RNEXT, PNEXT, TLEN - whatever the other
   records of the stream are and whatever slice it falls into *)
Theorem c07_file_record_rendering : forall refs rps ss out x s rf st, (1 <= rps)%nat ->
  file_rt refs rps ss = MOk out -> nth_error ss x = Some s -> mapped_wf refs s rf st ->
  exists o, nth_error out x = Some o /\
    mate_view o = (s_flags s, s_mref s, s_mstart s, s_tlen s) /\
    m_name o = s_name s /\ m_ref o = s_ref s /\ m_start o = s_start s /\
    rec_cigar o = simplify (norm_ops (s_ops s)) /\
    exists b, rec_bases refs o = Some b /\ eq_nocase_list b (s_seq s) = true.
Proof. exact file_record_rendering. Qed.
Print Assumptions c07_file_record_rendering.

(* the slice layout of the file: every slice holds between 1 and records_per_slice records, and
   together they hold every record of the stream *)
Theorem c07_file_layout : forall refs rps ss l, (1 <= rps)%nat ->
  file_layout refs rps ss = Some l ->
  Forall (fun n => (1 <= n <= rps)%nat) l /\ fold_right Nat.add 0%nat l = length ss.
Proof. exact file_layout_chunks. Qed.
Print Assumptions c07_file_layout.

(* the reader's mate_indices with the bound test made on binary numbers before the distance
   becomes a unary nat (what the extracted model runs, so that NF = 2^31 - 1 is answered at once)
   is the function the chain theorems are about *)
Theorem c07_mate_indices_binary_is_unary : forall rs, resolve_mates_bin rs = resolve_mates rs.
Proof. exact resolve_mates_bin_eq. Qed.
Print Assumptions c07_mate_indices_binary_is_unary.

(* HOSTILE mate distances: the reader answers InvalidData exactly when some record's mate distance
   points at or past the end of the slice - for every slice, however large the distance *)
Theorem c07_hostile_mate_distance_rejected_iff : forall rs,
  resolve_mates_bin rs = None <->
  exists x d, (x < length rs)%nat /\ m_dist (rget rs x) = Some d /\
              N.of_nat (length rs) <= N.of_nat x + d + 1.
Proof. exact resolve_mates_bin_error_iff. Qed.
Print Assumptions c07_hostile_mate_distance_rejected_iff.

(* ... and whatever it accepts - any CRAM flags, any chains, converging ones included - it returns
   as many records and changes nothing of a record but FLAG, RNEXT, PNEXT and TLEN *)
Theorem c07_resolve_mates_frame : forall rs out,
  resolve_mates_bin rs = Some out ->
  length out = length rs /\ map stat_all out = map stat_all rs.
Proof.
  intros rs out H. split; [exact (resolve_mates_length rs out H)|exact (resolve_mates_frame rs out H)].
Qed.
Print Assumptions c07_resolve_mates_frame.

(* non-vacuity: a stream of three records cut into two slices (records_per_slice 2): a linked pair
   in the first slice, its third segment alone in the second; a hostile slice whose NF is
   2^31 - 1 is refused by computation, one with NF >= 2^31 too, and a valid distance resolves *)
Definition file_ex_ref : list N := [65;67;71;84;65;67;71;84;65;67;71;84;65;67;71;84;65;67;71;84].
Definition file_ex_a : samrec :=
  samrec_of 97 (Some [113]) (Some 0) (Some 2) [(KM, 4)] [67;71;84;65] [30;30;30;30] (Some 0) (Some 10) 12%Z.
Definition file_ex_b : samrec :=
  samrec_of 145 (Some [113]) (Some 0) (Some 10) [(KEq, 2); (KX, 2)] [67;71;65;65] [30;30;30;30] (Some 0) (Some 2) (-12)%Z.
Definition file_ex_c : samrec :=
  samrec_of 65 (Some [113]) (Some 0) (Some 5) [(KS, 1); (KM, 3)] [84;65;67;71] [30;30;30;30] None None 0%Z.

Example c07_file_nonvacuous :
  file_layout [file_ex_ref] 2 [file_ex_a; file_ex_b; file_ex_c] = Some [2; 1]%nat /\
  match file_rt [file_ex_ref] 2 [file_ex_a; file_ex_b; file_ex_c] with
  | MOk out =>
      map mate_view out = [(97, Some 0, Some 10, 12%Z); (145, Some 0, Some 2, (-12)%Z); (65, None, None, 0%Z)] /\
      map rec_cigar out = [[(KM, 4)]; [(KM, 4)]; [(KS, 1); (KM, 3)]] /\
      map (rec_bases [file_ex_ref]) out = [Some [67;71;84;65]; Some [67;71;65;65]; Some [84;65;67;71]] /\
      map m_dist (match file_write [file_ex_ref] 2 [file_ex_a; file_ex_b; file_ex_c] with
                  | Some (s0 :: _) => s0 | _ => [] end) = [Some 0; None]
  | _ => False
  end /\
  mapped_wf [file_ex_ref] file_ex_b file_ex_ref 10.
Proof.
  split; [vm_compute; reflexivity|]. split; [vm_compute; repeat split; reflexivity|].
  unfold mapped_wf. repeat split; try (vm_compute; reflexivity); try discriminate.
  - exists 0. split; reflexivity.
  - repeat constructor.
Qed.

Example c07_hostile_distance_witnesses :
  mdist_rt [file_ex_ref] [file_ex_c; file_ex_c] [(4, 2147483647); (2, 0)] = MReadErr /\
  mdist_rt [file_ex_ref] [file_ex_c; file_ex_c] [(4, 4294967295); (2, 0)] = MReadErr /\
  mdist_rt [file_ex_ref] [file_ex_c; file_ex_c] [(4, 1); (2, 0)] = MReadErr /\
  match mdist_rt [file_ex_ref] [file_ex_c; file_ex_c] [(4, 0); (6, 7)] with
  | MOk out => map mate_view out = [(65, Some 0, Some 5, 3%Z); (65, Some 0, Some 5, (-3)%Z)]
  | _ => False
  end.
Proof. vm_compute. repeat split; reflexivity. Qed.

(* ------------------------------------------------------------------------------------------ *)
(* The read-name series (RN) at the byte level (NV.CramRec.FileNames): ByteArrayStop with stop   *)
(* byte 0x00; the serialisation premise of c07_file_roundtrip made concrete for this series.     *)

(* the RN block of a slice decodes to the names that were written, for every slice whose names
   hold no NUL byte and are not the literal `*` (which IS the missing name); whatever follows the
   block's last name is left untouched *)
Theorem c07_names_series_roundtrip : forall rs rest, names_ok rs ->
  dec_names (length rs) (enc_names rs ++ rest) = Some (map m_name rs, rest).
Proof. exact dec_enc_names. Qed.
Print Assumptions c07_names_series_roundtrip.

(* the file whose slices carry their names as the bytes of the RN block ([file_rt_names]) is the
   value-level file on every stream of such names, so the file-level round trip holds with the
   names going through the byte level: the records come back in order with FLAG / RNEXT / PNEXT /
   TLEN, the NAME, and the name-independent fields of the converted records *)
Theorem c07_file_roundtrip_with_names : forall refs rps ss, (1 <= rps)%nat -> stream_names_ok ss ->
  file_rt_names refs rps ss = file_rt refs rps ss /\
  file_rt_names refs rps ss <> MReadErr /\
  forall out, file_rt_names refs rps ss = MOk out ->
    length out = length ss /\
    map mate_view out = map (fun s => (s_flags s, s_mref s, s_mstart s, s_tlen s)) ss /\
    map m_name out = map s_name ss /\
    exists rs, convert_all refs ss = Some rs /\
      map stat_view out = map stat_view (map drop_unmapped_feats rs).
Proof.
  intros refs rps ss Hk Hs. split; [exact (file_rt_names_eq refs rps ss Hk Hs)|].
  exact (file_roundtrip_names refs rps ss Hk Hs).
Qed.
Print Assumptions c07_file_roundtrip_with_names.

(* Without the premise on the names: the class cram-read-name-with-nul-byte-shifts-names (the
   writer accepted a name with a NUL byte and the records of that slice read back with shifted
   names - `a\0b`, `c`, `d` came back as `a`, `b`, `c`) is repaired in /repo 61aefd0: the
   ByteArrayStop encoder refuses a value that holds its stop byte, so a stream with a NUL byte in a
   name IS REJECTED with InvalidInput (FileNames.stop_byte_refused = true) *)
Definition names_ex (nm : list N) (pos : N) : samrec :=
  samrec_of 65 (Some nm) (Some 0) (Some pos) [(KM, 4)] [67;71;84;65] [30;30;30;30] None None 0%Z.
Theorem c07_names_nul_rejected : forall refs rps ss, stream_has_nul ss = true ->
  file_rt_names refs rps ss = MWriteErr /\ file_name_blocks refs rps ss = None.
Proof. exact file_rt_names_nul_rejected. Qed.
Print Assumptions c07_names_nul_rejected.

Example c07_names_nul_witness :
  stream_has_nul [names_ex [97;0;98] 2; names_ex [99] 6; names_ex [100] 10] = true /\
  file_rt_names [file_ex_ref] 3 [names_ex [97;0;98] 2; names_ex [99] 6; names_ex [100] 10] = MWriteErr /\
  (* the value-level file, which knows nothing of the byte level, would keep the names *)
  match file_rt [file_ex_ref] 3 [names_ex [97;0;98] 2; names_ex [99] 6; names_ex [100] 10] with
  | MOk out => map m_name out = [Some [97;0;98]; Some [99]; Some [100]]
  | _ => False
  end.
Proof. vm_compute. repeat split; reflexivity. Qed.

Example c07_names_nonvacuous :
  stream_names_ok [file_ex_a; file_ex_b; file_ex_c] /\
  file_name_blocks [file_ex_ref] 2 [file_ex_a; file_ex_b; file_ex_c] = Some [[113;0;113;0]; [113;0]] /\
  file_name_blocks [file_ex_ref] 3 [names_ex [97;0;98] 2; names_ex [99] 6; names_ex [100] 10] = None.
Proof.
  split; [|split; vm_compute; reflexivity].
  repeat constructor; cbn; try (intros [H|[]]; discriminate); discriminate.
Qed.

(* ------------------------------------------------------------------------------------------ *)
(* The soft-clip / insertion base series (SC / IN) at the byte level (NV.CramRec.FeaturesStop):  *)
(* ByteArrayStop with stop byte 0x00.  [roundtrip_stop] = [roundtrip] with every soft clip and   *)
(* insertion re-read from its series' block; it is what the `feat` kind compares.               *)

(* without a NUL byte among the bases the byte level changes nothing - for every record, accepted
   or not, whatever its CIGAR *)
Theorem c07_features_stop_identity : forall sm refseq seq quals ops start, ~ In 0 seq ->
  roundtrip_stop sm refseq seq quals ops start = roundtrip sm refseq seq quals ops start.
Proof. exact roundtrip_stop_eq. Qed.
Print Assumptions c07_features_stop_identity.

(* so the per-record round trip holds through the byte level of these series *)
Theorem c07_record_roundtrip_bytes_partial :
  forall sm refseq seq quals ops start,
    valid_sm sm -> Forall (fun o => 0 < snd o) ops -> read_len ops = len seq ->
    seq <> [] -> ~ In 0 seq -> (quals = [] \/ len quals = len seq) ->
    1 <= start -> start <= len refseq -> start + ref_len ops <= len refseq + 1 ->
    cigar_to_features true refseq seq (writer_quals seq quals) ops start <> None ->
    exists s, roundtrip_stop sm refseq seq quals ops start = ROk (simplify (norm_ops ops)) s
              /\ eq_nocase_list s seq = true.
Proof.
  intros sm refseq seq quals ops start H1 H2 H3 H4 Hn H5 H6 H7 H8 H9.
  rewrite (roundtrip_stop_eq sm refseq seq quals ops start Hn).
  exact (roundtrip_ok sm refseq seq quals ops start H1 H2 H3 H4 H5 H6 H7 H8 H9).
Qed.
Print Assumptions c07_record_roundtrip_bytes_partial.

(* With a NUL byte in a soft clip / insertion: the class
   cram-clip-or-insertion-base-nul-byte-cuts-feature (POS 5, CIGAR 2S3M, bases `A\0ACG` read back as
   1S4M AACGT) is repaired in /repo 61aefd0.  Now, for EVERY record, the byte level of the SC / IN
   series either changes nothing or the writer answers InvalidInput - never a silent change *)
Theorem c07_features_stop_same_or_refused : forall sm refseq seq quals ops start,
  roundtrip_stop sm refseq seq quals ops start = roundtrip sm refseq seq quals ops start \/
  roundtrip_stop sm refseq seq quals ops start = RInvalidInput.
Proof. exact roundtrip_stop_same_or_refused. Qed.
Print Assumptions c07_features_stop_same_or_refused.

(* ... and a record that reaches the encoder with a NUL byte in a stored soft clip / insertion IS
   REJECTED with InvalidInput *)
Theorem c07_features_stop_nul_rejected : forall sm refseq seq quals ops start ws fs,
  len (record_quals (record_read_length seq ops) quals) = record_read_length seq ops ->
  start <= len refseq ->
  record_features refseq seq (record_quals (record_read_length seq ops) quals) ops start = Some ws ->
  encode_features sm ws = Some fs -> forallb fnostopb fs = false ->
  roundtrip_stop sm refseq seq quals ops start = RInvalidInput.
Proof. exact roundtrip_stop_nul_rejected. Qed.
Print Assumptions c07_features_stop_nul_rejected.

Example c07_features_stop_witness :
  roundtrip default_sm file_ex_ref [65;0;65;67;71] [30;30;30;30;30] [(KS, 2); (KM, 3)] 5
    = ROk [(KS, 2); (KM, 3)] [65;0;65;67;71] /\
  roundtrip_stop default_sm file_ex_ref [65;0;65;67;71] [30;30;30;30;30] [(KS, 2); (KM, 3)] 5 = RInvalidInput /\
  roundtrip_stop default_sm file_ex_ref [65;65;0;67;71] [30;30;30;30;30] [(KM, 1); (KI, 2); (KM, 2)] 5 = RInvalidInput.
Proof. vm_compute. repeat split; reflexivity. Qed.


(* ------------------------------------------------------------------------------------------------
   block_count / block_content_ids of a slice header (NV.CramRec.SliceBlocks mirrors build_blocks /
   build_slice of io/writer/container/slice.rs and write_block_count / write_block_content_ids).
   `bufs` = the (content id, buffer length) pairs of the external data writers in the ITERATION ORDER
   of the writer's HashMap, which is arbitrary: every statement holds for any order. *)

(* block_count = the number of blocks that follow the slice header = 1 + non-empty buffers *)
Theorem c07_slice_block_count_is_blocks_written : forall core_len bufs,
  sb_count bufs = sb_lenN (sb_blocks core_len bufs) /\ sb_count bufs = 1 + sb_lenN (sb_ext bufs).
Proof. intros. split; [apply sb_count_is_block_count | apply sb_count_value]. Qed.
Print Assumptions c07_slice_block_count_is_blocks_written.

(* the header lists exactly the content ids of those blocks, in their order; core (type 5, id 0)
   first, then external blocks (type 4) *)
Theorem c07_slice_content_ids_are_block_ids : forall core_len bufs,
  sb_ids bufs = map sd_id (sb_blocks core_len bufs) /\
  map sd_type (sb_blocks core_len bufs) = sb_type_core :: repeat sb_type_ext (length (sb_ext bufs)).
Proof. intros. split; [apply sb_ids_are_block_ids | apply sb_block_types]. Qed.
Print Assumptions c07_slice_content_ids_are_block_ids.

(* no empty external block is written; an id is listed iff it is the core id or its buffer is non-empty *)
Theorem c07_slice_external_blocks_nonempty : forall core_len bufs d,
  In d (sb_blocks core_len bufs) -> sd_type d = sb_type_ext -> sd_raw d <> 0%N.
Proof. exact sb_external_blocks_nonempty. Qed.
Print Assumptions c07_slice_external_blocks_nonempty.

Theorem c07_slice_content_id_listed_iff : forall bufs id,
  In id (sb_ids bufs) <-> id = sb_core_id \/ exists len, In (id, len) bufs /\ len <> 0%N.
Proof. exact sb_id_listed_iff. Qed.
Print Assumptions c07_slice_content_id_listed_iff.

(* HashMap keys are pairwise different and none is 0: the content ids of a slice are pairwise different *)
Theorem c07_slice_content_ids_distinct : forall bufs,
  NoDup (map fst bufs) -> ~ In sb_core_id (map fst bufs) -> NoDup (sb_ids bufs).
Proof. exact sb_ids_nodup. Qed.
Print Assumptions c07_slice_content_ids_distinct.

(* the HashMap's iteration order only permutes the external ids *)
Theorem c07_slice_blocks_order_irrelevant : forall bufs bufs',
  Permutation.Permutation bufs bufs' ->
  sb_count bufs = sb_count bufs' /\
  Permutation.Permutation (sb_ids bufs) (sb_ids bufs') /\
  hd_error (sb_ids bufs) = Some sb_core_id /\ hd_error (sb_ids bufs') = Some sb_core_id.
Proof. exact sb_order_irrelevant. Qed.
Print Assumptions c07_slice_blocks_order_irrelevant.

(* bytes of the two fields: refused (InvalidInput) iff the count is not an i32; otherwise the
   reader's read_itf8_as / read_block_content_ids read back count and ids and leave the rest *)
Theorem c07_slice_block_fields_refused_iff : forall bufs,
  sb_header_bytes bufs = None <-> (sb_i32_max < sb_count bufs)%N.
Proof. exact sb_header_bytes_error_iff. Qed.
Print Assumptions c07_slice_block_fields_refused_iff.

Theorem c07_slice_block_fields_read_back : forall bufs bs rest,
  Forall (fun b => (fst b < 4294967296)%N) bufs ->
  sb_header_bytes bufs = Some bs ->
  sb_read_header (bs ++ rest) = Some (sb_count bufs, sb_ids bufs, rest).
Proof. exact sb_header_read_back. Qed.
Print Assumptions c07_slice_block_fields_read_back.
