(* C19 -- CRAM indexing and region queries return exactly the scan-filtered records.
   Property theorems only.  The model is NV.CramIdx.Crai: [index] mirrors noodles-cram
   src/fs/index.rs, [query] mirrors src/io/reader/query.rs, [slice_ctx] mirrors the reference
   context the writer stores in each slice header (io/writer/container/slice.rs,
   container/reference_sequence_context.rs).  A written file is a list of containers with one
   slice each (the noodles writer never puts two slices in a container).

   [file_ok pos f]: containers are laid out back to back from [pos] (each at its true offset,
   header non-empty, body length = landmark + slice length), every slice is non-empty, its
   header context is the one the writer computes from its records, and every record has
   start <= end <= usize::MAX.  No sortedness is needed by any theorem below. *)
From Coq Require Import List NArith.
From NV Require Import CramIdx.Crai CramIdx.CraiProofs.
Import ListNotations.
Open Scope N_scope.

(* The index lists every slice: its entries are exactly, slice after slice in file order, the
   per-slice entries [spec_entries] computed from the RECORDS alone (not from the header
   context): one entry per reference held by the slice in ascending reference order, preceded
   by one unmapped entry if the slice holds a record without reference, each carrying the
   container's true offset, the slice's landmark and byte length, and start = smallest start,
   span = largest end - smallest start + 1 of that reference's records. *)
Theorem c19_crai_lists_every_slice :
  forall pos f, file_ok pos f -> index pos f = Ok (flat_map spec_entries f).
Proof. exact index_lists_every_slice. Qed.
Print Assumptions c19_crai_lists_every_slice.

Theorem c19_crai_entry_layout :
  forall c e, In e (spec_entries c) ->
    e_off e = c_off c /\ e_landmark e = c_landmark c /\ e_slen e = c_slen c.
Proof. exact spec_entry_layout. Qed.
Print Assumptions c19_crai_entry_layout.

(* exactly one entry per reference held by the slice (and one unmapped entry iff needed) *)
Theorem c19_crai_one_entry_per_reference :
  forall c, NoDup (map e_rid (spec_entries c)) /\
    (forall r, (exists e, In e (spec_entries c) /\ e_rid e = Some r) <->
               (exists x, In x (c_recs c) /\ rid x = Some r)) /\
    ((exists e, In e (spec_entries c) /\ e_rid e = None) <->
     (exists x, In x (c_recs c) /\ rid x = None)).
Proof.
  intros c. split; [apply spec_entries_rids_NoDup|].
  split; [intros r; apply spec_entries_ref_iff|apply spec_entries_unmapped_iff].
Qed.
Print Assumptions c19_crai_one_entry_per_reference.

(* every record of reference r in a slice lies inside [start, start + span - 1] of the entry
   that the index holds for (that container, r) *)
Theorem c19_crai_span_covers_records :
  forall pos f es c x r,
    file_ok pos f -> index pos f = Ok es -> In c f -> In x (c_recs c) -> rid x = Some r ->
    exists e st, In e es /\ e_rid e = Some r /\ e_off e = c_off c /\ e_landmark e = c_landmark c /\
                 e_slen e = c_slen c /\ e_start e = Some st /\ st <= rs x /\ re x <= st + e_span e - 1.
Proof. exact index_span_covers_records. Qed.
Print Assumptions c19_crai_span_covers_records.

(* ... and the span is tight: it starts at the start of one of those records and ends at the
   end of one of them *)
Theorem c19_crai_span_tight :
  forall c e r st,
    Forall rec_ok (c_recs c) -> In e (spec_entries c) -> e_rid e = Some r -> e_start e = Some st ->
    (exists x, In x (c_recs c) /\ rid x = Some r /\ rs x = st) /\
    (exists y, In y (c_recs c) /\ rid y = Some r /\ re y = st + e_span e - 1).
Proof. exact spec_entries_tight. Qed.
Print Assumptions c19_crai_span_tight.

(* The query, through the index built by [index], returns exactly what a scan keeps -- the
   records on the named reference that intersect the region, in file order, each as often as it
   occurs in the file (once) -- for every well-formed file, every reference and every region. *)
Theorem c19_query_equals_scan :
  forall pos f es r lo hi,
    file_ok pos f -> index pos f = Ok es -> query es f r lo hi = scan f r lo hi.
Proof. exact query_through_index. Qed.
Print Assumptions c19_query_equals_scan.

(* History (finding F17, `cram-query-ignores-reference-id`, repaired by 6527417): the old filter
   looked at the interval only.  It agreed with the scan exactly outside the class "a slice holds
   a record of the queried reference together with a record of another reference whose
   coordinates fall in the interval", and not inside it. *)
Theorem c19_query_old_equals_scan_outside_f17 :
  forall pos f es r lo hi,
    file_ok pos f -> index pos f = Ok es -> ~ f17_class f r lo hi ->
    query_old es f r lo hi = scan f r lo hi.
Proof. exact query_old_through_index_outside_f17. Qed.
Print Assumptions c19_query_old_equals_scan_outside_f17.

Theorem c19_query_old_refuted :
  exists pos f r lo hi, file_ok pos f /\ query_old (index_core pos f) f r lo hi <> scan f r lo hi.
Proof. exact query_old_equals_scan_refuted. Qed.
Print Assumptions c19_query_old_refuted.

(* what the query does, for any record filter [sel]: the filtered records of exactly those slices
   that hold a record of the queried reference, each slice visited once, in file order *)
Theorem c19_query_characterised :
  forall sel pos f r lo hi, file_ok pos f ->
    query_gen sel (index_core pos f) f r lo hi =
    flat_map (fun c => if existsb (on_ref r) (c_recs c) then filter (sel r lo hi) (c_recs c) else []) f.
Proof. exact query_gen_characterised. Qed.
Print Assumptions c19_query_characterised.

(* each record once: distinct read names in the file give distinct read names in the answer *)
Theorem c19_scan_no_duplicates :
  forall f r lo hi, NoDup (map rname (flat_map c_recs f)) -> NoDup (map rname (scan f r lo hi)).
Proof. exact scan_sublist_NoDup. Qed.
Print Assumptions c19_scan_no_duplicates.

(* ---- non-vacuity ------------------------------------------------------------------------- *)

(* three containers: a single-reference slice, a multi-reference slice with an unmapped record,
   an unmapped slice *)
Definition c19_example_file : list container :=
  [ written 300 20 500 180 320 [mkrec 0 (Some 0) 5 9 false; mkrec 1 (Some 0) 7 30 false];
    written 820 22 610 190 420 [mkrec 2 (Some 0) 40 44 false; mkrec 3 (Some 2) 3 12 false; mkrec 4 (Some 2) 8 10 false; mkrec 5 None 0 0 true];
    written 1452 18 400 170 230 [mkrec 6 None 0 0 true] ].

Example c19_example_ok : file_ok 300 c19_example_file.
Proof.
  split.
  - cbn. repeat split; reflexivity.
  - repeat constructor; cbn; try discriminate; unfold usize_max; try reflexivity; intros H; discriminate H.
Qed.

Example c19_example_index :
  index 300 c19_example_file =
  Ok [ mkentry (Some 0) (Some 5) 26 300 180 320;
       mkentry None None 0 820 190 420;
       mkentry (Some 0) (Some 40) 5 820 190 420;
       mkentry (Some 2) (Some 3) 10 820 190 420;
       mkentry None None 0 1452 170 230 ].
Proof. vm_compute. reflexivity. Qed.

Example c19_example_query :
  map rname (query (index_core 300 c19_example_file) c19_example_file 0 30 41) = [1; 2] /\
  map rname (query (index_core 300 c19_example_file) c19_example_file 0 1 50) = [0; 1; 2] /\
  map rname (query (index_core 300 c19_example_file) c19_example_file 2 9 9) = [3; 4] /\
  query_region 3 (index_core 300 c19_example_file) c19_example_file 1 None None = Ok [] /\
  query_region 3 (index_core 300 c19_example_file) c19_example_file 3 None None = ErrInvalidInput.
Proof. vm_compute. repeat split; reflexivity. Qed.

(* the old filter also returned r3 and r4 of reference 2 for reference 0, region 1..50 *)
Example c19_example_f17 :
  map rname (query_old (index_core 300 c19_example_file) c19_example_file 0 1 50) = [0; 1; 2; 3; 4]
  /\ map rname (scan c19_example_file 0 1 50) = [0; 1; 2].
Proof. vm_compute. split; reflexivity. Qed.
