(* C19 -- CRAM indexing and region queries return exactly the scan-filtered records.
   Property theorems only.  The model is NV.CramIdx.Crai: [index] mirrors noodles-cram
   src/fs/index.rs, [query] mirrors src/io/reader/query.rs, [slice_ctx] mirrors the reference
   context the writer stores in each slice header (io/writer/container/slice.rs,
   container/reference_sequence_context.rs).  A written file is a list of containers with one
   slice each (the noodles writer never puts two slices in a container).

   [file_ok pos f]: containers are laid out back to back from [pos] (each at its true offset,
   header non-empty, body length = landmark + slice length), every slice is non-empty, its
   header context is the one the writer computes from its records, and every record has
   start <= end <= usize::MAX.  No sortedness is needed by any theorem below. *)
From Coq Require Import List NArith ZArith.
From NV Require Import CramIdx.Crai CramIdx.CraiProofs CramIdx.Multi CramIdx.MultiProofs CramIdx.Transport CramIdx.TransportProofs CramIdx.Bytes CramIdx.BytesProofs.
From NV Require Import Io.Source Io.ReadExact Io.ReadExactProofs Async.ReadExact CramIdx.AsyncQuery CramIdx.AsyncQueryProofs.
From NV Require Import CramIdx.ContainerLink CramIdx.BytesQueryProofs CramIdx.BufViewProofs CramIdx.SpanProofs.
From NV Require Import CramIdx.ZeroSpan CramIdx.ZeroSpanProofs CramIdx.ZeroSpanMulti.
From NV Require Bgzf.Frame Bgzf.Inflate.
From NV Require Import CramIdx.Gz CramIdx.GzProofs.
From NV Require Import Trunc.Stream Trunc.Cram Bgzf.Crc32.
Import ListNotations.
Open Scope N_scope.

(* The index lists every slice: its entries are exactly, slice after slice in file order, the
   per-slice entries [spec_entries] computed from the RECORDS alone (not from the header
   context): one entry per reference held by the slice in ascending reference order, preceded
   by one unmapped entry if the slice holds a record without reference, each carrying the
   container's true offset, the slice's landmark and byte length, and start = smallest start,
   span = largest end - smallest start + 1 of that reference's records. *)
Theorem c19_crai_lists_every_slice :
  forall pos f, file_ok pos f -> index pos f = Ok (flat_map spec_entries f).
Proof. exact index_lists_every_slice. Qed.
Print Assumptions c19_crai_lists_every_slice.

Theorem c19_crai_entry_layout :
  forall c e, In e (spec_entries c) ->
    e_off e = c_off c /\ e_landmark e = c_landmark c /\ e_slen e = c_slen c.
Proof. exact spec_entry_layout. Qed.
Print Assumptions c19_crai_entry_layout.

(* exactly one entry per reference held by the slice (and one unmapped entry iff needed) *)
Theorem c19_crai_one_entry_per_reference :
  forall c, NoDup (map e_rid (spec_entries c)) /\
    (forall r, (exists e, In e (spec_entries c) /\ e_rid e = Some r) <->
               (exists x, In x (c_recs c) /\ rid x = Some r)) /\
    ((exists e, In e (spec_entries c) /\ e_rid e = None) <->
     (exists x, In x (c_recs c) /\ rid x = None)).
Proof.
  intros c. split; [apply spec_entries_rids_NoDup|].
  split; [intros r; apply spec_entries_ref_iff|apply spec_entries_unmapped_iff].
Qed.
Print Assumptions c19_crai_one_entry_per_reference.

(* every record of reference r in a slice lies inside [start, start + span - 1] of the entry
   that the index holds for (that container, r) *)
Theorem c19_crai_span_covers_records :
  forall pos f es c x r,
    file_ok pos f -> index pos f = Ok es -> In c f -> In x (c_recs c) -> rid x = Some r ->
    exists e st, In e es /\ e_rid e = Some r /\ e_off e = c_off c /\ e_landmark e = c_landmark c /\
                 e_slen e = c_slen c /\ e_start e = Some st /\ st <= rs x /\ re x <= st + e_span e - 1.
Proof. exact index_span_covers_records. Qed.
Print Assumptions c19_crai_span_covers_records.

(* ... and the span is tight: it starts at the start of one of those records and ends at the
   end of one of them *)
Theorem c19_crai_span_tight :
  forall c e r st,
    Forall rec_ok (c_recs c) -> In e (spec_entries c) -> e_rid e = Some r -> e_start e = Some st ->
    (exists x, In x (c_recs c) /\ rid x = Some r /\ rs x = st) /\
    (exists y, In y (c_recs c) /\ rid y = Some r /\ re y = st + e_span e - 1).
Proof. exact spec_entries_tight. Qed.
Print Assumptions c19_crai_span_tight.

(* The query, through the index built by [index], returns exactly what a scan keeps -- the
   records on the named reference that intersect the region, in file order, each as often as it
   occurs in the file (once) -- for every well-formed file, every reference and every region. *)
Theorem c19_query_equals_scan :
  forall pos f es r lo hi,
    file_ok pos f -> index pos f = Ok es ->
    query_m selected es (single_file f) r lo hi = Ok (scan f r lo hi).
Proof. exact query_m_single_through_index. Qed.
Print Assumptions c19_query_equals_scan.

(* History (finding F17, `cram-query-ignores-reference-id`, repaired by 6527417): the old filter
   looked at the interval only.  It agreed with the scan exactly outside the class "a slice holds
   a record of the queried reference together with a record of another reference whose
   coordinates fall in the interval", and not inside it. *)
Theorem c19_query_old_equals_scan_outside_f17 :
  forall pos f es r lo hi,
    file_ok pos f -> index pos f = Ok es -> ~ f17_class f r lo hi ->
    query_m selected_old es (single_file f) r lo hi = Ok (scan f r lo hi).
Proof. exact query_m_single_old_outside_f17. Qed.
Print Assumptions c19_query_old_equals_scan_outside_f17.

Theorem c19_query_old_refuted :
  exists pos f r lo hi, file_ok pos f /\
    query_m selected_old (index_core pos f) (single_file f) r lo hi <> Ok (scan f r lo hi).
Proof.
  destruct query_old_equals_scan_refuted as [pos [f [r [lo [hi [Hok Hne]]]]]].
  exists pos, f, r, lo, hi. split; [exact Hok|].
  rewrite (query_m_single_index selected_old pos f r lo hi (proj1 Hok)).
  intros E. inversion E as [E']. exact (Hne E').
Qed.
Print Assumptions c19_query_old_refuted.

(* what the query does, for any record filter [sel]: the filtered records of exactly those slices
   that hold a record of the queried reference, each slice visited once, in file order *)
Theorem c19_query_characterised :
  forall sel pos f r lo hi, file_ok pos f ->
    query_m sel (index_core pos f) (single_file f) r lo hi =
    Ok (flat_map (fun c => if existsb (on_ref r) (c_recs c) then filter (sel r lo hi) (c_recs c) else []) f).
Proof. exact query_m_single_characterised. Qed.
Print Assumptions c19_query_characterised.

(* The query of the theorems above is [query_m] of NV.CramIdx.Multi -- the model that selects the
   slice by the entry's landmark and fails with InvalidData on a landmark that is not a slice --
   run on the file seen as containers of one slice each ([single_file]).  The earlier one-slice
   form [query_gen] of NV.CramIdx.Crai (no landmark test) is its instance whenever every entry
   carries the landmark of the container at its offset, which the entries of [index] do; an entry
   with another landmark is InvalidData. *)
Theorem c19_query_single_slice_instance :
  forall sel es f r lo hi, Forall (lm_agree f) es ->
    query_m sel es (single_file f) r lo hi = Ok (query_gen sel es f r lo hi).
Proof. exact query_m_single_instance. Qed.
Print Assumptions c19_query_single_slice_instance.

Theorem c19_index_entries_carry_container_landmark :
  forall pos f, layout_ok pos f -> Forall (lm_agree f) (index_core pos f).
Proof. intros pos f. exact (index_core_lm_agree f pos). Qed.
Print Assumptions c19_index_entries_carry_container_landmark.

Theorem c19_query_single_slice_bad_landmark :
  forall sel e t f r lo hi c,
    opt_eqb (e_rid e) r = true -> find_container (e_off e) f = Some c -> e_landmark e <> c_landmark c ->
    query_m sel (e :: t) (single_file f) r lo hi = ErrInvalidData.
Proof. exact query_m_single_bad_landmark. Qed.
Print Assumptions c19_query_single_slice_bad_landmark.

(* each record once: distinct read names in the file give distinct read names in the answer *)
Theorem c19_scan_no_duplicates :
  forall f r lo hi, NoDup (map rname (flat_map c_recs f)) -> NoDup (map rname (scan f r lo hi)).
Proof. exact scan_sublist_NoDup. Qed.
Print Assumptions c19_scan_no_duplicates.

(* ---- containers with several slices (NV.CramIdx.Multi) ------------------------------------ *)

(* [mfile_ok pos f]: containers back to back from [pos]; inside a container the stored landmark
   of every slice but the first is the previous landmark plus the previous slice's true size and
   the last slice ends the body ([sl_ok]); every slice is non-empty (records and bytes), carries
   the context the writer computes and records with start <= end <= usize::MAX.
   The index lists every slice of every container, with the slice's own landmark and size. *)
Theorem c19_multislice_index_lists_every_slice :
  forall pos f, mfile_ok pos f -> index_m pos f = Ok (flat_map mspec_entries f).
Proof. intros pos f H. exact (index_m_spec f pos H). Qed.
Print Assumptions c19_multislice_index_lists_every_slice.

(* every entry belongs to one slice: it is one of the per-slice entries computed from that
   slice's records alone, carries the container's offset, the slice's stored landmark -- which
   is the first landmark plus the sizes of the slices before it -- and the slice's true size *)
Theorem c19_multislice_entry_layout :
  forall c e, sl_ok (m_len c) (m_slices c) -> In e (mspec_entries c) ->
    exists pre s post, m_slices c = pre ++ s :: post /\
      In e (multi_entries (m_off c) (s_landmark s) (s_len s) (s_recs s)) /\
      e_off e = m_off c /\ e_landmark e = s_landmark s /\ e_slen e = s_len s /\
      s_landmark s = first_landmark c + sum_len pre.
Proof. exact mspec_entry_layout. Qed.
Print Assumptions c19_multislice_entry_layout.

(* the slices fill the body: length = first landmark (the compression header block) + sizes *)
Theorem c19_multislice_body_length :
  forall c, m_slices c <> [] -> sl_ok (m_len c) (m_slices c) ->
    m_len c = first_landmark c + sum_len (m_slices c).
Proof.
  intros c Hne Hl. apply (sl_ok_total (m_slices c) (m_len c) (first_landmark c) Hne Hl).
  unfold first_landmark. destruct (m_slices c); [exact I|reflexivity].
Qed.
Print Assumptions c19_multislice_body_length.

(* the one-slice-per-container files of the theorems above are the one-slice instance *)
Theorem c19_multislice_generalises_single :
  forall pos f, layout_ok pos f -> index_m pos (map of_container f) = index pos f.
Proof. intros pos f H. unfold index. exact (index_m_of_container f pos H). Qed.
Print Assumptions c19_multislice_generalises_single.

(* every record of a slice lies inside the span of the entry the index holds for (that
   container, that slice, the record's reference) *)
Theorem c19_multislice_span_covers_records :
  forall pos f es c s x r,
    mfile_ok pos f -> index_m pos f = Ok es ->
    In c f -> In s (m_slices c) -> In x (s_recs s) -> rid x = Some r ->
    exists e st, In e es /\ e_rid e = Some r /\ e_off e = m_off c /\ e_landmark e = s_landmark s /\
                 e_slen e = s_len s /\ e_start e = Some st /\ st <= rs x /\ re x <= st + e_span e - 1.
Proof. exact index_m_span_covers_records. Qed.
Print Assumptions c19_multislice_span_covers_records.

(* what Reader::query returns on such files, for ANY record filter (after the repair 944089d:
   only the slice at the entry's landmark is decoded): slice after slice in file order, the
   filtered records of exactly the slices that hold a record of the queried reference *)
Theorem c19_multislice_query_characterised :
  forall sel pos f es r lo hi, mfile_ok pos f -> index_m pos f = Ok es ->
    query_m sel es f r lo hi =
    Ok (flat_map (fun c => flat_map (fun s => if existsb (on_ref r) (s_recs s)
                                              then filter (sel r lo hi) (s_recs s) else []) (m_slices c)) f).
Proof. exact query_m_characterised. Qed.
Print Assumptions c19_multislice_query_characterised.

(* hence query = scan on EVERY well-formed file, whatever the number of slices per container
   and however the references are spread over them: the records on the named reference that
   intersect the region, in file order, each once *)
Theorem c19_multislice_query_equals_scan :
  forall pos f es r lo hi, mfile_ok pos f -> index_m pos f = Ok es ->
    query_m selected es f r lo hi = Ok (scan_m f r lo hi).
Proof. exact query_m_equals_scan. Qed.
Print Assumptions c19_multislice_query_equals_scan.

(* an index entry whose landmark is not a slice of its container is an error, not an answer *)
Theorem c19_query_bad_landmark_is_invalid_data :
  exists pos f es r lo hi, mfile_ok pos f /\ index_m pos f = Ok es /\
    query_m selected (bump_landmark 1 es) f r lo hi = ErrInvalidData.
Proof.
  exists 100, dup_witness, (flat_map mspec_entries dup_witness), 0, 1, 100.
  split; [exact dup_witness_ok|]. split; [rewrite (index_m_spec _ _ dup_witness_ok); reflexivity|].
  exact query_m_bad_landmark.
Qed.
Print Assumptions c19_query_bad_landmark_is_invalid_data.

(* History (finding cram-query-multislice-container-records-repeated, repaired by 944089d): the
   old query [query_m_v0] decoded the whole container for every entry; it agreed with the scan
   only when no container had two slices on the queried reference and returned records twice
   otherwise. *)
Theorem c19_query_v0_equals_scan_single_holder :
  forall pos f es r lo hi, mfile_ok pos f -> index_m pos f = Ok es ->
    (forall c, In c f -> (length (holders r c) <= 1)%nat) ->
    query_m_v0 selected es f r lo hi = scan_m f r lo hi.
Proof. exact query_m_v0_equals_scan. Qed.
Print Assumptions c19_query_v0_equals_scan_single_holder.

Theorem c19_query_v0_multislice_duplicates_refuted :
  exists pos f es r lo hi, mfile_ok pos f /\ index_m pos f = Ok es /\
    map rname (query_m_v0 selected es f r lo hi) = [0; 1; 0; 1] /\ map rname (scan_m f r lo hi) = [0; 1].
Proof. exact query_m_v0_duplicates. Qed.
Print Assumptions c19_query_v0_multislice_duplicates_refuted.

(* ---- query_unmapped ------------------------------------------------------------------------ *)

(* query_unmapped through the index (after the repairs 47f309c, 5cbbdb3) returns, on EVERY
   well-formed file (any number of slices per container, no sortedness, with or without unplaced
   records), exactly the records a scan keeps with the same test -- no reference id and the
   UNMAPPED flag -- in file order, each once *)
Theorem c19_query_unmapped_equals_scan_flagged :
  forall pos f es, mfile_ok pos f -> index_m pos f = Ok es ->
    query_unmapped es f = Ok (filter unplaced_flagged (flat_map m_recs f)).
Proof. exact query_unmapped_equals_scan_flagged. Qed.
Print Assumptions c19_query_unmapped_equals_scan_flagged.

(* ... which are ALL the unplaced records when unplaced records carry the flag (SAM: a record
   without RNAME is unmapped) *)
Theorem c19_query_unmapped_equals_scan :
  forall pos f es, mfile_ok pos f -> index_m pos f = Ok es ->
    Forall (fun x => is_unmapped x = true -> runm x = true) (flat_map m_recs f) ->
    query_unmapped es f = Ok (scan_unplaced f).
Proof. exact query_unmapped_equals_scan. Qed.
Print Assumptions c19_query_unmapped_equals_scan.

(* History (findings cram-query-unmapped-no-unplaced-records-errors, repaired by 47f309c, and
   cram-query-unmapped-returns-placed-records-of-boundary-container, repaired by 5cbbdb3): the
   old [query_unmapped_v0] gave the scan's answer only on files that hold an unplaced record and
   are [tail_clean] ... *)
Theorem c19_query_unmapped_v0_equals_scan_tail_clean :
  forall pos f es, mfile_ok pos f -> index_m pos f = Ok es -> tail_clean f ->
    existsb is_unmapped (flat_map m_recs f) = true ->
    query_unmapped_v0 es f = Ok (scan_unplaced f).
Proof. exact query_unmapped_v0_equals_scan. Qed.
Print Assumptions c19_query_unmapped_v0_equals_scan_tail_clean.

Theorem c19_tail_clean_of_sorted :
  forall f,
    Forall (fun x => is_unmapped x = true -> runm x = true) (flat_map m_recs f) ->
    (forall pre c post, f = pre ++ c :: post -> existsb is_unmapped (m_recs c) = true ->
       Forall (fun x => is_unmapped x = true) (flat_map m_recs post)) ->
    (forall c, In c f -> existsb is_unmapped (m_recs c) = true -> existsb placed_flagged (m_recs c) = false) ->
    tail_clean f.
Proof. exact tail_clean_sorted. Qed.
Print Assumptions c19_tail_clean_of_sorted.

(* ... failed with UnexpectedEof when there was no unplaced record ... *)
Theorem c19_query_unmapped_v0_none_refuted :
  forall pos f es, mfile_ok pos f -> index_m pos f = Ok es ->
    existsb is_unmapped (flat_map m_recs f) = false ->
    query_unmapped_v0 es f = ErrUnexpectedEof /\ scan_unplaced f = [].
Proof. exact query_unmapped_v0_none_errors. Qed.
Print Assumptions c19_query_unmapped_v0_none_refuted.

(* ... and returned a placed record with the UNMAPPED flag of the boundary container *)
Theorem c19_query_unmapped_v0_boundary_refuted :
  exists pos f es, mfile_ok pos f /\ index_m pos f = Ok es /\
    option_map (map rname) (match query_unmapped_v0 es f with Ok l => Some l | _ => None end) = Some [1; 2] /\
    map rname (scan_unplaced f) = [2] /\
    map rname (filter runm (flat_map m_recs f)) = [0; 1; 2].
Proof. exact query_unmapped_v0_boundary. Qed.
Print Assumptions c19_query_unmapped_v0_boundary_refuted.

(* ---- through a .crai file (NV.CramIdx.Transport over C17's NV.Index.TextIndex) ------------ *)

(* [mcont_fits]: reference ids fit an i32 and starts are positions (>= 1) -- what the crai text
   can carry -- and offsets / lengths are below 2^64.  Every entry of the index of such a file
   can be written. *)
Theorem c19_index_entries_fit_crai :
  forall pos f es, mfile_ok pos f -> Forall mcont_fits f -> index_m pos f = Ok es -> Forall entry_fits es.
Proof. exact index_entries_fit. Qed.
Print Assumptions c19_index_entries_fit_crai.

(* the text written by crai::io::Writer is read back by crai::io::Reader as the same index *)
Theorem c19_crai_text_roundtrip :
  forall es, Forall entry_fits es -> read_index (crai_text es) = Some es.
Proof. exact read_index_roundtrip. Qed.
Print Assumptions c19_crai_text_roundtrip.

(* via-file: the index built by cram::fs::index, written to a .crai and read back, answers
   every region query and query_unmapped exactly as the index in memory does (and so, by the
   theorems above, as the scan does) *)
Theorem c19_via_file_query :
  forall pos f es nrefs r lo hi,
    mfile_ok pos f -> Forall mcont_fits f -> index_m pos f = Ok es ->
    query_via_file nrefs es f r lo hi = Some (query_region_m nrefs es f r lo hi).
Proof. exact query_via_file_same. Qed.
Print Assumptions c19_via_file_query.

Theorem c19_via_file_query_unmapped :
  forall pos f es,
    mfile_ok pos f -> Forall mcont_fits f -> index_m pos f = Ok es ->
    query_unmapped_via_file es f = Some (query_unmapped es f).
Proof. exact query_unmapped_via_file_same. Qed.
Print Assumptions c19_via_file_query_unmapped.

(* ---- from the bytes of the file (NV.CramIdx.Bytes over C13's NV.Trunc.Cram) ---------------- *)

(* [index_of_bytes crc file recs]: Reader::read_header, then the loop of cram::fs::index over the
   containers as framed by C13's [cram_parse_container] at absolute positions, the slices cut out
   of the body by the stored landmarks, every slice header block parsed (block CRC verified), the
   entries built by [index_m]; [recs] are the records of the slices (used for multi-reference
   slices only).  For ANY CRC function and ANY byte string: every entry of a successful result
   points at a container header of the file, carries one of that header's landmarks, spans a
   range of the body that starts with a slice header block, and -- for a single-reference or
   unmapped slice -- has the reference, start and span stored in that block. *)
Theorem c19_bytes_entries_point_at_slice_headers :
  forall crc file recs es e,
    index_of_bytes crc file recs = BOk es -> In e es ->
    exists h body rest src sh rest',
      cram_parse_container crc (at_ (e_off e) file) = POk (h, body, false) rest /\
      In (e_landmark e) (ch_landmarks h) /\
      e_landmark e + e_slen e <= N.of_nat (length body) /\
      slice_bytes body (e_landmark e) (e_landmark e + e_slen e) = Some src /\
      r_slice_header crc src = POk sh rest' /\
      (forall r s e', ctx_of_shdr sh = Single r s e' ->
         e_rid e = Some r /\ e_start e = Some s /\ e_span e = e' - s + 1) /\
      (ctx_of_shdr sh = Unmapped -> e_rid e = None /\ e_start e = None /\ e_span e = 0).
Proof. exact entries_point_at_bytes. Qed.
Print Assumptions c19_bytes_entries_point_at_slice_headers.

(* the index from the bytes is [index_m] of the layout read from the bytes, to which the
   theorems of the multi-slice section apply *)
Theorem c19_bytes_index_is_index_of_layout :
  forall crc file recs p0 f,
    mfile_of_bytes crc file recs = BOk (p0, f) ->
    index_of_bytes crc file recs = match index_m p0 f with Ok es => BOk es | _ => BErr InvalidData end.
Proof. exact index_of_bytes_is_index_m. Qed.
Print Assumptions c19_bytes_index_is_index_of_layout.

(* the index entry of a single-reference slice carries what the slice header DECLARES (slice
   header fields as given: reference id >= 0, alignment start >= 1, alignment span >= 1, which is
   what ReferenceSequenceContext::try_from accepts): reference = the declared id, start = the
   declared alignment start, span = the declared alignment span; -1 gives the unmapped entry *)
Theorem c19_bytes_entry_is_what_slice_header_declares :
  forall crc file recs es e,
    index_of_bytes crc file recs = BOk es -> In e es ->
    exists h body rest src sh rest',
      cram_parse_container crc (at_ (e_off e) file) = POk (h, body, false) rest /\
      slice_bytes body (e_landmark e) (e_landmark e + e_slen e) = Some src /\
      r_slice_header crc src = POk sh rest' /\
      ((0 <= sh_rid sh)%Z -> (1 <= sh_start sh)%Z -> (1 <= sh_span sh)%Z ->
         e_rid e = Some (Z.to_N (sh_rid sh)) /\ e_start e = Some (Z.to_N (sh_start sh)) /\
         e_span e = Z.to_N (sh_span sh)) /\
      (sh_rid sh = (-1)%Z -> e_rid e = None /\ e_start e = None /\ e_span e = 0).
Proof. exact entry_fields_are_declared. Qed.
Print Assumptions c19_bytes_entry_is_what_slice_header_declares.

(* ---- the async reader (NV.CramIdx.AsyncQuery over C16's NV.Async.ReadExact) ------------------ *)

(* [async_queries crc f file codes seeks chunk p0 nrefs es qs]: the queries [qs], one after the
   other on ONE async reader positioned after the header, over a source that follows the read poll
   script [codes] (Pending / Ready with at most k bytes) and the seek script [seeks] (one event per
   AsyncSeek::poll_complete call), read_to_end asking for [chunk] bytes at a time: every entry of
   the queried reference costs a polled seek (tokio's Seek future), the awaited reads of the
   container header byte by byte (ITF8/LTF8 through read_u8), its CRC32, the body through
   take + read_to_end, the landmark test and the slice header blocks of the selected slices.
   [sync_queries] is the sync reader over C12's scripted source (chunked deliveries, Interrupted)
   with grouped ITF8/LTF8 reads.  For EVERY poll script, seek script, read_to_end request size and
   sync delivery script the two return the same answers, error kinds included. *)
Theorem c19_async_query_equals_sync :
  forall crc f file codes seeks chunk script p0 nrefs es qs,
    async_queries crc f file codes seeks chunk p0 nrefs es qs = sync_queries crc f file script p0 nrefs es qs.
Proof. exact async_queries_equal_sync. Qed.
Print Assumptions c19_async_query_equals_sync.

Theorem c19_async_query_unmapped_equals_sync :
  forall crc f file codes seeks chunk script p0 es,
    async_query_unmapped crc f file codes seeks chunk p0 es = sync_query_unmapped crc f file script p0 es.
Proof. exact async_query_unmapped_equals_sync. Qed.
Print Assumptions c19_async_query_unmapped_equals_sync.

(* both are the script-free query over the bytes *)
Theorem c19_async_query_closed_form :
  forall crc f file codes seeks chunk p0 nrefs es qs,
    async_queries crc f file codes seeks chunk p0 nrefs es qs
    = map (fun q => query_region_p crc f file nrefs es (fst (fst q)) (snd (fst q)) (snd q)) qs.
Proof. exact async_queries_closed. Qed.
Print Assumptions c19_async_query_closed_form.

Theorem c19_async_query_unmapped_closed_form :
  forall crc f file codes seeks chunk p0 es,
    async_query_unmapped crc f file codes seeks chunk p0 es = query_unmapped_p crc f file es.
Proof. exact async_query_unmapped_closed. Qed.
Print Assumptions c19_async_query_unmapped_closed_form.

(* the ingredients: (1) a read program run over ANY reader that behaves like some delivery of
   the bytes returns what it returns on the bytes, whatever the schedule and whatever sizes
   read_to_end asks for *)
Theorem c19_read_program_schedule_independent :
  forall (S : Type) (rd : reader S) (Rep : S -> list N -> nat -> Prop),
    simulates rd Rep ->
    forall (req : nat -> nat) (fuelf : S -> nat -> nat),
    (forall s d m n, Rep s d m -> (m + n < fuelf s n)%nat) ->
    forall (A : Type) (p : prog A) s d m, Rep s d m ->
    exists s' d' m', run_rd rd req fuelf p s = (rr_of (run_pure p d), s')
      /\ Rep s' d' m' /\ (forall a r, run_pure p d = POk a r -> d' = r).
Proof. intros S rd Rep Hsim req fuelf Hfuel A p s d m HR. exact (run_rd_spec rd Rep Hsim req fuelf Hfuel A p s d m HR). Qed.
Print Assumptions c19_read_program_schedule_independent.

(* (2) the byte-by-byte ITF8/LTF8 reads of the async reader frame the same container as the
   grouped reads of the sync reader, on every byte string *)
Theorem c19_async_byte_reads_equal_grouped_reads :
  forall crc d, run_pure (p_read_container crc true) d = run_pure (p_read_container crc false) d.
Proof. exact p_read_container_gran. Qed.
Print Assumptions c19_async_byte_reads_equal_grouped_reads.

(* (3) tokio's Seek future over a source whose poll_complete may return Pending at every call
   -- also the call made before start_seek -- is Ready with the source AT the target, for every
   Pending script *)
Theorem c19_async_seek_lands :
  forall sc fuel c off, (length sc < fuel)%nat ->
    exists sc', seek_await fuel (mkSk c None) (Some off) sc = Some (off, mkSk off None, sc').
Proof. exact seek_await_lands. Qed.
Print Assumptions c19_async_seek_lands.

(* The byte-level query is the layout-level query of the multi-slice section: when the reader's
   program frames every container of the layout at its offset ([cont_read]: header CRC verified,
   body read, the stored landmarks are the layout's, every slice starts with a slice header
   block), the query over the bytes returns what [query_m] returns, error kinds included. *)
Theorem c19_bytes_query_is_layout_query :
  forall crc file f pos es r lo hi,
    mlayout_ok pos f -> Forall (cont_read crc file) f ->
    Forall (fun e => exists c, In c f /\ e_off e = m_off c) es ->
    query_p crc f file es r lo hi = lift_q (query_m selected es f r lo hi).
Proof. exact query_p_is_query_m. Qed.
Print Assumptions c19_bytes_query_is_layout_query.

(* hence the async reader's region query, under every poll script, returns exactly the records a
   scan keeps (on the named reference, intersecting the region, file order, each once) *)
Theorem c19_async_query_equals_scan :
  forall crc f file pos es codes seeks chunk p0 nrefs r lo hi,
    mfile_ok pos f -> index_m pos f = Ok es -> Forall (cont_read crc file) f ->
    (r <? nrefs) = true ->
    async_queries crc f file codes seeks chunk p0 nrefs es [(r, lo, hi)]
    = [AOk (scan_m f r (fst (region_bounds lo hi)) (snd (region_bounds lo hi)))].
Proof. exact async_query_equals_scan. Qed.
Print Assumptions c19_async_query_equals_scan.

(* ---- no framing premise: the layout is read from the same bytes -------------------------- *)

(* The reader's container program IS C13's framing parser (NV.Trunc.Cram.cram_parse_container =
   container/header.rs read_header + container.rs read_container as a function of the bytes that
   are left): on EVERY byte string and for both granularities of the ITF8/LTF8 reads it returns
   the parser's header, body and EOF flag, leaves the parser's rest, fails with the parser's
   error kind, and the header length it reports is what the parser consumed before the body. *)
Theorem c19_container_program_is_framing_parser :
  forall crc g d,
    run_pure (p_read_container crc g) d
    = match cram_parse_container crc d with
      | POk (h, body, eof) r =>
          POk (h, N.of_nat (length d - length r) - N.of_nat (length body), body, eof) r
      | PErr e => PErr e
      end.
Proof. exact container_program_is_framing_parser_g. Qed.
Print Assumptions c19_container_program_is_framing_parser.

(* [mfile_of_bytes crc file recs = BOk (p0, f)]: after the file definition and the header
   container, C13's parser frames container after container up to the EOF container and every
   landmark range of every body starts with a CRC-verified slice header block ([recs] only says
   which records the slices hold).  Then the layout [f] is laid out back to back from [p0], its
   landmarks chain, and the reader's program frames every container of it: the premises
   [mlayout_ok] and [cont_read] of the byte-level query theorems hold. *)
Theorem c19_layout_of_bytes_is_framed :
  forall crc file recs p0 f,
    mfile_of_bytes crc file recs = BOk (p0, f) ->
    mlayout_ok p0 f /\ Forall (cont_read crc file) f /\
    index_of_bytes crc file recs = match index_m p0 f with Ok es => BOk es | _ => BErr InvalidData end.
Proof.
  intros crc file recs p0 f H. split; [exact (mfile_layout crc file recs p0 f H)|].
  split; [exact (mfile_cont_read crc file recs p0 f H)|exact (index_of_bytes_is_index_m crc file recs p0 f H)].
Qed.
Print Assumptions c19_layout_of_bytes_is_framed.

(* so the region query and query_unmapped over the bytes, with the index of those bytes, ARE the
   layout-level query_m / query_unmapped (error kinds included), whatever the records are *)
Theorem c19_bytes_query_is_layout_query_of_bytes :
  forall crc file recs p0 f es r lo hi,
    mfile_of_bytes crc file recs = BOk (p0, f) -> index_m p0 f = Ok es ->
    query_p crc f file es r lo hi = lift_q (query_m selected es f r lo hi).
Proof. intros crc file recs p0 f es r lo hi H. exact (bytes_query_is_layout_query crc file recs p0 f H es r lo hi). Qed.
Print Assumptions c19_bytes_query_is_layout_query_of_bytes.

Theorem c19_bytes_query_unmapped_is_layout_query_unmapped :
  forall crc file recs p0 f es,
    mfile_of_bytes crc file recs = BOk (p0, f) -> index_m p0 f = Ok es ->
    query_unmapped_p crc f file es = lift_q (query_unmapped es f).
Proof. intros crc file recs p0 f es H. exact (bytes_query_unmapped_is_layout_query_unmapped crc file recs p0 f H es). Qed.
Print Assumptions c19_bytes_query_unmapped_is_layout_query_unmapped.

(* With well-formed records in the slices ([slice_ok]: non-empty, slice header context = the
   context of the records, start <= end; record decoding is C07's): the ASYNC reader's region
   query under every read poll script, every AsyncSeek Pending script and every read_to_end
   request size, and the SYNC reader's under every delivery script, return exactly the records a
   scan keeps -- the only hypothesis about the file is that [mfile_of_bytes] reads its layout. *)
Theorem c19_async_query_equals_scan_of_bytes :
  forall crc file recs p0 f,
    mfile_of_bytes crc file recs = BOk (p0, f) ->
    Forall (fun c => Forall slice_ok (m_slices c)) f ->
    forall es codes seeks chunk q0 nrefs r lo hi,
    index_m p0 f = Ok es -> (r <? nrefs) = true ->
    async_queries crc f file codes seeks chunk q0 nrefs es [(r, lo, hi)]
    = [AOk (scan_m f r (fst (region_bounds lo hi)) (snd (region_bounds lo hi)))].
Proof. exact async_query_equals_scan_of_bytes. Qed.
Print Assumptions c19_async_query_equals_scan_of_bytes.

Theorem c19_sync_query_equals_scan_of_bytes :
  forall crc file recs p0 f,
    mfile_of_bytes crc file recs = BOk (p0, f) ->
    Forall (fun c => Forall slice_ok (m_slices c)) f ->
    forall es script q0 nrefs r lo hi,
    index_m p0 f = Ok es -> (r <? nrefs) = true ->
    sync_queries crc f file script q0 nrefs es [(r, lo, hi)]
    = [AOk (scan_m f r (fst (region_bounds lo hi)) (snd (region_bounds lo hi)))].
Proof. exact sync_query_equals_scan_of_bytes. Qed.
Print Assumptions c19_sync_query_equals_scan_of_bytes.

(* query_unmapped: the records stream is followed container after container through the bytes
   (each container's rest is the next container's position, the last one is followed by the EOF
   container) and returns exactly the unplaced records that carry the UNMAPPED flag, in file
   order, each once.  (The form stated in the previous round, with [cont_read] as the premise,
   was too weak: [cont_read] says nothing about what follows the last container; reading the
   layout from the bytes does.) *)
Theorem c19_async_query_unmapped_equals_scan :
  forall crc file recs p0 f,
    mfile_of_bytes crc file recs = BOk (p0, f) ->
    Forall (fun c => Forall slice_ok (m_slices c)) f ->
    forall es codes seeks chunk q0,
    index_m p0 f = Ok es ->
    async_query_unmapped crc f file codes seeks chunk q0 es
    = AOk (filter unplaced_flagged (flat_map m_recs f)).
Proof. exact async_query_unmapped_equals_scan_of_bytes. Qed.
Print Assumptions c19_async_query_unmapped_equals_scan.

Theorem c19_sync_query_unmapped_equals_scan :
  forall crc file recs p0 f,
    mfile_of_bytes crc file recs = BOk (p0, f) ->
    Forall (fun c => Forall slice_ok (m_slices c)) f ->
    forall es script q0,
    index_m p0 f = Ok es ->
    sync_query_unmapped crc f file script q0 es
    = AOk (filter unplaced_flagged (flat_map m_recs f)).
Proof. exact sync_query_unmapped_equals_scan_of_bytes. Qed.
Print Assumptions c19_sync_query_unmapped_equals_scan.

(* ---- the records as the query sees them: flags play no part --------------------------------- *)

(* Reader::query converts every decoded record to a RecordBuf and `intersects` tests its reference
   id and [alignment_start, alignment_end] only -- never the flags.  [as_buf]: a record flagged
   unmapped has no CIGAR, so a PLACED read flagged unmapped (reference id and POS set, e.g. the
   unmapped mate placed at its mate's position) covers its POS only, while the CRAM record and
   the index cover start .. start + read length - 1.  With the index built from the CRAM records
   the query over the converted records returns exactly what a scan of those records keeps: on
   the named reference, [start, end] intersecting the region, file order, each once -- placed
   reads flagged unmapped included (the query looks only at reference id, offset and landmark
   of an index entry, [query_m_keys]). *)
Theorem c19_query_equals_scan_on_converted_records :
  forall pos f es r lo hi,
    mfile_ok pos f -> index_m pos f = Ok es ->
    query_m selected es (buf_file f) r lo hi = Ok (scan_m (buf_file f) r lo hi).
Proof. exact query_buf_equals_scan. Qed.
Print Assumptions c19_query_equals_scan_on_converted_records.

(* a placed read flagged unmapped is kept exactly when it is on the named reference and its POS
   lies in the region *)
Theorem c19_placed_unmapped_hit_at_pos :
  forall x r lo hi q,
    rid x = Some q -> runm x = true ->
    selected r lo hi (as_buf x) = ((q =? r) && (lo <=? rs x) && (rs x <=? hi))%bool.
Proof. exact selected_placed_unmapped. Qed.
Print Assumptions c19_placed_unmapped_hit_at_pos.

(* ---- placed records WITHOUT bases: the span of an index entry (switch index_span_repaired) ---- *)

(* A placed record without bases (reference id, POS, SEQ `*`: CRAM end = start - 1) occupies its
   start position for the writer ([wrec]; io/writer/record.rs after b02b368), which builds the
   slice header context from it; the record scan of fs/index.rs takes the end as is
   ([irec false]) until the repair /tmp/C19/fixes/04 makes it take max(end, start) ([irec true]).
   [index_span_repaired] (NV.CramIdx.Multi, true since the repair 405565a is in /repo) says which one the compared model follows.
   THE AGREEMENT of the two paths of index(), through the switch: the entry the slice-header path
   gives a single-reference / unmapped slice is the entry list the record scan would give -- for
   ALL placed records once the switch is true, for records with start <= end as the code is. *)
Theorem c19_index_context_path_agrees_with_scan :
  forall pos lm sl recs,
    recs <> [] -> Forall placed_ok recs ->
    (index_span_repaired = true \/ Forall rec_ok recs) ->
    slice_ctx (map wrec recs) <> Multi ->
    [single_entry pos lm sl (slice_ctx (map wrec recs))]
    = multi_entries pos lm sl (map (irec index_span_repaired) recs).
Proof. intros pos lm sl recs. exact (context_path_agrees_with_scan index_span_repaired pos lm sl recs). Qed.
Print Assumptions c19_index_context_path_agrees_with_scan.

(* as the code is, index() fails on the class "a multi-reference slice holds a placed record
   without bases": subtraction underflow when it is alone on its reference, the todo!() at POS 1
   -- while the repaired scan gives it span 1 at its start (known finding
   cram-index-placed-record-without-bases-span-underflow) *)
Theorem c19_index_span_unrepaired_refuted :
  index_x false 100 span_witness = Panic /\
  index_x false 100 [ mkmcont 100 20 900 [ mkslice 180 720 Multi [mkrec 0 (Some 0) 3 9 false; mkrec 1 (Some 1) 1 0 true] ] ] = Panic /\
  index_x true 100 span_witness
  = Ok [mkentry (Some 0) (Some 3) 7 100 180 720; mkentry (Some 1) (Some 5) 1 100 180 720].
Proof. split; [exact index_x_unrepaired_panics|]. split; [exact index_x_unrepaired_panics_at_pos_1|exact index_x_repaired_ok]. Qed.
Print Assumptions c19_index_span_unrepaired_refuted.

(* ... and OUTSIDE that class the code as it is computes what the repaired code computes *)
Theorem c19_index_outside_span_class :
  forall f pos,
    span_class f = false -> Forall (fun c => Forall unplaced_sane (m_slices c)) f ->
    index_x false pos f = index_x true pos f.
Proof. exact index_x_outside_class. Qed.
Print Assumptions c19_index_outside_span_class.

(* after the repair: index() of a written file lists, slice after slice, the per-slice entries of
   the records as the writer sees them (a placed record without bases: span 1 at its start) and
   cannot panic *)
Theorem c19_index_repaired_lists_every_slice :
  forall pos f,
    mfile_ok pos (map wcont_of (xfile f)) ->
    index_x true pos (xfile f) = Ok (flat_map mspec_entries (map wcont_of (xfile f))).
Proof. exact index_repaired_lists_every_slice. Qed.
Print Assumptions c19_index_repaired_lists_every_slice.

(* ---- placed records that cover NO reference base, in a region query (NV.CramIdx.ZeroSpan) ----- *)

(* A mapped read whose CIGAR consumes no reference base (`5S`, `2S3I`: CRAM end = start - 1) and
   a placed read without bases are converted to a RecordBuf whose alignment_end is its start
   (record_buf.rs: reference span 0 -> no span -> end = start), so the query's `intersects` tests
   [start, start] for them.  [as_bufz] = as_buf after the floor max(end, start); on records with
   start <= end it IS as_buf, so every earlier query theorem is about the same function there. *)
Theorem c19_zero_span_view_extends_converted_view :
  forall nrefs es f r lo hi,
    recs_ok f -> query_region_bufz nrefs es f r lo hi = query_region_buf nrefs es f r lo hi.
Proof. exact query_region_bufz_id. Qed.
Print Assumptions c19_zero_span_view_extends_converted_view.

(* such a record -- flagged unmapped or not -- is kept exactly when it is on the named reference
   and its POS lies in the region; the earlier view as_buf lost the mapped ones (witness) *)
Theorem c19_zero_span_record_hit_at_pos :
  (forall x r lo hi q,
     rid x = Some q -> re x < rs x ->
     selected r lo hi (as_bufz x) = ((q =? r) && (lo <=? rs x) && (rs x <=? hi))%bool) /\
  selected 0 5 5 (as_buf (mkrec 0 (Some 0) 5 4 false)) = false /\
  selected 0 5 5 (as_bufz (mkrec 0 (Some 0) 5 4 false)) = true.
Proof. split; [exact selected_zero_span|exact as_buf_misses_zero_span]. Qed.
Print Assumptions c19_zero_span_record_hit_at_pos.

(* Reader::query with the index the (repaired) record scan builds equals the scan of the converted
   records, for files whose placed records may cover no reference base: only the floored records
   (wcont_of: end := max(end, start)) have to be well-formed *)
Theorem c19_query_equals_scan_with_zero_span_records :
  forall pos f es r lo hi,
    mfile_ok pos (map wcont_of f) -> index_x true pos f = Ok es ->
    query_m selected es (bufz_file f) r lo hi = Ok (scan_m (bufz_file f) r lo hi).
Proof. exact query_bufz_equals_scan. Qed.
Print Assumptions c19_query_equals_scan_with_zero_span_records.

(* the whole chain cram::fs::index -> Reader::query on a written file (check kind `zq`), through
   the switch: no panic, no error, the scan-kept records *)
Theorem c19_index_then_query_is_scan :
  forall pos nrefs f r lo hi,
    index_span_repaired = true ->
    mfile_ok pos (map wcont_of (xfile f)) -> r < nrefs ->
    index_then_query pos nrefs f r lo hi
    = Ok (scan_m (bufz_file f) r (fst (region_bounds lo hi)) (snd (region_bounds lo hi))).
Proof. exact index_then_query_is_scan. Qed.
Print Assumptions c19_index_then_query_is_scan.

Theorem c19_index_then_query_returns_zero_span_record_at_pos :
  forall pos nrefs f r lo hi x q,
    index_span_repaired = true ->
    mfile_ok pos (map wcont_of (xfile f)) -> r < nrefs ->
    In x (flat_map m_recs f) -> rid x = Some q -> re x < rs x ->
    ((q =? r) && (fst (region_bounds lo hi) <=? rs x) && (rs x <=? snd (region_bounds lo hi)))%bool = true ->
    exists l, index_then_query pos nrefs f r lo hi = Ok l /\ In (as_bufz x) l.
Proof. exact index_then_query_returns_zero_span_at_pos. Qed.
Print Assumptions c19_index_then_query_returns_zero_span_record_at_pos.

(* ---- the same chain on MULTI-slice containers and multi-reference slices (check kind `mzq`) ---- *)

(* index() -> query() in closed form over the records of the file alone: the converted records of
   the named reference that meet the region, in file order, each once -- for any number of slices
   per container and of references per slice *)
Theorem c19_index_then_query_closed_form :
  forall pos nrefs f r lo hi,
    index_span_repaired = true ->
    mfile_ok pos (map wcont_of (xfile f)) -> r < nrefs ->
    index_then_query pos nrefs f r lo hi
    = Ok (filter (selected r (fst (region_bounds lo hi)) (snd (region_bounds lo hi)))
                 (map as_bufz (flat_map m_recs f))).
Proof. exact index_then_query_closed_form. Qed.
Print Assumptions c19_index_then_query_closed_form.

(* so the cut of the records into slices and of the slices into containers is not observable
   through index() -> query(): a merged multi-slice file answers as the one-slice-per-container
   file with the same records *)
Theorem c19_index_then_query_grouping_unobservable :
  forall pos pos' nrefs f g r lo hi,
    index_span_repaired = true ->
    mfile_ok pos (map wcont_of (xfile f)) -> mfile_ok pos' (map wcont_of (xfile g)) ->
    flat_map m_recs f = flat_map m_recs g -> r < nrefs ->
    index_then_query pos nrefs f r lo hi = index_then_query pos' nrefs g r lo hi.
Proof. exact index_then_query_grouping_unobservable. Qed.
Print Assumptions c19_index_then_query_grouping_unobservable.

Theorem c19_index_then_query_membership :
  forall pos nrefs f r lo hi y,
    index_span_repaired = true ->
    mfile_ok pos (map wcont_of (xfile f)) -> r < nrefs ->
    exists l, index_then_query pos nrefs f r lo hi = Ok l /\
      (In y l <-> exists x, In x (flat_map m_recs f) /\ y = as_bufz x /\
                   selected r (fst (region_bounds lo hi)) (snd (region_bounds lo hi)) (as_bufz x) = true).
Proof. exact index_then_query_membership. Qed.
Print Assumptions c19_index_then_query_membership.

(* the premises hold for a container of two slices whose second slice is multi-reference and holds
   a `5S` read (CRAM end = start - 1); index() -> query() returns that read at its POS after the
   read of the first slice that covers the position *)
Theorem c19_index_then_query_multi_slice_witness :
  mfile_ok 26 (map wcont_of (xfile mz_witness)) /\
  (index_span_repaired = true ->
   index_then_query 26 2 mz_witness 0 (Some 5) (Some 5)
   = Ok [mkrec 0 (Some 0) 2 5 false; mkrec 1 (Some 0) 5 5 false]).
Proof. split; [exact mz_witness_ok|exact mz_witness_answer]. Qed.
Print Assumptions c19_index_then_query_multi_slice_witness.

(* ---- the gzip layer of the .crai file (NV.CramIdx.Gz over C01's inflater and CRC-32) --------- *)

(* crai::fs::write / crai::io::Writer put the text inside one gzip member: the 10-byte header,
   the compressor's DEFLATE stream, CRC32 and ISIZE; crai::fs::read / crai::io::Reader parse the
   header (flate2's GzHeaderParser), inflate, compare CRC32 and ISIZE, and read the text.  With the
   STORED-BLOCK compressor (C01's deflate_stored) the round trip holds with no premise about the
   compressor: every index whose entries fit the text format is read back as itself, whatever
   follows the member in the file. *)
Theorem c19_crai_file_roundtrip_stored :
  forall es extra,
    Forall entry_fits es -> NV.Bgzf.Frame.lenN (crai_text es) <= gz_limit ->
    read_crai_gz (write_crai_gz_stored es ++ extra) = GOk es.
Proof. exact crai_gz_stored_roundtrip. Qed.
Print Assumptions c19_crai_file_roundtrip_stored.

(* For ANY compressor whose stream C01's inflater inverts ([inflatable comp]: the premise under
   which flate2's compressor -- zlib-rs at level 6 in the implementation -- enters; checked on
   every compared file, where the Coq inflater must reproduce the text): the same round trip *)
Theorem c19_crai_file_roundtrip :
  forall comp, inflatable comp ->
  forall es extra,
    Forall entry_fits es -> NV.Bgzf.Frame.lenN (crai_text es) <= gz_limit ->
    read_crai_gz (write_crai_gz comp es ++ extra) = GOk es.
Proof. exact crai_gz_roundtrip. Qed.
Print Assumptions c19_crai_file_roundtrip.

Theorem c19_stored_compressor_is_inflatable : inflatable NV.Bgzf.Inflate.deflate_stored.
Proof. exact deflate_stored_inflatable. Qed.
Print Assumptions c19_stored_compressor_is_inflatable.

(* hence a region query / query_unmapped through a .crai FILE (gzip layer included) returns what
   the query through the index in memory returns *)
Theorem c19_query_via_crai_file_gz :
  forall comp, inflatable comp ->
  forall pos f es nrefs r lo hi,
    mfile_ok pos f -> Forall mcont_fits f -> index_m pos f = Ok es -> NV.Bgzf.Frame.lenN (crai_text es) <= gz_limit ->
    query_via_gz comp nrefs es f r lo hi = GOk (query_region_m nrefs es f r lo hi).
Proof. exact query_via_gz_same. Qed.
Print Assumptions c19_query_via_crai_file_gz.

Theorem c19_query_unmapped_via_crai_file_gz :
  forall comp, inflatable comp ->
  forall pos f es,
    mfile_ok pos f -> Forall mcont_fits f -> index_m pos f = Ok es -> NV.Bgzf.Frame.lenN (crai_text es) <= gz_limit ->
    query_unmapped_via_gz comp es f = GOk (query_unmapped es f).
Proof. exact query_unmapped_via_gz_same. Qed.
Print Assumptions c19_query_unmapped_via_crai_file_gz.

(* what the reader accepts was checked: the text it returns is what the inflater produced from
   the bytes after the header, and the 8 bytes after the DEFLATE stream are its CRC-32 and its
   length mod 2^32 *)
Theorem c19_gunzip_accepts_only_checked :
  forall bs text,
    gunzip bs = GOk text ->
    exists body rest t r',
      gz_header bs = GOk body /\ NV.Bgzf.Inflate.inflate_raw gz_limit body = Some (text, rest) /\ need 8 rest = Some (t, r') /\
      NV.Base.LE.le_dec (firstn 4 t) = crc32 text /\ NV.Base.LE.le_dec (skipn 4 t) = NV.Bgzf.Frame.lenN text mod two32.
Proof. exact gunzip_accepts_only_checked. Qed.
Print Assumptions c19_gunzip_accepts_only_checked.

(* ---- non-vacuity ------------------------------------------------------------------------- *)

(* three containers: a single-reference slice, a multi-reference slice with an unmapped record,
   an unmapped slice *)
Definition c19_example_file : list container :=
  [ written 300 20 500 180 320 [mkrec 0 (Some 0) 5 9 false; mkrec 1 (Some 0) 7 30 false];
    written 820 22 610 190 420 [mkrec 2 (Some 0) 40 44 false; mkrec 3 (Some 2) 3 12 false; mkrec 4 (Some 2) 8 10 false; mkrec 5 None 0 0 true];
    written 1452 18 400 170 230 [mkrec 6 None 0 0 true] ].

Example c19_example_ok : file_ok 300 c19_example_file.
Proof.
  split.
  - cbn. repeat split; reflexivity.
  - repeat constructor; cbn; try discriminate; unfold usize_max; try reflexivity; intros H; discriminate H.
Qed.

Example c19_example_index :
  index 300 c19_example_file =
  Ok [ mkentry (Some 0) (Some 5) 26 300 180 320;
       mkentry None None 0 820 190 420;
       mkentry (Some 0) (Some 40) 5 820 190 420;
       mkentry (Some 2) (Some 3) 10 820 190 420;
       mkentry None None 0 1452 170 230 ].
Proof. vm_compute. reflexivity. Qed.

Definition c19_names (x : result (list rec)) : option (list N) :=
  match x with Ok l => Some (map rname l) | _ => None end.

Example c19_example_query :
  c19_names (query_m selected (index_core 300 c19_example_file) (single_file c19_example_file) 0 30 41) = Some [1; 2] /\
  c19_names (query_m selected (index_core 300 c19_example_file) (single_file c19_example_file) 0 1 50) = Some [0; 1; 2] /\
  c19_names (query_m selected (index_core 300 c19_example_file) (single_file c19_example_file) 2 9 9) = Some [3; 4] /\
  query_region_m 3 (index_core 300 c19_example_file) (single_file c19_example_file) 1 None None = Ok [] /\
  query_region_m 3 (index_core 300 c19_example_file) (single_file c19_example_file) 3 None None = ErrInvalidInput.
Proof. vm_compute. repeat split; reflexivity. Qed.

(* the old filter also returned r3 and r4 of reference 2 for reference 0, region 1..50 *)
Example c19_example_f17 :
  c19_names (query_m selected_old (index_core 300 c19_example_file) (single_file c19_example_file) 0 1 50) = Some [0; 1; 2; 3; 4]
  /\ map rname (scan c19_example_file 0 1 50) = [0; 1; 2].
Proof. vm_compute. split; reflexivity. Qed.

(* two containers: two slices (both on reference 0) + a multi-reference slice; then one slice *)
Definition c19_example_mfile : list mcont :=
  [ mkmcont 300 24 900 [wslice 180 320 [mkrec 0 (Some 0) 5 9 false; mkrec 1 (Some 0) 7 30 false];
                        wslice 500 400 [mkrec 2 (Some 0) 40 44 false; mkrec 3 (Some 1) 3 12 false]];
    mkmcont 1224 18 400 [wslice 170 230 [mkrec 4 (Some 1) 20 21 true; mkrec 5 None 0 0 true]] ].

Example c19_example_mfile_ok : mfile_ok 300 c19_example_mfile.
Proof.
  split.
  - cbn. repeat split; reflexivity.
  - repeat constructor; cbn; try discriminate; unfold usize_max; try reflexivity; intros H; discriminate H.
Qed.

Example c19_example_mindex :
  index_m 300 c19_example_mfile =
  Ok [ mkentry (Some 0) (Some 5) 26 300 180 320;
       mkentry (Some 0) (Some 40) 5 300 500 400;
       mkentry (Some 1) (Some 3) 10 300 500 400;
       mkentry None None 0 1224 170 230;
       mkentry (Some 1) (Some 20) 2 1224 170 230 ].
Proof. vm_compute. reflexivity. Qed.

Example c19_example_mquery :
  query_m selected (flat_map mspec_entries c19_example_mfile) c19_example_mfile 1 1 50
  = Ok [mkrec 3 (Some 1) 3 12 false; mkrec 4 (Some 1) 20 21 true] /\
  option_map (map rname) (match query_m selected (flat_map mspec_entries c19_example_mfile) c19_example_mfile 0 1 50
                          with Ok l => Some l | _ => None end) = Some [0; 1; 2] /\
  map rname (query_m_v0 selected (flat_map mspec_entries c19_example_mfile) c19_example_mfile 0 1 50) = [0; 1; 2; 0; 1; 2].
Proof. vm_compute. repeat split; reflexivity. Qed.

Example c19_example_mfile_fits : Forall mcont_fits c19_example_mfile.
Proof. repeat constructor; cbn; unfold u64_lim; try reflexivity; intros H; discriminate H. Qed.

Example c19_example_via_file :
  query_via_file 2 (flat_map mspec_entries c19_example_mfile) c19_example_mfile 1 (Some 1) None
  = Some (Ok [mkrec 3 (Some 1) 3 12 false; mkrec 4 (Some 1) 20 21 true]).
Proof. vm_compute. reflexivity. Qed.

(* a file written by noodles (one reference, one 1M record): 909 bytes *)
Definition c19_example_bytes : list N :=
  [67; 82; 65; 77; 3; 0; 0; 0; 0; 0; 0; 0; 0; 0; 0; 0; 0; 0; 0; 0; 0; 0; 0; 0; 0; 0; 109; 0; 0; 0; 255; 255; 255; 255; 15; 0; 0; 0; 0; 0; 1; 0; 246; 158; 161; 152; 1; 0; 0; 100; 82; 31; 139; 8; 0; 0; 0; 0; 0; 0; 255; 243; 99; 96; 96; 112; 240; 112; 225; 12; 243; 179; 50; 212; 51; 227; 12; 246; 183; 74; 206; 207; 47; 74; 201; 204; 75; 44; 73; 229; 114; 8; 14; 228; 12; 246; 179; 42; 46; 52; 224; 244; 241; 179; 50; 55; 230; 244; 53; 181; 50; 49; 54; 77; 75; 178; 72; 52; 74; 74; 78; 76; 49; 78; 78; 78; 179; 180; 52; 54; 53; 176; 0; 137; 166; 90; 38; 154; 153; 153; 112; 1; 0; 130; 109; 225; 250; 82; 0; 0; 0; 108; 139; 31; 143; 186; 2; 0; 0; 0; 20; 1; 1; 0; 1; 17; 1; 128; 187; 36; 36; 179; 99; 0; 1; 0; 128; 176; 128; 176; 21; 5; 82; 78; 1; 65; 80; 1; 82; 82; 1; 83; 77; 27; 27; 27; 27; 27; 84; 68; 1; 0; 128; 150; 28; 66; 70; 1; 1; 1; 67; 70; 1; 1; 2; 82; 73; 1; 1; 3; 82; 76; 1; 1; 4; 65; 80; 1; 1; 5; 82; 71; 1; 1; 6; 82; 78; 5; 2; 0; 7; 77; 70; 1; 1; 8; 78; 83; 1; 1; 9; 78; 80; 1; 1; 10; 84; 83; 1; 1; 11; 78; 70; 1; 1; 12; 84; 76; 1; 1; 13; 70; 78; 1; 1; 14; 70; 67; 1; 1; 15; 70; 80; 1; 1; 16; 68; 76; 1; 1; 17; 66; 66; 5; 2; 0; 18; 81; 81; 4; 6; 1; 1; 19; 1; 1; 19; 66; 83; 1; 1; 20; 73; 78; 5; 2; 0; 21; 82; 83; 1; 1; 22; 80; 68; 1; 1; 23; 72; 67; 1; 1; 24; 83; 67; 5; 2; 0; 25; 77; 81; 1; 1; 26; 66; 65; 1; 1; 27; 81; 83; 1; 1; 28; 1; 0; 66; 16; 6; 47; 0; 2; 0; 43; 43; 0; 20; 1; 1; 0; 15; 15; 0; 26; 4; 11; 7; 5; 10; 14; 8; 28; 2; 9; 13; 6; 1; 255; 255; 255; 255; 15; 185; 236; 225; 140; 149; 10; 251; 250; 107; 15; 219; 250; 79; 247; 49; 211; 129; 88; 41; 176; 1; 5; 0; 20; 0; 31; 139; 8; 0; 0; 0; 0; 0; 0; 255; 3; 0; 0; 0; 0; 0; 0; 0; 0; 0; 101; 162; 211; 27; 1; 4; 26; 21; 1; 31; 139; 8; 0; 0; 0; 0; 0; 0; 255; 99; 5; 0; 2; 27; 104; 162; 1; 0; 0; 0; 255; 140; 177; 117; 1; 4; 4; 21; 1; 31; 139; 8; 0; 0; 0; 0; 0; 0; 255; 99; 4; 0; 27; 223; 5; 165; 1; 0; 0; 0; 30; 167; 196; 218; 1; 4; 11; 21; 1; 31; 139; 8; 0; 0; 0; 0; 0; 0; 255; 99; 0; 0; 141; 239; 2; 210; 1; 0; 0; 0; 238; 24; 65; 39; 1; 4; 7; 23; 3; 31; 139; 8; 0; 0; 0; 0; 0; 0; 255; 43; 50; 96; 0; 0; 223; 83; 114; 119; 3; 0; 0; 0; 129; 252; 28; 122; 1; 4; 5; 21; 1; 31; 139; 8; 0; 0; 0; 0; 0; 0; 255; 99; 0; 0; 141; 239; 2; 210; 1; 0; 0; 0; 0; 118; 113; 69; 1; 4; 10; 21; 1; 31; 139; 8; 0; 0; 0; 0; 0; 0; 255; 99; 0; 0; 141; 239; 2; 210; 1; 0; 0; 0; 201; 125; 100; 166; 1; 4; 14; 21; 1; 31; 139; 8; 0; 0; 0; 0; 0; 0; 255; 99; 0; 0; 141; 239; 2; 210; 1; 0; 0; 0; 150; 227; 98; 207; 1; 4; 8; 21; 1; 31; 139; 8; 0; 0; 0; 0; 0; 0; 255; 99; 0; 0; 141; 239; 2; 210; 1; 0; 0; 0; 198; 177; 95; 127; 1; 4; 28; 21; 1; 31; 139; 8; 0; 0; 0; 0; 0; 0; 255; 147; 3; 0; 238; 210; 13; 40; 1; 0; 0; 0; 40; 21; 196; 111; 1; 4; 2; 21; 1; 31; 139; 8; 0; 0; 0; 0; 0; 0; 255; 99; 6; 0; 55; 190; 11; 75; 1; 0; 0; 0; 245; 13; 250; 64; 1; 4; 9; 25; 5; 31; 139; 8; 0; 0; 0; 0; 0; 0; 255; 251; 255; 255; 255; 127; 126; 0; 110; 226; 64; 111; 5; 0; 0; 0; 34; 59; 125; 125; 1; 4; 13; 21; 1; 31; 139; 8; 0; 0; 0; 0; 0; 0; 255; 99; 0; 0; 141; 239; 2; 210; 1; 0; 0; 0; 190; 74; 124; 151; 1; 4; 6; 25; 5; 31; 139; 8; 0; 0; 0; 0; 0; 0; 255; 251; 255; 255; 255; 127; 126; 0; 110; 226; 64; 111; 5; 0; 0; 0; 153; 32; 219; 116; 1; 4; 1; 21; 1; 31; 139; 8; 0; 0; 0; 0; 0; 0; 255; 19; 0; 0; 233; 255; 181; 207; 1; 0; 0; 0; 221; 248; 149; 126; 15; 0; 0; 0; 255; 255; 255; 255; 15; 224; 69; 79; 70; 0; 0; 0; 0; 1; 0; 5; 189; 217; 79; 0; 1; 0; 6; 6; 1; 0; 1; 0; 1; 0; 238; 99; 1; 75].

Definition c19_example_bytes_recs : list (list rec) :=
  [[mkrec 0 (Some 0) 20 20 false]].

Example c19_example_index_of_bytes :
  index_of_bytes32 c19_example_bytes c19_example_bytes_recs = BOk [mkentry (Some 0) (Some 20) 1 155 187 511].
Proof. vm_compute. reflexivity. Qed.

(* the hypotheses of c19_query_unmapped_v0_equals_scan_tail_clean are satisfiable: a sorted file
   whose last container holds the unplaced records *)
Definition c19_example_ufile : list mcont :=
  [ mkmcont 300 24 900 [wslice 180 320 [mkrec 0 (Some 0) 5 9 false; mkrec 1 (Some 0) 7 7 true];
                        wslice 500 400 [mkrec 2 (Some 0) 40 44 false]];
    mkmcont 1224 18 400 [wslice 170 230 [mkrec 3 None 0 0 true; mkrec 4 None 0 0 true]] ].

Example c19_example_ufile_ok :
  mfile_ok 300 c19_example_ufile /\ tail_clean c19_example_ufile /\
  existsb is_unmapped (flat_map m_recs c19_example_ufile) = true.
Proof.
  split; [split|split].
  - cbn. repeat split; reflexivity.
  - repeat constructor; cbn; try discriminate; unfold usize_max; try reflexivity; intros H; discriminate H.
  - cbn. repeat constructor.
  - reflexivity.
Qed.

Example c19_example_query_unmapped :
  query_unmapped (flat_map mspec_entries c19_example_ufile) c19_example_ufile
  = Ok [mkrec 3 None 0 0 true; mkrec 4 None 0 0 true].
Proof. vm_compute. reflexivity. Qed.

(* the reader's program frames the data container of the noodles-written file above as the
   layout says (the hypothesis [cont_read] of c19_bytes_query_is_layout_query is satisfiable), and
   the async query over it under a script with Pending polls, 1..7-byte transfers and Pending
   seeks returns the record *)
Definition c19_example_bytes_layout : list mcont :=
  [mkmcont 155 32 698 [wslice 187 511 [mkrec 0 (Some 0) 20 20 false]]].

Example c19_example_cont_read : Forall (cont_read crc32 c19_example_bytes) c19_example_bytes_layout.
Proof.
  constructor; [|constructor].
  unfold cont_read. do 4 eexists. split; [vm_compute; reflexivity|].
  split; [vm_compute; reflexivity|]. split; [vm_compute; reflexivity|].
  constructor; [|constructor]. unfold slice_at. do 3 eexists.
  split; [vm_compute; reflexivity|]. split; [vm_compute; reflexivity|]. vm_compute. reflexivity.
Qed.

Example c19_example_async_query :
  async_queries crc32 c19_example_bytes_layout c19_example_bytes
    [0; 2; 0; 0; 8; 1; 4; 0; 3]%nat [true; false; true; true] 5 155 1
    [mkentry (Some 0) (Some 20) 1 155 187 511] [(0, Some 20, Some 20); (0, Some 21, None); (1, None, None)]
  = [AOk [mkrec 0 (Some 0) 20 20 false]; AOk []; AInvalidInput].
Proof. vm_compute. reflexivity. Qed.

(* the hypotheses of the ..._of_bytes theorems are satisfiable: the layout of the noodles-written
   file above is read from its bytes and its slice is well-formed *)
Definition c19_example_bytes_layout_read : list mcont :=
  [mkmcont 155 18 698 [wslice 187 511 [mkrec 0 (Some 0) 20 20 false]]].

Example c19_example_mfile_of_bytes :
  mfile_of_bytes crc32 c19_example_bytes c19_example_bytes_recs = BOk (155, c19_example_bytes_layout_read)
  /\ Forall (fun c => Forall slice_ok (m_slices c)) c19_example_bytes_layout_read
  /\ index_m 155 c19_example_bytes_layout_read = Ok [mkentry (Some 0) (Some 20) 1 155 187 511].
Proof.
  split; [vm_compute; reflexivity|]. split; [|vm_compute; reflexivity].
  repeat constructor; cbn; try discriminate; unfold usize_max; try reflexivity; intros H; discriminate H.
Qed.

(* the stored-block .crai of the example index is read back, also with bytes after the member *)
Example c19_example_crai_gz :
  read_crai_gz (write_crai_gz_stored [mkentry (Some 0) (Some 20) 1 155 187 511; mkentry None None 0 900 170 230] ++ [1; 2; 3])
  = GOk [mkentry (Some 0) (Some 20) 1 155 187 511; mkentry None None 0 900 170 230].
Proof. vm_compute. reflexivity. Qed.
