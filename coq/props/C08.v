(* C08 -- CRAM codecs and integer codings decode exactly what was encoded, per the spec.
   Property theorems only; each is closed by [exact] of a lemma proved in theories/Cram and is
   followed by Print Assumptions.  Models: NV.Cram.Itf8 / Ltf8 / Vlq (bit-exact models of
   noodles-cram io/{reader,writer}/num/*.rs) and NV.Cram.Rans4x8 (faithful model of the rANS 4x8
   order-0 ENCODER of noodles, and an INDEPENDENT decoder for orders 0 and 1 written from the
   CRAM codecs specification).

   The models describe the REPAIRED code (fix commits 01-16 of the C08 series).
   PARTIAL: proved in full for the three integer codings and for rANS 4x8 order 0 (every byte
   string, whole stream, against the independent decoder); order 1, rANS Nx16, the arithmetic
   coder, fqzcomp, the name tokenizer and gzip/bzip2/lzma have no theorem (implementation-side
   oracle only). *)
From Coq Require Import List NArith ZArith.
From NV Require Import Cram.Bytes Cram.Itf8 Cram.Ltf8 Cram.Vlq Cram.IntProofs Cram.Rans4x8 Cram.Rans4x8Proofs
  Cram.Rans4x8Table.
Import ListNotations.
Open Scope N_scope.

(* ---------------- integer codings: every representable value ---------------- *)

(* ITF8, all of i32: reading what was written gives the value back and leaves the rest untouched *)
Theorem c08_itf8_roundtrip : forall n rest,
  (-2147483648 <= n < 2147483648)%Z -> read_itf8 (write_itf8 n ++ rest) = Some (n, rest).
Proof. exact itf8_roundtrip. Qed.
Print Assumptions c08_itf8_roundtrip.

Theorem c08_itf8_length : forall n, length (write_itf8 n) = itf8_size n.
Proof. exact itf8_length. Qed.
Print Assumptions c08_itf8_length.

(* every proper prefix of an encoding is reported as UnexpectedEof *)
Theorem c08_itf8_truncated : forall n k,
  (-2147483648 <= n < 2147483648)%Z -> (k < length (write_itf8 n))%nat ->
  read_itf8 (firstn k (write_itf8 n)) = None.
Proof. exact itf8_truncated. Qed.
Print Assumptions c08_itf8_truncated.

(* the reader ignores the high nibble of the fifth byte (leniency of the code, recorded) *)
Theorem c08_itf8_fifth_byte_high_nibble : forall b0 b1 b2 b3 b4 h rest,
  240 <= b0 -> b4 < 16 -> h < 16 ->
  itf8_dec (b0 :: b1 :: b2 :: b3 :: (16 * h + b4) :: rest) = itf8_dec (b0 :: b1 :: b2 :: b3 :: b4 :: rest).
Proof. exact itf8_fifth_byte_high_nibble. Qed.
Print Assumptions c08_itf8_fifth_byte_high_nibble.

(* LTF8, all of i64 *)
Theorem c08_ltf8_roundtrip : forall n rest,
  (-9223372036854775808 <= n < 9223372036854775808)%Z -> read_ltf8 (write_ltf8 n ++ rest) = Some (n, rest).
Proof. exact ltf8_roundtrip. Qed.
Print Assumptions c08_ltf8_roundtrip.

Theorem c08_ltf8_length : forall n, length (write_ltf8 n) = ltf8_size n.
Proof. exact ltf8_length. Qed.
Print Assumptions c08_ltf8_length.

(* uint7, all of u32 (and the writer's 5-byte buffer never underflows) *)
Theorem c08_uint7_roundtrip : forall n rest,
  n < 4294967296 -> read_uint7 (write_uint7 n ++ rest) = U7Ok n rest.
Proof. exact uint7_roundtrip. Qed.
Print Assumptions c08_uint7_roundtrip.

Theorem c08_uint7_length : forall n, n < 4294967296 -> length (write_uint7 n) = uint7_size n.
Proof. exact uint7_length. Qed.
Print Assumptions c08_uint7_length.

(* ---------------- rANS 4x8 ---------------- *)

(* dec_step (enc_step x s) = (s, x): slot and state are both recovered; table constant 4096 *)
Theorem c08_rans_step_inverse : forall x f c,
  0 < f -> c + f <= 4096 ->
  (enc_step x f c) mod 4096 = c + x mod f /\ spec_advance (enc_step x f c) c f = x.
Proof. exact rans_step_inverse. Qed.
Print Assumptions c08_rans_step_inverse.

(* the step maps the renormalised interval [2^11 f, 2^19 f) into I = [2^23, 2^31): no u32 overflow *)
Theorem c08_rans_step_range : forall x f c,
  0 < f -> c + f <= 4096 -> 2048 * f <= x -> x < 524288 * f ->
  LOWER_BOUND <= enc_step x f c < 2147483648.
Proof. exact rans_step_range. Qed.
Print Assumptions c08_rans_step_range.

(* the bytes pushed by state_renormalize are exactly the bytes RansRenorm pops, restoring the state *)
Theorem c08_rans_renorm_inverse : forall s f stack s1 stack1,
  LOWER_BOUND <= s < 2147483648 -> f <= 4096 ->
  enc_renorm 5 s f stack = Some (s1, stack1) ->
  exists em, stack1 = em ++ stack /\
    (forall tail, spec_renorm s1 (em ++ tail) = Some (s, tail)) /\
    2048 * f <= s1 < 524288 * f.
Proof. exact rans_renorm_inverse. Qed.
Print Assumptions c08_rans_renorm_inverse.

Theorem c08_rans_renorm_terminates : forall s f stack,
  0 < f -> s < 4294967296 -> exists s1 stack1, enc_renorm 5 s f stack = Some (s1, stack1).
Proof. exact enc_renorm_terminates. Qed.
Print Assumptions c08_rans_renorm_terminates.

(* RansGetSymbolFromFreq inverts the cumulative table on every slot *)
Theorem c08_rans_symbol_lookup : forall F x s0 c0 r,
  (x < length F)%nat -> r < nth x F 0 ->
  spec_symbol F (sumN (firstn x F) + r) s0 c0 = (s0 + N.of_nat x, c0 + sumN (firstn x F)).
Proof. exact spec_symbol_correct. Qed.
Print Assumptions c08_rans_symbol_lookup.

(* the table normalize_frequencies builds (u64 product, correction spread over the table): 256
   entries, sum at most 4096, and every symbol that occurs keeps a frequency of at least 1 *)
Theorem c08_rans_normalize_table : forall raw F,
  length raw = 256%nat -> normalize_frequencies raw = Some F ->
  length F = 256%nat /\ sumN F <= 4096 /\ (forall i, 0 < nth i raw 0 -> 0 < nth i F 0).
Proof. exact normalize_table. Qed.
Print Assumptions c08_rans_normalize_table.

(* 4-way interleaved symbol loop, any table: decoded by the independent decoder to the input *)
Theorem c08_rans4x8_o0_core_roundtrip : forall src F,
  table_ok F src ->
  exists st stack,
    enc_symbols F (cumulative F) src = Some (st, stack) /\
    length st = 4%nat /\ Forall state_ok st /\
    forall tail, spec_decode0_loop (length src) F st (stack ++ tail) = Some (src, tail).
Proof. exact rans4x8_o0_core_roundtrip. Qed.
Print Assumptions c08_rans4x8_o0_core_roundtrip.

(* freq_table_roundtrip: the run-length coded table written by write_frequencies is read back by
   the specification's ReadFrequencies0, for every table in which some symbol occurs *)
Theorem c08_freq_table_roundtrip : forall F rest,
  length F = 256%nat -> Forall (fun g => g < 4294967296) F -> (exists i, nth i F 0 <> 0) ->
  spec_read_frequencies0 (write_frequencies F ++ rest) = Some (F, rest).
Proof. exact freq_table_roundtrip. Qed.
Print Assumptions c08_freq_table_roundtrip.

(* THE order-0 statement: for EVERY byte string (shorter than 2^32, the limit of the header) the
   encoder terminates without panicking and the independent specification decoder maps the
   stream it emits -- header, frequency table, states, payload -- back to the input.  No side
   condition is left: the former defect classes (empty input, first table symbol 1, a run of
   symbols reaching 255, counts above 2^20, the normalisation correction) are covered. *)
Theorem c08_rans4x8_o0_roundtrip : forall src,
  Forall (fun x => x < 256) src -> N.of_nat (length src) < 4294967296 ->
  exists bytes, encode_o0 src = EncOk bytes /\ spec_decode bytes = Some src.
Proof. exact rans4x8_o0_roundtrip. Qed.
Print Assumptions c08_rans4x8_o0_roundtrip.

(* the full C08 statement, NOT proved beyond the parts above: order 1 of rANS 4x8 (independent
   decoder modelled and compared, encoder not modelled), rANS Nx16, the adaptive arithmetic coder,
   fqzcomp, the name tokenizer and gzip/bzip2/lzma have no Gallina model *)
Definition c08_full_statement_informal : Prop :=
  forall src, Forall (fun x => x < 256) src -> N.of_nat (length src) < 4294967296 ->
    (exists bytes, encode_o0 src = EncOk bytes /\ spec_decode bytes = Some src)
    (* /\ the same for every other codec of the property statement *).

(* ---------------- non-vacuity ---------------- *)

Example c08_itf8_examples :
  write_itf8 1877 = [135; 85] /\ write_itf8 (-1) = [255; 255; 255; 255; 15] /\
  read_itf8 [247; 85; 153; 102; 130; 9] = Some (1968805474%Z, [9]).
Proof. vm_compute. repeat split. Qed.

Example c08_uint7_example : write_uint7 4294967295 = [143; 255; 255; 255; 127].
Proof. vm_compute. reflexivity. Qed.

(* the former defect inputs now run end to end in the model (and in the repaired code, L2) *)
Example c08_former_defect_inputs :
  spec_decode (bytes_of_result (encode_o0 [1])) = Some [1] /\
  spec_decode (bytes_of_result (encode_o0 [253; 254; 255])) = Some [253; 254; 255] /\
  spec_decode (bytes_of_result (encode_o0 [])) = Some [] /\
  (exists F, normalize_frequencies (repeat 4128 127 ++ [3871] ++ repeat 1 128) = Some F /\ sumN F = 4095) /\
  (exists F, normalize_frequencies (upd zeros256 65 1048833) = Some F /\ nth 65 F 0 = 4095).
Proof.
  split; [vm_compute; reflexivity|]. split; [vm_compute; reflexivity|].
  split; [vm_compute; reflexivity|]. split; eexists; split; vm_compute; reflexivity.
Qed.

Example c08_end_to_end_example :
  let src := [0; 2; 0; 2; 7; 7; 7; 9; 0; 200; 255; 0; 2] in
  spec_decode (bytes_of_result (encode_o0 src)) = Some src.
Proof. vm_compute. reflexivity. Qed.
