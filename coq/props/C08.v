(* C08 -- CRAM codecs and integer codings decode exactly what was encoded, per the spec.
   Property theorems only; each is closed by [exact] of a lemma proved in theories/Cram and is
   followed by Print Assumptions.  Models: NV.Cram.Itf8 / Ltf8 / Vlq (bit-exact models of
   noodles-cram io/{reader,writer}/num/*.rs) and NV.Cram.Rans4x8 (faithful model of the rANS 4x8
   order-0 ENCODER of noodles, and an INDEPENDENT decoder for orders 0 and 1 written from the
   CRAM codecs specification).

   PARTIAL: proved in full for the three integer codings; for rANS 4x8 order 0 the entropy-coded
   payload (states, renormalisation bytes, 4-way interleave) is proved to decode to the input for
   every byte string under the side conditions the proof forces; the serialisation of the
   frequency table is NOT proved (it is wrong in the real code for three input classes, see the
   [_refuted] lemmas) and order 1, rANS Nx16, the arithmetic coder, fqzcomp, the name tokenizer
   and gzip/bzip2/lzma have no theorem (implementation-side oracle only). *)
From Coq Require Import List NArith ZArith.
From NV Require Import Cram.Bytes Cram.Itf8 Cram.Ltf8 Cram.Vlq Cram.IntProofs Cram.Rans4x8 Cram.Rans4x8Proofs.
Import ListNotations.
Open Scope N_scope.

(* ---------------- integer codings: every representable value ---------------- *)

(* ITF8, all of i32: reading what was written gives the value back and leaves the rest untouched *)
Theorem c08_itf8_roundtrip : forall n rest,
  (-2147483648 <= n < 2147483648)%Z -> read_itf8 (write_itf8 n ++ rest) = Some (n, rest).
Proof. exact itf8_roundtrip. Qed.
Print Assumptions c08_itf8_roundtrip.

Theorem c08_itf8_length : forall n, length (write_itf8 n) = itf8_size n.
Proof. exact itf8_length. Qed.
Print Assumptions c08_itf8_length.

(* every proper prefix of an encoding is reported as UnexpectedEof *)
Theorem c08_itf8_truncated : forall n k,
  (-2147483648 <= n < 2147483648)%Z -> (k < length (write_itf8 n))%nat ->
  read_itf8 (firstn k (write_itf8 n)) = None.
Proof. exact itf8_truncated. Qed.
Print Assumptions c08_itf8_truncated.

(* the reader ignores the high nibble of the fifth byte (leniency of the code, recorded) *)
Theorem c08_itf8_fifth_byte_high_nibble : forall b0 b1 b2 b3 b4 h rest,
  240 <= b0 -> b4 < 16 -> h < 16 ->
  itf8_dec (b0 :: b1 :: b2 :: b3 :: (16 * h + b4) :: rest) = itf8_dec (b0 :: b1 :: b2 :: b3 :: b4 :: rest).
Proof. exact itf8_fifth_byte_high_nibble. Qed.
Print Assumptions c08_itf8_fifth_byte_high_nibble.

(* LTF8, all of i64 *)
Theorem c08_ltf8_roundtrip : forall n rest,
  (-9223372036854775808 <= n < 9223372036854775808)%Z -> read_ltf8 (write_ltf8 n ++ rest) = Some (n, rest).
Proof. exact ltf8_roundtrip. Qed.
Print Assumptions c08_ltf8_roundtrip.

Theorem c08_ltf8_length : forall n, length (write_ltf8 n) = ltf8_size n.
Proof. exact ltf8_length. Qed.
Print Assumptions c08_ltf8_length.

(* uint7, all of u32 (and the writer's 5-byte buffer never underflows) *)
Theorem c08_uint7_roundtrip : forall n rest,
  n < 4294967296 -> read_uint7 (write_uint7 n ++ rest) = U7Ok n rest.
Proof. exact uint7_roundtrip. Qed.
Print Assumptions c08_uint7_roundtrip.

Theorem c08_uint7_length : forall n, n < 4294967296 -> length (write_uint7 n) = uint7_size n.
Proof. exact uint7_length. Qed.
Print Assumptions c08_uint7_length.

(* ---------------- rANS 4x8 ---------------- *)

(* dec_step (enc_step x s) = (s, x): slot and state are both recovered; table constant 4096 *)
Theorem c08_rans_step_inverse : forall x f c,
  0 < f -> c + f <= 4096 ->
  (enc_step x f c) mod 4096 = c + x mod f /\ spec_advance (enc_step x f c) c f = x.
Proof. exact rans_step_inverse. Qed.
Print Assumptions c08_rans_step_inverse.

(* the step maps the renormalised interval [2^11 f, 2^19 f) into I = [2^23, 2^31): no u32 overflow *)
Theorem c08_rans_step_range : forall x f c,
  0 < f -> c + f <= 4096 -> 2048 * f <= x -> x < 524288 * f ->
  LOWER_BOUND <= enc_step x f c < 2147483648.
Proof. exact rans_step_range. Qed.
Print Assumptions c08_rans_step_range.

(* the bytes pushed by state_renormalize are exactly the bytes RansRenorm pops, restoring the state *)
Theorem c08_rans_renorm_inverse : forall s f stack s1 stack1,
  LOWER_BOUND <= s < 2147483648 -> f <= 4096 ->
  enc_renorm 5 s f stack = Some (s1, stack1) ->
  exists em, stack1 = em ++ stack /\
    (forall tail, spec_renorm s1 (em ++ tail) = Some (s, tail)) /\
    2048 * f <= s1 < 524288 * f.
Proof. exact rans_renorm_inverse. Qed.
Print Assumptions c08_rans_renorm_inverse.

Theorem c08_rans_renorm_terminates : forall s f stack,
  0 < f -> s < 4294967296 -> exists s1 stack1, enc_renorm 5 s f stack = Some (s1, stack1).
Proof. exact enc_renorm_terminates. Qed.
Print Assumptions c08_rans_renorm_terminates.

(* RansGetSymbolFromFreq inverts the cumulative table on every slot *)
Theorem c08_rans_symbol_lookup : forall F x s0 c0 r,
  (x < length F)%nat -> r < nth x F 0 ->
  spec_symbol F (sumN (firstn x F) + r) s0 c0 = (s0 + N.of_nat x, c0 + sumN (firstn x F)).
Proof. exact spec_symbol_correct. Qed.
Print Assumptions c08_rans_symbol_lookup.

(* every table the encoder builds sums to at most 4095 < 4096 *)
Theorem c08_rans_normalize_sum : forall raw F, normalize_frequencies raw = Some F -> sumN F <= 4095.
Proof. exact normalize_sum_le. Qed.
Print Assumptions c08_rans_normalize_sum.

(* 4-way interleaved symbol loop, any table: decoded by the independent decoder to the input *)
Theorem c08_rans4x8_o0_core_roundtrip : forall src F,
  table_ok F src ->
  exists st stack,
    enc_symbols F (cumulative F) src = Some (st, stack) /\
    length st = 4%nat /\ Forall state_ok st /\
    forall tail, spec_decode0_loop (length src) F st (stack ++ tail) = Some (src, tail).
Proof. exact rans4x8_o0_core_roundtrip. Qed.
Print Assumptions c08_rans4x8_o0_core_roundtrip.

(* ... and with the encoder's own table, for EVERY byte string, under [no_overflow]:
   normalize_frequencies does not panic (F8, F8b) and leaves every occurring symbol a non-zero
   frequency *)
Theorem c08_rans4x8_o0_payload_roundtrip_partial : forall src F,
  Forall (fun x => x < 256) src -> no_overflow src F ->
  exists st stack,
    enc_symbols F (cumulative F) src = Some (st, stack) /\
    forall tail, spec_decode0_loop (length src) F st (stack ++ tail) = Some (src, tail).
Proof. exact rans4x8_o0_payload_roundtrip. Qed.
Print Assumptions c08_rans4x8_o0_payload_roundtrip_partial.

(* the full statement for rANS 4x8 order 0, NOT proved: it additionally needs the frequency-table
   serialisation round trip (freq_table_roundtrip), which is false in the real code for the three
   classes below and is only tested (L2/L3) elsewhere *)
Definition known_class_o0 (src : list N) : Prop :=
  src = [] \/
  (~ In 0 src /\ In 1 src) \/                                   (* first table symbol is 1 *)
  (exists s, 1 <= s /\ s < 255 /\ forall y, s - 1 <= y -> y <= 255 -> In y src).  (* run reaching 255 *)

Definition c08_rans4x8_o0_roundtrip_full_statement : Prop :=
  forall src F, Forall (fun x => x < 256) src -> no_overflow src F -> ~ known_class_o0 src ->
    exists bytes, encode_o0 src = EncOk bytes /\ spec_decode bytes = Some src.

(* ---------------- the known defect classes are real in the faithful model ---------------- *)

Theorem c08_normalize_u32_overflow_refuted :
  normalize_frequencies (upd zeros256 65 1048833) = None /\
  normalize_frequencies (upd zeros256 65 1048832) <> None.
Proof. exact normalize_u32_overflow_refuted. Qed.
Print Assumptions c08_normalize_u32_overflow_refuted.

Theorem c08_normalize_u16_underflow_refuted :
  normalize_frequencies (repeat 4128 127 ++ [3871] ++ repeat 1 128) = None.
Proof. exact normalize_u16_underflow_refuted. Qed.
Print Assumptions c08_normalize_u16_underflow_refuted.

Theorem c08_rans4x8_o0_first_symbol_1_refuted :
  exists src, (exists b, encode_o0 src = EncOk b) /\
              spec_decode (bytes_of_result (encode_o0 src)) <> Some src.
Proof. exact rans4x8_o0_first_symbol_1_refuted. Qed.
Print Assumptions c08_rans4x8_o0_first_symbol_1_refuted.

Theorem c08_rans4x8_o0_run_to_255_refuted :
  exists src, (exists b, encode_o0 src = EncOk b) /\
              spec_decode (bytes_of_result (encode_o0 src)) <> Some src.
Proof. exact rans4x8_o0_run_to_255_refuted. Qed.
Print Assumptions c08_rans4x8_o0_run_to_255_refuted.

Theorem c08_rans4x8_o0_empty_refuted :
  (exists b, encode_o0 [] = EncOk b) /\ spec_decode (bytes_of_result (encode_o0 [])) <> Some [].
Proof. exact rans4x8_o0_empty_refuted. Qed.
Print Assumptions c08_rans4x8_o0_empty_refuted.

(* ---------------- non-vacuity ---------------- *)

Example c08_itf8_examples :
  write_itf8 1877 = [135; 85] /\ write_itf8 (-1) = [255; 255; 255; 255; 15] /\
  read_itf8 [247; 85; 153; 102; 130; 9] = Some (1968805474%Z, [9]).
Proof. vm_compute. repeat split. Qed.

Example c08_uint7_example : write_uint7 4294967295 = [143; 255; 255; 255; 127].
Proof. vm_compute. reflexivity. Qed.

(* [no_overflow] and [table_ok] are satisfiable, and the whole pipeline runs end to end *)
Example c08_no_overflow_example :
  let src := [0; 2; 0; 2; 7; 7; 7; 9; 0; 200; 255; 0; 2] in
  exists F, no_overflow src F /\ spec_decode (bytes_of_result (encode_o0 src)) = Some src.
Proof.
  eexists. split; [split; [vm_compute; reflexivity|]|vm_compute; reflexivity].
  intros x Hx. cbn [In] in Hx.
  repeat (destruct Hx as [Hx|Hx]; [subst x; vm_compute; reflexivity|]). destruct Hx.
Qed.
