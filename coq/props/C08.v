(* C08 -- CRAM codecs and integer codings decode exactly what was encoded, per the spec.
   Property theorems only; each is closed by [exact] of a lemma proved in theories/Cram and is
   followed by Print Assumptions.  Models: NV.Cram.Itf8 / Ltf8 / Vlq (bit-exact models of
   noodles-cram io/{reader,writer}/num/*.rs), NV.Cram.Rans4x8 (faithful model of the rANS 4x8
   order-0 ENCODER of noodles, and an INDEPENDENT decoder for orders 0 and 1 written from the
   CRAM codecs specification) and NV.Cram.Rans4x8O1 (faithful model of the order-1 ENCODER).

   NV.Cram.Nx16Xform (PACK / RLE / CAT transforms), NV.Cram.Nx16O0 / Nx16O1 (rANS Nx16 ORDER-0 and
   ORDER-1 entropy coders: noodles' encoder AND noodles' repaired decoder), NV.Cram.Nx16Full (whole
   STRIPE-free Nx16 streams) and NV.Cram.Nx16Stripe (STRIPE, every flag byte).

   The models describe the REPAIRED code (fix commits 01-16 of the C08 series).
   PARTIAL: proved in full for the three integer codings, for rANS 4x8 orders 0 AND 1 (every
   byte string, whole stream, against the independent decoder) and for rANS Nx16 under EVERY
   flag byte (STRIPE, ORDER 0/1, N32, NO_SIZE, CAT, RLE, PACK), through the model of noodles' own
   decoder, for the adaptive arithmetic coder under every flag byte except EXT (NV.Cram.Aac,
   AacModes, AacRle) and for fqzcomp with every record partition (NV.Cram.Fqz); the name tokenizer
   and gzip/bzip2/lzma have no theorem (implementation-side oracle only). *)
From Coq Require Import List NArith ZArith.
From NV Require Import Cram.Bytes Cram.Itf8 Cram.Ltf8 Cram.Vlq Cram.IntProofs Cram.Rans4x8 Cram.Rans4x8Proofs
  Cram.Rans4x8Table Cram.Rans4x8O1 Cram.Rans4x8O1Proofs Cram.Rans4x8O1Table Cram.Rans4x8O1Full
  Cram.Nx16Xform Cram.Nx16XformProofs Cram.Nx16O0 Cram.Nx16O0Proofs Cram.Nx16O0Table Cram.Nx16O0Total
  Cram.Nx16O1 Cram.Nx16O1Defs Cram.Nx16O1Proofs Cram.Nx16O1Table Cram.Nx16O1Count Cram.Nx16Full
  Cram.Nx16FullProofs Cram.Nx16O1Total Cram.Nx16O1Full Cram.Nx16Stripe Cram.Nx16StripeLists Cram.Nx16StripeProofs Cram.Aac Cram.AacModes Cram.AacRle
  Cram.AacModesProofs Cram.AacRange Cram.AacProofs Cram.AacTotal Cram.AacModesRt Cram.AacRleRt Cram.AacStripeProofs Cram.AacAll Cram.AacModesTotal Cram.Fqz Cram.FqzProofs Cram.FqzTotal.
From NV Require Cram.Names Cram.NamesTotal Cram.NamesProofs Cram.NamesRt Cram.NamesRt2.
Import ListNotations.
Open Scope N_scope.

(* ---------------- integer codings: every representable value ---------------- *)

(* ITF8, all of i32: reading what was written gives the value back and leaves the rest untouched *)
Theorem c08_itf8_roundtrip : forall n rest,
  (-2147483648 <= n < 2147483648)%Z -> read_itf8 (write_itf8 n ++ rest) = Some (n, rest).
Proof. exact itf8_roundtrip. Qed.
Print Assumptions c08_itf8_roundtrip.

Theorem c08_itf8_length : forall n, length (write_itf8 n) = itf8_size n.
Proof. exact itf8_length. Qed.
Print Assumptions c08_itf8_length.

(* every proper prefix of an encoding is reported as UnexpectedEof *)
Theorem c08_itf8_truncated : forall n k,
  (-2147483648 <= n < 2147483648)%Z -> (k < length (write_itf8 n))%nat ->
  read_itf8 (firstn k (write_itf8 n)) = None.
Proof. exact itf8_truncated. Qed.
Print Assumptions c08_itf8_truncated.

(* the reader ignores the high nibble of the fifth byte (leniency of the code, recorded) *)
Theorem c08_itf8_fifth_byte_high_nibble : forall b0 b1 b2 b3 b4 h rest,
  240 <= b0 -> b4 < 16 -> h < 16 ->
  itf8_dec (b0 :: b1 :: b2 :: b3 :: (16 * h + b4) :: rest) = itf8_dec (b0 :: b1 :: b2 :: b3 :: b4 :: rest).
Proof. exact itf8_fifth_byte_high_nibble. Qed.
Print Assumptions c08_itf8_fifth_byte_high_nibble.

(* LTF8, all of i64 *)
Theorem c08_ltf8_roundtrip : forall n rest,
  (-9223372036854775808 <= n < 9223372036854775808)%Z -> read_ltf8 (write_ltf8 n ++ rest) = Some (n, rest).
Proof. exact ltf8_roundtrip. Qed.
Print Assumptions c08_ltf8_roundtrip.

Theorem c08_ltf8_length : forall n, length (write_ltf8 n) = ltf8_size n.
Proof. exact ltf8_length. Qed.
Print Assumptions c08_ltf8_length.

(* uint7, all of u32 (and the writer's 5-byte buffer never underflows) *)
Theorem c08_uint7_roundtrip : forall n rest,
  n < 4294967296 -> read_uint7 (write_uint7 n ++ rest) = U7Ok n rest.
Proof. exact uint7_roundtrip. Qed.
Print Assumptions c08_uint7_roundtrip.

Theorem c08_uint7_length : forall n, n < 4294967296 -> length (write_uint7 n) = uint7_size n.
Proof. exact uint7_length. Qed.
Print Assumptions c08_uint7_length.

(* ---------------- rANS 4x8 ---------------- *)

(* dec_step (enc_step x s) = (s, x): slot and state are both recovered; table constant 4096 *)
Theorem c08_rans_step_inverse : forall x f c,
  0 < f -> c + f <= 4096 ->
  (enc_step x f c) mod 4096 = c + x mod f /\ spec_advance (enc_step x f c) c f = x.
Proof. exact rans_step_inverse. Qed.
Print Assumptions c08_rans_step_inverse.

(* the step maps the renormalised interval [2^11 f, 2^19 f) into I = [2^23, 2^31): no u32 overflow *)
Theorem c08_rans_step_range : forall x f c,
  0 < f -> c + f <= 4096 -> 2048 * f <= x -> x < 524288 * f ->
  LOWER_BOUND <= enc_step x f c < 2147483648.
Proof. exact rans_step_range. Qed.
Print Assumptions c08_rans_step_range.

(* the bytes pushed by state_renormalize are exactly the bytes RansRenorm pops, restoring the state *)
Theorem c08_rans_renorm_inverse : forall s f stack s1 stack1,
  LOWER_BOUND <= s < 2147483648 -> f <= 4096 ->
  enc_renorm 5 s f stack = Some (s1, stack1) ->
  exists em, stack1 = em ++ stack /\
    (forall tail, spec_renorm s1 (em ++ tail) = Some (s, tail)) /\
    2048 * f <= s1 < 524288 * f.
Proof. exact rans_renorm_inverse. Qed.
Print Assumptions c08_rans_renorm_inverse.

Theorem c08_rans_renorm_terminates : forall s f stack,
  0 < f -> s < 4294967296 -> exists s1 stack1, enc_renorm 5 s f stack = Some (s1, stack1).
Proof. exact enc_renorm_terminates. Qed.
Print Assumptions c08_rans_renorm_terminates.

(* RansGetSymbolFromFreq inverts the cumulative table on every slot *)
Theorem c08_rans_symbol_lookup : forall F x s0 c0 r,
  (x < length F)%nat -> r < nth x F 0 ->
  spec_symbol F (sumN (firstn x F) + r) s0 c0 = (s0 + N.of_nat x, c0 + sumN (firstn x F)).
Proof. exact spec_symbol_correct. Qed.
Print Assumptions c08_rans_symbol_lookup.

(* the table normalize_frequencies builds (u64 product, correction spread over the table): 256
   entries, sum at most 4096, and every symbol that occurs keeps a frequency of at least 1 *)
Theorem c08_rans_normalize_table : forall raw F,
  length raw = 256%nat -> normalize_frequencies raw = Some F ->
  length F = 256%nat /\ sumN F <= 4096 /\ (forall i, 0 < nth i raw 0 -> 0 < nth i F 0).
Proof. exact normalize_table. Qed.
Print Assumptions c08_rans_normalize_table.

(* 4-way interleaved symbol loop, any table: decoded by the independent decoder to the input *)
Theorem c08_rans4x8_o0_core_roundtrip : forall src F,
  table_ok F src ->
  exists st stack,
    enc_symbols F (cumulative F) src = Some (st, stack) /\
    length st = 4%nat /\ Forall state_ok st /\
    forall tail, spec_decode0_loop (length src) F st (stack ++ tail) = Some (src, tail).
Proof. exact rans4x8_o0_core_roundtrip. Qed.
Print Assumptions c08_rans4x8_o0_core_roundtrip.

(* freq_table_roundtrip: the run-length coded table written by write_frequencies is read back by
   the specification's ReadFrequencies0 and passes the validation of its total (<= 4096, as the
   repaired noodles decoder demands, 8832bc0), for every table in which some symbol occurs *)
Theorem c08_freq_table_roundtrip : forall F rest,
  length F = 256%nat -> Forall (fun g => g < 4294967296) F -> (exists i, nth i F 0 <> 0) ->
  sumN F <= 4096 ->
  spec_read_frequencies0 (write_frequencies F ++ rest) = Some (F, rest).
Proof. exact freq_table_roundtrip. Qed.
Print Assumptions c08_freq_table_roundtrip.

(* a table adding up to more than 4096 is REJECTED at read (an error, never a later overflow of
   the cumulative table or of the 32-bit state) *)
Theorem c08_freq_table_total_rejected : forall bs F r,
  spec_read_frequencies0_raw bs = Some (F, r) -> 4096 < sumN F -> spec_read_frequencies0 bs = None.
Proof. exact freq_table_total_rejected. Qed.
Print Assumptions c08_freq_table_total_rejected.

(* THE order-0 statement: for EVERY byte string (shorter than 2^32, the limit of the header) the
   encoder terminates without panicking and the independent specification decoder maps the
   stream it emits -- header, frequency table, states, payload -- back to the input.  No side
   condition is left: the former defect classes (empty input, first table symbol 1, a run of
   symbols reaching 255, counts above 2^20, the normalisation correction) are covered. *)
Theorem c08_rans4x8_o0_roundtrip : forall src,
  Forall (fun x => x < 256) src -> N.of_nat (length src) < 4294967296 ->
  exists bytes, encode_o0 src = EncOk bytes /\ spec_decode bytes = Some src.
Proof. exact rans4x8_o0_roundtrip. Qed.
Print Assumptions c08_rans4x8_o0_roundtrip.

(* ---------------- rANS 4x8 order 1 ---------------- *)

(* payload: the four interleaved states, each coding one quarter of the input in the context of
   the previous byte (NUL for the first), the fourth one also the remainder -- for ANY 256x256
   table in which every (context, symbol) pair that is coded has a non-zero frequency in a row
   summing to at most 4096: RansDecode1 returns the four quarters and the remainder *)
Theorem c08_rans4x8_o1_core_roundtrip : forall F1 c0 c1 c2 c3 rem k0 k1 k2 k3,
  length c1 = length c0 -> length c2 = length c0 -> length c3 = length c0 ->
  chain (ok1 F1) k0 c0 -> chain (ok1 F1) k1 c1 -> chain (ok1 F1) k2 c2 ->
  chain (ok1 F1) k3 (c3 ++ rem) ->
  exists s0 s1 s2 s3 stack,
    enc1_main F1 (map cumulative F1) k0 k1 k2 k3 c0 c1 c2 c3 rem = Some (s0, s1, s2, s3, stack) /\
    state_ok s0 /\ state_ok s1 /\ state_ok s2 /\ state_ok s3 /\
    forall rest, exists sl mid,
      spec_decode1_main (length c0) F1 (mk1 s0 k0) (mk1 s1 k1) (mk1 s2 k2) (mk1 s3 k3) (stack ++ rest)
        = Some (c0, c1, c2, c3, sl, mid) /\
      spec_decode1_tail (length rem) F1 sl mid = Some (rem, rest).
Proof. exact rans4x8_o1_core_roundtrip. Qed.
Print Assumptions c08_rans4x8_o1_core_roundtrip.

(* the order-1 table: contexts that occur, run-length coded, each with its row in the order-0
   format -- what write_frequencies (order_1.rs) writes, ReadFrequencies1 reads *)
Theorem c08_freq_table1_roundtrip : forall F1 rest,
  length F1 = 256%nat -> Forall rowv F1 -> (exists fs, In fs F1 /\ in_alphabet fs = true) ->
  spec_read_frequencies1 (write_frequencies1 F1 ++ rest) = Some (F1, rest).
Proof. exact freq_table1_roundtrip. Qed.
Print Assumptions c08_freq_table1_roundtrip.

(* the specification forbids order 1 below 4 bytes: the encoder refuses with InvalidInput *)
Theorem c08_rans4x8_o1_short : forall src, (length src < 4)%nat -> encode_o1 src = EncInvalidInput.
Proof. exact rans4x8_o1_short. Qed.
Print Assumptions c08_rans4x8_o1_short.

(* THE order-1 statement: for EVERY byte string of at least 4 bytes (and at most 2^32 - 5, so that
   no u32 counter of build_raw_frequencies wraps) the encoder terminates without panicking and the
   independent specification decoder maps the stream it emits -- header, context table, states,
   payload -- back to the input.  No side condition on the symbol distribution is left. *)
Theorem c08_rans4x8_o1_roundtrip : forall src,
  Forall (fun x => x < 256) src -> (4 <= length src)%nat -> N.of_nat (length src) + 4 < 4294967296 ->
  exists bytes, encode_o1 src = EncOk bytes /\ spec_decode bytes = Some src.
Proof. exact rans4x8_o1_roundtrip. Qed.
Print Assumptions c08_rans4x8_o1_roundtrip.

(* ---------------- rANS Nx16: flag byte and the transforms in front of the entropy coder ---------------- *)

(* the flag byte written by the encoder is read back as the same flag set *)
Theorem c08_nx_flags_roundtrip : forall f, flags_of_byte (byte_of_flags f) = f /\ byte_of_flags f < 256.
Proof. exact nx_flags_roundtrip. Qed.
Print Assumptions c08_nx_flags_roundtrip.

(* RLE, the loop: for ANY alphabet the literals and run lengths written by rle::encode are
   expanded by rle::decode's loop to the input *)
Theorem c08_nx_rle_core_roundtrip : forall A fuel src l m rest fuel2,
  (length src <= fuel)%nat -> (length src <= fuel2)%nat -> N.of_nat (length src) < 4294967296 ->
  rle_enc fuel A src = (l, m) ->
  rle_dec fuel2 A l (m ++ rest) (length src) = DOk src.
Proof. exact rle_core_roundtrip. Qed.
Print Assumptions c08_nx_rle_core_roundtrip.

(* RLE with the meta-data layout (symbol count with 0 = 256, alphabet, run lengths) *)
Theorem c08_nx_rle_roundtrip : forall A src lits runs,
  (1 <= length A <= 256)%nat -> N.of_nat (length src) < 4294967296 ->
  rle_enc (length src) A src = (lits, runs) ->
  rle_decode lits (rle_alphabet_bytes A ++ runs) (length src) = DOk src.
Proof. exact rle_roundtrip. Qed.
Print Assumptions c08_nx_rle_roundtrip.

(* bit PACK: every table of 1..16 symbols containing the input's symbols, all four widths *)
Theorem c08_nx_pack_roundtrip : forall syms src,
  (1 <= length syms <= 16)%nat -> (forall x, In x src -> In x syms) ->
  pack_decode syms (pack_encode syms src) (length src) = DOk src.
Proof. exact pack_roundtrip. Qed.
Print Assumptions c08_nx_pack_roundtrip.

(* bit PACK with the context build_context derives from the input itself (every symbol that
   occurs is in the table; None = no or more than 16 symbols, the encoder then drops PACK) *)
Theorem c08_nx_pack_build_roundtrip : forall src syms,
  Forall (fun b => b < 256) src -> pack_build src = Some syms ->
  pack_decode syms (pack_encode syms src) (length src) = DOk src.
Proof. exact pack_build_roundtrip. Qed.
Print Assumptions c08_nx_pack_build_roundtrip.

(* whole stream, CAT (given, or forced because fewer than N bytes are coded), any ORDER / N32 /
   NO_SIZE: noodles' decoder model returns the input *)
Theorem c08_nx_cat_roundtrip : forall f src,
  f_stripe f = false -> f_pack f = false -> f_rle f = false ->
  f_cat f = true \/ (length src < state_count f)%nat ->
  N.of_nat (length src) < 4294967296 ->
  exists bytes, nx_encode f src = NxOk bytes /\ nx_decode bytes (N.of_nat (length src)) = DOk src.
Proof. exact nx_cat_roundtrip. Qed.
Print Assumptions c08_nx_cat_roundtrip.

(* the repaired decoder (497e771, 464651e): what used to be panics are io::Errors *)
Theorem c08_nx_cat_short_payload_is_error : forall f size payload usize,
  f_stripe f = false -> f_pack f = false -> f_rle f = false -> f_cat f = true ->
  f_nosize f = false -> size < 4294967296 -> N.of_nat (length payload) < size ->
  nx_decode (byte_of_flags f :: write_uint7 size ++ payload) usize = DErr.
Proof. exact nx_cat_short_payload_is_error. Qed.
Print Assumptions c08_nx_cat_short_payload_is_error.

Theorem c08_nx_cat_long_payload_is_cut : forall f src extra usize,
  f_stripe f = false -> f_pack f = false -> f_rle f = false -> f_cat f = true ->
  f_nosize f = false -> N.of_nat (length src) < 4294967296 ->
  nx_decode (byte_of_flags f :: write_uint7 (N.of_nat (length src)) ++ src ++ extra) usize = DOk src.
Proof. exact nx_cat_long_payload_is_cut. Qed.
Print Assumptions c08_nx_cat_long_payload_is_cut.

Theorem c08_nx_pack_bad_value_is_error : forall table w cs s rest n,
  pack_geom (length table) = Some (S cs, w) -> (1 <= n)%nat ->
  N.of_nat (length table) <= s mod w ->
  pack_decode table (s :: rest) n = DErr.
Proof. exact pack_decode_bad_value_is_error. Qed.
Print Assumptions c08_nx_pack_bad_value_is_error.

(* for EVERY byte string and caller-supplied size the model of the repaired Nx16 decoder (flag
   byte, sizes, PACK / RLE contexts, CAT payload, RLE and PACK expansion) has no panicking path *)
Theorem c08_nx_decode_never_panics : forall bs usize, nx_decode bs usize <> DPanic.
Proof. exact nx_decode_never_panics. Qed.
Print Assumptions c08_nx_decode_never_panics.

(* ---------------- rANS Nx16: the ORDER-0 entropy coder and whole streams ---------------- *)

(* normalize_frequencies (encoder): 256 entries adding up to EXACTLY 4096 unless the input is
   empty, every symbol that occurs keeps a frequency >= 1 (so state_renormalize terminates) *)
Theorem c08_nx_normalize_table : forall raw F,
  length raw = 256%nat -> nx_normalize raw = Some F ->
  length F = 256%nat /\ (0 < sumN raw -> sumN F = 4096) /\
  (forall i, 0 < nth i raw 0 -> 0 < nth i F 0).
Proof. exact nx_normalize_table. Qed.
Print Assumptions c08_nx_normalize_table.

(* write_alphabet / read_alphabet: every non-empty alphabet (runs of adjacent symbols, runs that
   reach symbol 255, symbol 0 first) is read back, and the reader stops exactly at its end *)
Theorem c08_nx_alphabet_roundtrip : forall A tail,
  length A = 256%nat -> In true A -> read_alphabet (write_alphabet A ++ tail) = Some (A, tail).
Proof. exact alphabet_roundtrip. Qed.
Print Assumptions c08_nx_alphabet_roundtrip.

(* the N-way interleaved symbol loop with 16-bit renormalisation, ANY number N > 0 of states and
   any table that gives each used symbol a non-zero frequency and sums to at most 4096: the encoder
   terminates, its states stay in [2^15, 2^31), and noodles' decoder loop returns the input *)
Theorem c08_nx_o0_core_roundtrip : forall n, (0 < n)%nat -> forall src F,
  table_ok F src ->
  exists st stack,
    nx_enc_symbols n F (cumulative F) src = Some (st, stack) /\
    length st = n /\ Forall state_ok16 st /\
    forall tail, nxd0_loop (length src) 4096 F (cumulative F) st (stack ++ tail) = ROk src.
Proof. exact nx_o0_core_roundtrip. Qed.
Print Assumptions c08_nx_o0_core_roundtrip.

(* the whole order-0 stream (alphabet, uint7 frequencies, N states, payload), EVERY non-empty byte
   string shorter than 2^32, N = 4, 32 or any other positive count *)
Theorem c08_nx_o0_roundtrip : forall n src tail,
  (0 < n)%nat -> src <> [] ->
  Forall (fun b => b < 256) src -> N.of_nat (length src) < 4294967296 ->
  exists body, nx_o0_encode n src = EncOk body /\
               nxd0_decode (body ++ tail) (length src) n = ROk src.
Proof. exact nx_o0_roundtrip. Qed.
Print Assumptions c08_nx_o0_roundtrip.

(* ---- order 1 ---- *)

(* the interleaved order-1 loops for ANY table in which every (context, symbol) pair that is coded
   has a non-zero frequency, any number n > 0 of states: the encoder (remainder first, positions
   back to front, states last to first) terminates with its states in [2^15, 2^31) and noodles'
   decoder (positions front to back, then the remainder with the last state) reads the rows and the
   remainder back *)
Theorem c08_nx_o1_core_roundtrip : forall F1 n, (0 < n)%nat -> forall rows K rem,
  length K = n -> rows_ok F1 K rows rem ->
  exists St stack,
    enc16_rows n F1 (map cumulative F1) K rows rem = Some (St, stack) /\
    length St = n /\ Forall state_ok16 St /\
    forall rest, exists K' St' b3,
      dec16_rows (length rows) 4096 F1 (map cumulative F1) K St (stack ++ rest) = ROk (rows, K', St', b3) /\
      dec16_tail (length rem) 4096 F1 (map cumulative F1) (last K' 0) (last St' 0) b3 = ROk rem.
Proof. exact nx_o1_core_roundtrip. Qed.
Print Assumptions c08_nx_o1_core_roundtrip.

(* the serialised order-1 table (header 0xC0, alphabet, per context the alphabet's frequencies as
   uint7 with zero runs) is read back as the same 256 x 256 table *)
Theorem c08_nx_o1_table_roundtrip : forall A F1 rest,
  length A = 256%nat -> nth 0 A false = true ->
  o1_table_ok F1 -> o1_support A F1 ->
  read_freqs1 (192 :: write_alphabet A ++ wr_rows A A F1 ++ rest) = ROk (4096, F1, rest).
Proof. exact o1_table_roundtrip. Qed.
Print Assumptions c08_nx_o1_table_roundtrip.

(* chunks, rows and the counted table of the encoder: the transposition is undone by the decoder's
   dst[j * q + i] layout, every row of the table sums to exactly 4096 (or is empty), non-zero
   frequencies occur only between symbols of the alphabet, and every pair the coder uses -- chunk
   starts under NUL, adjacent bytes of a chunk, the last chunk's end into the remainder -- has a
   non-zero frequency *)
Theorem c08_nx_o1_count : forall n src,
  (0 < n)%nat -> (n <= length src)%nat ->
  Forall (fun b => b < 256) src -> N.of_nat (length src) < 268435456 ->
  let q := Nat.div (length src) n in
  exists cs rem F1,
    split_chunks n q src = (cs, rem) /\
    length (rows_of q cs) = q /\ Forall (fun r => length r = n) (rows_of q cs) /\
    concat (cols_of n (rows_of q cs)) ++ rem = src /\
    length rem = (length src - q * n)%nat /\
    nx_normalize_rows (raw_freqs1 (hd [] (rows_of q cs)) src) = Some F1 /\
    o1_table_ok F1 /\ o1_support (alphabet1 src) F1 /\
    length (alphabet1 src) = 256%nat /\ nth 0 (alphabet1 src) false = true /\
    rows_ok F1 (repeat 0 n) (rows_of q cs) rem.
Proof. exact nx_o1_count. Qed.
Print Assumptions c08_nx_o1_count.

(* the whole order-1 stream, EVERY byte string of n .. 2^28-1 bytes, any state count n > 0 *)
Theorem c08_nx_o1_roundtrip : forall n src,
  (0 < n)%nat -> (n <= length src)%nat ->
  Forall (fun b => b < 256) src -> N.of_nat (length src) < 268435456 ->
  exists body, nx_o1_encode n src = EncOk body /\ nxd1_decode body (length src) n = ROk src.
Proof. exact nx_o1_roundtrip. Qed.
Print Assumptions c08_nx_o1_roundtrip.

(* ---- whole streams ---- *)

(* WHOLE Nx16 STREAMS, EVERY flag byte without STRIPE (ORDER, N32, NO_SIZE, CAT, RLE, PACK and the
   reserved bit arbitrary), every byte string shorter than 2^28: rans_nx16::encode never panics or
   diverges, and rans_nx16::decode returns the input -- PACK and RLE applied or refused (flag
   dropped), CAT given or forced by the short-input fall-back, order-0 or order-1 entropy coding
   with 4 or 32 states, with or without the size field.
   This contains the former nx_xform_full_statement (PACK / RLE contexts composed). *)
Theorem c08_nx_full_roundtrip : forall f src,
  f_stripe f = false -> Forall (fun b => b < 256) src -> N.of_nat (length src) < 268435456 ->
  exists bytes, nx_encode_e f src = NeOk bytes /\ nx_decode_e bytes (N.of_nat (length src)) = DOk src.
Proof. exact nx_full_roundtrip. Qed.
Print Assumptions c08_nx_full_roundtrip.

(* EVERY FLAG BYTE, STRIPE included (the input dealt into 4 sub-streams, each a NO_SIZE order-0
   stream of its own, framed by the chunk count and the compressed sizes; the decoder recurses) *)
Theorem c08_nx_stripe_roundtrip : forall f src,
  Forall (fun b => b < 256) src -> N.of_nat (length src) < 268435456 ->
  exists bytes, nx_encode_s f src = NeOk bytes /\ nx_decode_s bytes (N.of_nat (length src)) = DOk src.
Proof. exact nx_stripe_roundtrip. Qed.
Print Assumptions c08_nx_stripe_roundtrip.

(* totality of the repaired decoders: for EVERY byte string the order-0 decoder (any table the
   reader accepts, incl. tables scaled up by a power of two and the all-zero table; u32 state
   arithmetic checked explicitly in the model), the order-1 decoder (any bit count 0..15 in the
   table header, verbatim or entropy-compressed table) and the whole-stream decoder (incl. the
   branch for entropy-compressed RLE meta-data) return bytes, an io::Error or "unsupported"
   (STRIPE) -- never a panic *)
Theorem c08_nxd0_decode_never_panics : forall bs len n,
  (0 < n)%nat -> Forall (fun b => b < 256) bs -> nxd0_decode bs len n <> RPanic.
Proof. exact nxd0_decode_never_panics. Qed.
Print Assumptions c08_nxd0_decode_never_panics.

Theorem c08_nxd1_decode_never_panics : forall bs len n,
  (0 < n)%nat -> Forall (fun b => b < 256) bs -> nxd1_decode bs len n <> RPanic.
Proof. exact nxd1_decode_never_panics. Qed.
Print Assumptions c08_nxd1_decode_never_panics.

Theorem c08_nx_decode_e_never_panics : forall bs usize,
  Forall (fun b => b < 256) bs -> nx_decode_e bs usize <> DPanic.
Proof. exact nx_decode_e_never_panics. Qed.
Print Assumptions c08_nx_decode_e_never_panics.

Theorem c08_nx_decode_s_never_panics : forall bs usize,
  Forall (fun b => b < 256) bs -> nx_decode_s bs usize <> DPanic.
Proof. exact nx_decode_s_never_panics. Qed.
Print Assumptions c08_nx_decode_s_never_panics.

(* ---------------- adaptive arithmetic coder (CRAM 3.1 "arith") ---------------- *)

(* ORDER 0, the range coder with carry propagation and the adaptive model, EVERY non-empty byte
   string: the model of noodles' encoder never panics and the model of noodles' decoder returns the
   input, whatever follows the stream *)
Theorem c08_aac_o0_roundtrip : forall src tail,
  src <> [] -> Forall (fun b => b < 256) src ->
  exists body, aac_o0_encode src = Some body /\ aac_o0_decode (body ++ tail) (length src) = ROk src.
Proof. exact aac_o0_roundtrip. Qed.
Print Assumptions c08_aac_o0_roundtrip.

(* ORDER 1 (one adaptive model per previous symbol), every non-empty byte string *)
Theorem c08_aac_o1_roundtrip : forall src tail,
  src <> [] -> Forall (fun b => b < 256) src ->
  exists body, aac_o1_encode src = Some body /\ aac_o1_decode (body ++ tail) (length src) = ROk src.
Proof. exact aac_o1_roundtrip_tail. Qed.
Print Assumptions c08_aac_o1_roundtrip.

(* the range coder writes at most 4 bytes per symbol plus 6 (needed for the STRIPE size fields) *)
Theorem c08_aac_o0_encode_len : forall src body,
  aac_o0_encode src = Some body -> (length body <= 4 * length src + 7)%nat.
Proof. exact aac_o0_encode_len. Qed.
Print Assumptions c08_aac_o0_encode_len.

(* WHOLE AAC STREAMS, every flag byte without RLE and EXT -- or with STRIPE, where the other flags
   are ignored --, every byte string shorter than 2^28: aac::encode never panics and aac::decode
   returns the input: order 0 or 1, PACK applied or refused, CAT given or forced when nothing is
   left to code, size field or caller size, 4 striped NO_SIZE sub-streams with the recursive decoder *)
Theorem c08_aac_all_roundtrip_norle : forall f src,
  f_stripe f = true \/ (f_n32 f = false /\ f_rle f = false) ->
  Forall (fun b => b < 256) src -> N.of_nat (length src) < 268435456 ->
  exists bytes, aac_encode_r f src = AeOk bytes /\ aac_decode_r bytes (N.of_nat (length src)) = DOk src.
Proof. exact aac_all_roundtrip_norle. Qed.
Print Assumptions c08_aac_all_roundtrip_norle.

(* the RLE modes, both orders: literals in the symbol model(s), run lengths as base-4 digits in 258
   four-symbol models; every non-empty byte string shorter than 2^32 *)
Theorem c08_aac_rle_roundtrip : forall o1 src tail,
  src <> [] -> Forall (fun b => b < 256) src -> N.of_nat (length src) < 4294967296 ->
  exists body, aac_rle_encode o1 src = Some body /\ aac_rle_decode o1 (body ++ tail) (length src) = ROk src.
Proof. exact aac_rle_roundtrip_tail. Qed.
Print Assumptions c08_aac_rle_roundtrip.

(* EVERY AAC flag byte except EXT (bzip2): ORDER, STRIPE, NO_SIZE, CAT, RLE, PACK, reserved bit *)
Theorem c08_aac_all_roundtrip : forall f src,
  f_stripe f = true \/ f_n32 f = false ->
  Forall (fun b => b < 256) src -> N.of_nat (length src) < 268435456 ->
  exists bytes, aac_encode_r f src = AeOk bytes /\ aac_decode_r bytes (N.of_nat (length src)) = DOk src.
Proof. exact aac_all_roundtrip. Qed.
Print Assumptions c08_aac_all_roundtrip.

(* the order-0 decoder and the whole-stream decoder (PACK, CAT, order 0) never panic: no division
   by zero, no table index out of range, no u32 overflow or underflow in the range decoder *)
Theorem c08_aac_o0_decode_never_panics : forall bs len,
  Forall (fun b => b < 256) bs -> aac_o0_decode bs len <> RPanic.
Proof. exact aac_o0_decode_never_panics. Qed.
Print Assumptions c08_aac_o0_decode_never_panics.

Theorem c08_aac_decode_never_panics : forall bs usize,
  Forall (fun b => b < 256) bs -> aac_decode bs usize <> DPanic.
Proof. exact aac_decode_never_panics. Qed.
Print Assumptions c08_aac_decode_never_panics.

(* the whole AAC decoder for every flag byte -- order 0 / 1, RLE (unbounded digit loop), PACK, CAT,
   nested STRIPE -- never panics on any byte string (EXT is answered "unsupported") *)
Theorem c08_aac_decode_r_never_panics : forall bs usize,
  Forall (fun b => b < 256) bs -> aac_decode_r bs usize <> DPanic.
Proof. exact aac_decode_r_never_panics. Qed.
Print Assumptions c08_aac_decode_r_never_panics.

(* ---------------- fqzcomp ---------------- *)

(* EVERY quality string shorter than 2^32 with EVERY partition into records (zero-length records
   are dropped by the encoder): the model of fqzcomp::encode never panics and the model of
   fqzcomp::decode returns the qualities -- parameter block with its run-length coded position
   table, record lengths in the four byte models (once for equal-length records), every quality in
   the model chosen by the 16-bit context of quality history and position *)
Theorem c08_fqz_roundtrip : forall lens src,
  Forall (fun b => b < 256) src -> N.of_nat (length src) < 4294967296 ->
  fold_right Nat.add 0%nat (filter (fun l => (0 <? l)%nat) lens) = length src ->
  exists bytes, fqz_encode lens src = Some bytes /\ fqz_decode bytes = FOk src.
Proof. exact fqz_roundtrip. Qed.
Print Assumptions c08_fqz_roundtrip.

(* the two-level run-length coding of the position table is read back, whatever follows it *)
Theorem c08_fqz_ptab_roundtrip : forall b rest,
  read_array (write_array (enc_ptab b) ++ rest) 1024 = Some (enc_ptab b, rest).
Proof. exact ptab_roundtrip. Qed.
Print Assumptions c08_fqz_ptab_roundtrip.

(* the fqzcomp decoder (for the streams it models) never panics on any byte string *)
Theorem c08_fqz_decode_never_panics : forall bs,
  Forall (fun b => b < 256) bs -> fqz_decode bs <> FPanic.
Proof. exact fqz_decode_never_panics. Qed.
Print Assumptions c08_fqz_decode_never_panics.

(* ---------------- name tokenizer ---------------- *)

(* the name tokenizer decoder -- header, token byte streams (each an rANS Nx16 or an arithmetic
   coder stream, duplicated streams, implicit types), token readers, names loop -- never panics on
   any byte string *)
Theorem c08_names_decode_never_panics : forall bs,
  Forall (fun b => b < 256) bs -> NV.Cram.Names.names_decode bs <> NV.Cram.Names.NmPanic.
Proof. exact NV.Cram.NamesTotal.names_decode_never_panics. Qed.
Print Assumptions c08_names_decode_never_panics.

(* building blocks of the name tokenizer round trip: (1) the entropy stage of every token byte stream --
   rans_nx16::encode(Flags::empty(), buf) decoded by rans_nx16::decode(.., 0) -- returns the buffer;
   (2) the tokens spell the name, none is empty, there are at most 126, and with fewer than 126 every
   token is purely alphanumeric or purely not; the repaired parse_u32 is the plain decimal value *)
Theorem c08_names_entropy_roundtrip_partial : forall buf,
  Forall (fun b => b < 256) buf -> N.of_nat (length buf) < 268435456 ->
  exists e, nx_encode_s_byte 0 buf = NeOk e /\ nx_decode_s e 0 = DOk buf.
Proof. exact NV.Cram.NamesProofs.names_entropy_roundtrip. Qed.
Print Assumptions c08_names_entropy_roundtrip_partial.

Theorem c08_names_tokenize_partial : forall b,
  concat (NV.Cram.Names.tokenize b) = b /\
  Forall (fun t => t <> []) (NV.Cram.Names.tokenize b) /\
  (length (NV.Cram.Names.tokenize b) <= 126)%nat /\
  ((length (NV.Cram.Names.tokenize b) < 126)%nat ->
   Forall (fun t => NV.Cram.NamesProofs.homog t /\
                    NV.Cram.Names.parse_u32 t = NV.Cram.Names.digits_val t 0) (NV.Cram.Names.tokenize b)).
Proof.
  intros b. split; [apply NV.Cram.NamesProofs.tokenize_concat|].
  split; [apply NV.Cram.NamesProofs.tokenize_nonempty|].
  split; [apply NV.Cram.NamesProofs.tokenize_count|].
  intros H. pose proof (NV.Cram.NamesProofs.tokenize_homog b H) as Hh.
  pose proof (NV.Cram.NamesProofs.tokenize_nonempty b) as Hn.
  rewrite Forall_forall in *. intros t Ht. split; [apply Hh; exact Ht|].
  apply NV.Cram.NamesProofs.parse_u32_homog; [apply Hh; exact Ht|apply Hn; exact Ht].
Qed.
Print Assumptions c08_names_tokenize_partial.

(* THE WHOLE CODEC: for EVERY NUL-terminated name list (bytes, shorter than 2^28, fewer than 2^26
   names; any number of tokens per name -- the 126-token restriction of the first version was only
   there because of the defect repaired by /repo fc00545) the model of name_tokenizer::encode
   answers and the model of name_tokenizer::decode returns exactly the input: tokens (Match, Delta,
   Delta0, padded and plain digits, chars, strings, the unsplit 126th remainder) read back against
   the previous name's tokens, the ten byte streams of every token column compressed and rebuilt,
   duplicates copied from their first occurrence, names joined with NUL *)
Theorem c08_names_roundtrip : forall src,
  NV.Cram.NamesRt.names_wf src ->
  exists bytes, NV.Cram.Names.names_encode src = NV.Cram.Names.NmOk bytes /\
                NV.Cram.Names.names_decode bytes = NV.Cram.Names.NmOk src.
Proof. exact NV.Cram.NamesRt2.names_roundtrip. Qed.
Print Assumptions c08_names_roundtrip.

(* names_wf is satisfiable and says what the comment says *)
Example c08_names_wf_example :
  NV.Cram.NamesRt.names_wf [114; 49; 0; 114; 50; 0; 114; 50; 0; 113; 48; 48; 55; 0].
Proof.
  unfold NV.Cram.NamesRt.names_wf. repeat split; try (vm_compute; congruence); try (vm_compute; reflexivity).
  repeat constructor.
Qed.

(* the former defect input of the class `names-plus-sign-number-in-126th-token` (62 x "a." then
   "a+5": 126 tokens, the last one "+5"; before /repo fc00545 the remainder was stored as the
   number 5 and decoded without the '+') now round trips -- also an instance of c08_names_roundtrip *)
Theorem c08_names_former_defect_roundtrips :
  exists bytes, NV.Cram.Names.names_encode NV.Cram.NamesTotal.plus_src = NV.Cram.Names.NmOk bytes /\
                NV.Cram.Names.names_decode bytes = NV.Cram.Names.NmOk NV.Cram.NamesTotal.plus_src.
Proof. exact NV.Cram.NamesTotal.names_plus_sign_roundtrips. Qed.
Print Assumptions c08_names_former_defect_roundtrips.

(* the full C08 statement, NOT proved beyond the parts above: AAC with EXT (bzip2), the name
   tokenizer and gzip/bzip2/lzma have no Gallina model; rANS Nx16, AAC and fqzcomp are proved
   against the models of noodles' own decoders, not against independent specification decoders *)
Definition c08_full_statement_informal : Prop :=
  forall src, Forall (fun x => x < 256) src -> N.of_nat (length src) + 4 < 4294967296 ->
    (exists bytes, encode_o0 src = EncOk bytes /\ spec_decode bytes = Some src) /\
    ((4 <= length src)%nat -> exists bytes, encode_o1 src = EncOk bytes /\ spec_decode bytes = Some src)
    (* /\ the same for every other codec of the property statement *).

(* ---------------- non-vacuity ---------------- *)

Example c08_itf8_examples :
  write_itf8 1877 = [135; 85] /\ write_itf8 (-1) = [255; 255; 255; 255; 15] /\
  read_itf8 [247; 85; 153; 102; 130; 9] = Some (1968805474%Z, [9]).
Proof. vm_compute. repeat split. Qed.

Example c08_uint7_example : write_uint7 4294967295 = [143; 255; 255; 255; 127].
Proof. vm_compute. reflexivity. Qed.

(* the former defect inputs now run end to end in the model (and in the repaired code, L2) *)
Example c08_former_defect_inputs :
  spec_decode (bytes_of_result (encode_o0 [1])) = Some [1] /\
  spec_decode (bytes_of_result (encode_o0 [253; 254; 255])) = Some [253; 254; 255] /\
  spec_decode (bytes_of_result (encode_o0 [])) = Some [] /\
  (exists F, normalize_frequencies (repeat 4128 127 ++ [3871] ++ repeat 1 128) = Some F /\ sumN F = 4095) /\
  (exists F, normalize_frequencies (upd zeros256 65 1048833) = Some F /\ nth 65 F 0 = 4095).
Proof.
  split; [vm_compute; reflexivity|]. split; [vm_compute; reflexivity|].
  split; [vm_compute; reflexivity|]. split; eexists; split; vm_compute; reflexivity.
Qed.

Example c08_end_to_end_example :
  let src := [0; 2; 0; 2; 7; 7; 7; 9; 0; 200; 255; 0; 2] in
  spec_decode (bytes_of_result (encode_o0 src)) = Some src.
Proof. vm_compute. reflexivity. Qed.

Example c08_order1_example :
  let src := [110; 111; 111; 100; 108; 101; 115; 0; 0; 255; 255; 254; 110; 111] in
  spec_decode (bytes_of_result (encode_o1 src)) = Some src /\ encode_o1 [1; 2; 3] = EncInvalidInput.
Proof. vm_compute. split; reflexivity. Qed.

(* the order-1 test vector of noodles (encode.rs test_encode_with_order_1, "noodles") *)
Example c08_order1_noodles_vector :
  encode_o1 [110; 111; 111; 100; 108; 101; 115] = EncOk
    [1; 59; 0; 0; 0; 7; 0; 0; 0; 0; 100; 131; 255; 110; 131; 255; 111; 0; 136; 1; 0; 100; 108; 143;
     255; 0; 101; 0; 115; 143; 255; 0; 108; 101; 143; 255; 0; 110; 111; 143; 255; 0; 111; 0; 100;
     135; 255; 111; 136; 0; 0; 0; 7; 132; 0; 2; 0; 232; 255; 0; 0; 232; 255; 0; 16; 224; 0; 2].
Proof. vm_compute. reflexivity. Qed.

(* Nx16 transforms on concrete inputs: PACK|RLE|CAT (2 symbols, 8 per byte), RLE|CAT with a run of
   200, PACK of a single symbol (nothing stored, CAT forced), PACK refused for 17 symbols *)
Example c08_nx_xform_examples :
  let rt fb src := match nx_encode_byte fb src with
                   | NxOk b => nx_decode b (N.of_nat (length src))
                   | _ => DErr end in
  let s1 := [7; 7; 7; 9; 9; 7; 7; 7; 7; 7; 7; 9; 7; 7; 7; 7; 7; 7; 7; 7; 7; 7; 7; 7; 7; 7; 7; 7; 7; 7; 7; 7; 7; 7; 9] in
  let s2 := 3 :: repeat 5 200 ++ [3; 4; 4; 4] in
  let s3 := repeat 66 50 in
  let s4 := map N.of_nat (seq 10 17) in
  rt 224 s1 = DOk s1 /\ rt 96 s2 = DOk s2 /\ rt 128 s3 = DOk s3 /\ rt 160 s4 = DOk s4 /\
  nx_encode_byte 128 s3 = NxOk [160; 50; 1; 66; 0] /\ nx_encode_byte 0 s2 = NxEntropy.
Proof. vm_compute. repeat split. Qed.

(* the repaired decoder on the former panic inputs: the 2-byte stream `20 01` (CAT, one byte
   declared, none present), a packed value outside an 11-symbol table, a 4x8 table of total 4097 *)
Example c08_former_decoder_panics_are_errors :
  nx_decode [32; 1] 0 = DErr /\
  pack_decode [1; 2; 3; 4; 5; 6; 7; 8; 9; 10; 11] [13] 2 = DErr /\
  spec_read_frequencies0 [97; 144; 0; 99; 1; 0] = None /\
  spec_read_frequencies0_raw [97; 144; 0; 99; 1; 0] <> None.
Proof. vm_compute. repeat split. discriminate. Qed.

(* noodles' own test vectors through the models: encode.rs test_encode_order_0 and test_encode_pack
   ("noodles"), decode.rs test_decode_order_0 (a table of total 8, scaled up by the decoder),
   test_decode_rle (entropy-compressed RLE meta-data) and test_decode_bit_packing_with_6_symbols *)
Example c08_nx_noodles_vectors :
  let noodles := [110; 111; 111; 100; 108; 101; 115] in
  nx_encode_e_byte 0 noodles = NeOk
    [0; 7; 100; 101; 0; 108; 110; 111; 0; 115; 0; 132; 73; 132; 73; 132; 73; 132; 73; 137; 19; 132; 73;
     27; 167; 24; 0; 233; 74; 12; 0; 49; 109; 12; 0; 8; 128; 3; 0] /\
  nx_encode_e_byte 128 noodles = NeOk
    [128; 7; 6; 100; 101; 108; 110; 111; 115; 4; 4; 5; 0; 18; 67; 0; 136; 0; 136; 0; 136; 0; 136; 0; 0;
     12; 2; 0; 0; 0; 2; 0; 0; 8; 2; 0; 0; 4; 2; 0] /\
  nx_decode_e [0; 7; 100; 101; 0; 108; 110; 111; 0; 115; 0; 1; 1; 1; 1; 3; 1; 0; 38; 32; 0; 0; 184; 10;
               0; 0; 216; 10; 0; 0; 0; 4; 0] 0 = DOk noodles /\
  nx_decode_e [64; 13; 6; 6; 23; 1; 7; 111; 0; 2; 1; 1; 0; 0; 1; 0; 0; 12; 2; 0; 0; 8; 2; 0; 0; 128; 0;
               0; 100; 101; 0; 108; 110; 111; 0; 115; 0; 3; 1; 1; 1; 1; 1; 0; 58; 32; 0; 0; 124; 32; 0;
               0; 82; 1; 0; 0; 8; 4; 0] 0
    = DOk [110; 111; 111; 111; 111; 111; 111; 111; 111; 100; 108; 101; 115] /\
  nx_decode_e [128; 7; 6; 100; 101; 108; 110; 111; 115; 4; 4; 5; 0; 18; 67; 0; 1; 1; 1; 1; 0; 12; 2; 0;
               0; 0; 2; 0; 0; 8; 2; 0; 0; 4; 2; 0] 0 = DOk noodles.
Proof. vm_compute. repeat split. Qed.

(* whole Nx16 streams on concrete inputs: order 0 with 4 and with 32 states, PACK+RLE in front of
   the entropy coder, an alphabet whose run reaches symbol 255; order 1 with 4 and 32 states;
   a table of total 3 is rejected, a run past symbol 255 is an error *)
Example c08_nx_full_examples :
  let rt fb src := match nx_encode_e_byte fb src with
                   | NeOk b => nx_decode_e b (N.of_nat (length src))
                   | _ => DErr end in
  let s1 := map N.of_nat (seq 0 40) ++ repeat 7 30 ++ [250; 251; 252; 253; 254; 255; 255; 0] in
  let s2 := repeat 5 60 ++ [3; 4; 4; 4] ++ repeat 9 50 ++ [3; 5; 5; 9; 9; 9; 4] in
  rt 0 s1 = DOk s1 /\ rt 4 s1 = DOk s1 /\ rt 192 s2 = DOk s2 /\ rt 212 s2 = DOk s2 /\
  rt 1 s1 = DOk s1 /\ rt 197 s2 = DOk s2 /\
  nx_decode_e [0; 5; 65; 0; 3; 0; 128; 0; 0; 0; 128; 0; 0; 0; 128; 0; 0; 0; 128; 0; 0] 0 = DErr /\
  nx_decode_e [0; 5; 254; 255; 1; 0; 1; 1] 0 = DErr.
Proof. vm_compute. repeat split. Qed.

(* noodles' ORDER-1 test vectors: encode.rs test_encode_order_1 ("noodles") is reproduced byte for
   byte by the model encoder; decode.rs test_decode_order_1 (a 10-bit table whose rows are scaled
   up by the decoder) is decoded by the model decoder *)
Example c08_nx_order1_noodles_vectors :
  nx_encode_e_byte 1 [110; 111; 111; 100; 108; 101; 115] = NeOk
    [1; 7; 192; 0; 100; 101; 0; 108; 110; 111; 0; 115; 0; 0; 0; 136; 0; 0; 1; 136; 0; 144; 0; 0;
     0; 0; 2; 160; 0; 0; 2; 0; 5; 160; 0; 0; 1; 160; 0; 0; 3; 0; 4; 160; 0; 0; 0; 0; 0; 144; 0;
     0; 2; 144; 0; 0; 0; 0; 6; 0; 4; 2; 0; 0; 8; 1; 0; 0; 8; 1; 0; 0; 0; 2; 0] /\
  nx_decode_e
    [1; 77; 160; 0; 100; 101; 0; 108; 110; 111; 0; 115; 0; 0; 0; 1; 1; 0; 0; 1; 1; 0; 0; 0; 0;
     15; 0; 0; 1; 0; 2; 0; 1; 15; 0; 2; 1; 0; 1; 1; 15; 0; 2; 0; 3; 15; 1; 0; 0; 0; 0; 1; 0; 2;
     15; 0; 0; 0; 5; 16; 128; 114; 96; 0; 128; 139; 95; 0; 192; 176; 96; 0; 64; 73; 57; 0] 0 = DOk
    [110; 110; 110; 110; 110; 110; 110; 110; 110; 110; 110; 110; 111; 111; 111; 111; 111; 111;
     111; 111; 111; 111; 111; 111; 111; 111; 111; 111; 100; 100; 100; 100; 100; 100; 100; 100;
     100; 100; 100; 100; 100; 100; 108; 108; 108; 108; 108; 108; 108; 108; 108; 108; 108; 108;
     108; 108; 108; 101; 101; 101; 101; 101; 101; 101; 101; 101; 101; 115; 115; 115; 115; 115;
     115; 115; 115; 115; 115].
Proof. vm_compute. split; reflexivity. Qed.

(* STRIPE: noodles' test vectors (encode.rs test_encode_stripe, decode.rs test_decode_stripe, whose
   sub-streams are order-0 coded with their own size fields), a nested STRIPE inside a sub-stream,
   a chunk count of 0 and a sub-stream that decodes to the wrong length are errors *)
Example c08_nx_stripe_vectors :
  let noodles := [110; 111; 111; 100; 108; 101; 115] in
  nx_encode_s_byte 8 noodles = NeOk
    [8; 7; 4; 3; 3; 3; 2; 48; 110; 108; 48; 111; 101; 48; 111; 115; 48; 100] /\
  nx_decode_s
    [8; 7; 4; 23; 23; 23; 21; 0; 2; 108; 110; 0; 1; 1; 0; 8; 1; 0; 0; 0; 1; 0; 0; 128; 0; 0; 0;
     128; 0; 0; 0; 2; 101; 111; 0; 1; 1; 0; 8; 1; 0; 0; 0; 1; 0; 0; 128; 0; 0; 0; 128; 0; 0; 0;
     2; 111; 115; 0; 1; 1; 0; 0; 1; 0; 0; 8; 1; 0; 0; 128; 0; 0; 0; 128; 0; 0; 0; 1; 100; 0; 1;
     0; 128; 0; 0; 0; 128; 0; 0; 0; 128; 0; 0; 0; 128; 0; 0; 0; 2; 0; 0; 0; 0; 0; 0; 0; 34; 0;
     129; 17; 1; 127; 0] 0 = DOk noodles /\
  nx_decode_s [8; 2; 2; 5; 2; 24; 1; 2; 48; 65; 48; 66] 0 = DOk [65; 66] /\
  nx_decode_s [8; 2; 0] 0 = DErr /\
  nx_decode_s [8; 2; 2; 4; 2; 32; 2; 65; 66; 48; 67] 0 = DErr.
Proof. vm_compute. repeat split. Qed.

(* adaptive arithmetic coder, order 0: noodles' test vector (aac/encode.rs test_encode_order_0 =
   aac/decode.rs test_decode_order_0, "noodles") through the model encoder and decoder, CAT, an
   input that is packed into nothing (one symbol: CAT forced), and a truncated stream *)
Example c08_aac_vectors :
  let noodles := [110; 111; 111; 100; 108; 101; 115] in
  aac_encode_byte 0 noodles = AeOk [0; 7; 116; 0; 244; 229; 183; 78; 80; 15; 46; 151; 0] /\
  aac_decode [0; 7; 116; 0; 244; 229; 183; 78; 80; 15; 46; 151; 0] 0 = DOk noodles /\
  aac_encode_byte 32 noodles = AeOk [32; 7; 110; 111; 111; 100; 108; 101; 115] /\
  aac_encode_byte 128 [9; 9; 9] = AeOk [160; 3; 1; 9; 0] /\
  aac_decode [160; 3; 1; 9; 0] 0 = DOk [9; 9; 9] /\
  aac_decode [0; 7; 116; 0; 244; 229] 0 = DErr.
Proof. vm_compute. repeat split. Qed.

(* adaptive arithmetic coder, the other modes: noodles' test vectors of aac/encode.rs (order 1,
   STRIPE, RLE with order 0 and 1, PACK) are reproduced byte for byte by the model encoder, and
   the model decoder maps them back *)
Example c08_aac_mode_vectors :
  let noodles := [110; 111; 111; 100; 108; 101; 115] in
  let nooodles := [110; 111; 111; 111; 111; 111; 111; 111; 111; 100; 108; 101; 115] in
  let rt fb src := match aac_encode_r_byte fb src with
                   | AeOk b => aac_decode_r b (N.of_nat (length src))
                   | _ => DErr end in
  aac_encode_r_byte 1 noodles = AeOk
    [1; 7; 116; 0; 244; 227; 131; 65; 226; 154; 239; 83; 80; 0] /\
  aac_encode_r_byte 8 noodles = AeOk
    [8; 7; 4; 8; 8; 8; 7; 16; 111; 0; 255; 167; 171; 98; 0; 16; 112; 0; 255; 132; 146; 27; 0; 16;
     116; 0; 247; 39; 219; 36; 0; 16; 101; 0; 253; 119; 32; 176] /\
  aac_encode_r_byte 64 nooodles = AeOk
    [64; 13; 116; 0; 243; 75; 33; 16; 168; 227; 132; 254; 107; 34; 0] /\
  aac_encode_r_byte 65 nooodles = AeOk
    [65; 13; 116; 0; 243; 74; 137; 121; 193; 232; 195; 197; 98; 49; 0] /\
  aac_encode_r_byte 160 noodles = AeOk
    [160; 7; 6; 100; 101; 108; 110; 111; 115; 4; 67; 4; 18; 5] /\
  rt 1 noodles = DOk noodles /\ rt 8 noodles = DOk noodles /\ rt 64 nooodles = DOk nooodles /\
  rt 65 nooodles = DOk nooodles /\ rt 160 noodles = DOk noodles /\ rt 201 nooodles = DOk nooodles.
Proof. vm_compute. repeat split. Qed.

(* fqzcomp: noodles' test vectors (fqzcomp/encode.rs test_encode, test_encode_with_do_len;
   decode.rs test_decode -- a stream with q_bits 8, q_shift 2 --, test_decode_with_invalid_record_length)
   through the model encoder and decoder *)
Example c08_fqz_vectors :
  let s1 := [0; 0; 0; 1; 1; 2; 1; 1; 0; 0; 0; 1; 2; 3; 3; 3; 3; 3; 3; 3; 2; 1; 1; 0; 0] in
  let s2 := [0; 0; 0; 1; 1; 2; 1; 1; 0; 0; 0; 1; 2; 3; 3; 3; 3; 3; 3; 3; 2; 1; 1; 0; 0; 0; 0; 0; 1; 1] in
  fqz_encode [10; 10; 5]%nat s1 = Some
    [25; 5; 0; 0; 0; 32; 3; 149; 127; 15; 1; 1; 125; 255; 255; 1; 132; 0; 9; 255; 255; 246; 1;
     101; 0; 134; 46; 152; 234; 202; 113; 111; 8; 81; 111; 0] /\
  fqz_encode [10; 10; 10]%nat s2 = Some
    [30; 5; 0; 0; 0; 36; 3; 149; 127; 15; 1; 1; 125; 255; 255; 1; 132; 0; 9; 255; 255; 246; 1;
     101; 12; 16; 134; 109; 87; 16; 56; 96; 172] /\
  fqz_decode
    [25; 5; 0; 0; 0; 32; 3; 130; 127; 15; 1; 1; 125; 255; 255; 1; 132; 0; 9; 255; 255; 246; 1;
     101; 0; 134; 46; 152; 234; 202; 113; 111; 34; 205; 216; 64] = FOk s1 /\
  fqz_decode
    [48; 5; 0; 0; 0; 32; 39; 149; 127; 15; 1; 1; 125; 255; 255; 1; 132; 0; 0; 0; 0; 0; 1; 45;
     156; 173; 31; 97; 120; 250; 165; 76; 52; 250; 102; 15; 218; 154; 69; 240; 142; 219; 116; 54;
     182; 99; 194; 139; 205; 153; 201; 84; 224; 65; 7; 154; 173; 54; 58; 33; 173; 77; 86] = FErr /\
  (match fqz_encode [10; 10; 10]%nat s2 with Some b => fqz_decode b | None => FErr end) = FOk s2.
Proof. vm_compute. repeat split. Qed.

(* ================================================================================================ *)
(* HOSTILE STREAMS (fifth round): the decoder models the correspondence check runs are the CAPPED    *)
(* decoders NV.Cram.{Nx16Cap,AacCap,FqzCap,NamesCap}.  They are the decoders above with (i) every     *)
(* split_off-type size compared with the remaining input BEFORE it is converted to a nat (as the      *)
(* real code slices), (ii) every run length clamped before the conversion, (iii) every output size   *)
(* (`vec![0; n]` in the real code) guarded by a cap: above it the model answers `Capped` = outside    *)
(* the model (huge allocations are C15's alloc-codec-* class).  Extraction runs cap = 2^22; the       *)
(* generators corrupt flag / size / count / context fields with every output size <= 2^20.            *)
(* ================================================================================================ *)
From NV Require Cram.Cap Cram.CapProofs Cram.Nx16Cap Cram.Nx16CapProofs Cram.Nx16CapRt Cram.AacCap
  Cram.AacCapProofs Cram.AacCapRt Cram.FqzCap Cram.FqzCapProofs Cram.NamesCap Cram.NamesCapProofs.

(* (i) the guarded split IS split_off, (ii) clamping before = clamping after the conversion *)
Theorem c08_cap_split_guard_exact : forall bs n,
  NV.Cram.Cap.split_off_n bs n = split_off bs (N.to_nat n).
Proof. exact NV.Cram.CapProofs.split_off_n_eq. Qed.
Print Assumptions c08_cap_split_guard_exact.

Theorem c08_cap_clamp_exact : forall len k,
  NV.Cram.Cap.min_n_nat len k = Nat.min (N.to_nat len) k.
Proof. exact NV.Cram.CapProofs.min_n_nat_eq. Qed.
Print Assumptions c08_cap_clamp_exact.

(* (iii) REFINEMENT, every byte string, every caller size, every cap: the capped decoder answers
   Capped or EXACTLY what the uncapped decoder of the theorems above answers *)
Theorem c08_nx_decode_capped_refines : forall cap bs usize,
  NV.Cram.CapProofs.refines (NV.Cram.Nx16Cap.nx_decode_sc cap bs usize) (nx_decode_s bs usize).
Proof. exact NV.Cram.Nx16CapProofs.nx_decode_sc_refines. Qed.
Print Assumptions c08_nx_decode_capped_refines.

Theorem c08_aac_decode_capped_refines : forall cap bs usize,
  NV.Cram.CapProofs.refines (NV.Cram.AacCap.aac_decode_rc cap bs usize) (aac_decode_r bs usize).
Proof. exact NV.Cram.AacCapProofs.aac_decode_rc_refines. Qed.
Print Assumptions c08_aac_decode_capped_refines.

Theorem c08_fqz_decode_capped_refines : forall cap bs,
  NV.Cram.CapProofs.refines (NV.Cram.FqzCap.fqz_decode_c cap bs) (fqz_decode bs).
Proof. exact NV.Cram.FqzCapProofs.fqz_decode_c_refines. Qed.
Print Assumptions c08_fqz_decode_capped_refines.

Theorem c08_names_decode_capped_refines : forall cap bs,
  NV.Cram.CapProofs.refines (NV.Cram.NamesCap.names_decode_c cap bs) (NV.Cram.Names.names_decode bs).
Proof. exact NV.Cram.NamesCapProofs.names_decode_c_refines. Qed.
Print Assumptions c08_names_decode_capped_refines.

(* never-panics is unaffected: no byte string, caller size or cap makes a capped decoder panic *)
Theorem c08_nx_decode_capped_never_panics : forall cap bs usize,
  Forall (fun b => b < 256) bs ->
  NV.Cram.Nx16Cap.nx_decode_sc cap bs usize <> NV.Cram.Cap.Within DPanic.
Proof. exact NV.Cram.Nx16CapProofs.nx_decode_sc_never_panics. Qed.
Print Assumptions c08_nx_decode_capped_never_panics.

Theorem c08_aac_decode_capped_never_panics : forall cap bs usize,
  Forall (fun b => b < 256) bs ->
  NV.Cram.AacCap.aac_decode_rc cap bs usize <> NV.Cram.Cap.Within DPanic.
Proof. exact NV.Cram.AacCapProofs.aac_decode_rc_never_panics. Qed.
Print Assumptions c08_aac_decode_capped_never_panics.

Theorem c08_fqz_decode_capped_never_panics : forall cap bs,
  Forall (fun b => b < 256) bs -> NV.Cram.FqzCap.fqz_decode_c cap bs <> NV.Cram.Cap.Within FPanic.
Proof. exact NV.Cram.FqzCapProofs.fqz_decode_c_never_panics. Qed.
Print Assumptions c08_fqz_decode_capped_never_panics.

Theorem c08_names_decode_capped_never_panics : forall cap bs,
  Forall (fun b => b < 256) bs ->
  NV.Cram.NamesCap.names_decode_c cap bs <> NV.Cram.Cap.Within NV.Cram.Names.NmPanic.
Proof. exact NV.Cram.NamesCapProofs.names_decode_c_never_panics. Qed.
Print Assumptions c08_names_decode_capped_never_panics.

(* ROUND TRIP THROUGH THE CAPPED DECODERS, for EVERY cap that is at least the input length (added
   premise: length src <= cap; everything else as in c08_nx_stripe_roundtrip / c08_aac_all_roundtrip /
   c08_fqz_roundtrip): the answer is the input, never Capped -- every size the decoder converts on
   the encoder's stream (declared size, packed length, literal count, STRIPE total and shares) is
   at most the input length *)
Theorem c08_nx_stripe_roundtrip_capped : forall cap f src,
  Forall (fun b => b < 256) src -> N.of_nat (length src) < 268435456 ->
  N.of_nat (length src) <= cap ->
  exists bytes, nx_encode_s f src = NeOk bytes /\
    NV.Cram.Nx16Cap.nx_decode_sc cap bytes (N.of_nat (length src)) = NV.Cram.Cap.Within (DOk src).
Proof. exact NV.Cram.Nx16CapRt.nx_stripe_roundtrip_c. Qed.
Print Assumptions c08_nx_stripe_roundtrip_capped.

Theorem c08_aac_all_roundtrip_capped : forall cap f src,
  f_stripe f = true \/ f_n32 f = false ->
  Forall (fun b => b < 256) src -> N.of_nat (length src) < 268435456 ->
  N.of_nat (length src) <= cap ->
  exists bytes, aac_encode_r f src = AeOk bytes /\
    NV.Cram.AacCap.aac_decode_rc cap bytes (N.of_nat (length src)) = NV.Cram.Cap.Within (DOk src).
Proof. exact NV.Cram.AacCapRt.aac_all_roundtrip_c. Qed.
Print Assumptions c08_aac_all_roundtrip_capped.

Theorem c08_fqz_roundtrip_capped : forall cap lens src,
  Forall (fun b => b < 256) src -> N.of_nat (length src) < 4294967296 ->
  fold_right Nat.add 0%nat (filter (fun l => (0 <? l)%nat) lens) = length src ->
  N.of_nat (length src) <= cap ->
  exists bytes, fqz_encode lens src = Some bytes /\
    NV.Cram.FqzCap.fqz_decode_c cap bytes = NV.Cram.Cap.Within (FOk src).
Proof. exact NV.Cram.FqzCapProofs.fqz_roundtrip_c. Qed.
Print Assumptions c08_fqz_roundtrip_capped.

(* the name tokenizer through the capped decoder, any cap: the input, or Capped (PARTIAL: that
   Capped is excluded for cap > the longest token byte stream is not proved -- the bound of the
   streams by the input length is only known as `< 2^28' in NV.Cram.NamesRt) *)
Definition c08_names_roundtrip_capped_full_statement : Prop := forall cap src,
  NV.Cram.NamesRt.names_wf src -> 4 * N.of_nat (length src) + 16 <= cap ->
  exists bytes, NV.Cram.Names.names_encode src = NV.Cram.Names.NmOk bytes /\
    NV.Cram.NamesCap.names_decode_c cap bytes = NV.Cram.Cap.Within (NV.Cram.Names.NmOk src).

Theorem c08_names_roundtrip_capped_partial : forall cap src,
  NV.Cram.NamesRt.names_wf src ->
  exists bytes, NV.Cram.Names.names_encode src = NV.Cram.Names.NmOk bytes /\
    NV.Cram.CapProofs.refines (NV.Cram.NamesCap.names_decode_c cap bytes) (NV.Cram.Names.NmOk src).
Proof. exact NV.Cram.NamesCapProofs.names_roundtrip_c_refines. Qed.
Print Assumptions c08_names_roundtrip_capped_partial.

(* a cap of 2^32 or more is never reached (every converted size is a uint7 value, < 2^32, a share
   of the caller's size, or half of one): there the capped decoders ARE the uncapped ones, and the
   name tokenizer round trip holds without the Capped alternative *)
From NV Require Cram.CapTotal.

Theorem c08_nx_decode_capped_total : forall cap bs usize,
  4294967296 <= cap -> usize <= cap ->
  NV.Cram.Nx16Cap.nx_decode_sc cap bs usize = NV.Cram.Cap.Within (nx_decode_s bs usize).
Proof. exact NV.Cram.CapTotal.nx_decode_sc_total. Qed.
Print Assumptions c08_nx_decode_capped_total.

Theorem c08_aac_decode_capped_total : forall cap bs usize,
  4294967296 <= cap -> usize <= cap ->
  NV.Cram.AacCap.aac_decode_rc cap bs usize = NV.Cram.Cap.Within (aac_decode_r bs usize).
Proof. exact NV.Cram.CapTotal.aac_decode_rc_total. Qed.
Print Assumptions c08_aac_decode_capped_total.

Theorem c08_fqz_decode_capped_total : forall cap bs,
  4294967296 <= cap -> NV.Cram.FqzCap.fqz_decode_c cap bs = NV.Cram.Cap.Within (fqz_decode bs).
Proof. exact NV.Cram.CapTotal.fqz_decode_c_total. Qed.
Print Assumptions c08_fqz_decode_capped_total.

Theorem c08_names_decode_capped_total : forall cap bs,
  4294967296 <= cap ->
  NV.Cram.NamesCap.names_decode_c cap bs = NV.Cram.Cap.Within (NV.Cram.Names.names_decode bs).
Proof. exact NV.Cram.CapTotal.names_decode_c_total. Qed.
Print Assumptions c08_names_decode_capped_total.

Theorem c08_names_roundtrip_capped_large_cap : forall cap src,
  4294967296 <= cap -> NV.Cram.NamesRt.names_wf src ->
  exists bytes, NV.Cram.Names.names_encode src = NV.Cram.Names.NmOk bytes /\
    NV.Cram.NamesCap.names_decode_c cap bytes = NV.Cram.Cap.Within (NV.Cram.Names.NmOk src).
Proof. exact NV.Cram.CapTotal.names_roundtrip_c. Qed.
Print Assumptions c08_names_roundtrip_capped_large_cap.

(* the extracted instance (cap = 2^22) on hostile streams: a declared size of 2^32 - 1 with nothing
   behind it is an error found WITHOUT converting the size (CAT payload / STRIPE sub-stream / RLE
   meta-data shorter than declared), an output size above the cap is Capped, and a small hostile
   size is decoded: PACK with one symbol and a declared size of 300 over an empty payload fills 300
   bytes (the 2^20 version of this stream is a generated case) *)
Example c08_capped_hostile_examples :
  let u32max := [143; 255; 255; 255; 127] in
  NV.Cram.Nx16Cap.nx_decode_s_capped (32 :: u32max ++ [1; 2; 3]) 0 = NV.Cram.Cap.Within DErr /\
  NV.Cram.Nx16Cap.nx_decode_s_capped (8 :: [4; 4] ++ u32max ++ [0; 0; 0; 1]) 0 = NV.Cram.Cap.Within DErr /\
  NV.Cram.Nx16Cap.nx_decode_s_capped (96 :: [5] ++ u32max ++ [5; 1; 2]) 0 = NV.Cram.Cap.Within DErr /\
  NV.Cram.Nx16Cap.nx_decode_s_capped (0 :: u32max ++ [65; 0; 160; 0]) 0 = NV.Cram.Cap.Capped /\
  NV.Cram.AacCap.aac_decode_r_capped (0 :: u32max ++ [2; 0; 0; 0; 0; 0]) 0 = NV.Cram.Cap.Capped /\
  NV.Cram.FqzCap.fqz_decode_capped (u32max ++ [5; 0; 0; 0; 0; 3; 149; 127; 15; 0; 0; 0; 0; 0]) = NV.Cram.Cap.Capped /\
  NV.Cram.Nx16Cap.nx_decode_s_capped [160; 130; 44; 1; 65; 0] 0 = NV.Cram.Cap.Within (DOk (repeat 65 300)).
Proof. vm_compute. repeat split; reflexivity. Qed.

(* ---------- tenth wave: fqzcomp decoder-only feature HAVE_QMAP (NV.Cram.FqzQmap) ---------- *)
From NV Require Cram.FqzQmap Cram.FqzQmapProofs.

(* the decoder with the quality map answers exactly what the decoder of the earlier theorems
   answers on every stream that one supports *)
Theorem c08_fqz_qmap_conservative : forall bs,
  NV.Cram.Fqz.fqz_decode bs <> NV.Cram.Fqz.FUnsupported ->
  NV.Cram.FqzQmap.fqz_decode_qm bs = NV.Cram.Fqz.fqz_decode bs.
Proof. exact NV.Cram.FqzQmapProofs.fqz_decode_qm_conservative. Qed.
Print Assumptions c08_fqz_qmap_conservative.

Theorem c08_fqz_qmap_decode_never_panics : forall bs,
  Forall (fun b => b < 256) bs -> NV.Cram.FqzQmap.fqz_decode_qm bs <> NV.Cram.Fqz.FPanic.
Proof. exact NV.Cram.FqzQmapProofs.fqz_decode_qm_never_panics. Qed.
Print Assumptions c08_fqz_qmap_decode_never_panics.

(* loop level: the mapped loop = the plain loop's symbols mapped one by one (a symbol outside the
   map is an error), contexts driven by the unmapped symbols *)
Theorem c08_fqz_qmap_loop_spec : forall k pr qmap ms st first pos last_len ctx q_ctx bs,
  NV.Cram.FqzQmapProofs.qm_rel qmap
    (NV.Cram.Fqz.fqz_dec_loop k pr ms st first pos last_len ctx q_ctx bs)
    (NV.Cram.FqzQmap.fqz_dec_loop_qm k pr qmap ms st first pos last_len ctx q_ctx bs).
Proof. exact NV.Cram.FqzQmapProofs.fqz_dec_loop_qm_spec. Qed.
Print Assumptions c08_fqz_qmap_loop_spec.

(* stream level: HAVE_QMAP stream = the map applied to the answer on the stream without the flag
   bit and without the map bytes *)
Theorem c08_fqz_qmap_stream_spec : forall bs bs' size ver gfl c0 c1 pfl pfl' maxsym qq qs pd qm rest,
  read_uint7 bs = U7Ok size (ver :: gfl :: c0 :: c1 :: pfl :: maxsym :: qq :: qs :: pd :: qm ++ rest) ->
  read_uint7 bs' = U7Ok size (ver :: gfl :: c0 :: c1 :: pfl' :: maxsym :: qq :: qs :: pd :: rest) ->
  length qm = N.to_nat maxsym ->
  (pfl / 16) mod 2 = 1 -> (pfl' / 16) mod 2 = 0 ->
  (pfl' / 2) mod 2 = (pfl / 2) mod 2 -> (pfl' / 4) mod 2 = (pfl / 4) mod 2 ->
  (pfl' / 8) mod 2 = (pfl / 8) mod 2 -> (pfl' / 32) mod 2 = (pfl / 32) mod 2 ->
  (pfl' / 64) mod 2 = (pfl / 64) mod 2 -> (pfl' / 128) mod 2 = (pfl / 128) mod 2 ->
  Forall (fun b => b < 256) bs' ->
  NV.Cram.FqzQmap.fqz_decode_qm bs
  = NV.Cram.FqzQmapProofs.qm_post_f qm (NV.Cram.FqzQmap.fqz_decode_qm bs').
Proof. exact NV.Cram.FqzQmapProofs.fqz_decode_qm_spec. Qed.
Print Assumptions c08_fqz_qmap_stream_spec.
