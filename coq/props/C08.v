From Coq Require Import List NArith ZArith.
From NV Require Import Cram.Bytes Cram.Itf8 Cram.Ltf8 Cram.Vlq Cram.IntProofs.
Import ListNotations.
Open Scope N_scope.

Theorem c08_itf8_roundtrip : forall n rest,
  (-2147483648 <= n < 2147483648)%Z -> read_itf8 (write_itf8 n ++ rest) = Some (n, rest).
Proof. exact itf8_roundtrip. Qed.
Print Assumptions c08_itf8_roundtrip.
