(* C18 -- GFF3, GTF and BED lines round-trip, including escaping of reserved characters.
   Property theorems only (each closed by [exact] of a lemma of theories/, followed by Print
   Assumptions).  Models: NV.Base.Percent (the percent-encoding crate), NV.Text.Gff / Gtf / Bed
   (noodles-gff, noodles-gtf, noodles-bed writers and readers), NV.Text.TextBase.
   [fmt]/[prs] stand for f32 Display / lexical_core::parse::<f32>: every theorem that mentions
   them is universally quantified over them and assumes only, for the score actually present,
   prs (fmt x) = Some x, no TAB/LF in fmt x, fmt x <> '.' (part of [gff_wf]). *)
From Coq Require Import List NArith Lia.
From NV Require Import Base.Percent Base.PercentProofs Text.TextBase Text.TextBaseProofs
  Text.Gff Text.GffProofs Text.Gtf Text.GtfProofs Text.Bed Text.BedProofs Text.BedRec Text.BedRecProofs Text.BedTyped Text.BedTypedProofs Text.BedRewrite Text.BedRewriteProofs Text.BedRewriteIdemProofs Text.GffLine Text.GffLineProofs Text.GtfLine Text.GtfLineProofs Text.TightProofs
  Text.GffDirValue Text.GffDirValueProofs Text.GffFile Text.GffFileProofs Text.GffAttrMap Text.GffAttrMapProofs
  Text.TightSourceProofs Text.LineBridge Text.LineBridgeProofs Io.Source Io.BufReader Io.ReadExactProofs Io.BufReaderProofs.
Import ListNotations.
Open Scope N_scope.

(* ---- percent-encoding (shared with C09) ---- *)
Theorem c18_pct_dec_enc : forall S s, S 37 = true -> bytes_ok s -> pct_dec (pct_enc S s) = s.
Proof. exact pct_dec_enc. Qed.
Print Assumptions c18_pct_dec_enc.

Theorem c18_pct_enc_avoids : forall S s c, bytes_ok s ->
  S c = true -> c <> 37 -> is_hex_upper c = false -> ~ In c (pct_enc S s).
Proof. exact pct_enc_avoids. Qed.
Print Assumptions c18_pct_enc_avoids.

(* ---- GFF3 attributes ---- *)
Theorem c18_gff_attr_tag_roundtrip : forall t, bytes_ok t -> pct_dec (pct_enc attr_set t) = t.
Proof. exact gff_attr_tag_roundtrip. Qed.
Print Assumptions c18_gff_attr_tag_roundtrip.

(* a value of k >= 2 items reads back as the same array in the same order, a single item as a
   string (Array [x] and String x are the same text) *)
Theorem c18_gff_attr_value_roundtrip : forall v, Forall bytes_ok (value_items v) ->
  gff_parse_value (gff_value_text v) = canon_value v.
Proof. exact gff_attr_value_roundtrip. Qed.
Print Assumptions c18_gff_attr_value_roundtrip.

Theorem c18_canon_value_items : forall v, value_items v <> [] -> value_items (canon_value v) = value_items v.
Proof. exact canon_value_items. Qed.
Print Assumptions c18_canon_value_items.

(* whole attribute column, any number of attributes, arbitrary bytes in tags and values:
   the separators ';' '=' ',' cannot occur in encoded text *)
Theorem c18_gff_attrs_roundtrip : forall a, Forall attr_ok a ->
  gff_attrs_parse (gff_attrs_text a) = (canon_attrs a, None).
Proof. exact gff_attrs_roundtrip. Qed.
Print Assumptions c18_gff_attrs_roundtrip.

(* ---- GFF3 records ---- *)
(* for EVERY sequence id: what the reader returns is the ENCODED id (faithful to the code) *)
Theorem c18_gff_record_readback : forall fmt prs r line,
  gff_wf fmt prs r -> gff_write fmt r = Ok line ->
  gff_read prs (line ++ [10]) = Rec (gff_expected r).
Proof. exact gff_record_readback. Qed.
Print Assumptions c18_gff_record_readback.

(* the positive theorem, outside the known class (seqid free of the seqid encode set; source and
   type free of TAB/LF -- in gff_wf) *)
Theorem c18_gff_record_roundtrip : forall fmt prs r line,
  gff_wf fmt prs r -> seqid_plain r -> gff_write fmt r = Ok line ->
  exists l, gff_read prs (line ++ [10]) = Rec l /\ owned_of_lazy l = Ok (canon_feature r)
            /\ l_seqid l = f_seqid r.
Proof. exact gff_record_roundtrip. Qed.
Print Assumptions c18_gff_record_roundtrip.

(* the property as stated (ids with reserved characters decoded on input) is false of the code *)
Theorem c18_gff_seqid_refuted : exists r line,
  gff_wf (fun _ => []) (fun _ => None) r /\ gff_write (fun _ => []) r = Ok line /\
  exists l, gff_read (fun _ => None) (line ++ [10]) = Rec l /\ l_seqid l <> f_seqid r.
Proof. exact gff_seqid_refuted. Qed.
Print Assumptions c18_gff_seqid_refuted.

Theorem c18_gff_source_refuted : exists r line,
  gff_write (fun _ => []) r = Ok line /\
  exists l, gff_read (fun _ => None) (line ++ [10]) = Rec l /\
            (l_source l <> f_source r /\ l_start l = Err InvalidData).
Proof. exact gff_source_refuted. Qed.
Print Assumptions c18_gff_source_refuted.

(* lazy line view = owned record, field by field *)
Theorem c18_lazy_eq_owned : forall l f, owned_of_lazy l = Ok f ->
  l_seqid l = f_seqid f /\ l_source l = f_source f /\ l_type l = f_type f
  /\ l_start l = Ok (f_start f) /\ l_end l = Ok (f_end f)
  /\ l_score l = option_map Ok (f_score f) /\ l_strand l = Ok (f_strand f)
  /\ l_phase l = option_map Ok (f_phase f) /\ l_attrs l = (f_attrs f, None).
Proof. exact gff_lazy_eq_owned. Qed.
Print Assumptions c18_lazy_eq_owned.

(* ---- GTF ---- *)
Theorem c18_gtf_value_escape_roundtrip : forall v, gtf_unescape false (gtf_escape v) = Some v.
Proof. exact gtf_value_escape_roundtrip. Qed.
Print Assumptions c18_gtf_value_escape_roundtrip.

(* one `key 'value';` item, for EVERY value (after the repair of parse_string, /repo 7a3d67e) *)
Theorem c18_gtf_item_roundtrip : forall k x rest, key_ok k ->
  gtf_parse_field (gtf_item_text k x ++ rest) = Ok (k, gtf_escape x, consume_terminator (59 :: rest)).
Proof. exact gtf_item_roundtrip. Qed.
Print Assumptions c18_gtf_item_roundtrip.

(* whole attribute column: distinct non-blank keys, 1..k items each, arbitrary bytes in the
   values (double quotes and backslashes included); repeated keys are regrouped in order *)
Theorem c18_gtf_attrs_roundtrip : forall a,
  Forall (fun kv => key_ok (fst kv)) a -> Forall attr_items_ok a -> NoDup (map fst a) ->
  gtf_attrs_parse (gtf_attrs_text a) = Ok (gtf_canon_attrs a).
Proof. exact gtf_attrs_roundtrip. Qed.
Print Assumptions c18_gtf_attrs_roundtrip.

(* whole record line through read_line / kind / bounds / lazy accessors *)
Theorem c18_gtf_record_roundtrip : forall fmt prs r line,
  gtf_wf fmt prs r -> gtf_write fmt r = Ok line ->
  gtf_read prs (line ++ [10]) = GRec (gtf_expected r).
Proof. exact gtf_record_roundtrip. Qed.
Print Assumptions c18_gtf_record_roundtrip.

Theorem c18_gtf_record_roundtrip_owned : forall fmt prs r line,
  gtf_wf fmt prs r -> gtf_write fmt r = Ok line ->
  exists l, gtf_read prs (line ++ [10]) = GRec l /\
    gtf_owned l = Ok {| f_seqid := f_seqid r; f_source := f_source r; f_type := f_type r;
                        f_start := f_start r; f_end := f_end r; f_score := f_score r;
                        f_strand := f_strand r; f_phase := f_phase r;
                        f_attrs := gtf_canon_attrs (f_attrs r) |}.
Proof. exact gtf_record_roundtrip_owned. Qed.
Print Assumptions c18_gtf_record_roundtrip_owned.

(* non-vacuity: quotes, backslashes, a repeated key *)
Definition gtf_demo2 : feature :=
  {| f_seqid := [99]; f_source := [46]; f_type := [103]; f_start := 7; f_end := 9; f_score := None;
     f_strand := SForward; f_phase := Some POne;
     f_attrs := [([107], VArray [[97; 92; 98]; [59; 32; 34]; [97; 34; 98]]); ([106], VString [34])] |}.
Example gtf_demo2_wf : gtf_wf (fun _ => []) (fun _ => None) gtf_demo2.
Proof.
  unfold gtf_wf, gtf_demo2, gtf_attr_ok, key_ok, u64_max. cbn.
  repeat split; try lia; try discriminate; try (intros x E; discriminate);
    try (intros [E|[]]; discriminate); try tauto.
  - repeat constructor; cbn; try discriminate; try (intros [E|[E|[E|[]]]]; discriminate);
      try (intros [E|[]]; discriminate).
  - repeat constructor; cbn; try tauto; intros [E|[]]; discriminate.
Qed.

(* GTF lines: read_line (no blank-line skipping), Line::kind, line_bufs() *)
Theorem c18_gtf_comment_roundtrip : forall prs s,
  ~ In 10 s -> strip_cr s = s ->
  whole_line (gtf_write_comment s)
  /\ gtf_classify prs (gtf_write_comment s) = TComment s
  /\ gtf_line_buf prs (gtf_write_comment s) = TBComment s.
Proof. exact gtf_comment_roundtrip. Qed.
Print Assumptions c18_gtf_comment_roundtrip.

Theorem c18_gtf_record_line_classified : forall fmt prs r line,
  gtf_wf fmt prs r -> gtf_write fmt r = Ok line ->
  whole_line line
  /\ gtf_classify prs line = TRecord (GRec (gtf_expected r))
  /\ gtf_line_buf prs line = TBRecord (gtf_owned (gtf_expected r)).
Proof. exact gtf_record_line_classified. Qed.
Print Assumptions c18_gtf_record_line_classified.

(* a whole written GTF file (records and comments in any order) followed by any text *)
Theorem c18_gtf_file_roundtrip : forall fmt prs items ls tail,
  Forall2 (fun it l => gtitem_ok fmt prs it /\ gtitem_line fmt it = Ok l) items ls ->
  gtf_file_line_bufs prs (lines_text ls ++ tail) = map gtitem_buf items ++ gtf_file_line_bufs prs tail.
Proof. exact gtf_file_roundtrip. Qed.
Print Assumptions c18_gtf_file_roundtrip.

(* unlike GFF3, a blank line in a GTF file is not skipped: it is a record line that fails *)
Theorem c18_gtf_blank_line_is_an_error : forall prs,
  gtf_file_lines prs [10] = [TRecord (GLineErr UnexpectedEof)]
  /\ gtf_file_line_bufs prs [10] = [TBRecord (Err InvalidData)].
Proof. exact gtf_blank_line_is_an_error. Qed.
Print Assumptions c18_gtf_blank_line_is_an_error.

(* ---- BED ---- *)
(* Record level, for BED3..BED6 + any number of extra columns (the N the API has: Record<3..6>,
   so BED7..BED12 are N=6 plus other fields).  Model of read_record_N into the caller's record
   (buffer + bounds), the accessors slicing the buffer by the bounds, the owned conversion.
   A line written for an accepted record [r], followed by ANY further text [rest], read into ANY
   record [old] of the same N: consumes exactly the line, every accessor returns the written
   value (extra columns in order), and the owned conversion is the record itself (fields above
   its N at the builder's defaults).  [bed_wf]: 3 <= N <= 6, positions in 1..2^64-1, score
   <= 65535 (u16), name <> Some "." (see c18_bed_name_dot_is_missing). *)
Theorem c18_bed_record_roundtrip : forall r line rest old,
  bed_wf r -> bed_write r = Ok line -> length (bf_std old) = b_n r ->
  let o := bed_read_record (b_n r) (line ++ 10 :: rest) old in
  ro_res o = Ok (length line + 1)%nat /\ ro_src o = rest
  /\ bed_view_of (b_n r) (ro_rec o) = bed_expected_view r
  /\ bed_owned (b_n r) (bed_view_of (b_n r) (ro_rec o)) = Ok (bed_canon r).
Proof. exact bed_record_roundtrip. Qed.
Print Assumptions c18_bed_record_roundtrip.

(* stale-state freedom, for EVERY input text (not only written lines): the result, the input
   left and -- when a record was read -- the whole record state do not depend on what the
   reused record held before *)
Theorem c18_bed_reused_record_independent : forall n src r1 r2,
  (1 <= n)%nat -> length (bf_std r1) = n -> length (bf_std r2) = n ->
  let o1 := bed_read_record n src r1 in
  let o2 := bed_read_record n src r2 in
  ro_res o1 = ro_res o2 /\ ro_src o1 = ro_src o2
  /\ (forall k, ro_res o1 = Ok k -> ro_rec o1 = ro_rec o2).
Proof. exact bed_reused_record_independent. Qed.
Print Assumptions c18_bed_reused_record_independent.

(* exactness of the previous statement: after a FAILED read the record is stale *)
Theorem c18_bed_reused_record_stale_after_error : exists src r1 r2,
  length (bf_std r1) = 3%nat /\ length (bf_std r2) = 3%nat /\
  ro_res (bed_read_record 3 src r1) = Err InvalidData /\
  ro_rec (bed_read_record 3 src r1) <> ro_rec (bed_read_record 3 src r2).
Proof. exact bed_reused_record_stale_after_error. Qed.
Print Assumptions c18_bed_reused_record_stale_after_error.

(* for EVERY input text and EVERY previous record state: a read_record that returns Ok leaves a
   record on which no accessor and not the owned conversion can panic (the bounds are
   nondecreasing and within the buffer).  True of the reader repaired in /repo 6993cf2
   (read_field pops a CR only when it was read as part of the current field); before, the
   line `sq0<TAB>0<TAB>1<CR><TAB><LF>` was read Ok and feature_end() panicked. *)
Theorem c18_bed_read_ok_no_panic : forall n src old k,
  (3 <= n)%nat -> length (bf_std old) = n -> ro_res (bed_read_record n src old) = Ok k ->
  view_no_panic (bed_view_of n (ro_rec (bed_read_record n src old)))
  /\ bed_owned n (bed_view_of n (ro_rec (bed_read_record n src old))) <> Panic.
Proof. exact bed_read_ok_no_panic. Qed.
Print Assumptions c18_bed_read_ok_no_panic.

Theorem c18_bed_read_ok_bounds : forall n src old k,
  (1 <= n)%nat -> length (bf_std old) = n -> ro_res (bed_read_record n src old) = Ok k ->
  let f := ro_rec (bed_read_record n src old) in
  length (bf_std f) = n /\ chain 0 (bf_std f ++ bf_oth f) (length (bf_buf f)).
Proof. exact bed_read_ok_bounds. Qed.
Print Assumptions c18_bed_read_ok_bounds.

(* exactness: after a FAILED read the accessors can still panic (buffer cleared, old bounds kept) *)
Theorem c18_bed_failed_read_accessor_panics :
  ro_res (bed_read_record 3 [10] (bed_default 3)) = Err InvalidData /\
  bv_name (bed_view_of 3 (ro_rec (bed_read_record 3 [10] (bed_default 3)))) = Panic.
Proof. exact bed_failed_read_accessor_panics. Qed.
Print Assumptions c18_bed_failed_read_accessor_panics.

(* a whole file (mixed numbers of extra columns) read line by line into ONE record *)
Theorem c18_bed_file_roundtrip : forall n rs text old fuel,
  Forall (fun r => bed_wf r /\ b_n r = n) rs -> bed_write_file rs = Ok text ->
  length (bf_std old) = n -> (length rs < fuel)%nat ->
  bed_read_file fuel n text old = map (fun r => Ok (bed_expected_view r)) rs.
Proof. exact bed_file_roundtrip. Qed.
Print Assumptions c18_bed_file_roundtrip.

(* the fuel of the model of read_other_fields is always sufficient *)
Theorem c18_bed_read_never_out_of_fuel : forall n src old,
  ro_res (bed_read_record n src old) <> Err OutOfFuel.
Proof. exact bed_read_never_out_of_fuel. Qed.
Print Assumptions c18_bed_read_never_out_of_fuel.

(* '.' is the BED spelling of a missing name: Some "." is accepted and reads back as None *)
Definition bed_dot_demo : bed :=
  {| b_n := 4; b_name := [99]; b_start := 1; b_end := None; b_nm := Some [46]; b_score := 0;
     b_strand := None; b_others := [] |}.
Theorem c18_bed_name_dot_is_missing :
  bed_write bed_dot_demo = Ok [99; 9; 48; 9; 48; 9; 46] /\
  bv_nm (bed_view_of 4 (ro_rec (bed_read_record 4 [99; 9; 48; 9; 48; 9; 46; 10] (bed_default 4))))
    = Some (Ok None).
Proof. split; vm_compute; reflexivity. Qed.
Print Assumptions c18_bed_name_dot_is_missing.

Example bed_demo_wf : bed_wf bed_demo /\ length (bf_std (bed_default 6)) = b_n bed_demo.
Proof.
  unfold bed_wf, bed_demo, u64_max. cbn. repeat split; try lia; try discriminate;
    try (match goal with H : Some _ = Some _ |- _ => injection H as H; subst; lia end).
Qed.

(* typed extra columns (Int64 / UInt64 / Float64 / Character / String): written as their text,
   read back -- the reader has no types -- as the String of that text, in order.  [fmt64] stands
   for f64 Display; the only premise on it: its text is printable ASCII for the floats present *)
Theorem c18_bed_typed_roundtrip : forall fmt64 r vs line rest old,
  bed_wf r -> float_texts_ok fmt64 vs -> bed_write_typed fmt64 r vs = Ok line ->
  length (bf_std old) = b_n r ->
  let o := bed_read_record (b_n r) (line ++ 10 :: rest) old in
  ro_res o = Ok (length line + 1)%nat /\ ro_src o = rest
  /\ bed_view_of (b_n r) (ro_rec o) = bed_expected_view (bed_with_others r (map (bed_value_text fmt64) vs)).
Proof. exact bed_typed_roundtrip. Qed.
Print Assumptions c18_bed_typed_roundtrip.

(* the column-level core used by the theorems above, at record level (the older split_all reader
   model of NV.Text.Bed is retired): the written line read into ANY record of that N leaves exactly
   the written columns in the record -- buffer = the columns concatenated, bounds = their
   cumulated ends, standard columns first, then the extra ones *)
Theorem c18_bed_columns_split : forall r line rest old,
  (3 <= b_n r <= 6)%nat -> bed_write r = Ok line -> length (bf_std old) = b_n r ->
  bed_read_record (b_n r) (line ++ 10 :: rest) old =
    {| ro_res := Ok (length line + 1)%nat; ro_src := rest;
       ro_rec := rec_of_cols (bed_std_columns r) (b_others r) |}.
Proof. exact bed_record_read. Qed.
Print Assumptions c18_bed_columns_split.

Theorem c18_bed_start_roundtrip : forall s, 1 <= s <= u64_max -> bed_parse_start (fmt_dec (s - 1)) = Ok s.
Proof. exact bed_start_roundtrip. Qed.
Print Assumptions c18_bed_start_roundtrip.

Theorem c18_bed_name_roundtrip : forall nm, nm <> Some [46] ->
  bed_parse_name (match nm with Some s => s | None => [46] end) = nm.
Proof. exact bed_name_roundtrip. Qed.
Print Assumptions c18_bed_name_roundtrip.

(* ---- GFF3 line kinds: directives, comments, blank lines, record lines ---- *)
(* A directive `##key[ value]` (typed gff-version / sequence-region / genome-build values are
   written as their text; the reader keeps text) inside any file: the line is read whole, is not
   skipped as blank, is classified as a directive, and key and value text come back, lazily and
   in the owned LineBuf.  [directive_ok]: no whitespace byte in the key, no LF in the value
   text and no CR at its end -- exactly what the reader needs (c18_gff_directive_refuted). *)
Theorem c18_gff_directive_roundtrip : forall prs d line rest,
  directive_ok d -> gff_write_directive d = Ok line ->
  gff_raw_line (line ++ 10 :: rest) = (line, rest)
  /\ forallb is_ws line = false
  /\ gff_classify prs line = GDirective (d_key d) (directive_text_value d)
  /\ gff_line_buf prs line = BDirective (d_key d) (directive_text_value d).
Proof. exact gff_directive_roundtrip. Qed.
Print Assumptions c18_gff_directive_roundtrip.

Theorem c18_gff_directive_refuted :
  (exists d line, gff_write_directive d = Ok line /\
     gff_classify (fun _ => None) line <> GDirective (d_key d) (directive_text_value d))
  /\ (exists d line, no_ws (d_key d) /\ gff_write_directive d = Ok line /\
        fst (gff_raw_line (line ++ [10])) <> line).
Proof. exact gff_directive_refuted. Qed.
Print Assumptions c18_gff_directive_refuted.

Theorem c18_gff_comment_roundtrip : forall prs s rest,
  ~ In 10 s -> strip_cr s = s -> hd 0 s <> 35 ->
  gff_raw_line (gff_write_comment s ++ 10 :: rest) = (gff_write_comment s, rest)
  /\ forallb is_ws (gff_write_comment s) = false
  /\ gff_classify prs (gff_write_comment s) = GComment s.
Proof. exact gff_comment_roundtrip. Qed.
Print Assumptions c18_gff_comment_roundtrip.

(* the OWNED comment of line_bufs() is the comment that was written (former known class
   gff3-comment-linebuf-keeps-hash, repaired in /repo 0b526eb: it used to be '#' + the comment,
   which written back gave a directive line) *)
Theorem c18_gff_comment_linebuf_roundtrip : forall prs s, hd 0 s <> 35 ->
  gff_line_buf prs (gff_write_comment s) = BComment s.
Proof. exact gff_comment_linebuf_roundtrip. Qed.
Print Assumptions c18_gff_comment_linebuf_roundtrip.

(* the former refutation witness: "#comment" now comes back as "comment", not "#comment" *)
Example comment_linebuf_demo :
  gff_file_line_bufs (fun _ => None) [35; 99; 111; 109; 109; 101; 110; 116; 10]
  = [BComment [99; 111; 109; 109; 101; 110; 116]].
Proof. vm_compute. reflexivity. Qed.

(* a record line the writer accepts is never taken for a directive, a comment or a blank line:
   '#' (and '>') in a sequence id are percent-encoded, an empty id leaves a leading TAB *)
Theorem c18_gff_record_line_kind : forall fmt r line,
  bytes_ok (f_seqid r) -> gff_write fmt r = Ok line ->
  gff_line_kind line = KRecord /\ forallb is_ws line = false.
Proof. exact gff_record_line_kind. Qed.
Print Assumptions c18_gff_record_line_kind.

Theorem c18_gff_record_line_classified : forall fmt prs r line rest,
  gff_wf fmt prs r -> gff_write fmt r = Ok line ->
  gff_raw_line (line ++ 10 :: rest) = (line, rest)
  /\ forallb is_ws line = false
  /\ gff_classify prs line = GRecord (Rec (gff_expected r)).
Proof. exact gff_record_line_classified. Qed.
Print Assumptions c18_gff_record_line_classified.

Theorem c18_gff_read_lines_fuel : forall s f1 f2, (length s < f1)%nat -> (length s < f2)%nat ->
  gff_read_lines f1 s = gff_read_lines f2 s.
Proof. exact gff_read_lines_fuel. Qed.
Print Assumptions c18_gff_read_lines_fuel.

(* a whole written GFF3 file -- records, directives, comments in any order -- followed by ANY
   text: line_bufs() yields the items in order (records as the lazy reader sees them, i.e. with
   the sequence id still encoded: c18_gff_record_readback), then whatever the rest yields *)
Theorem c18_gff_file_roundtrip : forall fmt prs items ls tail,
  Forall2 (fun it l => item_ok fmt prs it /\ item_line fmt it = Ok l) items ls ->
  gff_file_line_bufs prs (lines_text ls ++ tail) = map item_buf items ++ gff_file_line_bufs prs tail.
Proof. exact gff_file_roundtrip. Qed.
Print Assumptions c18_gff_file_roundtrip.

(* record_bufs() returns exactly the records before the ##FASTA directive, whatever follows it
   (there is no FASTA section reader: the iterator just stops there) *)
Theorem c18_gff_record_bufs_stop_at_fasta : forall fmt prs items ls tail,
  Forall2 (fun it l => item_ok fmt prs it /\ item_line fmt it = Ok l) items ls ->
  Forall (fun it => not_fasta (item_buf it)) items ->
  gff_record_bufs (gff_file_line_bufs prs (lines_text ls ++ fasta_line ++ 10 :: tail))
  = buf_records (map item_buf items).
Proof. exact gff_record_bufs_stop_at_fasta. Qed.
Print Assumptions c18_gff_record_bufs_stop_at_fasta.

Example directive_demo_ok :
  directive_ok {| d_key := key_sequence_region; d_value := Some (DRegion [99; 116; 103] 1 1497228) |}.
Proof.
  split; [repeat constructor|]. intros t E. vm_compute in E. injection E as E. subst t.
  split; [|reflexivity]. intro H. repeat (destruct H as [H|H]; [discriminate|]). exact H.
Qed.

(* ---- the two GFF3 known classes, tight ---- *)
(* gff3-seqid-not-decoded: for every well-formed record the id comes back equal IF AND ONLY IF
   no byte of it is in the seqid encode set (its encoding is the identity) *)
Theorem c18_gff_seqid_roundtrip_iff : forall fmt prs r line,
  gff_wf fmt prs r -> gff_write fmt r = Ok line ->
  ((exists l, gff_read prs (line ++ [10]) = Rec l /\ l_seqid l = f_seqid r) <-> seqid_plain r).
Proof. exact gff_seqid_roundtrip_iff. Qed.
Print Assumptions c18_gff_seqid_roundtrip_iff.

Theorem c18_pct_enc_id_iff : forall S s, pct_enc S s = s <-> Forall (fun b => S b = false) s.
Proof. exact pct_enc_id_iff. Qed.
Print Assumptions c18_pct_enc_id_iff.

(* gff3-source-type-not-encoded: [gff_wf] asks only that source and type have no TAB and no LF;
   CR, '%', look-alike escapes, control and non-ASCII bytes DO round-trip through the code
   (wild_source_wf below is inside c18_gff_record_roundtrip); just outside: TAB in source
   (c18_gff_source_refuted) and LF in type *)
Theorem c18_gff_type_lf_refuted : exists r line,
  gff_write (fun _ => []) r = Ok line /\
  gff_read (fun _ => None) (line ++ [10]) = LineErr UnexpectedEof.
Proof. exact gff_type_lf_refuted. Qed.
Print Assumptions c18_gff_type_lf_refuted.

Example wild_source_roundtrip : gff_wf (fun _ => []) (fun _ => None) wild_source /\ seqid_plain wild_source.
Proof. exact wild_source_wf. Qed.

(* ---- lazy view = owned record, GTF and BED ---- *)
Theorem c18_gtf_lazy_eq_owned : forall l f, gtf_owned l = Ok f ->
  l_seqid l = f_seqid f /\ l_source l = f_source f /\ l_type l = f_type f
  /\ l_start l = Ok (f_start f) /\ l_end l = Ok (f_end f)
  /\ l_score l = option_map Ok (f_score f) /\ l_strand l = Ok (f_strand f)
  /\ l_phase l = option_map Ok (f_phase f) /\ l_attrs l = (f_attrs f, None).
Proof. exact gtf_lazy_eq_owned. Qed.
Print Assumptions c18_gtf_lazy_eq_owned.

Theorem c18_bed_lazy_eq_owned : forall n v b, bed_owned n v = Ok b ->
  bv_name v = Ok (b_name b) /\ bv_start v = Ok (b_start b) /\ bv_end v = Ok (b_end b)
  /\ (forall x, bv_nm v = Some x -> x = Ok (b_nm b))
  /\ (forall x, bv_score v = Some x -> x = Ok (b_score b))
  /\ (forall x, bv_strand v = Some x -> x = Ok (b_strand b))
  /\ bv_others v = Ok (b_others b) /\ b_n b = n.
Proof. exact bed_lazy_eq_owned. Qed.
Print Assumptions c18_bed_lazy_eq_owned.

(* ---- non-vacuity ---- *)
Definition demo_fmt (x : N) : list N := [49; 46; 53].          (* '1.5' *)
Definition demo_prs (s : list N) : option N := if bytes_eqb s [49; 46; 53] then Some 1069547520 else None.
Definition demo : feature :=
  {| f_seqid := [99; 104; 114; 49]; f_source := [46]; f_type := [67; 68; 83];
     f_start := 1; f_end := 18446744073709551615; f_score := Some 1069547520;
     f_strand := SUnknown; f_phase := Some PTwo;
     f_attrs := [([78; 111; 116; 101], VString [59; 61; 38; 44; 37; 9; 10; 233]);
                 ([], VArray [[]; [44]; []])] |}.

Example demo_wf : gff_wf demo_fmt demo_prs demo /\ seqid_plain demo.
Proof.
  unfold gff_wf, seqid_plain, demo, bytes_ok, is_byte, u64_max, attr_ok. cbn.
  repeat split; try lia; try (intros [E|[]]; discriminate);
    try (intros [E|[E|[E|[]]]]; discriminate); try discriminate;
    try (injection H as H; subst; reflexivity);
    repeat (constructor; try reflexivity; try lia).
  all: try (intros x E; injection E as E; subst x; repeat split; try reflexivity;
            try (intros [E|[E|[E|[]]]]; discriminate); discriminate).
  all: repeat (constructor; cbn; try lia).
Qed.

Example demo_roundtrip :
  match gff_write demo_fmt demo with
  | Ok line => match gff_read demo_prs (line ++ [10]) with
               | Rec l => owned_of_lazy l = Ok demo
               | _ => False
               end
  | _ => False
  end.
Proof. vm_compute. reflexivity. Qed.

(* ---- typed GFF3 directive values re-parsed from their text (FromStr) ---- *)
(* core::num on the decimal text the writers emit *)
Theorem c18_std_parse_uint_fmt : forall max n, n <= max -> std_parse_uint max (fmt_dec n) = IOk n.
Proof. exact std_parse_uint_fmt. Qed.
Print Assumptions c18_std_parse_uint_fmt.

Theorem c18_gff_version_roundtrip : forall ma mi, version_ok ma mi ->
  parse_gff_version (version_text ma mi)
  = POk (ma, match mi with None => None | Some (m, _) => Some m end,
             match mi with Some (_, p) => p | None => None end).
Proof. exact parse_gff_version_roundtrip. Qed.
Print Assumptions c18_gff_version_roundtrip.

(* ##sequence-region: with positions in range the value comes back IF AND ONLY IF the name is a
   non-empty run of non-blank bytes (known class gff3-directive-typed-value-blank-not-reparsed) *)
Theorem c18_gff_sequence_region_roundtrip_iff : forall nm s e,
  1 <= s <= u64_max -> 1 <= e <= u64_max ->
  (parse_sequence_region (nm ++ 32 :: fmt_dec s ++ 32 :: fmt_dec e) = POk (nm, s, e)
   <-> (nm <> [] /\ no_ws nm)).
Proof. exact parse_sequence_region_roundtrip_iff. Qed.
Print Assumptions c18_gff_sequence_region_roundtrip_iff.

Theorem c18_gff_genome_build_roundtrip_iff : forall src nm,
  (parse_genome_build (src ++ 32 :: nm) = POk (src, nm)
   <-> (src <> [] /\ nm <> [] /\ no_ws src /\ no_ws nm)).
Proof. exact parse_genome_build_roundtrip_iff. Qed.
Print Assumptions c18_gff_genome_build_roundtrip_iff.

Theorem c18_gff_sequence_region_blank_refuted :
  parse_sequence_region ([99; 104; 114; 32; 49] ++ 32 :: fmt_dec 1 ++ 32 :: fmt_dec 2) = POk ([99; 104; 114], 1, 1)
  /\ parse_sequence_region ([] ++ 32 :: fmt_dec 1 ++ 32 :: fmt_dec 2) = PErr RMissingEnd.
Proof. exact sequence_region_blank_name_refuted. Qed.
Print Assumptions c18_gff_sequence_region_blank_refuted.

(* the whole path: write_directive, read the line back, re-parse the text value with the FromStr
   of the key's type: the typed value that was written ([typed_ok]: u32 components; names non-empty
   without blanks; positions in range; a String under a typed key comes back as its parse) *)
Theorem c18_gff_directive_typed_roundtrip : forall d line, directive_ok d -> typed_ok d ->
  gff_write_directive d = Ok line ->
  directive_typed_readback d = Ok (Some (typed_expected d)).
Proof. exact directive_typed_roundtrip. Qed.
Print Assumptions c18_gff_directive_typed_roundtrip.

Example typed_demo_ok :
  typed_ok {| d_key := key_sequence_region; d_value := Some (DRegion [99; 116; 103] 1 1497228) |}
  /\ typed_ok {| d_key := key_gff_version; d_value := Some (DVersion 3 (Some (1, Some 26))) |}.
Proof.
  split; cbn [typed_ok d_value]; unfold version_ok, u32_max, u64_max, no_ws;
    repeat split; try lia; try discriminate; repeat constructor.
Qed.

(* ---- whole written files ---- *)
(* GFF3: any sequence of writer calls (records, directives incl. ##FASTA, comments) with blank
   lines pushed in between, followed by ANY text: the lazy lines seen through ONE reused Line
   and the owned LineBufs are the written items, in order (blank lines give nothing) *)
Theorem c18_gff_written_file_roundtrip : forall fmt prs items text tail,
  Forall (fitem_ok fmt prs) items -> gff_write_file fmt items = Ok text ->
  gff_file_lines prs (text ++ tail) = flat_map fitem_lazy items ++ gff_file_lines prs tail
  /\ gff_file_line_bufs prs (text ++ tail) = flat_map fitem_bufs items ++ gff_file_line_bufs prs tail.
Proof. exact gff_written_file_roundtrip. Qed.
Print Assumptions c18_gff_written_file_roundtrip.

Theorem c18_gff_written_file_record_bufs : forall fmt prs items text,
  Forall (fitem_ok fmt prs) items -> Forall fitem_not_fasta items ->
  gff_write_file fmt items = Ok text ->
  gff_record_bufs (gff_file_line_bufs prs text) = flat_map fitem_records items.
Proof. exact gff_written_file_record_bufs. Qed.
Print Assumptions c18_gff_written_file_record_bufs.

Theorem c18_gtf_written_file_roundtrip : forall fmt prs items text tail,
  Forall (titem_ok fmt prs) items -> gtf_write_file fmt items = Ok text ->
  gtf_file_lines prs (text ++ tail) = map titem_lazy items ++ gtf_file_lines prs tail
  /\ gtf_file_line_bufs prs (text ++ tail) = map titem_buf items ++ gtf_file_line_bufs prs tail.
Proof. exact gtf_written_file_roundtrip. Qed.
Print Assumptions c18_gtf_written_file_roundtrip.

Theorem c18_gtf_written_file_record_bufs : forall fmt prs items text,
  Forall (titem_ok fmt prs) items -> gtf_write_file fmt items = Ok text ->
  gtf_record_bufs (gtf_file_line_bufs prs text)
  = flat_map (fun it => match it with TFRecord r => [gtf_owned (gtf_expected r)] | TFComment _ => [] end) items.
Proof. exact gtf_written_file_record_bufs. Qed.
Print Assumptions c18_gtf_written_file_record_bufs.

(* the line loops over a DELIVERED source: the caller's `while read_line(&mut line)? != 0` on a
   std BufReader of ANY capacity >= 1 over ANY reader that may return short reads and
   Interrupted (C12's NV.Io models) yields exactly gff_read_lines / gtf_read_lines of the whole
   text -- so every file theorem above holds for every delivery schedule *)
Theorem c18_gff_lines_delivered : forall (S : Type) (rd : reader S) (Rep : S -> list N -> nat -> Prop),
  simulates rd Rep -> forall cap, (1 <= cap)%nat -> forall k lines fuel st d m,
  rep_buf Rep st d m -> (m + length d + 1 < fuel)%nat -> (length d < lines)%nat -> (length d < k)%nat ->
  gff_lines_delivered rd cap k lines fuel st = Some (gff_read_lines (Datatypes.S (length d)) d).
Proof. exact (@gff_lines_delivered_spec). Qed.
Print Assumptions c18_gff_lines_delivered.

Theorem c18_gtf_lines_delivered : forall (S : Type) (rd : reader S) (Rep : S -> list N -> nat -> Prop),
  simulates rd Rep -> forall cap, (1 <= cap)%nat -> forall k fuel st d m,
  rep_buf Rep st d m -> (m + length d + 1 < fuel)%nat -> (length d < k)%nat ->
  gtf_lines_delivered rd cap k fuel st = Some (gtf_read_lines (Datatypes.S (length d)) d).
Proof. exact (@gtf_lines_delivered_spec). Qed.
Print Assumptions c18_gtf_lines_delivered.

(* instantiated at C12's scripted source: every script of short reads / Interrupted, every capacity *)
Theorem c18_gff_lines_scripted : forall data sc cap, (1 <= cap)%nat ->
  gff_lines_delivered src_read cap (Datatypes.S (length data)) (Datatypes.S (length data))
      (n_interrupted sc + length data + 2) ([], mkSource data sc)
  = Some (gff_read_lines (Datatypes.S (length data)) data).
Proof. exact gff_lines_scripted. Qed.
Print Assumptions c18_gff_lines_scripted.

Theorem c18_gtf_lines_scripted : forall data sc cap, (1 <= cap)%nat ->
  gtf_lines_delivered src_read cap (Datatypes.S (length data))
      (n_interrupted sc + length data + 2) ([], mkSource data sc)
  = Some (gtf_read_lines (Datatypes.S (length data)) data).
Proof. exact gtf_lines_scripted. Qed.
Print Assumptions c18_gtf_lines_scripted.

(* ---- GFF3 attributes as a map: lazy view = owned map ---- *)
(* every attribute map the writer accepts (a RecordBuf's attributes are an IndexMap: distinct
   tags; arbitrary bytes in tags and values, 1..k values per tag): the column reads back item by
   item, the owned map is that list, and the lazy get of every tag = the owned get *)
Theorem c18_gff_attributes_roundtrip : forall a,
  Forall attr_ok a -> NoDup (map fst a) ->
  gff_attrs_parse (gff_attrs_text a) = (canon_attrs a, None)
  /\ gff_owned_attrs (gff_attrs_text a) = Ok (canon_attrs a)
  /\ forall tag, gff_attrs_get (gff_attrs_text a) tag = option_map Ok (imap_get (canon_attrs a) tag).
Proof. exact gff_attributes_roundtrip. Qed.
Print Assumptions c18_gff_attributes_roundtrip.

(* for ANY column text whose iteration ends normally: lazy get = the FIRST field with the tag *)
Theorem c18_gff_attrs_get_first : forall col tag items,
  gff_attrs_parse col = (items, None) ->
  gff_attrs_get col tag = option_map Ok (assoc_first items tag).
Proof. exact gff_attrs_get_first. Qed.
Print Assumptions c18_gff_attrs_get_first.

(* the owned IndexMap keeps the LAST value of a repeated tag *)
Theorem c18_imap_collect_get_last : forall items k, imap_get (imap_collect items) k = assoc_last items k.
Proof. exact imap_collect_get_last. Qed.
Print Assumptions c18_imap_collect_get_last.

(* hence for any column text without a repeated tag the lazy view is the owned map ... *)
Theorem c18_gff_attrs_get_lazy_eq_owned : forall col items,
  gff_attrs_parse col = (items, None) -> NoDup (map fst items) ->
  gff_owned_attrs col = Ok items /\
  forall tag, gff_attrs_get col tag = option_map Ok (imap_get items tag).
Proof. exact gff_attrs_get_lazy_eq_owned. Qed.
Print Assumptions c18_gff_attrs_get_lazy_eq_owned.

(* ... and exactly there: `a=1;a=2` (text no writer produces) gives lazy get 1, owned get 2 *)
Theorem c18_gff_attrs_get_dup_refuted :
  gff_attrs_get [97; 61; 49; 59; 97; 61; 50] [97] = Some (Ok (VString [49]))
  /\ gff_owned_attrs [97; 61; 49; 59; 97; 61; 50] = Ok [([97], VString [50])].
Proof. exact gff_attrs_get_dup_refuted. Qed.
Print Assumptions c18_gff_attrs_get_dup_refuted.

(* ---- gff3-source-type-not-encoded, exact ---- *)
(* whatever the reader hands out as seqid / source / type, for ANY text, has no TAB and no LF *)
Theorem c18_gff_read_columns_clean : forall prs text l, gff_read prs text = Rec l ->
  (~ In 9 (l_seqid l) /\ ~ In 10 (l_seqid l))
  /\ (~ In 9 (l_source l) /\ ~ In 10 (l_source l))
  /\ (~ In 9 (l_type l) /\ ~ In 10 (l_type l)).
Proof. exact gff_read_columns_clean. Qed.
Print Assumptions c18_gff_read_columns_clean.

(* for a record that is otherwise fine, source and type come back IF AND ONLY IF they are free of
   TAB and LF *)
Theorem c18_gff_source_type_roundtrip_iff : forall fmt prs r line,
  bytes_ok (f_seqid r) -> 1 <= f_start r <= u64_max -> 1 <= f_end r <= u64_max ->
  (forall x, f_score r = Some x ->
     prs (fmt x) = Some x /\ ~ In 9 (fmt x) /\ ~ In 10 (fmt x) /\ fmt x <> [46]) ->
  Forall attr_ok (f_attrs r) ->
  gff_write fmt r = Ok line ->
  ((exists l, gff_read prs (line ++ [10]) = Rec l /\ l_source l = f_source r /\ l_type l = f_type r)
   <-> source_type_plain r).
Proof. exact gff_source_type_roundtrip_iff. Qed.
Print Assumptions c18_gff_source_type_roundtrip_iff.

(* ---- BED: write -> read -> own -> write is the identity on the TEXT (round 10) ---- *)
(* The copy loop of a caller (read_record into a Record<N>, RecordBuf<N>::try_from_feature_record,
   write_feature_record; model NV.Text.BedRewrite): for EVERY record the writer accepts -- typed
   extra columns (BED7..BED12 thick/color/block columns as Int64/UInt64/Float64/Character/String)
   and the name Some "." included, which the value-level theorems c18_bed_record_roundtrip /
   c18_bed_typed_roundtrip exclude or weaken -- the line followed by ANY text, read into ANY record
   of that N, converts without error to [bed_copy_of] (name '.' -> None, typed columns -> the
   Strings of their text, fields above N at the builder's defaults) and that record is written as
   the very same bytes: what the round trip loses is textual aliasing only. *)
Theorem c18_bed_write_read_write : forall fmt64 r vs line rest old,
  bed_wf_dot r -> float_texts_ok fmt64 vs -> bed_write_typed fmt64 r vs = Ok line ->
  length (bf_std old) = b_n r ->
  let o := bed_read_record (b_n r) (line ++ 10 :: rest) old in
  bed_owned (b_n r) (bed_view_of (b_n r) (ro_rec o)) = Ok (bed_copy_of fmt64 r vs)
  /\ bed_write (bed_copy_of fmt64 r vs) = Ok line
  /\ bed_rewrite (b_n r) (line ++ 10 :: rest) old = Ok line.
Proof. exact bed_write_read_write. Qed.
Print Assumptions c18_bed_write_read_write.

(* bed_wf_dot is bed_wf without the clause about the '.' name *)
Theorem c18_bed_wf_is_wf_dot : forall r, bed_wf r -> bed_wf_dot r.
Proof. exact bed_wf_is_wf_dot. Qed.
Print Assumptions c18_bed_wf_is_wf_dot.

(* witness: BED4 `c<TAB>0<TAB>0<TAB>.` written from the name Some "." -- the value read back
   differs (name None), the text written from it does not *)
Theorem c18_bed_dot_rewrite_same_text :
  bed_write bed_dot_rec = Ok [99; 9; 48; 9; 48; 9; 46]
  /\ bed_rewrite 4 [99; 9; 48; 9; 48; 9; 46; 10] (bed_default 4) = Ok [99; 9; 48; 9; 48; 9; 46]
  /\ bed_owned 4 (bed_view_of 4 (ro_rec (bed_read_record 4 [99; 9; 48; 9; 48; 9; 46; 10] (bed_default 4))))
     = Ok (bed_undot bed_dot_rec)
  /\ bed_undot bed_dot_rec <> bed_dot_rec.
Proof. exact bed_dot_rewrite_same_text. Qed.
Print Assumptions c18_bed_dot_rewrite_same_text.

(* for ANY input text and ANY previous record state: whatever record the conversion returns after
   a read_record call is in the domain of c18_bed_write_read_write (positions and score in range) *)
Theorem c18_bed_owned_wf_dot : forall n f b, (3 <= n <= 6)%nat ->
  bed_owned n (bed_view_of n f) = Ok b -> bed_wf_dot b /\ b_n b = n.
Proof. exact bed_owned_wf_dot. Qed.
Print Assumptions c18_bed_owned_wf_dot.

(* hence the copy loop normalises foreign text in ONE step: if a record read from ANY text (CR
   before LF, comment lines before it, missing final LF, '.' name, ...) converts and is written as
   [line], then [line] is a fixpoint of read -> own -> write, followed by any text, read into any
   record of that N *)
Theorem c18_bed_rewrite_idempotent : forall n src old line rest old',
  (3 <= n <= 6)%nat -> bed_rewrite n src old = Ok line -> length (bf_std old') = n ->
  bed_rewrite n (line ++ 10 :: rest) old' = Ok line.
Proof. exact bed_rewrite_idempotent. Qed.
Print Assumptions c18_bed_rewrite_idempotent.
