From Coq Require Import List NArith.
From NV Require Import Base.Percent Base.PercentProofs.
Import ListNotations.
Open Scope N_scope.

Theorem c18_pct_dec_enc : forall S s, S 37 = true -> bytes_ok s -> pct_dec (pct_enc S s) = s.
Proof. exact pct_dec_enc. Qed.
Print Assumptions c18_pct_dec_enc.
