(* C10 -- placeholder while the proofs are being written *)
From Coq Require Import ZArith List.
From NV Require Import Bcf.Ints Bcf.Typed Bcf.Genotype.
Open Scope Z_scope.
Theorem c10_min_value_is_value : forall w, classify w (min_value w) = IValue (min_value w).
Proof. intros []; reflexivity. Qed.
Print Assumptions c10_min_value_is_value.
